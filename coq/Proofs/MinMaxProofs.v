(* Lemmas for family M (C04): conversion brackets, saturation-aware overlap test,
   tree induction, index maintenance. *)
From BS Require Import Lib.Bytes Model.MinMax.
From Coq Require Import Lia ZArith List Bool.
Open Scope Z_scope.

Definition gv_wf (v : gv) : Prop :=
  match v with
  | GInt _ z => in64 z
  | GUint _ z => 0 <= z < 18446744073709551616
  | _ => True
  end.

Definition brackets (x : exact) (lo hi : Z) : Prop :=
  in64 lo /\ in64 hi /\ lo <= hi /\
  match x with
  | XFin n d => 0 < d /\ (lo = MinInt64 \/ lo * d <= n) /\ (lo = MaxInt64 \/ n < (lo + 1) * d)
                /\ (hi = MaxInt64 \/ n <= hi * d) /\ (hi = MinInt64 \/ (hi - 1) * d < n)
  | XPosInf => lo = MaxInt64 /\ hi = MaxInt64
  | XNegInf => lo = MinInt64 /\ hi = MinInt64
  end.

Definition ncond_in64 (c : ncond) : Prop :=
  in64 (n_val c) /\ in64 (n_min c) /\ in64 (n_max c) /\ Forall in64 (n_vals c).

Lemma floor_spec n d : 0 < d -> zfloor n d * d <= n < (zfloor n d + 1) * d.
Proof.
  intro Hd. unfold zfloor.
  pose proof (Z.mul_div_le n d Hd). pose proof (Z.mul_succ_div_gt n d Hd). lia.
Qed.

Lemma ceil_spec n d : 0 < d -> (zceil n d - 1) * d < n <= zceil n d * d.
Proof.
  intro Hd. unfold zceil.
  pose proof (Z.mul_div_le (- n) d Hd). pose proof (Z.mul_succ_div_gt (- n) d Hd). lia.
Qed.

Lemma floor_le_ceil n d : 0 < d -> zfloor n d <= zceil n d.
Proof.
  intro Hd. pose proof (floor_spec n d Hd). pose proof (ceil_spec n d Hd). nia.
Qed.

Ltac leb_cases :=
  repeat match goal with
         | |- context [?a <=? ?b] => destruct (Z.leb_spec a b)
         | |- context [?a <? ?b] => destruct (Z.ltb_spec a b)
         end.

Lemma clamp_in64 z : in64 (clamp z).
Proof. unfold clamp, in64, MaxInt64, MinInt64. leb_cases; lia. Qed.

Lemma clamp_mono a b : a <= b -> clamp a <= clamp b.
Proof. unfold clamp, MaxInt64, MinInt64. intro H. leb_cases; lia. Qed.

Lemma pow2_pos e : 0 <= e -> 0 < pow2 e.
Proof. intro H. unfold pow2. apply Z.pow_pos_nonneg; lia. Qed.

Lemma fl_exact_den f n d : fl_exact f = Some (XFin n d) -> 0 < d.
Proof.
  destruct f as [|neg|m e]; simpl; try discriminate.
  - destruct neg; discriminate.
  - destruct (0 <=? e) eqn:E; intro H; inversion H; subst; [lia|].
    apply pow2_pos. lia.
Qed.

Lemma gv_exact_den v n d : gv_exact v = Some (XFin n d) -> 0 < d.
Proof.
  destruct v as [nm z|nm z|nm f|]; simpl; try discriminate.
  - intro H; inversion H; lia.
  - intro H; inversion H; lia.
  - apply fl_exact_den.
Qed.

Lemma brackets_fin n d : 0 < d -> brackets (XFin n d) (clamp (zfloor n d)) (clamp (zceil n d)).
Proof.
  intro Hd.
  pose proof (floor_spec n d Hd) as F. pose proof (ceil_spec n d Hd) as C.
  pose proof (floor_le_ceil n d Hd) as FC.
  unfold brackets. repeat split; try apply clamp_in64; try (apply clamp_mono; exact FC); try exact Hd.
  - unfold clamp, MaxInt64, MinInt64 in *. leb_cases; [right; nia | left; reflexivity | right; lia].
  - unfold clamp, MaxInt64, MinInt64 in *. leb_cases; [left; reflexivity | right; nia | right; lia].
  - unfold clamp, MaxInt64, MinInt64 in *. leb_cases; [left; reflexivity | right; nia | right; lia].
  - unfold clamp, MaxInt64, MinInt64 in *. leb_cases; [right; nia | left; reflexivity | right; lia].
Qed.

Lemma conv_float_brackets f x lo hi :
  fl_exact f = Some x -> conv_float f = Some (lo, hi) -> brackets x lo hi.
Proof.
  unfold conv_float. intros Hx. rewrite Hx. destruct x as [n d| |]; intro H; inversion H; subst.
  - apply brackets_fin. eapply fl_exact_den; eauto.
  - unfold brackets, in64, MaxInt64, MinInt64. lia.
  - unfold brackets, in64, MaxInt64, MinInt64. lia.
Qed.

Lemma conv_gen_brackets nok v x lo hi :
  gv_wf v -> gv_exact v = Some x -> conv_gen nok v = Some (lo, hi) -> brackets x lo hi.
Proof.
  destruct v as [nm z|nm z|nm f|]; simpl; intros Hwf Hx Hc; try discriminate.
  - destruct (nm && negb nok); [discriminate|]. inversion Hx; inversion Hc; subst.
    unfold brackets, in64 in *. lia.
  - destruct (nm && negb nok); [discriminate|]. inversion Hx; inversion Hc; subst.
    unfold brackets, in64, clamp_u, MaxInt64, MinInt64 in *.
    leb_cases; lia.
  - destruct (nm && negb nok); [discriminate|]. eapply conv_float_brackets; eauto.
Qed.

Lemma conv_brackets v x lo hi :
  gv_wf v -> gv_exact v = Some x -> conv v = Some (lo, hi) -> brackets x lo hi.
Proof. apply conv_gen_brackets. Qed.

(* every numeric non-NaN value is indexed by the repaired code *)
Lemma conv_total v x : gv_exact v = Some x -> exists lo hi, conv v = Some (lo, hi).
Proof.
  destruct v as [nm z|nm z|nm f|]; simpl; intro H; try discriminate.
  - rewrite andb_false_r. eauto.
  - rewrite andb_false_r. eauto.
  - rewrite andb_false_r. unfold conv_float. rewrite H. destruct x; eauto.
Qed.

(* the pinned tree drops defined numeric types *)
Lemma conv_pinned_named_refuted :
  exists v x, gv_wf v /\ gv_exact v = Some x /\ conv_pinned v = None.
Proof. exists (GInt true 5), (XFin 5 1). repeat split; unfold in64, MinInt64, MaxInt64; lia. Qed.

(* ---- the core: saturation-aware overlap never excludes a covered satisfying value ---- *)

Lemma xeq_true x v : xeq x v = true -> exists n d, x = XFin n d /\ n = v * d.
Proof. destruct x; simpl; try discriminate. intro H. apply Z.eqb_eq in H. eauto. Qed.

Section Core.
  Variables (x : exact) (lo hi mn mx : Z).
  Hypothesis Hb : brackets x lo hi.
  Hypothesis Hmn : in64 mn.
  Hypothesis Hmx : in64 mx.
  Hypothesis Hlo : mn <= lo.
  Hypothesis Hhi : hi <= mx.

  Lemma eq_in_range v : in64 v -> xeq x v = true -> mn <= v /\ v <= mx.
  Proof.
    intros Hv He. apply xeq_true in He as [n [d [-> Hn]]].
    destruct Hb as [L [H [LH [Hd [A [B [C D]]]]]]].
    unfold in64, MaxInt64, MinInt64 in *. split; nia.
  Qed.

  Lemma gt_sat v : in64 v -> xgt x v = true -> v < mx \/ mx = MaxInt64.
  Proof.
    intros Hv Hg. destruct x as [n d| |]; simpl in Hg; try discriminate.
    - apply Z.ltb_lt in Hg. destruct Hb as [L [H [LH [Hd [A [B [C D]]]]]]].
      unfold in64, MaxInt64, MinInt64 in *. destruct C as [C|C]; [right; lia| left; nia].
    - destruct Hb as [L [H [LH [A B]]]]. unfold in64, MaxInt64, MinInt64 in *. right; lia.
  Qed.

  Lemma lt_sat v : in64 v -> xlt x v = true -> mn < v \/ mn = MinInt64.
  Proof.
    intros Hv Hg. destruct x as [n d| |]; simpl in Hg; try discriminate.
    - apply Z.ltb_lt in Hg. destruct Hb as [L [H [LH [Hd [A [B [C D]]]]]]].
      unfold in64, MaxInt64, MinInt64 in *. destruct A as [A|A]; [right; lia| left; nia].
    - destruct Hb as [L [H [LH [A B]]]]. unfold in64, MaxInt64, MinInt64 in *. right; lia.
  Qed.

  Lemma ge_sat v : in64 v -> xlt x v = false -> v <= mx.
  Proof.
    intros Hv Hg. destruct x as [n d| |]; simpl in Hg; try discriminate.
    - apply Z.ltb_ge in Hg. destruct Hb as [L [H [LH [Hd [A [B [C D]]]]]]].
      unfold in64, MaxInt64, MinInt64 in *. destruct C as [C|C]; [lia| nia].
    - destruct Hb as [L [H [LH [A B]]]]. unfold in64, MaxInt64, MinInt64 in *. lia.
  Qed.

  Lemma le_sat v : in64 v -> xgt x v = false -> mn <= v.
  Proof.
    intros Hv Hg. destruct x as [n d| |]; simpl in Hg; try discriminate.
    - apply Z.ltb_ge in Hg. destruct Hb as [L [H [LH [Hd [A [B [C D]]]]]]].
      unfold in64, MaxInt64, MinInt64 in *. destruct A as [A|A]; [lia| nia].
    - destruct Hb as [L [H [LH [A B]]]]. unfold in64, MaxInt64, MinInt64 in *. lia.
  Qed.

  (* if the stored range is the single unsaturated point v, the value is v *)
  Lemma ne_sat v : in64 v -> xeq x v = false ->
    mn <> v \/ mx <> v \/ mx = MaxInt64 \/ mn = MinInt64.
  Proof.
    intros Hv Hne.
    destruct (Z.eq_dec mn v) as [E1|]; [|left; assumption].
    destruct (Z.eq_dec mx v) as [E2|]; [|right; left; assumption].
    destruct (Z.eq_dec mx MaxInt64) as [|N1]; [right; right; left; assumption|].
    destruct (Z.eq_dec mn MinInt64) as [|N2]; [right; right; right; assumption|].
    exfalso. subst mn mx.
    destruct x as [n d| |]; simpl in Hne.
    - apply Z.eqb_neq in Hne. destruct Hb as [L [H [LH [Hd [A [B [C D]]]]]]].
      unfold in64, MaxInt64, MinInt64 in *.
      assert (lo = v) by lia. assert (hi = v) by lia. subst lo hi.
      destruct A as [A|A]; [lia|]. destruct C as [C|C]; [lia|]. nia.
    - destruct Hb as [L [H [LH [A B]]]]. unfold in64, MaxInt64, MinInt64 in *. lia.
    - destruct Hb as [L [H [LH [A B]]]]. unfold in64, MaxInt64, MinInt64 in *. lia.
  Qed.

  Lemma minmax_core c : ncond_in64 c -> val_sat x c = true -> eval_minmax (mn, mx) c = true.
  Proof.
    intros [Hv [Hcmin [Hcmax Hvs]]] Hs.
    unfold val_sat in Hs. unfold eval_minmax.
    destruct (n_op c) eqn:Op.
    - (* EQ *) destruct (eq_in_range _ Hv Hs). apply andb_true_iff; split; apply Z.leb_le; lia.
    - (* NE *) apply negb_true_iff in Hs. pose proof (ne_sat _ Hv Hs) as H.
      destruct (mn =? n_val c) eqn:E1; simpl; [|reflexivity].
      destruct (mx =? n_val c) eqn:E2; simpl; [|reflexivity].
      apply Z.eqb_eq in E1, E2.
      destruct H as [H|[H|[H|H]]]; try contradiction.
      + apply Z.eqb_eq in H. rewrite H. reflexivity.
      + apply Z.eqb_eq in H. rewrite H. apply orb_true_r.
    - (* GT *) destruct (gt_sat _ Hv Hs) as [H|H].
      + apply Z.ltb_lt in H. rewrite H. reflexivity.
      + apply Z.eqb_eq in H. rewrite H. apply orb_true_r.
    - (* GTE *) apply negb_true_iff in Hs. apply Z.leb_le. apply ge_sat; assumption.
    - (* LT *) destruct (lt_sat _ Hv Hs) as [H|H].
      + apply Z.ltb_lt in H. rewrite H. reflexivity.
      + apply Z.eqb_eq in H. rewrite H. apply orb_true_r.
    - (* LTE *) apply negb_true_iff in Hs. apply Z.leb_le. apply le_sat; assumption.
    - (* IN *) apply existsb_exists in Hs as [v [Hin He]].
      apply existsb_exists. exists v. split; [exact Hin|].
      rewrite Forall_forall in Hvs. destruct (eq_in_range v (Hvs v Hin) He).
      apply andb_true_iff; split; apply Z.leb_le; lia.
    - reflexivity.
    - (* BETWEEN *) apply andb_true_iff in Hs as [H1 H2].
      apply negb_true_iff in H1, H2.
      pose proof (ge_sat _ Hcmin H1). pose proof (le_sat _ Hcmax H2).
      apply andb_true_iff; split; apply Z.leb_le; lia.
    - (* NOT_BETWEEN *) apply orb_true_iff in Hs as [H|H].
      + destruct (lt_sat _ Hcmin H) as [H'|H'].
        * apply Z.ltb_lt in H'. rewrite H'. reflexivity.
        * apply Z.eqb_eq in H'. rewrite H'. rewrite !orb_true_r. reflexivity.
      + destruct (gt_sat _ Hcmax H) as [H'|H'].
        * apply Z.ltb_lt in H'. rewrite H'. rewrite orb_true_r. reflexivity.
        * apply Z.eqb_eq in H'. rewrite H'. rewrite orb_true_r. reflexivity.
    - discriminate.
  Qed.
End Core.

(* ---- trees ---- *)

(* a custom induction principle for pexpr (children lists) *)
Section PexprInd.
  Variable P : pexpr -> Prop.
  Hypothesis Hc : forall c, P (PCond c).
  Hypothesis Ha : forall cs, Forall P cs -> P (PAnd cs).
  Hypothesis Ho : forall cs, Forall P cs -> P (POr cs).
  Hypothesis Hu : P PUnknown.
  Fixpoint pexpr_ind' (e : pexpr) : P e :=
    match e with
    | PCond c => Hc c
    | PAnd cs => Ha cs ((fix go (l : list pexpr) : Forall P l :=
                           match l with [] => Forall_nil P | x :: t => Forall_cons x (pexpr_ind' x) (go t) end) cs)
    | POr cs => Ho cs ((fix go (l : list pexpr) : Forall P l :=
                           match l with [] => Forall_nil P | x :: t => Forall_cons x (pexpr_ind' x) (go t) end) cs)
    | PUnknown => Hu
    end.
End PexprInd.

Definition pcond_in64 (c : pcond) : Prop :=
  match c with PMinMax _ (Some nc) => ncond_in64 nc | _ => True end.

Fixpoint pexpr_in64 (e : pexpr) : Prop :=
  match e with
  | PCond (Some c) => pcond_in64 c
  | PCond None => True
  | PAnd cs | POr cs => (fix go l := match l with [] => True | x :: t => pexpr_in64 x /\ go t end) cs
  | PUnknown => True
  end.

Lemma pexpr_in64_children cs :
  (fix go l := match l with [] => True | x :: t => pexpr_in64 x /\ go t end) cs -> Forall pexpr_in64 cs.
Proof. induction cs as [|x t IH]; intro H; constructor; [apply H| apply IH, H]. Qed.

(* the block's metadata covers the row: same partition, and every indexed numeric
   non-NaN top-level value lies in the block's recorded range for that key *)
Definition covers_row (b : blockmeta) (r : prow) : Prop :=
  b_partition b = r_partition r /\
  forall k v x, assoc k (r_vals r) = Some v -> gv_exact v = Some x ->
    exists mn mx lo hi, assoc k (b_mm b) = Some (mn, mx) /\ brackets x lo hi /\
                        in64 mn /\ in64 mx /\ mn <= lo /\ hi <= mx.

Lemma pcond_sound b r c :
  covers_row b r -> pcond_in64 c -> row_pcond r c = true -> eval_pcond b c = true.
Proof.
  intros [Hp Hc] Hin Hs. destruct c as [[sc|]|f [nc|]|]; simpl in *; try reflexivity; try discriminate.
  - rewrite Hp. exact Hs.
  - destruct (assoc f (r_vals r)) as [v|] eqn:Ev; [|discriminate].
    destruct (gv_exact v) as [x|] eqn:Ex; [|discriminate].
    destruct (Hc f v x Ev Ex) as [mn [mx [lo [hi [Ea [Hb [H1 [H2 [H3 H4]]]]]]]]].
    rewrite Ea. eapply minmax_core; eauto.
Qed.

Lemma tree_sound b r e :
  covers_row b r -> pexpr_in64 e -> row_pexpr r e = true -> eval_pexpr b e = true.
Proof.
  intro Hcov. induction e as [c|cs IH|cs IH|] using pexpr_ind'; intros Hin Hs.
  - destruct c as [c|]; [|reflexivity]. simpl in *. eapply pcond_sound; eauto.
  - simpl in *. apply pexpr_in64_children in Hin.
    rewrite forallb_forall in *. intros x Hx.
    rewrite Forall_forall in IH, Hin. apply IH; auto.
  - simpl in *. apply pexpr_in64_children in Hin.
    apply existsb_exists in Hs as [x [Hx Hs]]. apply existsb_exists. exists x. split; [exact Hx|].
    rewrite Forall_forall in IH, Hin. apply IH; auto.
  - discriminate.
Qed.

(* ---- index maintenance ---- *)

Definition mm_wf (mm : list (str * (Z * Z))) : Prop :=
  forall k mn mx, assoc k mm = Some (mn, mx) -> in64 mn /\ in64 mx /\ mn <= mx.

Definition mm_covers (mm : list (str * (Z * Z))) (k : str) (lo hi : Z) : Prop :=
  exists mn mx, assoc k mm = Some (mn, mx) /\ mn <= lo /\ hi <= mx.

Lemma update_mm_spec mn mx lo hi :
  let '(mn', mx') := update_mm (mn, mx) lo hi in
  mn' <= mn /\ mx <= mx' /\ mn' <= lo /\ hi <= mx' /\ (mn' = mn \/ mn' = lo) /\ (mx' = mx \/ mx' = hi).
Proof.
  simpl. leb_cases; lia.
Qed.

Lemma assoc_cons_eq {A} k (v : A) l : assoc k ((k, v) :: l) = Some v.
Proof. simpl. rewrite str_eqb_refl. reflexivity. Qed.

Lemma assoc_cons_neq {A} k k' (v : A) l : k <> k' -> assoc k ((k', v) :: l) = assoc k l.
Proof. intro H. simpl. apply str_eqb_neq in H. rewrite H. reflexivity. Qed.

(* adding one observation [lo,hi] for key k: old coverage is kept, the new one is covered *)
Definition observe (mm : list (str * (Z * Z))) (k : str) (lo hi : Z) :=
  match assoc k mm with
  | Some idx => (k, update_mm idx lo hi) :: mm
  | None => (k, (lo, hi)) :: mm
  end.

Lemma observe_covers_new mm k lo hi : mm_covers (observe mm k lo hi) k lo hi.
Proof.
  unfold observe, mm_covers. destruct (assoc k mm) as [[mn mx]|] eqn:E.
  - pose proof (update_mm_spec mn mx lo hi) as H. destruct (update_mm (mn, mx) lo hi) as [a b].
    exists a, b. rewrite assoc_cons_eq. intuition.
  - exists lo, hi. rewrite assoc_cons_eq. intuition lia.
Qed.

Lemma observe_covers_old mm k lo hi k' lo' hi' :
  mm_covers mm k' lo' hi' -> mm_covers (observe mm k lo hi) k' lo' hi'.
Proof.
  intros [mn [mx [E [H1 H2]]]]. unfold observe, mm_covers.
  destruct (str_eqb k' k) eqn:K.
  - apply str_eqb_eq in K. subst k'. rewrite E.
    pose proof (update_mm_spec mn mx lo hi) as H. destruct (update_mm (mn, mx) lo hi) as [a b].
    exists a, b. rewrite assoc_cons_eq. intuition lia.
  - apply str_eqb_neq in K. destruct (assoc k mm) as [idx|]; rewrite assoc_cons_neq by assumption; eauto.
Qed.

Lemma observe_wf mm k lo hi : mm_wf mm -> in64 lo -> in64 hi -> lo <= hi -> mm_wf (observe mm k lo hi).
Proof.
  intros Hwf Hlo Hhi Hle k' mn mx. unfold observe.
  destruct (str_eqb k' k) eqn:K.
  - apply str_eqb_eq in K. subst k'.
    destruct (assoc k mm) as [[a b]|] eqn:E; rewrite assoc_cons_eq; intro H; inversion H; subst.
    + destruct (Hwf _ _ _ E) as [A [B C]]. unfold in64 in *.
      leb_cases; lia.
    + auto.
  - apply str_eqb_neq in K. destruct (assoc k mm) as [idx|]; rewrite assoc_cons_neq by assumption; apply Hwf.
Qed.

(* keys present after an observation: the old ones and k *)
Lemma observe_keys mm k lo hi k' :
  assoc k' (observe mm k lo hi) <> None <-> (k' = k \/ assoc k' mm <> None).
Proof.
  unfold observe. destruct (str_eqb k' k) eqn:K.
  - apply str_eqb_eq in K. subst. destruct (assoc k mm); rewrite assoc_cons_eq; split; intros; auto; discriminate.
  - apply str_eqb_neq in K. destruct (assoc k mm); rewrite assoc_cons_neq by assumption; intuition.
Qed.

Lemma index_row_keeps keys r mm k lo hi :
  mm_covers mm k lo hi -> mm_covers (index_row keys r mm) k lo hi.
Proof.
  revert mm; induction keys as [|k0 ks IH]; intros mm H; simpl; [exact H|].
  apply IH. destruct (assoc k0 (r_vals r)) as [v|]; [|exact H].
  destruct (conv v) as [[l h]|]; [|exact H].
  apply (observe_covers_old mm k0 l h k lo hi H).
Qed.

Lemma index_row_covers keys r mm k v lo hi :
  In k keys -> assoc k (r_vals r) = Some v -> conv v = Some (lo, hi) ->
  mm_covers (index_row keys r mm) k lo hi.
Proof.
  revert mm; induction keys as [|k0 ks IH]; intros mm Hin Hv Hc; simpl; [destruct Hin|].
  destruct Hin as [->|Hin].
  - rewrite Hv, Hc. apply index_row_keeps.
    apply (observe_covers_new mm k lo hi).
  - apply IH; assumption.
Qed.

Lemma index_rows_covers keys rs r k v lo hi :
  In r rs -> In k keys -> assoc k (r_vals r) = Some v -> conv v = Some (lo, hi) ->
  mm_covers (index_rows keys rs) k lo hi.
Proof.
  unfold index_rows. generalize (@nil (str * (Z * Z))).
  induction rs as [|r0 rs IH]; intros mm Hr Hk Hv Hc; simpl; [destruct Hr|].
  destruct Hr as [->|Hr].
  - assert (H : mm_covers (index_row keys r mm) k lo hi) by (eapply index_row_covers; eauto).
    clear - H. revert H. generalize (index_row keys r mm). induction rs as [|r1 rs IH]; intros m H; simpl; [exact H|].
    apply IH. apply index_row_keeps. exact H.
  - apply IH; assumption.
Qed.

Lemma merge_mm_keeps m1 m2 k lo hi : mm_covers m1 k lo hi -> mm_covers (merge_mm m1 m2) k lo hi.
Proof.
  revert m1; induction m2 as [|[k2 [mn2 mx2]] t IH]; intros m1 H; simpl; [exact H|].
  pose proof (observe_covers_old m1 k2 mn2 mx2 k lo hi H) as H'. unfold observe in H'.
  destruct (assoc k2 m1); apply IH; exact H'.
Qed.

Lemma merge_mm_covers_right m1 m2 k lo hi :
  mm_covers m2 k lo hi -> mm_covers (merge_mm m1 m2) k lo hi.
Proof.
  revert m1; induction m2 as [|[k2 [mn2 mx2]] t IH]; intros m1 [mn [mx [E [H1 H2]]]]; simpl in *; [discriminate|].
  destruct (str_eqb k k2) eqn:K.
  - apply str_eqb_eq in K. subst k2. inversion E; subst mn2 mx2.
    pose proof (observe_covers_new m1 k mn mx) as H'. unfold observe in H'.
    assert (Hc : mm_covers (match assoc k m1 with Some idx => (k, update_mm idx mn mx) :: m1 | None => (k, (mn, mx)) :: m1 end) k lo hi).
    { destruct H' as [a [b [Ea [Ha Hb]]]]. exists a, b. split; [exact Ea| lia]. }
    destruct (assoc k m1); apply merge_mm_keeps; exact Hc.
  - destruct (assoc k2 m1); apply IH; exists mn, mx; auto.
Qed.
