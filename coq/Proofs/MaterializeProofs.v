(* Family T — the materialized object agrees with the JSON round trip on every key. *)
From BS Require Import Lib.Bytes Model.Materialize.
From Coq Require Import List NArith.
Import ListNotations.

Section P.
  Variable V : Type.

  Lemma get_set_same k v (m : gomap V) : get_key V k (set_key V k v m) = Some v.
  Proof.
    induction m as [|[k' v'] t IH]; cbn; [now rewrite str_eqb_refl|].
    destruct (str_eqb k' k) eqn:E; cbn; [now rewrite str_eqb_refl|]. now rewrite E.
  Qed.

  Lemma get_set_other k k' v (m : gomap V) : k' <> k -> get_key V k (set_key V k' v m) = get_key V k m.
  Proof.
    intro N. induction m as [|[k0 v0] t IH]; cbn.
    - destruct (str_eqb k' k) eqn:E; [apply str_eqb_eq in E; congruence|reflexivity].
    - destruct (str_eqb k0 k') eqn:E; cbn.
      + apply str_eqb_eq in E. subst k0.
        destruct (str_eqb k' k) eqn:E2; [apply str_eqb_eq in E2; congruence|reflexivity].
      + destruct (str_eqb k0 k); [reflexivity|exact IH].
  Qed.

  Lemma mat_last_from k members : forall m,
    get_key V k (fold_left (fun m kv => set_key V (fst kv) (snd kv) m) members m) =
    match last_member V k members with Some x => Some x | None => get_key V k m end.
  Proof.
    induction members as [|[k' v] t IH]; intro m; cbn [fold_left last_member fst snd]; [reflexivity|].
    rewrite IH. destruct (last_member V k t); [reflexivity|].
    destruct (str_eqb k' k) eqn:E.
    - apply str_eqb_eq in E. subst. apply get_set_same.
    - apply get_set_other. intro C. subst. now rewrite str_eqb_refl in E.
  Qed.

  (* C03 (fixed code): every key of a materialized object carries the value of its last member,
     as the encoding/json round trip does *)
  Lemma mat_last_spec k members : get_key V k (mat_last V members) = last_member V k members.
  Proof. unfold mat_last. rewrite mat_last_from. destruct (last_member V k members); reflexivity. Qed.
End P.

(* the pinned tree's materializer (finding D2): the first duplicate wins *)
Lemma mat_first_refuted :
  exists (members : list (str * N)) k, get_key N k (mat_first N members) <> last_member N k members.
Proof. exists [(lit "a", 1%N); (lit "a", 2%N)], (lit "a"). vm_compute. discriminate. Qed.
