(* Family P proofs, part 2: what acknowledgements mean (C06) - visible rows, fates of
   finished requests, "Close ok before Update ok". *)
From BS Require Import Model.Pipeline Proofs.PipelineBase.
From Coq Require Import List ZArith Bool Arith Lia Permutation.
Import ListNotations.
Open Scope Z_scope.

Ltac unf := unfold is_rows, kind_of, chan_of, lookup in *.

Lemma assoc_app {A} r (l l' : list (nat * A)) v : assoc r l = Some v -> assoc r (l ++ l') = Some v.
Proof. induction l as [|[q a] t IH]; cbn; [discriminate|]. destruct (Nat.eqb r q); auto. Qed.
Lemma assoc_In {A} r (l : list (nat * A)) v : assoc r l = Some v -> In (r, v) l.
Proof.
  induction l as [|[q a] t IH]; cbn; [discriminate|]. destruct (Nat.eqb r q) eqn:E; auto.
  intro H; inversion H; subst. apply Nat.eqb_eq in E; subst. now left.
Qed.
Lemma In_assoc_nodup {A} r (l : list (nat * A)) v : NoDup (map fst l) -> In (r, v) l -> assoc r l = Some v.
Proof.
  induction l as [|[q a] t IH]; cbn; [tauto|]. intros ND [E|Hin]; inversion ND; subst.
  - inversion E; subst. now rewrite Nat.eqb_refl.
  - destruct (Nat.eqb r q) eqn:Eq; auto. apply Nat.eqb_eq in Eq; subst.
    exfalso. apply H1. change q with (fst (q, v)). now apply in_map.
Qed.

(* ------------------------------------------------------------------ monotone parts of the state *)
Lemma step_mono c s l s' : step c s l = Some s' ->
  (forall r v, lookup s r = Some v -> lookup s' r = Some v) /\
  (fcanc s = true -> fcanc s' = true) /\
  (stopped s = true -> stopped s' = true) /\
  (exists f', finished s' = finished s ++ f') /\
  (exists v', visible s' = visible s ++ v') /\
  (exists c', commits s' = commits s ++ c').
Proof.
  intro H. unf. step_cases H; repeat split; auto; try (intros; now apply assoc_app);
    try (now exists []; rewrite app_nil_r); try (eexists; reflexivity).
Qed.

Lemma kind_mono c s l s' r k : step c s l = Some s' -> kind_of s r = Some k -> kind_of s' r = Some k.
Proof.
  intros H Hk. destruct (step_mono _ _ _ _ H) as [M _]. unfold kind_of in *.
  destruct (lookup s r) as [v|] eqn:E; [|discriminate]. now rewrite (M _ _ E).
Qed.
Lemma chan_mono c s l s' r k : step c s l = Some s' -> chan_of s r = Some k -> chan_of s' r = Some k.
Proof.
  intros H Hk. destruct (step_mono _ _ _ _ H) as [M _]. unfold chan_of in *.
  destruct (lookup s r) as [v|] eqn:E; [|discriminate]. now rewrite (M _ _ E).
Qed.
Lemma rows_mono c s l s' r : step c s l = Some s' -> is_rows s r = true -> is_rows s' r = true.
Proof.
  intros H Hk. unfold is_rows in *. destruct (kind_of s r) as [k|] eqn:E; [|discriminate].
  now rewrite (kind_mono _ _ _ _ _ _ H E).
Qed.

(* ------------------------------------------------------------------ the request a delivery attempt is about *)
Definition target (s : state) (w : who) : option (nat * res) :=
  match w with
  | Actor => match apc s with AAckNow r x => Some (r, x) | AAbandon (r :: _) => Some (r, RErr) | _ => None end
  | Worker => match wpc s with WAck x (r :: _) => Some (r, x) | _ => None end
  end.

Lemma step_finished c s l s' : step c s l = Some s' ->
  finished s' = finished s \/
  exists w o r x f, l = LAck w o /\ target s w = Some (r, x) /\ ack_fate s r x o = Some f /\
                    finished s' = finished s ++ [(r, f)].
Proof.
  intro H. step_cases H; auto; right.
  - exists Actor, o, r, x, f. unfold target. rewrite Heqa. auto.
  - exists Actor, o, n, RErr, f. unfold target. rewrite Heqa. auto.
  - exists Worker, o, n, x, f. unfold target. rewrite Heqw. auto.
Qed.

Definition fate_ok (s : state) (r : nat) (f : fate) : Prop :=
  match f with
  | FNilChan _ => chan_of s r = Some ChNil
  | FAnswered _ => chan_of s r = Some ChBuf \/ chan_of s r = Some ChDrain
  | FGivenUp _ => fcanc s = true /\ (chan_of s r = Some ChDrain \/ chan_of s r = Some ChAbandon)
  end.

Lemma ack_fate_ok s r x o f : ack_fate s r x o = Some f -> fate_ok s r f.
Proof.
  unfold ack_fate. destruct (chan_of s r) as [[]|] eqn:E, o; try discriminate;
    try (destruct (fcanc s) eqn:F; try discriminate); intro H; inversion H; subst; cbn; auto.
Qed.
Lemma ack_fate_res s r x o f : ack_fate s r x o = Some f ->
  f = FAnswered x \/ f = FGivenUp x \/ f = FNilChan x.
Proof.
  unfold ack_fate. destruct (chan_of s r) as [[]|], o; try discriminate;
    try (destruct (fcanc s); try discriminate); intro H; inversion H; auto.
Qed.

Lemma fate_ok_mono c s l s' r f : step c s l = Some s' -> fate_ok s r f -> fate_ok s' r f.
Proof.
  intros H. destruct (step_mono _ _ _ _ H) as (_ & Fc & _).
  destruct f; cbn; intuition eauto using chan_mono.
Qed.

Definition Fates (s : state) : Prop := forall r f, In (r, f) (finished s) -> fate_ok s r f.

Lemma fates_step c s l s' : Fates s -> step c s l = Some s' -> Fates s'.
Proof.
  intros F H r f Hin.
  destruct (step_finished _ _ _ _ H) as [E|(w & o & r0 & x & f0 & _ & _ & Hf & E)]; rewrite E in Hin.
  - eapply fate_ok_mono; eauto.
  - apply in_app_iff in Hin as [Hin|[Hin|[]]].
    + eapply fate_ok_mono; eauto.
    + inversion Hin; subst. eapply fate_ok_mono; eauto using ack_fate_ok.
Qed.

Lemma reachable_fates c s : reachable c s -> Fates s.
Proof. induction 1; [intros r f []|eauto using fates_step]. Qed.

(* ------------------------------------------------------------------ committed => Close ok before Update ok *)
Record InvW (s : state) : Prop := {
  w_allowed : forall f ph k, wpc s = WIn f ph k -> allowed ph k = true;
  w_closed : forall f, (wpc s = WStep f PhUpdate \/ exists k, wpc s = WIn f PhUpdate k) -> wclosed s = true;
  w_commits : forall ws b, In (ws, b) (commits s) -> b = true }.

Lemma skind_eqb_eq a b : skind_eqb a b = true -> a = b.
Proof. destruct a, b; cbn; congruence. Qed.

Lemma invw_step c s l s' : InvW s -> step c s l = Some s' -> InvW s'.
Proof.
  intros [A B C] H.
  step_cases H; split; sproj; rw_pcs; try assumption;
    try (intros; repeat match goal with H : _ \/ _ |- _ => destruct H | H : exists _, _ |- _ => destruct H end;
         first [ discriminate | congruence
               | exfalso; eapply mk_wack_ne; eassumption
               | match goal with H : mk_wack _ ?l = _ |- _ => destruct l; discriminate end ]).
  - (* LSBegin *) intros f0 [E|[k0 E]]; inversion E; subst. apply (B f0); left; reflexivity.
  - (* LSEnd to a further phase *)
    apply skind_eqb_eq in Heqb; subst k0. pose proof (A _ _ _ eq_refl) as Hal.
    intros f0 [E|[k1 E]]; inversion E; subst.
    destruct ph, k, ok; cbn in *; try discriminate; auto; destruct (c_has_abort c); discriminate.
  - (* commit *)
    apply skind_eqb_eq in Heqb; subst k0. pose proof (A _ _ _ eq_refl) as Hal.
    intros ws b Hin. apply in_app_iff in Hin as [Hin|[Hin|[]]]; eauto.
    inversion Hin; subst.
    destruct ph, k, ok; cbn in *; try discriminate; try (destruct (c_has_abort c); discriminate).
    eapply B. right. eexists; reflexivity.
Qed.

Lemma reachable_invw c s : reachable c s -> InvW s.
Proof.
  induction 1; [|eauto using invw_step]. split; cbn; intros; try discriminate; try tauto.
  destruct H as [H|[k H]]; discriminate.
Qed.

(* ------------------------------------------------------------------ kinds of the waiters of an ack-only flush *)
Definition all_force (s : state) (l : list nat) : Prop := forall r, In r l -> kind_of s r = Some KForce.

Record InvK (s : state) : Prop := {
  k_wf : forall r k ch, In (r, (k, ch)) (reqs s) -> kind_wf k = true;
  k_buf : b_parts (buf s) = [] -> all_force s (b_w (buf s));
  k_enq : forall f, apc s = AEnq f -> fparts f = O -> all_force s (fw f);
  k_fch : forall f, In f (fch s) -> fparts f = O -> all_force s (fw f);
  k_hold : forall f, wpc s = WHold f -> fparts f = O -> all_force s (fw f);
  k_acknow : forall r, apc s = AAckNow r RNil -> exists v, kind_of s r = Some (KBatch v []) }.

Lemma add_part_nonnil p n b parts : add_part p n b parts <> [].
Proof. destruct parts as [|[q [qn qb]] t]; cbn; [discriminate|]. destruct (Nat.eqb p q); discriminate. Qed.
Lemma add_contrib_nonnil ct parts : ct <> [] -> add_contrib ct parts <> [].
Proof.
  revert parts. induction ct as [|[p [n b]] t IH]; cbn; [congruence|]. intros parts _.
  destruct t as [|x t']; [apply add_part_nonnil|]. apply IH. discriminate.
Qed.

Lemma kind_app {A B} r (l l' : list (nat * (A * B))) k :
  option_map fst (assoc r l) = Some k -> option_map fst (assoc r (l ++ l')) = Some k.
Proof. destruct (assoc r l) eqn:E; [|discriminate]. intro H. now rewrite (assoc_app _ _ _ _ E). Qed.

Lemma all_force_mono c s l s' ws : step c s l = Some s' -> all_force s ws -> all_force s' ws.
Proof. intros H A r Hin. eauto using kind_mono. Qed.

Lemma invk_step c s l s' : InvK s -> step c s l = Some s' -> InvK s'.
Proof.
  intros [W B E F Hd N] H.
  step_cases H; bool_hyps; split; unfold all_force in *; unf; sproj; rw_pcs; try assumption;
    try solve [ intros; first [ discriminate | congruence | contradiction
                              | exfalso; eapply mk_aab_ne0; eassumption
                              | match goal with H : mk_aab ?l = _ |- _ => destruct l; discriminate end
                              | match goal with H : mk_wack _ ?l = _ |- _ => destruct l; discriminate end
                              | eauto using assoc_app ] ].
  - intros r0 k0 ch0 Hin. apply in_app_iff in Hin as [Hin|[Hin|[]]]; eauto. inversion Hin; subst; auto.
  - intros; apply kind_app; eauto.
  - intros; apply kind_app; eauto.
  - intros; apply kind_app; eauto.
  - intros; apply kind_app; eauto.
  - intros r0 E0. destruct (N _ E0) as [v Hv]. exists v. now apply kind_app.
  - intros f0 E0 Hp r0 Hin; inversion E0; subst; cbn in *. apply length_zero_iff_nil in Hp.
    apply in_app_iff in Hin as [Hin|[<-|[]]]; auto.
  - intros r0 E0; inversion E0; subst; eauto.
  - intros f0 E0 Hp; inversion E0; subst; cbn [fparts mk_freq b_parts buf_add] in Hp. apply length_zero_iff_nil in Hp.
    exfalso; eapply add_contrib_nonnil; [|exact Hp]; discriminate.
  - intros Hp; exfalso; cbn [fparts mk_freq b_parts buf_add] in Hp; eapply add_contrib_nonnil; [|exact Hp]; discriminate.
  - intros f0 E0 Hp; inversion E0; subst; cbn in *; apply B; apply length_zero_iff_nil; auto.
  - intros f0 Hin; apply in_app_iff in Hin as [Hin|[<-|[]]]; eauto.
  - intros f0 E0 Hp; inversion E0; subst; cbn in *; apply B; apply length_zero_iff_nil; auto.
  - intros f0 Hin; apply F; now right.
  - intros f0 E0; inversion E0; subst; apply F; now left.
Qed.

Lemma reachable_invk c s : reachable c s -> InvK s.
Proof.
  induction 1; [|eauto using invk_step]. split; cbn; intros; try discriminate; try tauto.
  intros r [].
Qed.

(* ------------------------------------------------------------------ visible rows *)
Definition fate_res (f : fate) : res := match f with FAnswered x | FGivenUp x | FNilChan x => x end.

(* how [visible] can change: only the successful Update of the flush in the worker's hand *)
Lemma step_visible c s l s' : step c s l = Some s' ->
  (visible s' = visible s /\ commits s' = commits s) \/
  (exists f k, wpc s = WIn f PhUpdate k /\ wpc s' = mk_wack RNil (fw f) /\ finished s' = finished s /\
     visible s' = visible s ++ filter (is_rows s) (fw f) /\ commits s' = commits s ++ [(fw f, wclosed s)]).
Proof.
  intro H. step_cases H; auto. right.
  destruct ph, k, ok; cbn in *; try discriminate; try (destruct (c_has_abort c); discriminate).
  all: try (exists f, k0; repeat split; reflexivity).
  all: match goal with |- ?g => idtac "=========="; idtac g end.
Qed.

Ltac rw_hyps := repeat match goal with H1 : ?f ?s = _, H2 : ?f ?s = _ |- _ => rewrite H1 in H2 end.

(* where a [WAck RNil] in the worker's hand comes from *)
Lemma step_wack_nil c s l s' l' : step c s l = Some s' -> wpc s' = WAck RNil l' ->
  wpc s = WAck RNil l' \/
  (exists r, wpc s = WAck RNil (r :: l')) \/
  (exists f k, wpc s = WIn f PhUpdate k /\ l' = fw f /\ visible s' = visible s ++ filter (is_rows s) (fw f)) \/
  (exists f, wpc s = WHold f /\ fparts f = O /\ l' = fw f).
Proof.
  intros H E. step_cases H; rw_hyps; try congruence; auto;
    try (match type of E with mk_wack _ ?l = _ => destruct l eqn:?; cbn in E; try discriminate E; inversion E; subst end).
  - right; right; right. exists f; repeat split; auto.
  - right; right; left.
    destruct ph; try (destruct k, ok; cbn [next_phase] in *; first [discriminate | destruct (c_has_abort c); discriminate]).
    exists f, k0; repeat split; auto. now rewrite Heql.
  - right; left. exists n; auto.
Qed.

Lemma assoc_app_in {A} r (l l' : list (nat * A)) : In r (map fst l) -> assoc r (l ++ l') = assoc r l.
Proof.
  induction l as [|[q a] t IH]; cbn; [tauto|]. intros [->|Hin]; [now rewrite Nat.eqb_refl|].
  destruct (Nat.eqb r q); auto.
Qed.

Lemma lookup_stable c s l s' r : In r (keys s) -> step c s l = Some s' -> lookup s' r = lookup s r.
Proof. intros Hk H. unfold keys in Hk. unf. step_cases H; auto. now apply assoc_app_in. Qed.

Lemma places_keys c s r : reachable c s -> In r (pipeline s ++ map fst (finished s)) -> In r (keys s).
Proof.
  intros R Hin. destruct (reachable_inv1 _ _ R) as [_ _ K P _]. apply K. apply in_app_iff. right.
  eapply Permutation_in; [apply Permutation_sym; exact P|exact Hin].
Qed.

Lemma rows_stable c s l s' r : reachable c s -> In r (pipeline s ++ map fst (finished s)) ->
  step c s l = Some s' -> is_rows s' r = is_rows s r.
Proof.
  intros R Hin H. unfold is_rows, kind_of. now rewrite (lookup_stable _ _ _ _ _ (places_keys _ _ _ R Hin) H).
Qed.

Lemma wk_in_pipeline s r : In r (wk_part s) -> In r (pipeline s).
Proof. unfold pipeline. rewrite in_app_iff. auto. Qed.

Lemma target_in_pipeline s w r x : target s w = Some (r, x) -> In r (pipeline s).
Proof.
  unfold target, pipeline, wk_part, a_pre, a_post.
  destruct w; [destruct (apc s) as [| | | | |[|q t]|] eqn:E|destruct (wpc s) as [| | | | |y [|q t]|] eqn:E];
    try discriminate; intro H; inversion H; subst; cbn; rewrite !in_app_iff; cbn; auto 8.
Qed.

(* the actor's hand and the worker's hand are different places *)
Lemma actor_target_not_wk s r x : NoDup (pipeline s) -> target s Actor = Some (r, x) -> ~ In r (wk_part s).
Proof.
  unfold target, pipeline, a_pre, a_post. intros ND H Hw.
  destruct (apc s) as [| | | | |[|q t]|] eqn:E; try discriminate; inversion H; subst; cbn in ND.
  - eapply (NoDup_app_disj _ _ r ND); auto. rewrite !in_app_iff. cbn. auto.
  - eapply (NoDup_app_disj _ _ r ND); auto. rewrite !in_app_iff. cbn. auto.
Qed.

Lemma step_from_wack c s l s' x r0 t : Idle0 s -> step c s l = Some s' -> wpc s = WAck x (r0 :: t) ->
  wpc s' = WAck x (r0 :: t) \/ (exists f, wpc s' = mk_wack x t /\ finished s' = finished s ++ [(r0, f)]).
Proof.
  intros I0 H E. unfold Idle0 in I0. step_cases H; bool_hyps; rw_hyps; try congruence; auto.
  - match goal with H : started s = false |- _ => destruct (I0 H); congruence end.
  - match goal with H : started s = false |- _ => destruct (I0 H); congruence end.
  - match goal with H : WAck _ _ = WAck _ _ |- _ => inversion H; subst end. right. eauto.
Qed.

Lemma mk_wack_in x l r : In r l -> mk_wack x l = WAck x l.
Proof. destruct l; [intros []|reflexivity]. Qed.

Record InvV (s : state) : Prop := {
  v_where : forall r, In r (visible s) -> In r (map fst (finished s)) \/ (exists l, wpc s = WAck RNil l /\ In r l);
  v_nodup : NoDup (visible s);
  v_wack : forall l, wpc s = WAck RNil l -> forall r, In r l -> is_rows s r = true -> In r (visible s);
  v_nil : forall r, In (r, FAnswered RNil) (finished s) -> is_rows s r = true -> In r (visible s);
  v_err : forall r f, In (r, f) (finished s) -> fate_res f = RErr -> ~ In r (visible s);
  v_commit : forall r, In r (visible s) -> exists ws, In (ws, true) (commits s) /\ In r ws }.

Lemma app_self {A} (l : list A) x : l = l ++ [x] -> False.
Proof. intro H. apply (f_equal (@length A)) in H. rewrite app_length in H. cbn in H. lia. Qed.

Section VStep.
Variable c : cfg.
Variables s s' : state.
Variable l : label.
Hypothesis R : reachable c s.
Hypothesis V : InvV s.
Hypothesis H : step c s l = Some s'.

Let P := inv1_places _ _ R.
Let I0 := i_idle _ (reachable_inv1 _ _ R).
Let K := reachable_invk _ _ R.
Let W := reachable_invw _ _ R.

Lemma RS r : In r (pipeline s ++ map fst (finished s)) -> is_rows s' r = is_rows s r.
Proof. intros; eapply rows_stable; eauto. Qed.

Lemma vis_grows r : In r (visible s) -> In r (visible s').
Proof. destruct (step_mono _ _ _ _ H) as (_ & _ & _ & _ & [v' E] & _). rewrite E, in_app_iff; auto. Qed.
Lemma fin_grows x : In x (finished s) -> In x (finished s').
Proof. destruct (step_mono _ _ _ _ H) as (_ & _ & _ & [v' E] & _). rewrite E, in_app_iff; auto. Qed.
Lemma com_grows x : In x (commits s) -> In x (commits s').
Proof. destruct (step_mono _ _ _ _ H) as (_ & _ & _ & _ & _ & [v' E]). rewrite E, in_app_iff; auto. Qed.

Lemma wk_places r : In r (wk_part s) -> In r (pipeline s ++ map fst (finished s)).
Proof. intro. apply in_app_iff. left. now apply wk_in_pipeline. Qed.

Lemma vwack_step : forall l', wpc s' = WAck RNil l' -> forall r, In r l' -> is_rows s' r = true -> In r (visible s').
Proof.
  destruct V as [V1 V2 V3 V4 V5 V6].
  intros l' E' r Hin Hrows.
  destruct (step_wack_nil _ _ _ _ _ H E') as [E|[(r1 & E)|[(f1 & k1 & E & -> & Ev')|(f1 & E & Hp & ->)]]].
  - apply vis_grows. rewrite RS in Hrows by (apply wk_places; unfold wk_part; rewrite E; exact Hin). eauto.
  - apply vis_grows. rewrite RS in Hrows by (apply wk_places; unfold wk_part; rewrite E; now right).
    eapply V3; eauto. now right.
  - rewrite RS in Hrows by (apply wk_places; unfold wk_part; rewrite E; exact Hin).
    rewrite Ev', in_app_iff. right. apply filter_In. auto.
  - rewrite RS in Hrows by (apply wk_places; unfold wk_part; rewrite E; exact Hin).
    pose proof (k_hold _ K _ E Hp r Hin) as Hk. unfold is_rows in Hrows. rewrite Hk in Hrows. discriminate.
Qed.

Lemma vwhere_step : forall r, In r (visible s') ->
  In r (map fst (finished s')) \/ (exists l0, wpc s' = WAck RNil l0 /\ In r l0).
Proof.
  destruct V as [V1 V2 V3 V4 V5 V6]. intros r Hr.
  assert (Old : In r (visible s) -> In r (map fst (finished s')) \/ (exists l0, wpc s' = WAck RNil l0 /\ In r l0)).
  { intro Hv. destruct (V1 r Hv) as [Hl|(l0 & E & Hin)].
    - left. apply in_map_iff in Hl as ((r1 & f1) & <- & Hl). apply in_map_iff. exists (r1, f1). split; auto. now apply fin_grows.
    - destruct l0 as [|q t]; [destruct Hin|].
      destruct (step_from_wack _ _ _ _ _ _ _ I0 H E) as [E'|(f1 & E' & Ef')]; [right; eauto|].
      destruct Hin as [->|Hin].
      + left. rewrite Ef', map_app, in_app_iff. right. now left.
      + right. exists t. split; auto. rewrite E'. now apply mk_wack_in with (r := r). }
  destruct (step_visible _ _ _ _ H) as [[Ev Ec]|(f & k & Ew & Ew' & Ef & Ev & Ec)].
  - rewrite Ev in Hr. auto.
  - rewrite Ev in Hr. apply in_app_iff in Hr as [Hr|Hr]; auto.
    apply filter_In in Hr as [Hr _]. right. exists (fw f). split; auto. rewrite Ew'. now apply mk_wack_in with (r := r).
Qed.

Lemma vnodup_step : NoDup (visible s').
Proof.
  destruct V as [V1 V2 V3 V4 V5 V6].
  destruct (step_visible _ _ _ _ H) as [[Ev Ec]|(f & k & Ew & Ew' & Ef & Ev & Ec)]; rewrite Ev; auto.
  assert (NDp : NoDup (pipeline s)) by (eapply NoDup_app_l; exact P).
  assert (NDf : NoDup (fw f)).
  { unfold pipeline, wk_part in NDp. rewrite Ew in NDp. cbn in NDp. eapply NoDup_app_l; eauto. }
  assert (Disj : forall r, In r (visible s) -> In r (fw f) -> False).
  { intros r Hv Hf. destruct (V1 r Hv) as [Hl|(l0 & E & _)]; [|congruence].
    eapply (NoDup_app_disj _ _ r P); auto. apply wk_in_pipeline. unfold wk_part. now rewrite Ew. }
  clear - V2 NDf Disj. induction (visible s) as [|a t IH]; cbn.
  - now apply NoDup_filter.
  - inversion V2; subst. constructor.
    + rewrite in_app_iff. intros [Hin|Hin]; [tauto|]. apply filter_In in Hin as [Hin _]. apply (Disj a); cbn; auto.
    + apply IH; auto. intros r Hr. apply Disj. now right.
Qed.

Lemma vnil_step : forall r, In (r, FAnswered RNil) (finished s') -> is_rows s' r = true -> In r (visible s').
Proof.
  destruct V as [V1 V2 V3 V4 V5 V6]. intros r Hin Hrows.
  destruct (step_finished _ _ _ _ H) as [Ef|(w & o & r0 & x & f0 & _ & Ht & Hf & Ef)]; rewrite Ef in Hin.
  - apply vis_grows. rewrite RS in Hrows; eauto.
    apply in_app_iff. right. apply in_map_iff. exists (r, FAnswered RNil). auto.
  - apply in_app_iff in Hin as [Hin|[Hin|[]]].
    + apply vis_grows. rewrite RS in Hrows; eauto.
      apply in_app_iff. right. apply in_map_iff. exists (r, FAnswered RNil). auto.
    + inversion Hin; subst. apply vis_grows.
      rewrite RS in Hrows by (apply in_app_iff; left; eapply target_in_pipeline; eauto).
      destruct (ack_fate_res _ _ _ _ _ Hf) as [E|[E|E]]; inversion E; subst.
      destruct w; unfold target in Ht.
      * destruct (apc s) as [| | | | |[|q t]|] eqn:Ea; try discriminate; inversion Ht; subst.
        destruct (k_acknow _ K _ Ea) as [v Hk]. unfold is_rows in Hrows. rewrite Hk in Hrows. destruct v; discriminate.
      * destruct (wpc s) as [| | | | |y [|q t]|] eqn:Ew; try discriminate; inversion Ht; subst.
        eapply V3; eauto. now left.
Qed.

Lemma verr_step : forall r f, In (r, f) (finished s') -> fate_res f = RErr -> ~ In r (visible s').
Proof.
  destruct V as [V1 V2 V3 V4 V5 V6]. intros r f Hin Hres.
  assert (NDp : NoDup (pipeline s)) by (eapply NoDup_app_l; exact P).
  (* r was not visible before the step *)
  assert (Hnv : ~ In r (visible s)).
  { destruct (step_finished _ _ _ _ H) as [Ef|(w & o & r0 & x & f0 & _ & Ht & Hf & Ef)]; rewrite Ef in Hin.
    - eauto.
    - apply in_app_iff in Hin as [Hin|[Hin|[]]]; [eauto|]. inversion Hin; subst.
      assert (x = RErr) by (destruct (ack_fate_res _ _ _ _ _ Hf) as [E|[E|E]]; subst; exact Hres). subst x.
      intro Hv. destruct (V1 r Hv) as [Hl|(l0 & E & Hl)].
      + eapply (NoDup_app_disj _ _ r P); eauto using target_in_pipeline.
      + destruct w.
        * eapply actor_target_not_wk; eauto. unfold wk_part. now rewrite E.
        * unfold target in Ht. rewrite E in Ht. destruct l0; inversion Ht. }
  (* and the step does not make it visible *)
  destruct (step_visible _ _ _ _ H) as [[Ev Ec]|(f1 & k & Ew & Ew' & Ef & Ev & Ec)]; rewrite Ev; auto.
  rewrite in_app_iff. intros [Hv|Hv]; [tauto|]. apply filter_In in Hv as [Hv _].
  rewrite Ef in Hin. eapply (NoDup_app_disj _ _ r P).
  - apply wk_in_pipeline. unfold wk_part. rewrite Ew. exact Hv.
  - apply in_map_iff. exists (r, f). auto.
Qed.

Lemma vcommit_step : forall r, In r (visible s') -> exists ws, In (ws, true) (commits s') /\ In r ws.
Proof.
  destruct V as [V1 V2 V3 V4 V5 V6]. intros r Hr.
  destruct (step_visible _ _ _ _ H) as [[Ev Ec]|(f1 & k & Ew & Ew' & Ef & Ev & Ec)]; rewrite Ev in Hr.
  - destruct (V6 r Hr) as (ws & Hc & Hi). exists ws. split; auto. now apply com_grows.
  - apply in_app_iff in Hr as [Hr|Hr].
    + destruct (V6 r Hr) as (ws & Hc & Hi). exists ws. split; auto. now apply com_grows.
    + apply filter_In in Hr as [Hr _]. exists (fw f1). split; auto. rewrite Ec, in_app_iff. right. left.
      f_equal. eapply (w_closed _ W). right. eauto.
Qed.

Lemma invv_step_all : InvV s'.
Proof.
  split; [apply vwhere_step|apply vnodup_step|apply vwack_step|apply vnil_step|apply verr_step|apply vcommit_step].
Qed.
End VStep.

Lemma reachable_invv c s : reachable c s -> InvV s.
Proof.
  induction 1; [|eauto using invv_step_all].
  split; cbn; intros; try tauto; try discriminate. constructor.
Qed.
