(* Bridge between family G (merge, abstract rows with entry lists) and family R (JSON rows,
   expression trees): the premises [filter_facts] of the C11 query theorems are discharged by
   prune_sound / guard_sound / bloom membership, so the C11 query theorems hold for the concrete
   row matcher and pruning query of C01/C02. *)
From BS Require Import Lib.Bytes Model.Json Model.Expr Model.MinMax Model.MergePlan
  Proofs.ExprProofs Proofs.MergePlanProofs.
From Coq Require Import List Bool ZArith Permutation.
Import ListNotations.
Open Scope N_scope.

Section Bridge.
  Variable tok : str -> list str.
  Variable re : str -> str -> bool.
  Variable J : Z -> json.                       (* the JSON document of the row with a given tag *)

  (* the three entry sets of a row in one list, tagged by kind *)
  Definition tagF (x : str) : str := 70 :: x.
  Definition tagT (x : str) : str := 84 :: x.
  Definition tagX (x : str) : str := 88 :: x.
  Definition tagged_entries (v : json) : list str :=
    let es := walk_row v in
    map tagF (e_fields es) ++ map tagT (e_tokens tok es) ++ map tagX (e_fieldtokens tok es).

  Definition Qr := (option bexpr * option rexpr)%type.

  Definition filt (m : str -> bool) : filters :=
    {| f_field := Some (fun x => m (tagF x)); f_token := Some (fun x => m (tagT x)); f_ft := Some (fun x => m (tagX x)) |}.

  (* pruning with the query Query builds (bloom part AND regex field guard) *)
  Definition guardR (q : Qr) (m : str -> bool) : bool := prune_q (filt m) (prune_query (fst q) (snd q)).

  (* the row's recorded entries include every entry of its document (what indexing guarantees) *)
  Definition ents_ok (r : mrow) : bool :=
    forallb (fun x => mem_str x (mr_ents r)) (tagged_entries (J (mr_tag r))).

  Definition row_satR (q : Qr) (r : mrow) : bool :=
    row_sat tok re (fst q) (snd q) (J (mr_tag r)) && ents_ok r.

  Definition ftestR (p : Z) (E : list str) (x : str) : bool := mem_str x E.

  Lemma prune_eval_mono (m1 m2 : str -> bool) e :
    (forall x, m1 x = true -> m2 x = true) -> prune_eval (filt m1) e = true -> prune_eval (filt m2) e = true.
  Proof.
    intro Hm. induction e as [c|cs IH|cs IH|] using bexpr_ind'; simpl; intro H; try assumption.
    - destruct c as [[f|t|f t|]|]; simpl in *; auto.
    - rewrite forallb_forall in *. rewrite Forall_forall in IH. intros x Hx. auto.
    - apply existsb_exists in H as [x [Hx H]]. apply existsb_exists. exists x. rewrite Forall_forall in IH. auto.
  Qed.

  Lemma row_sat_prune_query qb qr row :
    row_sat tok re qb qr row = true -> sat_bq tok (walk_row row) (prune_query qb qr) = true.
  Proof.
    unfold row_sat, prune_query. intro H. apply andb_true_iff in H as [Hb Hr].
    rewrite sat_and_queries, Hb. simpl. eapply guard_q_sound; eauto.
  Qed.

  Lemma ents_ok_covers r : ents_ok r = true ->
    covers tok (filt (fun x => mem_str x (mr_ents r))) (walk_row (J (mr_tag r))).
  Proof.
    unfold ents_ok, tagged_entries. rewrite forallb_forall. intro H.
    unfold covers. simpl. repeat split; intros x Hx; apply H; rewrite !in_app_iff.
    - left. apply in_map. exact Hx.
    - right. left. apply in_map. exact Hx.
    - right. right. apply in_map. exact Hx.
  Qed.

  Theorem filter_facts_R : filter_facts Qr row_satR guardR ftestR.
  Proof.
    unfold filter_facts. repeat split.
    - intros p E x Hx. apply mem_str_In. exact Hx.
    - intros q m1 m2 Hm. unfold guardR. destruct (prune_query (fst q) (snd q)) as [e|]; simpl; [|auto].
      apply prune_eval_mono. exact Hm.
    - intros q r H. unfold row_satR in H. apply andb_true_iff in H as [Hs Ho].
      unfold guardR. eapply prune_q_sound; [apply ents_ok_covers; exact Ho|].
      apply row_sat_prune_query. exact Hs.
  Qed.

  (* on rows whose entries were indexed, the bridged predicate is the documented row predicate *)
  Lemma row_satR_exact q r : ents_ok r = true -> row_satR q r = row_sat tok re (fst q) (snd q) (J (mr_tag r)).
  Proof. intro H. unfold row_satR. rewrite H. apply andb_true_r. Qed.
End Bridge.

(* the C11 query theorems, instantiated with the concrete row matcher and pruning query *)
Lemma merge_query_eq_concrete tok re J e c st st' q :
  store_wf st -> merge_ok e c st st' ->
  Permutation (run_query Qr (row_satR tok re J) (guardR) ftestR None q st')
              (run_query Qr (row_satR tok re J) (guardR) ftestR None q st).
Proof. apply (ff_merge_query_eq Qr (row_satR tok re J) guardR ftestR (filter_facts_R tok re J)). Qed.

Lemma merge_query_superset_concrete tok re J e c st st' pre q :
  store_wf st -> merge_ok e c st st' ->
  msub (run_query Qr (row_satR tok re J) guardR ftestR pre q st)
       (run_query Qr (row_satR tok re J) guardR ftestR pre q st').
Proof. apply (ff_merge_query_superset Qr (row_satR tok re J) guardR ftestR (filter_facts_R tok re J)). Qed.
