(* C01 / C02 over the functional query specification. *)
From BS Require Import Lib.Bytes Lib.Sublist Model.Json Model.Expr Model.MinMax Model.QueryFn
  Proofs.ExprProofs Proofs.MinMaxProofs.
From Coq Require Import List Bool Lia.
Import ListNotations.

Section Q.
  Variable tok : str -> list str.
  Variable re : str -> str -> bool.

  (* What must be true of files for queries to be complete. It says nothing about who
     produced them (flush, merge, external writers are all instances): each present filter
     answers true on the entries of the rows under it, and each block's metadata covers
     its rows' partition id and indexed values. *)
  Definition wf_block (f : file) (b : block) : Prop :=
    forall r, In r (bk_rows b) ->
      covers tok (bk_filters b) (walk_row (sr_json r)) /\
      covers tok (fl_filters f) (walk_row (sr_json r)) /\
      covers_row (bk_meta b) (sr_pre r).
  Definition wf_file (f : file) : Prop := forall b, In b (fl_blocks f) -> wf_block f b.
  Definition wf_files (files : list file) : Prop := forall f, In f files -> wf_file f.

  Definition pre_in64 (q : query) : Prop :=
    match q_pre q with None => True | Some e => pexpr_in64 e end.

  (* a matching row satisfies the pruning query on its own entries *)
  Lemma matches_prune_query q r :
    row_matches tok re q r = true -> sat_bq tok (walk_row (sr_json r)) (pq q) = true.
  Proof.
    unfold row_matches, row_sat, pq, prune_query. intro H. apply andb_true_iff in H as [Hb Hr].
    rewrite sat_and_queries, Hb. simpl. eapply guard_q_sound; eauto.
  Qed.

  Lemma selected_of_match q f b r :
    wf_block f b -> In r (bk_rows b) -> pre_in64 q ->
    row_matches tok re q r = true -> row_pre q r = true -> block_selected q f b = true.
  Proof.
    intros Hwf Hin H64 Hm Hp. destruct (Hwf r Hin) as [Cb [Cf Cr]].
    pose proof (matches_prune_query q r Hm) as Hq.
    unfold block_selected. rewrite !andb_true_iff. repeat split.
    - unfold block_passes, row_pre, pre_in64 in *. destruct (q_pre q) as [e|]; [|reflexivity].
      eapply tree_sound; eauto.
    - eapply prune_q_sound; eauto.
    - eapply prune_q_sound; eauto.
  Qed.

  Lemma filter_nil_iff {A} (p : A -> bool) l : filter p l = [] <-> forall x, In x l -> p x = false.
  Proof.
    induction l as [|x l IH]; simpl; [tauto|]. destruct (p x) eqn:E.
    - split; [discriminate| intro H; specialize (H x (or_introl eq_refl)); congruence].
    - rewrite IH. split; intros H y; [intros [<-|Hy]; auto | intro Hy; apply H; auto].
  Qed.

  Lemma unselected_no_match q f b :
    wf_block f b -> block_passes (q_pre q) (bk_meta b) = true -> block_selected q f b = false ->
    scan_block tok re q b = [].
  Proof.
    intros Hwf Hp Hs. unfold scan_block. apply filter_nil_iff. intros r Hin.
    destruct (row_matches tok re q r) eqn:Hm; [|reflexivity]. exfalso.
    destruct (Hwf r Hin) as [Cb [Cf _]].
    pose proof (matches_prune_query q r Hm) as Hq.
    unfold block_selected in Hs. rewrite Hp in Hs. simpl in Hs.
    rewrite (prune_q_sound tok _ _ _ Cf Hq), (prune_q_sound tok _ _ _ Cb Hq) in Hs. discriminate.
  Qed.

  (* ---------- C01 ---------- *)
  Lemma in_run_query q files r :
    In r (run_query tok re q files) <->
    exists f b, In f files /\ In b (fl_blocks f) /\ block_selected q f b = true /\
                In r (bk_rows b) /\ row_matches tok re q r = true.
  Proof.
    unfold run_query, scan_file, scan_block. rewrite in_flat_map. split.
    - intros [f [Hf H]]. apply in_flat_map in H as [b [Hb H]].
      destruct (block_selected q f b) eqn:E; [|destruct H].
      apply filter_In in H as [H1 H2]. exists f, b. auto.
    - intros [f [b [Hf [Hb [Hs [Hr Hm]]]]]]. exists f. split; [exact Hf|].
      apply in_flat_map. exists b. split; [exact Hb|]. rewrite Hs. apply filter_In. auto.
  Qed.

  Theorem no_false_negatives q files f b r :
    wf_files files -> pre_in64 q -> In f files -> In b (fl_blocks f) -> In r (bk_rows b) ->
    row_matches tok re q r = true -> row_pre q r = true ->
    In r (run_query tok re q files).
  Proof.
    intros Hwf H64 Hf Hb Hr Hm Hp. apply in_run_query. exists f, b. repeat split; auto.
    eapply selected_of_match; eauto. apply Hwf; auto.
  Qed.

  (* with multiplicities: the whole matching content of such a block is a contiguous
     segment of the result *)
  Lemma scan_file_segment q f b :
    In b (fl_blocks f) -> block_selected q f b = true ->
    exists l1 l2, scan_file tok re q f = l1 ++ scan_block tok re q b ++ l2.
  Proof.
    unfold scan_file. induction (fl_blocks f) as [|b0 bs IH]; intros Hin Hs; [destruct Hin|].
    simpl. destruct Hin as [->|Hin].
    - rewrite Hs. exists [], (flat_map (fun b0 => if block_selected q f b0 then scan_block tok re q b0 else []) bs).
      reflexivity.
    - destruct (IH Hin Hs) as [l1 [l2 E]]. rewrite E.
      exists ((if block_selected q f b0 then scan_block tok re q b0 else []) ++ l1), l2.
      rewrite <- app_assoc. reflexivity.
  Qed.

  Theorem no_false_negatives_multiset q files f b r :
    wf_files files -> pre_in64 q -> In f files -> In b (fl_blocks f) -> In r (bk_rows b) ->
    row_matches tok re q r = true -> row_pre q r = true ->
    exists l1 l2, run_query tok re q files = l1 ++ filter (row_matches tok re q) (bk_rows b) ++ l2.
  Proof.
    intros Hwf H64 Hf Hb Hr Hm Hp.
    assert (Hs : block_selected q f b = true) by (eapply selected_of_match; eauto; apply Hwf; auto).
    destruct (scan_file_segment q f b Hb Hs) as [m1 [m2 E]].
    unfold run_query. clear Hwf. induction files as [|f0 fs IH]; [destruct Hf|].
    simpl. destruct Hf as [->|Hf].
    - rewrite E. exists m1, (m2 ++ flat_map (scan_file tok re q) fs). rewrite <- !app_assoc. reflexivity.
    - destruct (IH Hf) as [l1 [l2 E']]. rewrite E'. exists (scan_file tok re q f0 ++ l1), l2.
      rewrite <- app_assoc. reflexivity.
  Qed.

  (* ---------- C02 ---------- *)
  Theorem result_sound q files r :
    In r (run_query tok re q files) ->
    exists f b, In f files /\ In b (fl_blocks f) /\ In r (bk_rows b) /\ row_matches tok re q r = true.
  Proof. intro H. apply in_run_query in H as [f [b [Hf [Hb [_ [Hr Hm]]]]]]. exists f, b. auto. Qed.

  Theorem at_most_stored q files : sublist (run_query tok re q files) (all_rows files).
  Proof.
    unfold run_query, all_rows, all_blocks. induction files as [|f fs IH]; simpl; [constructor|].
    rewrite flat_map_app. apply sublist_app; [|exact IH].
    unfold scan_file. apply sublist_flat_map. intros b _.
    destruct (block_selected q f b); [apply sublist_filter| apply sublist_nil].
  Qed.

  (* the result is exactly the matching rows of the blocks that pass the prefilter *)
  Theorem block_granular q files :
    wf_files files ->
    run_query tok re q files =
    flat_map (scan_block tok re q) (filter (fun b => block_passes (q_pre q) (bk_meta b)) (all_blocks files)).
  Proof.
    intro Hwf. unfold run_query, all_blocks. induction files as [|f fs IH]; simpl; [reflexivity|].
    rewrite filter_app, flat_map_app, IH by (intros f' Hf'; apply Hwf; right; exact Hf'). f_equal.
    assert (Hf : wf_file f) by (apply Hwf; left; reflexivity). clear IH Hwf.
    unfold scan_file. unfold wf_file in Hf. induction (fl_blocks f) as [|b bs IHb]; simpl; [reflexivity|].
    rewrite IHb by (intros b' Hb'; apply Hf; right; exact Hb'). clear IHb.
    destruct (block_passes (q_pre q) (bk_meta b)) eqn:Ep.
    - simpl. f_equal. destruct (block_selected q f b) eqn:Es; [reflexivity|].
      symmetry. eapply unselected_no_match; eauto. apply Hf. left. reflexivity.
    - unfold block_selected. rewrite Ep. reflexivity.
  Qed.

  Lemma filter_flat_map {A B} (p : B -> bool) (g : A -> list B) l :
    filter p (flat_map g l) = flat_map (fun x => filter p (g x)) l.
  Proof. induction l as [|x l IH]; simpl; [reflexivity|]. rewrite filter_app, IH. reflexivity. Qed.

  Lemma filter_true {A} (l : list A) : filter (fun _ => true) l = l.
  Proof. induction l; simpl; congruence. Qed.

  Theorem exact_no_prefilter q files :
    wf_files files -> q_pre q = None ->
    run_query tok re q files = filter (row_matches tok re q) (all_rows files).
  Proof.
    intros Hwf Hn. rewrite block_granular by assumption. rewrite Hn. simpl.
    rewrite filter_true. unfold all_rows. rewrite filter_flat_map. reflexivity.
  Qed.
End Q.

(* strictness: a condition never holds on a block that lacks the metadata it references *)
Lemma strict_partition b sc : eval_pcond b (PPartition (Some sc)) = true -> b_partition b <> [].
Proof. simpl. destruct (b_partition b); [discriminate|discriminate]. Qed.

Lemma strict_minmax b f nc : eval_pcond b (PMinMax f (Some nc)) = true -> assoc f (b_mm b) <> None.
Proof. simpl. destruct (assoc f (b_mm b)); [discriminate|discriminate]. Qed.
