(* Family L — silence (C27): lemmas. The reference graph and the logger facts are
   regenerated from the Go sources on every run (Generated/SilentGraph.v); the domain is
   finite and enumerated completely, so the facts about it are decided by vm_compute and
   lifted to quantified statements with forallb_forall. *)
From BS Require Import Model.Silent Generated.SilentGraph.
From Coq Require Import List String Bool.
Import ListNotations.
Open Scope string_scope.

(* generic: the boolean check means what it should, for any graph *)
Lemma graph_ok_sound : forall g, graph_ok g = true ->
  forall f, In f g -> forall r, In r (fn_refs f) -> is_sink r = false.
Proof.
  intros g Hg f Hf r Hr.
  unfold graph_ok in Hg. rewrite forallb_forall in Hg.
  specialize (Hg f Hf). unfold fn_ok in Hg. rewrite forallb_forall in Hg.
  specialize (Hg r Hr). apply negb_true_iff in Hg. exact Hg.
Qed.

Lemma graph_ok_complete : forall g,
  (forall f, In f g -> forall r, In r (fn_refs f) -> is_sink r = false) -> graph_ok g = true.
Proof.
  intros g H. unfold graph_ok. apply forallb_forall. intros f Hf.
  unfold fn_ok. apply forallb_forall. intros r Hr. rewrite (H f Hf r Hr). reflexivity.
Qed.

(* a graph passes iff the list of offending (function, reference) pairs is empty *)
Lemma sink_refs_nil : forall g, graph_ok g = true -> sink_refs g = [].
Proof.
  induction g as [|f g IH]; intro H; [reflexivity|].
  cbn [graph_ok forallb] in H. apply andb_true_iff in H as [Hf Hg].
  cbn [sink_refs flat_map]. fold (sink_refs g). rewrite (IH Hg), app_nil_r.
  unfold fn_ok in Hf.
  assert (E : filter is_sink (fn_refs f) = []).
  { induction (fn_refs f) as [|r rs IHr]; [reflexivity|].
    cbn [forallb] in Hf. apply andb_true_iff in Hf as [Hr Hrs].
    cbn [filter]. apply negb_true_iff in Hr. rewrite Hr. exact (IHr Hrs). }
  rewrite E. reflexivity.
Qed.

(* the regenerated graph of this tree *)
Lemma graph_checked : graph_ok graph = true.
Proof. vm_compute. reflexivity. Qed.

Lemma no_sink : forall f, In f graph -> forall r, In r (fn_refs f) -> is_sink r = false.
Proof. exact (graph_ok_sound graph graph_checked). Qed.

Lemma mem_In : forall x l, mem x l = true -> In x l.
Proof.
  intros x l H. unfold mem in H. apply existsb_exists in H as [y [Hy E]].
  apply String.eqb_eq in E. subst. exact Hy.
Qed.

(* the files named by the property's anchors were scanned, and both build-tag variants *)
Lemma anchors_scanned :
  In "engine.go" scanned_files /\ In "ingest.go" scanned_files /\ In "flush.go" scanned_files /\
  In "merge.go" scanned_files /\ In "query_exec.go" scanned_files /\
  In "verif_on.go" scanned_files /\ In "verif_off.go" scanned_files.
Proof. repeat split; apply mem_In; vm_compute; reflexivity. Qed.

(* logger construction *)
Lemma logger_bindings :
  logger_var_writes = expected_var_writes /\ logger_field_writes = expected_field_writes logger_var.
Proof. split; vm_compute; reflexivity. Qed.

Lemma discard_when_nil :
  run_writes true LUnset logger_var_writes = LBuilt discard_ctor /\
  run_writes false LUnset logger_var_writes = LConfig /\
  (forall fn e, In (fn, e) logger_field_writes -> fn = "NewBloomSearchEngine" /\ e = GLocal logger_var) /\
  (exists fn, In (fn, GLocal logger_var) logger_field_writes).
Proof.
  destruct logger_bindings as [Hv Hf]. rewrite Hv, Hf.
  split; [vm_compute; reflexivity|]. split; [vm_compute; reflexivity|]. split.
  - intros fn e [H|[]]. inversion H. split; reflexivity.
  - exists "NewBloomSearchEngine". left. reflexivity.
Qed.

(* the reading of bindings is not vacuous: anything but the expected shape is not "discard" *)
Lemma run_writes_rejects_stdout_logger :
  run_writes true LUnset
    [("top", config_logger);
     ("ifnil", GCall (GRef "log/slog" "New") [GCall (GRef "log/slog" "NewTextHandler") [GRef "os" "Stderr"; GLocal "nil"]])]
  <> LBuilt discard_ctor.
Proof. vm_compute. discriminate. Qed.

Lemma sinks_are_sinks :
  is_sink ("fmt", "Println") = true /\ is_sink ("fmt", "Printf") = true /\ is_sink ("fmt", "Print") = true /\
  is_sink ("os", "Stdout") = true /\ is_sink ("os", "Stderr") = true /\ is_sink ("os", "NewFile") = true /\
  is_sink ("builtin", "println") = true /\ is_sink ("builtin", "print") = true /\
  is_sink ("log", "Printf") = true /\ is_sink ("log", "Default") = true /\ is_sink ("log", "SetOutput") = true /\
  is_sink ("log/slog", "Warn") = true /\ is_sink ("log/slog", "Default") = true /\ is_sink ("log/slog", "SetDefault") = true /\
  is_sink ("syscall", "Write") = true /\
  is_sink ("fmt", "Errorf") = false /\ is_sink ("fmt", "Fprintf") = false /\ is_sink ("log/slog", "New") = false /\
  is_sink ("log/slog", "DiscardHandler") = false /\ is_sink ("os", "OpenFile") = false.
Proof. vm_compute. repeat split; reflexivity. Qed.

Lemma graph_nonempty :
  exists f, In f graph /\ fn_file f = "flush.go" /\ fn_name f = "BloomSearchEngine.handleFlush" /\ fn_refs f <> [].
Proof.
  assert (H : existsb (fun f => String.eqb (fn_file f) "flush.go" &&
                               String.eqb (fn_name f) "BloomSearchEngine.handleFlush" &&
                               negb (match fn_refs f with [] => true | _ => false end)) graph = true)
    by (vm_compute; reflexivity).
  apply existsb_exists in H as [f [Hin Hc]].
  apply andb_true_iff in Hc as [Hc H3]. apply andb_true_iff in Hc as [H1 H2].
  apply String.eqb_eq in H1. apply String.eqb_eq in H2.
  exists f. repeat split; try assumption.
  intro E. rewrite E in H3. discriminate.
Qed.
