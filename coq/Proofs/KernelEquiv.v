(* Generic tactics for the kernel ties (Generated/KernelTie.v): a generated definition
   (Generated/Kernels.v, translated from the Go source on every run) equals the hand-written
   model.  The tactics do not mention any kernel and do not follow the shape of today's
   terms: unfold both sides, split every comparison, linear arithmetic; lists by induction
   through the loop combinator of Lib/GoPrim.v.  The per-family files KernelEquivM/T/G.v
   state one lemma k_<name>_tie per kernel. *)
From BS Require Import Lib.Wrap64 Lib.GoPrim.
From Coq Require Import ZArith List Bool Lia.
Import ListNotations.
Local Open Scope Z_scope.

(* every variable of a tuple type becomes its components *)
Ltac k_destruct_tuples :=
  repeat match goal with
         | x : ?T |- _ =>
             lazymatch type of T with
             | Prop => fail
             | _ => let T' := eval hnf in T in
                    lazymatch T' with prod _ _ => destruct x | unit => destruct x end
             end
         end.

Ltac k_beta := cbv beta iota zeta in *.

(* fixed-width arithmetic: a wrapped term is the term plus a multiple of 2^64, in range *)
Ltac k_unfold_arith :=
  unfold add64, sub64, mul64, neg64, addu64, subu64, mulu64, i64, u64, Min64, Max64, two64 in *.

Ltac k_wrap :=
  repeat match goal with
         | |- context [wrap64 ?t] =>
             let k := fresh "k" in let E := fresh "E" in let R := fresh "R" in
             destruct (wrap64_spec t) as [k [E R]]; generalize dependent (wrap64 t); intros
         | H : context [wrap64 ?t] |- _ =>
             let k := fresh "k" in let E := fresh "E" in let R := fresh "R" in
             destruct (wrap64_spec t) as [k [E R]]; generalize dependent (wrap64 t); intros
         | |- context [wrapu64 ?t] =>
             let k := fresh "k" in let E := fresh "E" in let R := fresh "R" in
             destruct (wrapu64_spec t) as [k [E R]]; generalize dependent (wrapu64 t); intros
         | H : context [wrapu64 ?t] |- _ =>
             let k := fresh "k" in let E := fresh "E" in let R := fresh "R" in
             destruct (wrapu64_spec t) as [k [E R]]; generalize dependent (wrapu64 t); intros
         end.

Ltac k_hyps :=
  repeat match goal with
         | H : _ /\ _ |- _ => destruct H
         | H : Forall _ (_ :: _) |- _ => inversion H; subst; clear H
         | H : Forall _ [] |- _ => clear H
         | H : True |- _ => clear H
         end.

(* one comparison of the goal: both outcomes, contradictory ones closed at once *)
Ltac k_split1 :=
  match goal with
  | |- context [Z.gtb ?a ?b] => rewrite (Z.gtb_ltb a b)
  | |- context [Z.geb ?a ?b] => rewrite (Z.geb_leb a b)
  | |- context [Z.eqb ?a ?b] => destruct (Z.eqb_spec a b); try lia
  | |- context [Z.leb ?a ?b] => destruct (Z.leb_spec a b); try lia
  | |- context [Z.ltb ?a ?b] => destruct (Z.ltb_spec a b); try lia
  end.

Ltac k_bool := cbn [andb orb negb xorb Bool.eqb].

Ltac k_finish :=
  k_bool;
  try reflexivity; try lia; try discriminate;
  try (repeat f_equal; lia).

Ltac k_splits := repeat (k_split1; k_bool).

(* what is left of the booleans once every comparison is decided: list tests and variables *)
Ltac k_bool_atoms :=
  repeat match goal with
         | |- context [forallb ?p ?l] => destruct (forallb p l)
         | |- context [existsb ?p ?l] => destruct (existsb p l)
         | b : bool |- _ => destruct b
         end.

Ltac k_done := solve [k_finish | k_bool_atoms; k_finish].

(* straight-line kernels: no loop left in the goal *)
Ltac k_arith := k_hyps; k_unfold_arith; k_wrap; k_splits; k_done.

(* a loop whose state is never changed by the body (early exits only): induction on the list,
   the rest of the goal must be stable under one iteration *)
Ltac k_use_IH :=
  match goal with
  | IH : _ |- _ =>
      solve [ apply IH; assumption
            | rewrite IH by assumption; k_done
            | rewrite <- IH by assumption; k_done
            | etransitivity; [apply IH; assumption|]; k_done ]
  end.

Ltac k_loop_step names :=
  intros; k_hyps; names; k_beta; k_unfold_arith; k_wrap; k_splits;
  first [k_use_IH | k_done].

Ltac k_induct names :=
  match goal with
  | |- context [range_loop _ (map _ ?xs) _] => is_var xs; induction xs as [|? ? IH]
  | |- context [range_loop _ ?xs _] => is_var xs; induction xs as [|? ? IH]
  end;
  cbn [range_loop map existsb forallb]; [k_done | k_destruct_tuples; k_loop_step names].

(* a loop that only accumulates (its body never leaves it): it is a left fold; induction from the
   right, where the induction hypothesis speaks about the same initial state *)
Ltac k_noexit names :=
  intros; k_destruct_tuples; names; k_beta;
  repeat match goal with |- context [if ?c then _ else _] => destruct c end;
  eexists; reflexivity.

Ltac k_fold_hyps :=
  repeat match goal with
         | H : Forall _ (_ ++ _) |- _ => apply Forall_app in H; destruct H
         | H : Forall _ [_] |- _ => inversion H; subst; clear H
         | H : Forall _ [] |- _ => clear H
         | H : _ /\ _ |- _ => destruct H
         end.

Ltac k_fold names :=
  match goal with
  | |- context [range_loop ?body ?l ?s0] =>
      rewrite (range_loop_noexit body l s0) by k_noexit names
  end;
  match goal with
  | |- context [fold_left _ (map _ ?xs) _] => is_var xs; induction xs as [|? ? IH] using rev_ind
  | |- context [fold_left _ ?xs _] => is_var xs; induction xs as [|? ? IH] using rev_ind
  end;
  [ cbn [fold_left map existsb forallb]; k_done
  | rewrite ?map_app, ?fold_left_app, ?existsb_app, ?forallb_app;
    cbn [fold_left map existsb forallb lnext] in *;
    k_fold_hyps;
    repeat match goal with
           | IH : ?P -> _, H : ?P |- _ => specialize (IH H)
           end;
    repeat match goal with
           | |- context [fold_left ?f ?l ?s] => generalize dependent (fold_left f l s); intros
           end;
    k_destruct_tuples; names; k_beta; k_unfold_arith; k_wrap; k_splits;
    k_bool_atoms; cbn [andb orb negb xorb Bool.eqb] in *;
    first [congruence | lia | k_done] ].

(* everything: comparisons outside the loops first, then each remaining goal by induction *)
Ltac k_auto names :=
  k_hyps; k_unfold_arith; k_wrap; k_splits; first [k_done | k_induct names | k_fold names].

(* a loop that updates variables: `spec` says, in the model's terms, what the loop does from an
   arbitrary state: spec (model list) state = LDone state' / LReturn result.  Proved by induction
   with the same splitting as everything else, then used to rewrite the goal. *)
Ltac k_loop_spec spec names :=
  match goal with
  | |- context [range_loop ?body ?xs ?s0] =>
      is_var xs;
      match goal with
      | |- context [map ?f xs] =>
          let L := fresh "L" in
          assert (L : forall s, range_loop body xs s = spec (map f xs) s);
          [ induction xs as [|? ? IH]; intro; cbn [range_loop map existsb forallb];
            [k_done | k_destruct_tuples; k_loop_step names]
          | rewrite L; cbv beta ]
      end
  end.
