(* Family T — the scan buffer pool: class arithmetic and the ownership discipline (Model/ScanPool.v). *)
From BS Require Import Model.Validate Model.ScanPool.
From Coq Require Import List ZArith NArith Bool Lia.
Import ListNotations.
Open Scope Z_scope.

(* ---- class arithmetic ---- *)
Lemma blen_spec x : 0 < x -> 2 ^ (blen x - 1) <= x < 2 ^ blen x.
Proof.
  intro H. unfold blen. destruct (Z.leb_spec x 0); [lia|].
  replace (Z.log2 x + 1 - 1) with (Z.log2 x) by lia.
  pose proof (Z.log2_spec x H). rewrite <- Z.add_1_r in *. lia.
Qed.

Lemma blen_nonneg x : 0 <= blen x.
Proof. unfold blen. destruct (x <=? 0); [lia|]. pose proof (Z.log2_nonneg x). lia. Qed.

(* getScanBuffer(size) from class k: the request fits 2^k, and k indexes the pool array *)
Lemma get_class_fits size k : get_class size = GClass k -> size <= 2 ^ k /\ minShift <= k <= maxShift.
Proof.
  unfold get_class, minShift, maxShift.
  destruct (Z.leb_spec size 0) as [L|G]; [discriminate|].
  set (s0 := blen (size - 1)).
  assert (Hs0 : size <= 2 ^ s0).
  { destruct (Z.eq_dec size 1) as [->|N1].
    - subst s0. cbn. lia.
    - pose proof (blen_spec (size - 1) ltac:(lia)). subst s0. lia. }
  pose proof (blen_nonneg (size - 1)) as Hnn. fold s0 in Hnn.
  destruct (Z.ltb_spec s0 10) as [L1|G1].
  - cbn. intro Q; inversion Q; subst. split; [|lia].
    pose proof (Z.pow_le_mono_r 2 s0 10 ltac:(lia) ltac:(lia)). lia.
  - destruct (Z.gtb_spec s0 26); [discriminate|]. intro Q; inversion Q; subst. lia.
Qed.

Lemma get_unpooled size c : get_class size = GUnpooled c -> c = size.
Proof.
  unfold get_class. destruct (size <=? 0); [discriminate|].
  destruct (blen (size - 1) <? minShift); destruct (_ >? maxShift); intro Q; inversion Q; reflexivity.
Qed.

(* putScanBuffer files a buffer under a class its capacity covers, inside the pool array *)
Lemma put_class_covers c k : put_class c = Some k -> 2 ^ k <= c /\ minShift <= k <= maxShift.
Proof.
  unfold put_class, minShift, maxShift.
  destruct (Z.ltb_spec c (2 ^ 10)) as [L|G]; cbn [orb]; [discriminate|].
  destruct (Z.gtb_spec c (2 ^ 26)) as [L1|G1]; [discriminate|].
  intro Q; inversion Q; subst. clear Q.
  assert (Hc : 0 < c) by (change (2 ^ 10) with 1024 in G; lia).
  pose proof (blen_spec c Hc) as [B1 B2]. split; [exact B1|].
  unfold blen. destruct (Z.leb_spec c 0); [lia|].
  pose proof (Z.log2_le_mono _ _ G) as M1. pose proof (Z.log2_le_mono _ _ G1) as M2.
  rewrite Z.log2_pow2 in M1, M2 by lia. lia.
Qed.

(* C03: whatever buffer the pool hands out for a request has room for it *)
Lemma pool_fit size c k : put_class c = Some k -> get_class size = GClass k -> size <= c.
Proof.
  intros Hp Hg. destruct (put_class_covers _ _ Hp) as [H1 _]. destruct (get_class_fits _ _ Hg) as [H2 _]. lia.
Qed.

(* ---- ownership ---- *)
Notation regions l := (map fst l) (only parsing).

Lemma assoc_n_in {A} r (l : list (N * A)) v : assoc_n r l = Some v -> In r (regions l).
Proof.
  induction l as [|[k x] t IH]; cbn; [discriminate|].
  destruct (N.eqb_spec k r); [intros _; left; auto|intro H; right; auto].
Qed.

Lemma assoc_n_notin {A} r (l : list (N * A)) : assoc_n r l = None -> ~ In r (regions l).
Proof.
  induction l as [|[k x] t IH]; cbn; [tauto|].
  destruct (N.eqb_spec k r); [discriminate|]. intros H [E|I]; [congruence|]. now apply IH.
Qed.

Lemma remove_n_in {A} r (l : list (N * A)) x : In x (regions (remove_n r l)) <-> In x (regions l) /\ x <> r.
Proof.
  induction l as [|[k v] t IH]; cbn; [tauto|].
  destruct (N.eqb_spec k r) as [E|NE]; cbn; rewrite IH; subst; split; intros; try tauto.
  - destruct H as [[E|I] N0]; [congruence|tauto].
  - destruct H as [E|[I N0]]; [subst; tauto|tauto].
Qed.

Lemma remove_n_nodup {A} r (l : list (N * A)) : NoDup (regions l) -> NoDup (regions (remove_n r l)).
Proof.
  induction l as [|[k v] t IH]; cbn; [auto|]. intro Q; inversion Q; subst.
  destruct (N.eqb_spec k r); cbn; [auto|]. constructor; [|auto].
  rewrite remove_n_in. tauto.
Qed.

Lemma mem_n_in r l : mem_n r l = true <-> In r l.
Proof.
  unfold mem_n. rewrite existsb_exists. split.
  - intros [x [Hx E]]. apply N.eqb_eq in E. now subst.
  - intro H. exists r. split; [exact H|apply N.eqb_refl].
Qed.

Record oinv (s : ost) : Prop := {
  iv_held_nodup : NoDup (regions (o_held s));
  iv_held_pooled : forall x, In x (regions (o_held s)) -> ~ In x (regions (o_pooled s));
  iv_deliv_fresh : forall x, In x (o_delivered s) -> ~ In x (regions (o_held s)) /\ ~ In x (regions (o_pooled s));
  iv_deliv_nodup : NoDup (o_delivered s);
  iv_below : forall x, In x (regions (o_held s)) \/ In x (regions (o_pooled s)) \/ In x (o_delivered s) -> (x < o_next s)%N
}.

Lemma oinv_init n : oinv (o_init n).
Proof. constructor; cbn; try constructor; try tauto. Qed.

Lemma ostep_inv s e s' : oinv s -> ostep s e = Some s' -> oinv s'.
Proof.
  intros [I1 I2 I3 I4 I5] Hs. destruct e as [r size cap|r cap|r v|r|d v]; cbn [ostep] in Hs.
  - (* OGet *)
    destruct (assoc_n r (o_held s)) eqn:Eh; [discriminate|].
    pose proof (assoc_n_notin _ _ Eh) as Hnh.
    destruct (mem_n r (o_delivered s)) eqn:Em; [discriminate|].
    assert (Hnd : ~ In r (o_delivered s)) by (rewrite <- mem_n_in; congruence).
    destruct (cap <? size); [discriminate|].
    destruct (assoc_n r (o_pooled s)) as [[k c]|] eqn:Ep.
    + destruct (get_class size) as [| |k']; try discriminate.
      destruct ((k =? k') && (c =? cap)); [|discriminate]. inversion Hs; subst s'. clear Hs.
      constructor; cbn [o_held o_pooled o_delivered o_next mk map fst].
      * constructor; assumption.
      * intros x [E|Hx]; rewrite remove_n_in; [subst; tauto|]. intros [Hp _]. exact (I2 x Hx Hp).
      * intros x Hx. destruct (I3 x Hx) as [A B]. split.
        -- intros [E|Hh]; [subst; tauto|tauto].
        -- rewrite remove_n_in. tauto.
      * assumption.
      * intros x [[E|Hx]|[Hx|Hx]].
        -- subst. apply I5. right. left. eapply assoc_n_in; eauto.
        -- apply I5; tauto.
        -- apply remove_n_in in Hx. apply I5; tauto.
        -- apply I5; tauto.
    + pose proof (assoc_n_notin _ _ Ep) as Hnp.
      destruct (N.ltb_spec r (o_next s)) as [L|G]; [discriminate|].
      assert (Hfresh : forall x, In x (regions (o_held s)) \/ In x (regions (o_pooled s)) \/ In x (o_delivered s) -> x <> r)
        by (intros x Hx E; subst; specialize (I5 _ Hx); lia).
      assert (Hnew : forall held', oinv (mk held' (o_pooled s) (o_delivered s) (r + 1)%N (o_heap s)) ->
                       oinv (mk held' (o_pooled s) (o_delivered s) (r + 1)%N (o_heap s))) by auto.
      assert (Hgoal : oinv (mk ((r, cap) :: o_held s) (o_pooled s) (o_delivered s) (r + 1)%N (o_heap s))).
      { constructor; cbn [o_held o_pooled o_delivered o_next mk map fst].
        - constructor; assumption.
        - intros x [E|Hx]; [subst; assumption|auto].
        - intros x Hx. destruct (I3 x Hx) as [A B]. split; [|assumption].
          intros [E|Hh]; [subst; tauto|tauto].
        - assumption.
        - intros x [[E|Hx]|[Hx|Hx]]; [subst; lia| | |]; (assert (x < o_next s)%N by (apply I5; tauto); lia). }
      destruct (get_class size) as [|c|k]; [discriminate| |].
      * destruct (c =? cap); [|discriminate]. inversion Hs; subst s'. exact Hgoal.
      * destruct (cap =? 2 ^ k); [|discriminate]. inversion Hs; subst s'. exact Hgoal.
  - (* OPut *)
    destruct (assoc_n r (o_held s)) as [c|] eqn:Eh; [|discriminate].
    pose proof (assoc_n_in _ _ _ Eh) as Hin.
    destruct (c =? cap); cbn [negb] in Hs; [|discriminate].
    assert (Hnd : ~ In r (o_delivered s)) by (intro Hd; destruct (I3 r Hd); tauto).
    destruct (put_class cap) as [k|]; inversion Hs; subst s'; clear Hs;
      constructor; cbn [o_held o_pooled o_delivered o_next mk map fst].
    + now apply remove_n_nodup.
    + intros x Hx. apply remove_n_in in Hx. intros [E|Hp]; [subst; tauto|]. exact (I2 x (proj1 Hx) Hp).
    + intros x Hx. destruct (I3 x Hx) as [A B]. split.
      * rewrite remove_n_in. tauto.
      * intros [E|Hp]; [subst; tauto|tauto].
    + assumption.
    + intros x [Hx|[[E|Hx]|Hx]].
      * apply remove_n_in in Hx. apply I5; tauto.
      * subst. apply I5; tauto.
      * apply I5; tauto.
      * apply I5; tauto.
    + now apply remove_n_nodup.
    + intros x Hx. apply remove_n_in in Hx. apply I2; tauto.
    + intros x Hx. destruct (I3 x Hx) as [A B]. split; [rewrite remove_n_in; tauto|assumption].
    + assumption.
    + intros x [Hx|[Hx|Hx]]; [apply remove_n_in in Hx|..]; apply I5; tauto.
  - (* OFill *)
    destruct (assoc_n r (o_held s)); [|discriminate]. inversion Hs; subst s'.
    constructor; cbn [o_held o_pooled o_delivered o_next mk]; assumption.
  - (* ORow *)
    destruct (assoc_n r (o_held s)); [|discriminate]. inversion Hs; subst s'. clear Hs.
    assert (Hfresh : forall x, In x (regions (o_held s)) \/ In x (regions (o_pooled s)) \/ In x (o_delivered s) -> x <> o_next s)
      by (intros x Hx E; subst; specialize (I5 _ Hx); lia).
    constructor; cbn [o_held o_pooled o_delivered o_next mk].
    + assumption.
    + assumption.
    + intros x [E|Hx]; [subst; split; intro Hc; eapply Hfresh; eauto|auto].
    + constructor; [intro Hc; eapply Hfresh; eauto|assumption].
    + intros x [Hx|[Hx|[E|Hx]]]; [| |subst; lia|]; (assert (x < o_next s)%N by (apply I5; tauto); lia).
  - (* OMut *)
    destruct (mem_n d (o_delivered s)); [|discriminate]. inversion Hs; subst s'.
    constructor; cbn [o_held o_pooled o_delivered o_next mk]; assumption.
Qed.

Lemma oreplay_inv evs : forall s s', oinv s -> oreplay s evs = Some s' -> oinv s'.
Proof.
  induction evs as [|e t IH]; intros s s' Hi Hr; cbn [oreplay] in Hr; [inversion Hr; subst; assumption|].
  destruct (ostep s e) as [s1|] eqn:E; [|discriminate]. eapply IH; [|exact Hr]. eapply ostep_inv; eauto.
Qed.

(* a step changes the content of a delivered row only when it is the caller overwriting that row *)
Lemma ostep_frame s e s' d : oinv s -> ostep s e = Some s' -> In d (o_delivered s) ->
  (forall v, e <> OMut d v) -> o_heap s' d = o_heap s d.
Proof.
  intros [I1 I2 I3 I4 I5] Hs Hd Hne. destruct e as [r size cap|r cap|r v|r|d' v]; cbn [ostep] in Hs.
  - destruct (assoc_n r (o_held s)); [discriminate|]. destruct (mem_n r (o_delivered s)); [discriminate|].
    destruct (cap <? size); [discriminate|].
    destruct (assoc_n r (o_pooled s)) as [[k c]|].
    + destruct (get_class size); try discriminate. destruct ((k =? k0) && (c =? cap)); [|discriminate]. inversion Hs; reflexivity.
    + destruct (r <? o_next s)%N; [discriminate|]. destruct (get_class size); [discriminate| |].
      * destruct (cap0 =? cap); [|discriminate]. inversion Hs; reflexivity.
      * destruct (cap =? 2 ^ k); [|discriminate]. inversion Hs; reflexivity.
  - destruct (assoc_n r (o_held s)); [|discriminate]. destruct (negb _); [discriminate|].
    destruct (put_class cap); inversion Hs; reflexivity.
  - destruct (assoc_n r (o_held s)) eqn:Eh; [|discriminate]. inversion Hs; subst s'. cbn [o_heap mk]. unfold upd.
    destruct (N.eqb_spec d r) as [E|NE]; [|reflexivity]. subst. destruct (I3 r Hd) as [A _]. exfalso. apply A. eapply assoc_n_in; eauto.
  - destruct (assoc_n r (o_held s)); [|discriminate]. inversion Hs; subst s'. cbn [o_heap mk]. unfold upd.
    destruct (N.eqb_spec d (o_next s)) as [E|NE]; [|reflexivity]. subst. assert (o_next s < o_next s)%N by (apply I5; tauto). lia.
  - destruct (mem_n d' (o_delivered s)); [|discriminate]. inversion Hs; subst s'. cbn [o_heap mk]. unfold upd.
    destruct (N.eqb_spec d d') as [E|NE]; [|reflexivity]. subst. exfalso. exact (Hne v eq_refl).
Qed.

(* C03: in every state any number of interleaved scans can reach, delivered rows are regions of
   their own -- pairwise distinct, never a pooled buffer, never a buffer a scan holds -- and
   nothing but the caller's own write to a row changes that row *)
Lemma ownership_independent n evs s : oreplay (o_init n) evs = Some s ->
  NoDup (o_delivered s) /\
  (forall d, In d (o_delivered s) -> ~ In d (regions (o_held s)) /\ ~ In d (regions (o_pooled s))) /\
  (forall e s' d, ostep s e = Some s' -> In d (o_delivered s) -> (forall v, e <> OMut d v) -> o_heap s' d = o_heap s d).
Proof.
  intro Hr. pose proof (oreplay_inv evs _ _ (oinv_init n) Hr) as Hi.
  split; [apply Hi|]. split; [apply Hi|]. intros e s' d. now apply ostep_frame.
Qed.

(* a row is materialized only from a buffer its scan still holds, which no other scan holds and the pool does not have *)
Lemma row_from_held s r s' : oinv s -> ostep s (ORow r) = Some s' ->
  In r (regions (o_held s)) /\ ~ In r (regions (o_pooled s)) /\
  exists d, o_delivered s' = d :: o_delivered s /\ o_heap s' d = o_heap s r /\ ~ In d (o_delivered s) /\ d <> r.
Proof.
  intros Hi Hs. cbn [ostep] in Hs. destruct (assoc_n r (o_held s)) eqn:Eh; [|discriminate].
  pose proof (assoc_n_in _ _ _ Eh) as Hin. inversion Hs; subst s'. cbn [o_delivered o_heap mk].
  split; [exact Hin|]. split; [now apply (iv_held_pooled s Hi)|].
  exists (o_next s). split; [reflexivity|]. split; [unfold upd; now rewrite N.eqb_refl|].
  split; intro H.
  - assert (o_next s < o_next s)%N by (apply (iv_below s Hi); tauto). lia.
  - subst r. assert (o_next s < o_next s)%N by (apply (iv_below s Hi); tauto). lia.
Qed.

(* ---- readPooledBlockRowData as a program ---- *)
Lemma oget_held s r size cap s' : ostep s (OGet r size cap) = Some s' ->
  o_held s' = (r, cap) :: o_held s /\ assoc_n r (o_held s) = None.
Proof.
  cbn [ostep]. destruct (assoc_n r (o_held s)); [discriminate|].
  destruct (mem_n r (o_delivered s)); [discriminate|]. destruct (cap <? size); [discriminate|].
  destruct (assoc_n r (o_pooled s)) as [[k c]|].
  - destruct (get_class size); try discriminate. destruct ((k =? k0) && (c =? cap)); [|discriminate].
    intro H; inversion H; auto.
  - destruct (r <? o_next s)%N; [discriminate|]. destruct (get_class size); [discriminate| |].
    + destruct (cap0 =? cap); [|discriminate]. intro H; inversion H; auto.
    + destruct (cap =? 2 ^ k); [|discriminate]. intro H; inversion H; auto.
Qed.

Lemma oput_held s r cap s' : ostep s (OPut r cap) = Some s' ->
  o_held s' = remove_n r (o_held s) /\ assoc_n r (o_held s) = Some cap.
Proof.
  cbn [ostep]. destruct (assoc_n r (o_held s)) as [c|]; [|discriminate].
  destruct (Z.eqb_spec c cap) as [E|NE]; cbn [negb]; [|discriminate]. subst c.
  destruct (put_class cap); intro H; inversion H; auto.
Qed.

Lemma assoc_remove_same {A} r (l : list (N * A)) : assoc_n r (remove_n r l) = None.
Proof.
  induction l as [|[k v] t IH]; cbn; [reflexivity|].
  destruct (N.eqb_spec k r) as [E|NE]; [exact IH|]. cbn. destruct (N.eqb_spec k r); [contradiction|exact IH].
Qed.

Lemma oput_enabled s r cap : assoc_n r (o_held s) = Some cap ->
  exists s', ostep s (OPut r cap) = Some s' /\ o_held s' = remove_n r (o_held s).
Proof.
  intro H. cbn [ostep]. rewrite H, Z.eqb_refl. cbn [negb]. destruct (put_class cap); eexists; split; reflexivity.
Qed.

(* C03: for either branch -- and the legacy empty compression value takes the branch of "none" --
   the buffer whose bytes the caller scans is held by this scan when the read returns, with the
   capacity release will put; while it is held no getScanBuffer call of any scan can be handed it;
   release is enabled, and after it the buffer is no longer held, so a second release or a row
   materialized from it afterwards is rejected by the discipline *)
Lemma pooled_read_holds k c d csize ccap dsize dcap s s' evs r :
  pooled_read k c d csize ccap dsize dcap = (evs, r) -> oreplay s evs = Some s' ->
  assoc_n r (o_held s') = Some (if pooled_self k then ccap else dcap) /\
  (forall size cap, ostep s' (OGet r size cap) = None) /\
  exists s'', oreplay s' (pooled_release k ccap dcap r) = Some s'' /\
              assoc_n r (o_held s'') = None /\
              (forall cap, ostep s'' (OPut r cap) = None) /\ ostep s'' (ORow r) = None.
Proof.
  unfold pooled_read, pooled_release. intros Hp Hr.
  assert (Hheld : assoc_n r (o_held s') = Some (if pooled_self k then ccap else dcap)).
  { destruct (pooled_self k); inversion Hp; subst evs r; cbn [oreplay] in Hr.
    - destruct (ostep s (OGet c csize ccap)) as [s1|] eqn:E1; [|discriminate]. inversion Hr; subst s1.
      destruct (oget_held _ _ _ _ _ E1) as [H1 _]. rewrite H1. cbn. now rewrite N.eqb_refl.
    - destruct (ostep s (OGet c csize ccap)) as [s1|] eqn:E1; [|discriminate].
      destruct (ostep s1 (OGet d dsize dcap)) as [s2|] eqn:E2; [|discriminate].
      destruct (ostep s2 (OPut c ccap)) as [s3|] eqn:E3; [|discriminate]. inversion Hr; subst s3.
      destruct (oget_held _ _ _ _ _ E1) as [H1 _]. destruct (oget_held _ _ _ _ _ E2) as [H2 N2].
      destruct (oput_held _ _ _ _ E3) as [H3 _]. rewrite H3, H2. rewrite H1 in N2. cbn in N2.
      destruct (N.eqb_spec c d) as [E|NE]; [discriminate|]. cbn.
      destruct (N.eqb_spec d c) as [E|_]; [congruence|]. cbn. now rewrite N.eqb_refl. }
  split; [exact Hheld|]. split.
  - intros size cap. cbn [ostep]. now rewrite Hheld.
  - destruct (oput_enabled _ _ _ Hheld) as [s'' [Es Eh]]. exists s''. cbn [oreplay]. rewrite Es.
    assert (Hn : assoc_n r (o_held s'') = None) by (rewrite Eh; apply assoc_remove_same).
    split; [reflexivity|]. split; [exact Hn|]. split; [intro cap|]; cbn [ostep]; now rewrite Hn.
Qed.
