(* The compiled row matcher computes exactly the documented semantics:
   compiled_match = sat_bq && sat_rq, for every row, query, tokenizer and regex oracle. *)
From BS Require Import Lib.Bytes Model.Json Model.Expr Model.Matcher Proofs.ExprProofs.
From Coq Require Import List Bool Lia.
Import ListNotations.

Lemma mcond_eqb_eq a b : mcond_eqb a b = true <-> a = b.
Proof.
  destruct a, b; simpl; split; intro H; try discriminate; try (inversion H; subst);
    rewrite ?andb_true_iff, ?str_eqb_eq in *; try (destruct H; subst); try reflexivity; auto; try congruence.
Qed.

Lemma mmem_In c S : mmem c S = true <-> In c S.
Proof.
  unfold mmem. rewrite existsb_exists. split.
  - intros [x [Hx E]]. apply mcond_eqb_eq in E. subst. exact Hx.
  - intro H. exists c. split; [exact H| apply mcond_eqb_eq; reflexivity].
Qed.

Lemma forallb_map_ext {A B} (f : B -> bool) (g : A -> B) (h : A -> bool) l :
  (forall x, In x l -> f (g x) = h x) -> forallb f (map g l) = forallb h l.
Proof. induction l as [|x l IH]; intro H; simpl; [reflexivity|]. rewrite H by (left; reflexivity). rewrite IH; auto. intros y Hy. apply H. right. exact Hy. Qed.

Lemma existsb_map_ext {A B} (f : B -> bool) (g : A -> B) (h : A -> bool) l :
  (forall x, In x l -> f (g x) = h x) -> existsb f (map g l) = existsb h l.
Proof. induction l as [|x l IH]; intro H; simpl; [reflexivity|]. rewrite H by (left; reflexivity). rewrite IH; auto. intros y Hy. apply H. right. exact Hy. Qed.

Section MnodeInd.
  Variable P : mnode -> Prop.
  Hypothesis Ht : P NTrue.
  Hypothesis Hf : P NFalse.
  Hypothesis Hc : forall c, P (NCond c).
  Hypothesis Ha : forall cs, Forall P cs -> P (NAnd cs).
  Hypothesis Ho : forall cs, Forall P cs -> P (NOr cs).
  Fixpoint mnode_ind' (n : mnode) : P n :=
    match n with
    | NTrue => Ht | NFalse => Hf | NCond c => Hc c
    | NAnd cs => Ha cs ((fix go (l : list mnode) : Forall P l :=
                           match l with [] => Forall_nil P | x :: t => Forall_cons x (mnode_ind' x) (go t) end) cs)
    | NOr cs => Ho cs ((fix go (l : list mnode) : Forall P l :=
                           match l with [] => Forall_nil P | x :: t => Forall_cons x (mnode_ind' x) (go t) end) cs)
    end.
End MnodeInd.

Section M.
  Variable tok : str -> list str.
  Variable re : str -> str -> bool.
  Variable es : list em.

  (* the documented truth of one condition on the row's emissions *)
  Definition truth (c : mcond) : bool :=
    match c with
    | MField f => sat_bcond tok es (CField f)
    | MToken t => sat_bcond tok es (CToken t)
    | MFieldToken f t => sat_bcond tok es (CFieldToken f t)
    | MRegex f p => existsb (fun pt => at_or_beneath f (fst pt) && re p (snd pt)) (text_leaves es)
    end.

  Fixpoint evalT (n : mnode) : bool :=
    match n with
    | NTrue => true | NFalse => false | NCond c => truth c
    | NAnd cs => forallb evalT cs | NOr cs => existsb evalT cs
    end.

  Definition sound (S : list mcond) : Prop := forall c, In c S -> truth c = true.
  Definition complete_for (S : list mcond) (n : mnode) : Prop := forall c, In c (conds_of n) -> truth c = true -> In c S.

  Lemma eval_sound S n : sound S -> eval_node S n = true -> evalT n = true.
  Proof.
    intro Hs. induction n as [| |c|cs IH|cs IH] using mnode_ind'; simpl; intro H; try assumption.
    - apply Hs. apply mmem_In. exact H.
    - rewrite forallb_forall in *. rewrite Forall_forall in IH. intros x Hx. auto.
    - apply existsb_exists in H as [x [Hx H]]. apply existsb_exists. exists x. rewrite Forall_forall in IH. auto.
  Qed.

  Lemma eval_complete S n : complete_for S n -> evalT n = true -> eval_node S n = true.
  Proof.
    induction n as [| |c|cs IH|cs IH] using mnode_ind'; simpl; intros Hc H; try assumption.
    - apply mmem_In. apply Hc; [left; reflexivity| exact H].
    - rewrite forallb_forall in *. rewrite Forall_forall in IH. intros x Hx. apply IH; auto.
      intros c Hin Ht. apply Hc; [|exact Ht]. simpl. apply in_flat_map. exists x. auto.
    - apply existsb_exists in H as [x [Hx H]]. apply existsb_exists. exists x. split; [exact Hx|].
      rewrite Forall_forall in IH. apply IH; auto.
      intros c Hin Ht. apply Hc; [|exact Ht]. simpl. apply in_flat_map. exists x. auto.
  Qed.

  (* ---- compilation keeps the meaning ---- *)
  Lemma compile_b_sem e : evalT (compile_b e) = sat_bexpr tok es e.
  Proof.
    induction e as [c|cs IH|cs IH|] using bexpr_ind'; try reflexivity.
    - destruct c as [[f|t|f t|]|]; reflexivity.
    - simpl. rewrite Forall_forall in IH. apply forallb_map_ext. exact IH.
    - destruct cs as [|c cs']; [reflexivity|].
      change (compile_b (BOr (c :: cs'))) with (NOr (map compile_b (c :: cs'))).
      rewrite Forall_forall in IH.
      change (evalT (NOr (map compile_b (c :: cs')))) with (existsb evalT (map compile_b (c :: cs'))).
      change (sat_bexpr tok es (BOr (c :: cs'))) with (existsb (sat_bexpr tok es) (c :: cs')).
      apply existsb_map_ext. exact IH.
  Qed.

  Lemma compile_r_sem e : evalT (compile_r e) = sat_rexpr re es e.
  Proof.
    induction e as [c|cs IH|cs IH|] using rexpr_ind'; try reflexivity.
    - destruct c as [[f p]|]; [|reflexivity]. simpl. unfold sat_rcond. destruct (nonempty f); reflexivity.
    - simpl. rewrite Forall_forall in IH. apply forallb_map_ext. exact IH.
    - destruct cs as [|c cs']; [reflexivity|].
      change (compile_r (ROr (c :: cs'))) with (NOr (map compile_r (c :: cs'))).
      rewrite Forall_forall in IH.
      change (evalT (NOr (map compile_r (c :: cs')))) with (existsb evalT (map compile_r (c :: cs'))).
      change (sat_rexpr re es (ROr (c :: cs'))) with (existsb (sat_rexpr re es) (c :: cs')).
      apply existsb_map_ext. exact IH.
  Qed.

  Lemma compile_root_sem qb qr :
    evalT (compile_root qb qr) = sat_bq tok es qb && sat_rq re es qr.
  Proof.
    unfold compile_root. simpl. rewrite andb_true_r. f_equal.
    - destruct qb; [apply compile_b_sem| reflexivity].
    - destruct qr as [e|]; [|reflexivity]. simpl. rewrite compile_r_sem. apply rcompile_sem.
  Qed.

  (* ---- the walk ---- *)
  Lemma hits_truth c e : In e es -> is_regex c = false -> hits tok c e = true -> truth c = true.
  Proof.
    intros Hin Hnr Hh. destruct c as [f|t|f t|f p]; simpl in *; try discriminate.
    - apply existsb_exists. exists e. auto.
    - destruct e as [p [| |x]]; simpl in Hh; try discriminate.
      apply existsb_exists. exists (p, x). split; [apply in_text_leaves; exact Hin| exact Hh].
    - destruct e as [p [| |x]]; simpl in Hh; try discriminate.
      apply existsb_exists. exists (p, x). split; [apply in_text_leaves; exact Hin| exact Hh].
  Qed.

  Lemma truth_hits c : is_regex c = false -> truth c = true -> exists e, In e es /\ hits tok c e = true.
  Proof.
    intros Hnr Ht. destruct c as [f|t|f t|f p]; simpl in *; try discriminate.
    - apply existsb_exists in Ht as [e [He H]]. exists e. auto.
    - apply existsb_exists in Ht as [[p x] [He H]]. exists (p, LText x). split; [apply in_text_leaves; exact He| exact H].
    - apply existsb_exists in Ht as [[p x] [He H]]. exists (p, LText x). split; [apply in_text_leaves; exact He| exact H].
  Qed.

  (* walking a suffix [l] of the emissions from a sound state that already holds every non-regex
     condition hit by the emissions before [l] *)
  Lemma walk_phase_spec conds root : forall l S,
    (forall c, In c conds -> is_regex c = false) ->
    (forall e, In e l -> In e es) ->
    sound S -> eval_node S root = false ->
    let '(m, S') := walk_phase tok conds root S l in
    sound S' /\ (forall c, In c S -> In c S') /\
    (m = true -> eval_node S' root = true) /\
    (m = false -> eval_node S' root = false /\
                  forall c e, In c conds -> In e l -> hits tok c e = true -> In c S').
  Proof.
    induction l as [|e l IH]; intros S Hnr Hsub Hs Hroot; simpl.
    - split; [exact Hs|]. split; [auto|]. split; [discriminate|]. intros _. split; [exact Hroot| intros c e _ []].
    - set (new := filter (fun c => negb (mmem c S) && hits tok c e) conds).
      assert (Hs' : sound (new ++ S)).
      { intros c Hc. apply in_app_or in Hc as [Hc|Hc]; [|apply Hs; exact Hc].
        apply filter_In in Hc as [Hc1 Hc2]. apply andb_true_iff in Hc2 as [_ Hh].
        eapply hits_truth; eauto. apply Hsub. left. reflexivity. }
      destruct (nonempty_list new && eval_node (new ++ S) root) eqn:Ex.
      + apply andb_true_iff in Ex as [_ Ev]. split; [exact Hs'|]. split; [intros c Hc; apply in_or_app; right; exact Hc|].
        split; [intros _; exact Ev| discriminate].
      + assert (Hroot' : eval_node (new ++ S) root = false).
        { destruct new as [|c0 new'] eqn:En; [simpl; exact Hroot|]. simpl in Ex. exact Ex. }
        specialize (IH (new ++ S) Hnr (fun x Hx => Hsub x (or_intror Hx)) Hs' Hroot').
        destruct (walk_phase tok conds root (new ++ S) l) as [m S'] eqn:Ew.
        destruct IH as [I1 [I2 [I3 I4]]]. split; [exact I1|].
        split; [intros c Hc; apply I2; apply in_or_app; right; exact Hc|]. split; [exact I3|].
        intro Hm. destruct (I4 Hm) as [I6 I5]. split; [exact I6|].
        intros c e' Hc [<-|He'] Hh.
        *
          apply I2. destruct (mmem c S) eqn:Em.
          -- apply in_or_app. right. apply mmem_In. exact Em.
          -- apply in_or_app. left. apply filter_In. split; [exact Hc|]. rewrite Em, Hh. reflexivity.
        * eapply I5; eauto.
  Qed.

  (* ---- the lazy regex phase ---- *)
  Lemma lazy_phase_spec root : forall rcs S,
    (forall c, In c rcs -> is_regex c = true) ->
    sound S ->
    (forall c, In c (conds_of root) -> truth c = true -> In c S \/ In c rcs) ->
    lazy_phase re root es S rcs = evalT root.
  Proof.
    induction rcs as [|c rcs IH]; intros S Hr Hs Hc; simpl.
    - destruct (evalT root) eqn:E.
      + apply eval_complete; [|exact E]. intros c Hin Ht. destruct (Hc c Hin Ht) as [H|[]]. exact H.
      + destruct (eval_node S root) eqn:E'; [|reflexivity]. rewrite (eval_sound S root Hs E') in E. discriminate.
    - assert (Hcr : is_regex c = true) by (apply Hr; left; reflexivity).
      destruct c as [f|t|f t|f p]; try discriminate. simpl regex_hit.
      destruct (existsb _ (text_leaves es)) eqn:Eh.
      + assert (Hs' : sound (MRegex f p :: S)).
        { intros c [<-|Hc']; [simpl; exact Eh| apply Hs; exact Hc']. }
        destruct (eval_node (MRegex f p :: S) root) eqn:Ev.
        * symmetry. eapply eval_sound; eauto.
        * apply IH; [intros c' Hc'; apply Hr; right; exact Hc'| exact Hs'|].
          intros c' Hin Ht. destruct (Hc c' Hin Ht) as [H|[<-|H]]; [left; right; exact H| left; left; reflexivity| right; exact H].
      + apply IH; [intros c' Hc'; apply Hr; right; exact Hc'| exact Hs|].
        intros c' Hin Ht. destruct (Hc c' Hin Ht) as [H|[<-|H]]; [left; exact H| | right; exact H].
        simpl in Ht. rewrite Eh in Ht. discriminate.
  Qed.

  Lemma is_regex_split c : is_regex c = true \/ is_regex c = false.
  Proof. destruct (is_regex c); auto. Qed.

  Theorem compiled_match_correct qb qr :
    compiled_match tok re qb qr es = sat_bq tok es qb && sat_rq re es qr.
  Proof.
    rewrite <- compile_root_sem. unfold compiled_match.
    set (root := compile_root qb qr). set (conds := conds_of root).
    assert (Hempty : sound []) by (intros c []).
    destruct (eval_node [] root) eqn:E0.
    { symmetry. eapply eval_sound; eauto. }
    destruct (eval_node conds root) eqn:Eall; cbn [negb].
    2:{ destruct (evalT root) eqn:ET; [|reflexivity].
        rewrite (eval_complete conds root) in Eall; [discriminate| |exact ET]. intros c Hc _. exact Hc. }
    set (nr := filter (fun c => negb (is_regex c)) conds).
    set (rcs := filter is_regex conds).
    pose proof (walk_phase_spec nr root es []) as W.
    assert (Hnr : forall c, In c nr -> is_regex c = false).
    { intros c Hc. apply filter_In in Hc as [_ H]. apply negb_true_iff in H. exact H. }
    specialize (W Hnr (fun e H => H) Hempty E0).
    destruct (walk_phase tok nr root [] es) as [m S0] eqn:Ew.
    destruct W as [W1 [_ [W3 W4]]].
    destruct m.
    { symmetry. eapply eval_sound; eauto. }
    destruct (W4 eq_refl) as [W5 W6].
    (* S0 holds every true non-regex condition *)
    assert (Hcomp : forall c, In c conds -> truth c = true -> In c S0 \/ In c rcs).
    { intros c Hc Ht. destruct (is_regex_split c) as [Hr|Hr].
      - right. apply filter_In. auto.
      - left. destruct (truth_hits c Hr Ht) as [e [He Hh]]. eapply W6; eauto.
        apply filter_In. split; [exact Hc| rewrite Hr; reflexivity]. }
    destruct rcs as [|r0 rcs'] eqn:Er.
    - destruct (evalT root) eqn:ET; [|reflexivity].
      rewrite (eval_complete S0 root) in W5; [discriminate| |exact ET].
      intros c Hc Ht. destruct (Hcomp c Hc Ht) as [H|[]]. exact H.
    - rewrite <- Er in *.
      destruct (eval_node (rcs ++ S0) root) eqn:Ep; cbn [negb].
      + apply lazy_phase_spec; auto.
        intros c Hc. apply filter_In in Hc as [_ H]. exact H.
      + destruct (evalT root) eqn:ET; [|reflexivity].
        rewrite (eval_complete (rcs ++ S0) root) in Ep; [discriminate| |exact ET].
        intros c Hc Ht. apply in_or_app. destruct (Hcomp c Hc Ht); auto.
  Qed.
End M.
