(* Family T — the framing checks accept exactly the metadata whose extents are in bounds,
   and never compute with a wrapped value (Model/Validate.v). *)
From BS Require Import Lib.Bytes Lib.Wrap64 Model.Validate.
From Coq Require Import List ZArith NArith Bool Lia.
Import ListNotations.
Open Scope Z_scope.

Definition block_i64 (b : blockJ) : Prop := i64 (rdo b) /\ i64 (rds b) /\ i64 (bfo b) /\ i64 (bfs b).
Definition meta_i64 (m : metaJ) : Prop := i64 (m_roff m) /\ i64 (m_rsize m) /\ i64 (m_ffs m) /\ Forall block_i64 (m_blocks m).

(* a block's filter section lies inside [rs, re] (a block without a section is always fine) *)
Definition section_in (rs re : Z) (b : blockJ) : Prop :=
  0 <= bfs b /\ (bfs b = 0 \/ (rs <= bfo b /\ bfo b + bfs b <= re)).

Definition block_in (roff rend : Z) (b : blockJ) : Prop :=
  0 <= rdo b /\ 0 <= rds b /\ rdo b + rds b <= roff /\ section_in roff rend b.

Definition meta_in (m : metaJ) (limit : Z) : Prop :=
  0 <= m_roff m /\ 0 <= m_rsize m /\ m_roff m + m_rsize m <= limit /\
  Forall (block_in (m_roff m) (m_roff m + m_rsize m)) (m_blocks m).

Lemma add64_small a b : i64 (a + b) -> add64 a b = a + b.
Proof. intro H. unfold add64. now apply wrap64_id. Qed.

Lemma sub64_small a b : i64 (a - b) -> sub64 a b = a - b.
Proof. intro H. unfold sub64. now apply wrap64_id. Qed.

Ltac i64_unfold := unfold i64, Min64, Max64 in *.

Lemma validate_fs_spec b rs re :
  i64 rs -> i64 re -> i64 (bfo b) -> i64 (bfs b) -> 0 <= rs -> rs <= re ->
  (validate_fs b rs re = true <-> section_in rs re b).
Proof.
  intros Irs Ire Io Is Hrs Hre. unfold validate_fs, section_in.
  destruct (Z.ltb_spec (bfs b) 0) as [L|G]; [split; [discriminate|lia]|].
  destruct (Z.eqb_spec (bfs b) 0) as [E|NE]; [split; [lia|reflexivity]|].
  destruct (Z.ltb_spec (bfo b) rs) as [L1|G1]; cbn [orb negb]; [split; [discriminate|lia]|].
  destruct (Z.gtb_spec (bfo b) re) as [L2|G2]; cbn [orb negb]; [split; [discriminate|lia]|].
  rewrite sub64_small by (i64_unfold; lia).
  destruct (Z.gtb_spec (bfs b) (re - bfo b)) as [L3|G3]; cbn [negb]; split; try discriminate; try lia; reflexivity.
Qed.

Lemma validate_block_spec roff rend b :
  i64 roff -> i64 rend -> block_i64 b -> 0 <= roff -> roff <= rend ->
  (validate_block roff rend b = true <-> block_in roff rend b).
Proof.
  intros Ir Ie (Io & Is & Ifo & Ifs) Hr Hre. unfold validate_block, block_in.
  destruct (Z.ltb_spec (rdo b) 0) as [L|G]; cbn [orb]; [split; [discriminate|lia]|].
  destruct (Z.ltb_spec (rds b) 0) as [L1|G1]; cbn [orb]; [split; [discriminate|lia]|].
  destruct (Z.gtb_spec (rdo b) roff) as [L2|G2]; cbn [orb]; [split; [discriminate|lia]|].
  rewrite sub64_small by (i64_unfold; lia).
  destruct (Z.gtb_spec (rds b) (roff - rdo b)) as [L3|G3]; [split; [discriminate|lia]|].
  rewrite (validate_fs_spec b roff rend Ir Ie Ifo Ifs Hr Hre). split; [intro H; split; [lia|split; [lia|split; [lia|exact H]]]|intros (_ & _ & _ & H); exact H].
Qed.

(* C19: validate accepts exactly in-bounds metadata; no intermediate value wraps *)
Lemma validate_spec m limit : meta_i64 m -> i64 limit -> (validate m limit = true <-> meta_in m limit).
Proof.
  intros (Ir & Is & _ & Ib) Il. unfold validate, meta_in.
  destruct (Z.ltb_spec (m_roff m) 0) as [L|G]; cbn [orb]; [split; [discriminate|lia]|].
  destruct (Z.ltb_spec (m_rsize m) 0) as [L1|G1]; cbn [orb]; [split; [discriminate|lia]|].
  destruct (Z.ltb_spec limit 0) as [L2|G2]; cbn [orb]; [split; [discriminate|lia]|].
  destruct (Z.gtb_spec (m_roff m) limit) as [L3|G3]; cbn [orb]; [split; [discriminate|lia]|].
  rewrite sub64_small by (i64_unfold; lia).
  destruct (Z.gtb_spec (m_rsize m) (limit - m_roff m)) as [L4|G4]; [split; [discriminate|lia]|].
  rewrite add64_small by (i64_unfold; lia).
  rewrite forallb_forall, Forall_forall. rewrite Forall_forall in Ib.
  split.
  - intro H. split; [lia|split; [lia|split; [lia|]]]. intros b Hb.
    apply (validate_block_spec (m_roff m) (m_roff m + m_rsize m) b); try (i64_unfold; lia); auto.
  - intros (_ & _ & _ & H) b Hb.
    apply (validate_block_spec (m_roff m) (m_roff m + m_rsize m) b); try (i64_unfold; lia); auto.
Qed.

Lemma validate_bounds m limit : meta_i64 m -> i64 limit -> validate m limit = true -> meta_in m limit.
Proof. intros. now apply validate_spec. Qed.

(* planBlockFilterReads: the overflow test catches exactly the wrapped sums *)
Lemma plan_reads_spec blocks roff rsize :
  i64 roff -> i64 rsize -> Forall block_i64 blocks ->
  match plan_reads blocks roff rsize with
  | Some (rs, re, has) =>
      rs = roff /\ re = roff + rsize /\ 0 <= rs /\ rs <= re /\ i64 re /\
      Forall (section_in rs re) blocks /\ (has = true <-> Exists (fun b => 0 < bfs b) blocks)
  | None =>
      roff < 0 \/ rsize < 0 \/ Max64 < roff + rsize \/ ~ Forall (section_in roff (roff + rsize)) blocks
  end.
Proof.
  intros Ir Is Ib. unfold plan_reads.
  destruct (Z.ltb_spec roff 0) as [L|G]; cbn [orb]; [lia|].
  destruct (Z.ltb_spec rsize 0) as [L1|G1]; cbn [orb]; [lia|].
  destruct (add64_nonneg_cases roff rsize G G1 Ir Is) as [[Hle E]|[Hgt [E Hneg]]].
  - rewrite E. destruct (Z.ltb_spec (roff + rsize) roff) as [L2|G2]; [lia|].
    assert (Ie : i64 (roff + rsize)) by (i64_unfold; lia).
    destruct (forallb (fun b => validate_fs b roff (roff + rsize)) blocks) eqn:F.
    + rewrite forallb_forall in F. split; [reflexivity|split; [reflexivity|split; [lia|split; [lia|split; [exact Ie|split; [|split]]]]]].
      * rewrite Forall_forall in *. intros b Hb. destruct (Ib b Hb) as (_ & _ & Io & Iss).
        apply (validate_fs_spec b roff (roff + rsize)); auto; lia.
      * rewrite existsb_exists, Exists_exists. intros [b [Hb H]]. exists b. split; [exact Hb|]. apply Z.gtb_lt in H. lia.
      * rewrite existsb_exists, Exists_exists. intros [b [Hb H]]. exists b. split; [exact Hb|]. apply Z.gtb_lt. lia.
    + right. right. right. intro H. rewrite Forall_forall in *.
      assert (forallb (fun b => validate_fs b roff (roff + rsize)) blocks = true); [|congruence].
      apply forallb_forall. intros b Hb. destruct (Ib b Hb) as (_ & _ & Io & Iss).
      apply (validate_fs_spec b roff (roff + rsize)); auto; lia.
  - destruct (Z.ltb_spec (add64 roff rsize) roff) as [L2|G2]; [|lia]. right. right. left. lia.
Qed.

(* Why the model carries the wrap-around: the same check written by adding offset and size first
   (what a careless rewrite of validate would do) accepts metadata that is out of bounds. *)
Definition validate_additive (m : metaJ) (limit : Z) : bool :=
  if (m_roff m <? 0) || (m_rsize m <? 0) then false
  else if (limit <? 0) || (add64 (m_roff m) (m_rsize m) >? limit) then false
  else true.

Lemma validate_additive_unsound :
  exists m limit, meta_i64 m /\ i64 limit /\ validate_additive m limit = true /\ ~ meta_in m limit /\ validate m limit = false.
Proof.
  exists {| m_roff := 1; m_rsize := Max64; m_ffs := 0; m_cnt := (0, 0, 0); m_blocks := [] |}, 1000.
  split; [unfold meta_i64, i64, Min64, Max64; cbn; repeat split; try lia; constructor|].
  split; [unfold i64, Min64, Max64; lia|].
  split; [vm_compute; reflexivity|].
  split; [unfold meta_in, Max64; cbn; lia|vm_compute; reflexivity].
Qed.
