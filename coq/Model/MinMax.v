(* Family M: min_max.go (ConvertToMinMaxInt64, toInt64, clampFloatToInt64,
   UpdateMinMaxIndex), query.go (Evaluate{String,Numeric,MinMax}Condition,
   evaluatePrefilterExpression/Condition, FilterDataBlocks),
   merge.go (mergeMinMaxIndexes).  Executable definitions only. *)
From BS Require Export Lib.Bytes.
Open Scope Z_scope.

Definition MaxInt64 : Z := 9223372036854775807.
Definition MinInt64 : Z := -9223372036854775808.
Definition in64 (z : Z) : Prop := MinInt64 <= z <= MaxInt64.
Definition in64b (z : Z) : bool := (MinInt64 <=? z) && (z <=? MaxInt64).

(* ---- Go values handed to ConvertToMinMaxInt64 ---- *)

(* a finite float is m * 2^e exactly (m, e integers; e may be negative) *)
Inductive fl := FNaN | FInf (neg : bool) | FFin (m e : Z).

(* kind: signed integer kinds carry their value; unsigned likewise (0 <= z < 2^64);
   [named] says the dynamic type is a defined type (e.g. time.Duration) rather
   than the predeclared one. *)
Inductive gv :=
| GInt (named : bool) (z : Z)
| GUint (named : bool) (z : Z)
| GFloat (named : bool) (f : fl)
| GOther.

(* exact value as a fraction num/den, den > 0; None for NaN / non numeric; infinities separate *)
Inductive exact := XFin (num den : Z) | XPosInf | XNegInf.

Definition pow2 (e : Z) : Z := 2 ^ e.

Definition fl_exact (f : fl) : option exact :=
  match f with
  | FNaN => None
  | FInf neg => Some (if neg then XNegInf else XPosInf)
  | FFin m e => if 0 <=? e then Some (XFin (m * pow2 e) 1) else Some (XFin m (pow2 (- e)))
  end.

Definition gv_exact (v : gv) : option exact :=
  match v with
  | GInt _ z => Some (XFin z 1)
  | GUint _ z => Some (XFin z 1)
  | GFloat _ f => fl_exact f
  | GOther => None
  end.

(* clampFloatToInt64 applied to an integral float value z *)
Definition clamp (z : Z) : Z :=
  if MaxInt64 + 1 <=? z then MaxInt64
  else if z <=? MinInt64 then MinInt64
  else z.

Definition zfloor (n d : Z) : Z := n / d.
Definition zceil (n d : Z) : Z := - ((- n) / d).

(* floatToMinMaxInt64 *)
Definition conv_float (f : fl) : option (Z * Z) :=
  match fl_exact f with
  | None => None
  | Some XPosInf => Some (MaxInt64, MaxInt64)
  | Some XNegInf => Some (MinInt64, MinInt64)
  | Some (XFin n d) => Some (clamp (zfloor n d), clamp (zceil n d))
  end.

(* clampUint64ToInt64 *)
Definition clamp_u (z : Z) : Z := if MaxInt64 <? z then MaxInt64 else z.

(* ConvertToMinMaxInt64.  [named_ok] is the behaviour for defined numeric
   types: the pinned tree's type switch does not match them (false); the
   repaired code converts by reflect kind (true). *)
Definition conv_gen (named_ok : bool) (v : gv) : option (Z * Z) :=
  match v with
  | GInt named z => if named && negb named_ok then None else Some (z, z)
  | GUint named z => if named && negb named_ok then None else Some (clamp_u z, clamp_u z)
  | GFloat named f => if named && negb named_ok then None else conv_float f
  | GOther => None
  end.

(* the code as it is in /repo now (after fix D1) *)
Definition conv := conv_gen true.
(* the pinned tree before fix D1 *)
Definition conv_pinned := conv_gen false.

(* UpdateMinMaxIndex *)
Definition update_mm (idx : Z * Z) (nmin nmax : Z) : Z * Z :=
  let '(mn, mx) := idx in
  ((if nmin <? mn then nmin else mn), (if mx <? nmax then nmax else mx)).

(* ---- conditions ---- *)
Inductive op := OpEQ | OpNE | OpGT | OpGTE | OpLT | OpLTE | OpIN | OpNOTIN | OpBETWEEN | OpNOTBETWEEN | OpUnknown.

Record ncond := { n_op : op; n_val : Z; n_vals : list Z; n_min : Z; n_max : Z }.
Record scond := { s_op : op; s_val : str; s_vals : list str; s_min : str; s_max : str }.

(* comparisons of an exact value with an integer *)
Definition xlt (v : exact) (x : Z) : bool :=   (* v < x *)
  match v with XFin n d => n <? x * d | XPosInf => false | XNegInf => true end.
Definition xgt (v : exact) (x : Z) : bool :=   (* v > x *)
  match v with XFin n d => x * d <? n | XPosInf => true | XNegInf => false end.
Definition xeq (v : exact) (x : Z) : bool :=
  match v with XFin n d => n =? x * d | _ => false end.

(* mathematical truth of "value satisfies condition" *)
Definition val_sat (v : exact) (c : ncond) : bool :=
  match n_op c with
  | OpEQ => xeq v (n_val c)
  | OpNE => negb (xeq v (n_val c))
  | OpGT => xgt v (n_val c)
  | OpGTE => negb (xlt v (n_val c))
  | OpLT => xlt v (n_val c)
  | OpLTE => negb (xgt v (n_val c))
  | OpIN => existsb (xeq v) (n_vals c)
  | OpNOTIN => negb (existsb (xeq v) (n_vals c))
  | OpBETWEEN => negb (xlt v (n_min c)) && negb (xgt v (n_max c))
  | OpNOTBETWEEN => xlt v (n_min c) || xgt v (n_max c)
  | OpUnknown => false
  end.

(* EvaluateNumericCondition (on an int64 value) *)
Definition eval_numeric (value : Z) (c : ncond) : bool :=
  match n_op c with
  | OpEQ => value =? n_val c
  | OpNE => negb (value =? n_val c)
  | OpGT => n_val c <? value
  | OpGTE => n_val c <=? value
  | OpLT => value <? n_val c
  | OpLTE => value <=? n_val c
  | OpIN => existsb (Z.eqb value) (n_vals c)
  | OpNOTIN => negb (existsb (Z.eqb value) (n_vals c))
  | OpBETWEEN => (n_min c <=? value) && (value <=? n_max c)
  | OpNOTBETWEEN => (value <? n_min c) || (n_max c <? value)
  | OpUnknown => false
  end.

(* EvaluateStringCondition *)
Definition eval_string (value : str) (c : scond) : bool :=
  match s_op c with
  | OpEQ => str_eqb value (s_val c)
  | OpNE => negb (str_eqb value (s_val c))
  | OpGT => str_ltb (s_val c) value
  | OpGTE => str_leb (s_val c) value
  | OpLT => str_ltb value (s_val c)
  | OpLTE => str_leb value (s_val c)
  | OpIN => existsb (str_eqb value) (s_vals c)
  | OpNOTIN => negb (existsb (str_eqb value) (s_vals c))
  | OpBETWEEN => str_leb (s_min c) value && str_leb value (s_max c)
  | OpNOTBETWEEN => str_ltb value (s_min c) || str_ltb (s_max c) value
  | OpUnknown => false
  end.

(* EvaluateMinMaxCondition *)
Definition eval_minmax (idx : Z * Z) (c : ncond) : bool :=
  let '(mn, mx) := idx in
  let satA := mx =? MaxInt64 in
  let satB := mn =? MinInt64 in
  match n_op c with
  | OpEQ => (mn <=? n_val c) && (n_val c <=? mx)
  | OpNE => negb (mn =? n_val c) || negb (mx =? n_val c) || satA || satB
  | OpGT => (n_val c <? mx) || satA
  | OpGTE => n_val c <=? mx
  | OpLT => (mn <? n_val c) || satB
  | OpLTE => mn <=? n_val c
  | OpIN => existsb (fun v => (mn <=? v) && (v <=? mx)) (n_vals c)
  | OpNOTIN => true
  | OpBETWEEN => (mn <=? n_max c) && (n_min c <=? mx)
  | OpNOTBETWEEN => (mn <? n_min c) || (n_max c <? mx) || satA || satB
  | OpUnknown => false
  end.

(* ---- prefilter trees ---- *)
Inductive pcond :=
| PPartition (c : option scond)
| PMinMax (field : str) (c : option ncond)
| PUnknownCond.

(* PrefilterExpression: Condition node with possibly nil condition, And, Or, unknown type *)
Inductive pexpr :=
| PCond (c : option pcond)
| PAnd (children : list pexpr)
| POr (children : list pexpr)
| PUnknown.

Record blockmeta := { b_partition : str; b_mm : list (str * (Z * Z)) }.

Fixpoint assoc {A} (k : str) (l : list (str * A)) : option A :=
  match l with
  | [] => None
  | (k', v) :: t => if str_eqb k k' then Some v else assoc k t
  end.

(* evaluatePrefilterCondition *)
Definition eval_pcond (b : blockmeta) (c : pcond) : bool :=
  match c with
  | PPartition None => true
  | PPartition (Some sc) =>
      match b_partition b with
      | [] => false
      | _ => eval_string (b_partition b) sc
      end
  | PMinMax _ None => true
  | PMinMax f (Some nc) =>
      match assoc f (b_mm b) with
      | None => false
      | Some idx => eval_minmax idx nc
      end
  | PUnknownCond => false
  end.

(* evaluatePrefilterExpression *)
Fixpoint eval_pexpr (b : blockmeta) (e : pexpr) : bool :=
  match e with
  | PCond None => true
  | PCond (Some c) => eval_pcond b c
  | PAnd cs => forallb (eval_pexpr b) cs
  | POr cs => existsb (eval_pexpr b) cs
  | PUnknown => false
  end.

(* EvaluateDataBlockMetadata / FilterDataBlocks: query = None is a nil *QueryPrefilter
   or a nil Expression *)
Definition block_passes (q : option pexpr) (b : blockmeta) : bool :=
  match q with None => true | Some e => eval_pexpr b e end.

Definition filter_blocks (q : option pexpr) (bs : list blockmeta) : list blockmeta :=
  filter (block_passes q) bs.

(* ---- row-level truth of a prefilter (DESIGN section 7.8) ---- *)
Record prow := { r_partition : str; r_vals : list (str * gv) }.

Definition row_pcond (r : prow) (c : pcond) : bool :=
  match c with
  | PPartition None => true
  | PPartition (Some sc) =>
      match r_partition r with [] => false | _ => eval_string (r_partition r) sc end
  | PMinMax _ None => true
  | PMinMax f (Some nc) =>
      match assoc f (r_vals r) with
      | None => false
      | Some v => match gv_exact v with None => false | Some x => val_sat x nc end
      end
  | PUnknownCond => false
  end.

Fixpoint row_pexpr (r : prow) (e : pexpr) : bool :=
  match e with
  | PCond None => true
  | PCond (Some c) => row_pcond r c
  | PAnd cs => forallb (row_pexpr r) cs
  | POr cs => existsb (row_pexpr r) cs
  | PUnknown => false
  end.

(* ---- index maintenance: ingest loop and merge ---- *)

(* one row's contribution for the configured keys *)
Fixpoint index_row (keys : list str) (r : prow) (mm : list (str * (Z * Z))) : list (str * (Z * Z)) :=
  match keys with
  | [] => mm
  | k :: ks =>
      let mm' :=
        match assoc k (r_vals r) with
        | None => mm
        | Some v =>
            match conv v with
            | None => mm
            | Some (lo, hi) =>
                match assoc k mm with
                | Some idx => (k, update_mm idx lo hi) :: mm
                | None => (k, (lo, hi)) :: mm
                end
            end
        end in
      index_row ks r mm'
  end.

Definition index_rows (keys : list str) (rs : list prow) : list (str * (Z * Z)) :=
  fold_left (fun mm r => index_row keys r mm) rs [].

(* mergeMinMaxIndexes (as an association list, first binding wins) *)
Fixpoint merge_mm (m1 m2 : list (str * (Z * Z))) : list (str * (Z * Z)) :=
  match m2 with
  | [] => m1
  | (k, (mn2, mx2)) :: t =>
      match assoc k m1 with
      | Some idx => merge_mm ((k, update_mm idx mn2 mx2) :: m1) t
      | None => merge_mm ((k, (mn2, mx2)) :: m1) t
      end
  end.
