(* Family R: the compiled row matcher (row_matcher.go: compileBloomExpression,
   compileRegexExpression, compiledRowMatcher.match / matchLeafTokens): condition table,
   monotone satisfaction flags, early exit during the walk, lazy regex phase.
   Abstraction: a flag is kept per distinct condition rather than per occurrence (two
   occurrences of one condition are tested by the same loop at the same emission, so they
   always flip together). Executable only. *)
From BS Require Export Lib.Bytes Model.Json Model.Expr.
Open Scope N_scope.

Inductive mcond :=
| MField (f : str) | MToken (t : str) | MFieldToken (f t : str) | MRegex (f p : str).

Definition mcond_eqb (a b : mcond) : bool :=
  match a, b with
  | MField f, MField g => str_eqb f g
  | MToken t, MToken u => str_eqb t u
  | MFieldToken f t, MFieldToken g u => str_eqb f g && str_eqb t u
  | MRegex f p, MRegex g q => str_eqb f g && str_eqb p q
  | _, _ => false
  end.

Definition mmem (c : mcond) (S : list mcond) : bool := existsb (mcond_eqb c) S.

Inductive mnode := NTrue | NFalse | NCond (c : mcond) | NAnd (cs : list mnode) | NOr (cs : list mnode).

(* compileBloomExpression *)
Fixpoint compile_b (e : bexpr) : mnode :=
  match e with
  | BCond None => NTrue
  | BCond (Some (CField f)) => NCond (MField f)
  | BCond (Some (CToken t)) => NCond (MToken t)
  | BCond (Some (CFieldToken f t)) => NCond (MFieldToken f t)
  | BCond (Some CUnk) => NFalse
  | BAnd cs => NAnd (map compile_b cs)
  | BOr [] => NFalse
  | BOr cs => NOr (map compile_b cs)
  | BUnk => NFalse
  end.

(* compileRegexExpression (row_matcher.go), on the tree tokenizer.go's compileRegexExpression produced *)
Fixpoint compile_r (e : rexpr) : mnode :=
  match e with
  | RCond None => NTrue
  | RCond (Some (f, p)) => if nonempty f then NCond (MRegex f p) else NFalse
  | RAnd cs => NAnd (map compile_r cs)
  | ROr [] => NFalse
  | ROr cs => NOr (map compile_r cs)
  | RUnk => NFalse
  end.

Definition compile_root (qb : option bexpr) (qr : option rexpr) : mnode :=
  NAnd [match qb with None => NTrue | Some e => compile_b e end;
        match qr with None => NTrue | Some e => compile_r (rcompile e) end].

Fixpoint conds_of (n : mnode) : list mcond :=
  match n with
  | NCond c => [c]
  | NAnd cs | NOr cs => flat_map conds_of cs
  | _ => []
  end.

Definition is_regex (c : mcond) : bool := match c with MRegex _ _ => true | _ => false end.

(* evalMatcherNode over the set of satisfied conditions *)
Fixpoint eval_node (S : list mcond) (n : mnode) : bool :=
  match n with
  | NTrue => true
  | NFalse => false
  | NCond c => mmem c S
  | NAnd cs => forallb (eval_node S) cs
  | NOr cs => existsb (eval_node S) cs
  end.

Section Match.
  Variable tok : str -> list str.
  Variable re : str -> str -> bool.

  (* does one emission satisfy a field / token / field:token condition *)
  Definition hits (c : mcond) (e : em) : bool :=
    match c, snd e with
    | MField f, _ => str_eqb (fst e) f
    | MToken t, LText x => mem_str t (tok x)
    | MFieldToken f t, LText x => str_eqb (fst e) f && mem_str t (tok x)
    | _, _ => false
    end.

  (* the walk: conditions only flip false -> true; the root is re-evaluated after a flip and the
     walk stops as soon as it is true *)
  Fixpoint walk_phase (conds : list mcond) (root : mnode) (S : list mcond) (es : list em) : bool * list mcond :=
    match es with
    | [] => (false, S)
    | e :: t =>
        let new := filter (fun c => negb (mmem c S) && hits c e) conds in
        let S' := new ++ S in
        if nonempty_list new && eval_node S' root then (true, S') else walk_phase conds root S' t
    end.

  (* regex candidate texts of a condition: leaves at or beneath its field *)
  Definition regex_hit (es : list em) (c : mcond) : bool :=
    match c with
    | MRegex f p => existsb (fun pt => at_or_beneath f (fst pt) && re p (snd pt)) (text_leaves es)
    | _ => false
    end.

  Fixpoint lazy_phase (root : mnode) (es : list em) (S : list mcond) (rcs : list mcond) : bool :=
    match rcs with
    | [] => eval_node S root
    | c :: t =>
        if regex_hit es c then
          if eval_node (c :: S) root then true else lazy_phase root es (c :: S) t
        else lazy_phase root es S t
    end.

  Definition compiled_match (qb : option bexpr) (qr : option rexpr) (es : list em) : bool :=
    let root := compile_root qb qr in
    let conds := conds_of root in
    let nr := filter (fun c => negb (is_regex c)) conds in
    let rcs := filter is_regex conds in
    if eval_node [] root then true                       (* matchesAll *)
    else if negb (eval_node conds root) then false       (* neverMatches *)
    else
      let '(matched, S0) := walk_phase nr root [] es in
      if matched then true
      else match rcs with
           | [] => false
           | _ => if negb (eval_node (rcs ++ S0) root) then false else lazy_phase root es S0 rcs
           end.
End Match.
