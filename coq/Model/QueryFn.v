(* Family R: the functional specification of what Query returns over a set of files
   (query_exec.go: file stage -> FilterDataBlocks, file-level bloom test; evaluateBlockFilters;
   processDataBlock -> matchRowBytes). A result list is read as a multiset. Executable only. *)
From BS Require Export Lib.Bytes Model.Json Model.Expr Model.MinMax.

(* sr_id only identifies a stored row in correspondence cases; no definition inspects it *)
Record srow := { sr_id : Z; sr_json : json; sr_pre : prow }.
Record block := { bk_meta : blockmeta; bk_filters : filters; bk_rows : list srow }.
Record file := { fl_filters : filters; fl_blocks : list block }.
Record query := { q_pre : option pexpr; q_bloom : option bexpr; q_regex : option rexpr }.

Section Query.
  Variable tok : str -> list str.
  Variable re : str -> str -> bool.

  Definition row_matches (q : query) (r : srow) : bool :=
    row_sat tok re (q_bloom q) (q_regex q) (sr_json r).

  (* a row's own partition id and indexed values satisfy the prefilter *)
  Definition row_pre (q : query) (r : srow) : bool :=
    match q_pre q with None => true | Some e => row_pexpr (sr_pre r) e end.

  Definition pq (q : query) : option bexpr := prune_query (q_bloom q) (q_regex q).

  (* a block is scanned iff it passes the prefilter, its file passes the file-level
     bloom test and its own filters pass *)
  Definition block_selected (q : query) (f : file) (b : block) : bool :=
    block_passes (q_pre q) (bk_meta b) && prune_q (fl_filters f) (pq q) && prune_q (bk_filters b) (pq q).

  Definition scan_block (q : query) (b : block) : list srow := filter (row_matches q) (bk_rows b).

  Definition scan_file (q : query) (f : file) : list srow :=
    flat_map (fun b => if block_selected q f b then scan_block q b else []) (fl_blocks f).

  Definition run_query (q : query) (files : list file) : list srow := flat_map (scan_file q) files.

  Definition all_blocks (files : list file) : list block := flat_map fl_blocks files.
  Definition all_rows (files : list file) : list srow := flat_map bk_rows (all_blocks files).
End Query.
