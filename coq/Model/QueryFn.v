(* Family R: the functional specification of what Query returns over a set of files
   (query_exec.go: file stage -> FilterDataBlocks, file-level bloom test; evaluateBlockFilters;
   processDataBlock -> matchRowBytes). A result list is read as a multiset. Executable only. *)
From BS Require Export Lib.Bytes Model.Json Model.Expr Model.MinMax.

(* sr_id only identifies a stored row in correspondence cases; no definition inspects it *)
Record srow := { sr_id : Z; sr_json : json; sr_pre : prow }.
(* bk_section: the block has a filter section in its file's block filter region (BloomFilterSize > 0) *)
Record block := { bk_meta : blockmeta; bk_filters : filters; bk_section : bool; bk_rows : list srow }.
Record file := { fl_filters : filters; fl_blocks : list block }.
Record query := { q_pre : option pexpr; q_bloom : option bexpr; q_regex : option rexpr }.

Section Query.
  Variable tok : str -> list str.
  Variable re : str -> str -> bool.

  Definition row_matches (q : query) (r : srow) : bool :=
    row_sat tok re (q_bloom q) (q_regex q) (sr_json r).

  (* a row's own partition id and indexed values satisfy the prefilter *)
  Definition row_pre (q : query) (r : srow) : bool :=
    match q_pre q with None => true | Some e => row_pexpr (sr_pre r) e end.

  Definition pq (q : query) : option bexpr := prune_query (q_bloom q) (q_regex q).

  (* a block is scanned iff it passes the prefilter, its file passes the file-level
     bloom test and its own filters pass *)
  Definition block_selected (q : query) (f : file) (b : block) : bool :=
    block_passes (q_pre q) (bk_meta b) && prune_q (fl_filters f) (pq q) && prune_q (bk_filters b) (pq q).

  Definition scan_block (q : query) (b : block) : list srow := filter (row_matches q) (bk_rows b).

  Definition scan_file (q : query) (f : file) : list srow :=
    flat_map (fun b => if block_selected q f b then scan_block q b else []) (fl_blocks f).

  Definition run_query (q : query) (files : list file) : list srow := flat_map (scan_file q) files.

  (* ---- what a query may touch (C24): decisions of the file stage, evaluateBlockFilters and the block workers ---- *)
  Definition passes_pre (q : query) (b : block) : bool := block_passes (q_pre q) (bk_meta b).

  (* the file reaches a file worker: some block survives the prefilter and the file-level test passes *)
  Definition file_candidate (q : query) (f : file) : bool :=
    existsb (passes_pre q) (fl_blocks f) && prune_q (fl_filters f) (pq q).

  (* the block filter region is read: only with bloom conditions, and only for sections of prefilter survivors *)
  Definition reads_region (q : query) (f : file) : bool :=
    match pq q with
    | None => false
    | Some _ => file_candidate q f && existsb (fun b => passes_pre q b && bk_section b) (fl_blocks f)
    end.

  (* row data of a block is read iff the block is selected *)
  Definition reads_rows (q : query) (f : file) (b : block) : bool := block_selected q f b.

  (* the file is opened through the DataStore iff its region or some block's row data is read *)
  Definition opens_file (q : query) (f : file) : bool :=
    reads_region q f || existsb (reads_rows q f) (fl_blocks f).

  Definition all_blocks (files : list file) : list block := flat_map fl_blocks files.
  Definition all_rows (files : list file) : list srow := flat_map bk_rows (all_blocks files).
End Query.
