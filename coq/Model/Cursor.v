(* Family Q — the Results cursor (query_results.go: Next, Close, terminate, finish, deliver,
   recordBlockStats, recordQueryError/recordBlockError, markWorkersDone).

   One step per hook event (the events of appendix A, read path).  The cursor is driven by
   - the consumer goroutine (Next),
   - any number of Close callers (sync.Once),
   - the caller's context (cancel call bracketed by begin/end: the cancellation takes
     effect somewhere in between, so a read in that window may go either way),
   - the query's workers (deliver / record...) and the teardown goroutine (markWorkersDone),
     which are the cursor's environment here and actors of QueryLTS.

   [fx] selects the code: [false] = the pinned tree (defect D7: the closed-channel branch of
   Next does not look at the caller's context), [true] = the tree after the fix.
   Executable definitions only. *)
From BS Require Import Model.Stats.
From Coq Require Import List ZArith Bool Arith.
Import ListNotations.

Definition row := Z.
Definition batch := list row.
Definition errid := Z.

(* Results.err: nil, "query canceled: %w" of the caller's ctx error, or errors.Join of the
   recorded failures (errors.Join of nothing is nil) *)
Inductive terr := TNil | TCancel | TJoin (es : list errid).
Definition joined (es : list errid) : terr := match es with [] => TNil | _ => TJoin es end.

(* caller context: not cancelled / cancel call in progress / cancel call returned *)
Inductive cphase := CNo | CMid | CYes.

(* a batch a worker is handing to rowChan: tried (worker is in deliver), sent (the worker saw
   its send succeed; the batch sits in the buffer), taken (the consumer received it before the
   worker reported the send) *)
Inductive estate := EPending | ESent | ETaken.
Record entry := { en_w : nat; en_b : batch; en_st : estate }.

(* consumer program counter inside Next *)
Inductive npc :=
| NIdle                      (* not inside Next *)
| NPolled                    (* ctx poll said "not done", no pending row: before the blocking select (pause point) *)
| NTermWait                  (* terminate: cancel() called, waiting for done *)
| NFinishing (e : terr).     (* about to call finish(e) *)

Inductive via := VNone | VClosed | VTerm.         (* how the consumer's iteration ended *)
Inductive finby := ByNone | ByNext | ByClose.     (* who decided the terminal state *)
Inductive once := ONew | ORunning | ODone.        (* closeOnce *)
Inductive cpc := CIdle | CWait | CFinalized.      (* a Close caller *)

Record ctxs := { x_caller : cphase; x_int : bool (* r.ctx done, or its cancel announced *) }.

Record chans := {
  h_inflight : list entry;     (* oldest first *)
  h_acked : list batch;        (* ghost: batches whose send the worker saw succeed *)
  h_matched : Z                (* rowsMatched *)
}.

Record shr := {                (* fields under r.mu, plus the two channels closed by markWorkersDone *)
  m_errs : list errid;
  m_stats : list bstat;
  m_finished : bool;           (* markWorkersDone ran: finished, rowChan closed, done closed *)
  m_int_at_done : bool;        (* ghost: was r.ctx already cancelled when the workers finished *)
  m_finalized : bool;
  m_err : terr;
  m_finby : finby;             (* ghost *)
  m_decphase : cphase          (* ghost: caller phase at the read that decided the terminal state *)
}.

Record cons := {               (* owned by the goroutine calling Next *)
  n_pc : npc;
  n_done : bool;               (* iterDone *)
  n_pending : list row;        (* pending[pendingIdx:] *)
  n_current : option row;
  n_returned : list row;       (* ghost: rows handed out by Next = true *)
  n_taken : list batch;        (* ghost: batches received from rowChan *)
  n_via : via;                 (* ghost *)
  n_dec : cphase               (* ghost: caller phase at the consumer's deciding read *)
}.

Record clo := { o_once : once; o_closers : list cpc }.

Record cur := { c_x : ctxs; c_h : chans; c_m : shr; c_n : cons; c_o : clo }.

Definition cinit (closers : nat) : cur :=
  {| c_x := {| x_caller := CNo; x_int := false |};
     c_h := {| h_inflight := []; h_acked := []; h_matched := 0 |};
     c_m := {| m_errs := []; m_stats := []; m_finished := false; m_int_at_done := false;
               m_finalized := false; m_err := TNil; m_finby := ByNone; m_decphase := CNo |};
     c_n := {| n_pc := NIdle; n_done := false; n_pending := []; n_current := None;
               n_returned := []; n_taken := []; n_via := VNone; n_dec := CNo |};
     c_o := {| o_once := ONew; o_closers := repeat CIdle closers |} |}.

Inductive clabel :=
(* caller context *)
| LCancelBegin | LCancelEnd
(* workers / teardown *)
| LDeliverTry (w : nat) (b : batch)   (* deliver entered *)
| LDeliverOk (w : nat)                (* res.deliver.fast / res.deliver.slow: the send succeeded *)
| LDeliverCtx (w : nat)               (* res.deliver.ctx: gave up, ctx done *)
| LRecordStat (st : bstat)
| LRecordErr (e : errid)
| LWorkersDone
(* consumer *)
| LNextSticky                          (* iterDone: false *)
| LNextTerm                            (* the poll saw ctx done: terminate *)
| LNextPending                         (* a pending row: true *)
| LNextWait                            (* nothing pending: go to the blocking select *)
| LNextBatch (w : nat)                 (* received worker w's batch: true *)
| LNextClosed (c : bool)               (* received from the closed channel; c: the caller ctx read (fixed code) *)
| LNextCtx                             (* the select took ctx.Done: terminate *)
| LTermDecide (c : bool)               (* done observed; c: callerCtx.Err() != nil *)
| LFinish                              (* finish(e): false *)
(* Close callers *)
| LCloseBegin (k : nat)                (* first caller: inside once.Do, cancel() *)
| LCloseFinal (k : nat)                (* done observed; finalize under mu *)
| LCloseRet (k : nat).                 (* Close returns nil *)

(* ---- small helpers *)
Definition set_int (x : ctxs) : ctxs := {| x_caller := x_caller x; x_int := true |}.

Definition st_eqb (a b : estate) : bool :=
  match a, b with EPending, EPending | ESent, ESent | ETaken, ETaken => true | _, _ => false end.

Definition all_sent (l : list entry) : bool := forallb (fun e => st_eqb (en_st e) ESent) l.
Definition none_sent (l : list entry) : bool := forallb (fun e => negb (st_eqb (en_st e) ESent)) l.

(* the worker's current hand-off: its entry that is not (yet) marked sent *)
Fixpoint ack_entry (w : nat) (l : list entry) : option (batch * list entry) :=
  match l with
  | [] => None
  | e :: t =>
      if (en_w e =? w)%nat && negb (st_eqb (en_st e) ESent) then
        match en_st e with
        | EPending => Some (en_b e, {| en_w := w; en_b := en_b e; en_st := ESent |} :: t)
        | _ => Some (en_b e, t)                                  (* already taken: done *)
        end
      else match ack_entry w t with
           | Some (b, t') => Some (b, e :: t')
           | None => None
           end
  end.

(* give up a hand-off: only possible while nobody received it *)
Fixpoint drop_entry (w : nat) (l : list entry) : option (list entry) :=
  match l with
  | [] => None
  | e :: t =>
      if (en_w e =? w)%nat && st_eqb (en_st e) EPending then Some t
      else match drop_entry w t with
           | Some t' => Some (e :: t')
           | None => None
           end
  end.

(* the consumer receives worker w's oldest batch not yet received *)
Fixpoint take_entry (w : nat) (l : list entry) : option (batch * list entry) :=
  match l with
  | [] => None
  | e :: t =>
      if (en_w e =? w)%nat && negb (st_eqb (en_st e) ETaken) then
        match en_st e with
        | EPending => Some (en_b e, {| en_w := w; en_b := en_b e; en_st := ETaken |} :: t)
        | _ => Some (en_b e, t)
        end
      else match take_entry w t with
           | Some (b, t') => Some (b, e :: t')
           | None => None
           end
  end.

Definition has_open_entry (w : nat) (l : list entry) : bool :=
  existsb (fun e => (en_w e =? w)%nat && negb (st_eqb (en_st e) ESent)) l.

Definition blen (b : batch) : Z := Z.of_nat (length b).

Fixpoint set_nth {A} (n : nat) (x : A) (l : list A) : list A :=
  match l, n with
  | [], _ => []
  | _ :: t, O => x :: t
  | y :: t, S n' => y :: set_nth n' x t
  end.

(* ---- record updates *)
Definition with_x (s : cur) (x : ctxs) : cur := {| c_x := x; c_h := c_h s; c_m := c_m s; c_n := c_n s; c_o := c_o s |}.
Definition with_h (s : cur) (h : chans) : cur := {| c_x := c_x s; c_h := h; c_m := c_m s; c_n := c_n s; c_o := c_o s |}.
Definition with_m (s : cur) (m : shr) : cur := {| c_x := c_x s; c_h := c_h s; c_m := m; c_n := c_n s; c_o := c_o s |}.
Definition with_n (s : cur) (n : cons) : cur := {| c_x := c_x s; c_h := c_h s; c_m := c_m s; c_n := n; c_o := c_o s |}.
Definition with_o (s : cur) (o : clo) : cur := {| c_x := c_x s; c_h := c_h s; c_m := c_m s; c_n := c_n s; c_o := o |}.

Definition set_pc (n : cons) (p : npc) : cons :=
  {| n_pc := p; n_done := n_done n; n_pending := n_pending n; n_current := n_current n;
     n_returned := n_returned n; n_taken := n_taken n; n_via := n_via n; n_dec := n_dec n |}.

Definition set_pc_dec (n : cons) (p : npc) (v : via) (d : cphase) : cons :=
  {| n_pc := p; n_done := n_done n; n_pending := n_pending n; n_current := n_current n;
     n_returned := n_returned n; n_taken := n_taken n; n_via := v; n_dec := d |}.

(* finalization under r.mu: first finalizer wins *)
Definition finalize (m : shr) (e : terr) (who : finby) (d : cphase) : shr :=
  if m_finalized m then m
  else {| m_errs := m_errs m; m_stats := m_stats m; m_finished := m_finished m; m_int_at_done := m_int_at_done m;
          m_finalized := true; m_err := e; m_finby := who; m_decphase := d |}.

Definition consumer_idle (s : cur) : bool :=
  match n_pc (c_n s) with NIdle => negb (n_done (c_n s)) | _ => false end.

(* ---- the step function *)
Definition cursor_step (fx : bool) (s : cur) (l : clabel) : option cur :=
  let x := c_x s in let h := c_h s in let m := c_m s in let n := c_n s in let o := c_o s in
  match l with
  | LCancelBegin =>
      match x_caller x with
      | CNo => Some (with_x s {| x_caller := CMid; x_int := true |})
      | _ => None
      end
  | LCancelEnd =>
      match x_caller x with
      | CMid => Some (with_x s {| x_caller := CYes; x_int := x_int x |})
      | _ => None
      end
  | LDeliverTry w b =>
      (* workers only deliver non-empty batches, one hand-off at a time, never after the channel closed *)
      match b with
      | [] => None
      | _ :: _ =>
          if m_finished m || has_open_entry w (h_inflight h) then None
          else Some (with_h s {| h_inflight := h_inflight h ++ [{| en_w := w; en_b := b; en_st := EPending |}];
                                 h_acked := h_acked h; h_matched := h_matched h |})
      end
  | LDeliverOk w =>
      if m_finished m then None else
      match ack_entry w (h_inflight h) with
      | Some (b, l') => Some (with_h s {| h_inflight := l'; h_acked := h_acked h ++ [b]; h_matched := (h_matched h + blen b)%Z |})
      | None => None
      end
  | LDeliverCtx w =>
      if m_finished m || negb (x_int x) then None else
      match drop_entry w (h_inflight h) with
      | Some l' => Some (with_h s {| h_inflight := l'; h_acked := h_acked h; h_matched := h_matched h |})
      | None => None
      end
  | LRecordStat st =>
      if m_finished m then None
      else Some (with_m s {| m_errs := m_errs m; m_stats := m_stats m ++ [st]; m_finished := false; m_int_at_done := m_int_at_done m;
                             m_finalized := m_finalized m; m_err := m_err m; m_finby := m_finby m; m_decphase := m_decphase m |})
  | LRecordErr e =>
      if m_finished m then None
      else Some (with_m s {| m_errs := m_errs m ++ [e]; m_stats := m_stats m; m_finished := false; m_int_at_done := m_int_at_done m;
                             m_finalized := m_finalized m; m_err := m_err m; m_finby := m_finby m; m_decphase := m_decphase m |})
  | LWorkersDone =>
      if m_finished m || negb (all_sent (h_inflight h)) then None
      else Some (with_m s {| m_errs := m_errs m; m_stats := m_stats m; m_finished := true; m_int_at_done := x_int x;
                             m_finalized := m_finalized m; m_err := m_err m; m_finby := m_finby m; m_decphase := m_decphase m |})
  | LNextSticky =>
      match n_pc n with
      | NIdle => if n_done n then Some s else None
      | _ => None
      end
  | LNextTerm =>
      if consumer_idle s && x_int x then Some (with_n s (set_pc n NTermWait)) else None
  | LNextPending =>
      if consumer_idle s then
        match n_pending n with
        | r :: rest =>
            Some (with_n s {| n_pc := NIdle; n_done := false; n_pending := rest; n_current := Some r;
                              n_returned := n_returned n ++ [r]; n_taken := n_taken n; n_via := n_via n; n_dec := n_dec n |})
        | [] => None
        end
      else None
  | LNextWait =>
      if consumer_idle s then
        match n_pending n with
        | [] => Some (with_n s (set_pc n NPolled))
        | _ :: _ => None
        end
      else None
  | LNextBatch w =>
      match n_pc n with
      | NPolled =>
          match take_entry w (h_inflight h) with
          | Some (r :: rest, l') =>
              Some (with_n (with_h s {| h_inflight := l'; h_acked := h_acked h; h_matched := h_matched h |})
                      {| n_pc := NIdle; n_done := false; n_pending := rest; n_current := Some r;
                         n_returned := n_returned n ++ [r]; n_taken := n_taken n ++ [r :: rest]; n_via := n_via n; n_dec := n_dec n |})
          | _ => None
          end
      | _ => None
      end
  | LNextClosed c =>
      match n_pc n with
      | NPolled =>
          if m_finished m && none_sent (h_inflight h) then
            if fx then
              (* fixed code: re-check the caller's context before reporting completion *)
              if c then
                match x_caller x with
                | CNo => None
                | _ => Some (with_x (with_n s (set_pc n NTermWait)) (set_int x))
                end
              else
                match x_caller x with
                | CYes => None
                | ph => Some (with_n s (set_pc_dec n (NFinishing (joined (m_errs m))) VClosed ph))
                end
            else
              (* pinned code: finish(joinedErrs()) whatever the caller's context says *)
              if c then None
              else Some (with_n s (set_pc_dec n (NFinishing (joined (m_errs m))) VClosed (x_caller x)))
          else None
      | _ => None
      end
  | LNextCtx =>
      match n_pc n with
      | NPolled => if x_int x then Some (with_n s (set_pc n NTermWait)) else None
      | _ => None
      end
  | LTermDecide c =>
      match n_pc n with
      | NTermWait =>
          if m_finished m then
            if c then
              match x_caller x with
              | CNo => None
              | ph => Some (with_x (with_n s (set_pc_dec n (NFinishing TCancel) VTerm ph)) (set_int x))
              end
            else
              match x_caller x with
              | CYes => None
              | ph => Some (with_x (with_n s (set_pc_dec n (NFinishing (joined (m_errs m))) VTerm ph)) (set_int x))
              end
          else None
      | _ => None
      end
  | LFinish =>
      match n_pc n with
      | NFinishing e =>
          Some {| c_x := set_int x; c_h := h;
                  c_m := finalize m e ByNext (n_dec n);
                  c_n := {| n_pc := NIdle; n_done := true; n_pending := []; n_current := None;
                            n_returned := n_returned n; n_taken := n_taken n; n_via := n_via n; n_dec := n_dec n |};
                  c_o := o |}
      | _ => None
      end
  | LCloseBegin k =>
      match o_once o, nth_error (o_closers o) k with
      | ONew, Some CIdle =>
          Some (with_x (with_o s {| o_once := ORunning; o_closers := set_nth k CWait (o_closers o) |}) (set_int x))
      | _, _ => None
      end
  | LCloseFinal k =>
      match nth_error (o_closers o) k with
      | Some CWait =>
          if m_finished m then
            Some (with_m (with_o s {| o_once := ODone; o_closers := set_nth k CFinalized (o_closers o) |})
                    (finalize m (joined (m_errs m)) ByClose (x_caller x)))
          else None
      | _ => None
      end
  | LCloseRet k =>
      match nth_error (o_closers o) k with
      | Some CFinalized => Some (with_o s {| o_once := o_once o; o_closers := set_nth k CIdle (o_closers o) |})
      | Some CIdle => match o_once o with ODone => Some s | _ => None end
      | _ => None
      end
  end.

(* return value of the Next call a label completes *)
Definition next_result (l : clabel) : option bool :=
  match l with
  | LNextSticky | LFinish => Some false
  | LNextPending | LNextBatch _ => Some true
  | _ => None
  end.

(* labels of the goroutine that calls Next *)
Definition consumer_label (l : clabel) : bool :=
  match l with
  | LNextSticky | LNextTerm | LNextPending | LNextWait | LNextBatch _ | LNextClosed _ | LNextCtx
  | LTermDecide _ | LFinish => true
  | _ => false
  end.

Fixpoint cursor_steps (fx : bool) (s : cur) (ls : list clabel) : option cur :=
  match ls with
  | [] => Some s
  | l :: t => match cursor_step fx s l with Some s' => cursor_steps fx s' t | None => None end
  end.

(* ---- observables *)
Definition cur_err (s : cur) : terr := m_err (c_m s).          (* Results.Err *)
Definition cur_row (s : cur) : option row := n_current (c_n s). (* Results.Row *)
Definition cur_stats (s : cur) : qstats := stats_of (h_matched (c_h s)) (m_stats (c_m s)).  (* Results.Stats *)

(* the iteration ran to the end of the closed channel *)
Definition complete (s : cur) : bool :=
  n_done (c_n s) && match n_via (c_n s) with VClosed => true | _ => false end.

(* rows still obtainable by the consumer *)
Definition rows_available (s : cur) : nat :=
  (length (n_pending (c_n s)) +
   fold_right (fun e acc => match en_st e with ETaken => acc | _ => length (en_b e) + acc end) 0 (h_inflight (c_h s)))%nat.
