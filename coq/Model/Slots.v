(* Family Q — querySlot over the engine's global query semaphore (query_results.go:
   querySlot.acquire / release; engine.go: querySemaphore = make(chan struct{}, MaxQueryConcurrency)).

   The semaphore is shared by every worker of every running query.  A slot's occupancy toggles
   (acquire on a held slot and release on an unheld one do nothing and emit no event).
   Events: slot.acq.ok after the channel send, slot.acq.ctx after ctx.Done was taken,
   slot.rel before the channel receive (a held slot's release never blocks).
   Executable definitions only. *)
From Coq Require Import List Bool Arith.
Import ListNotations.

Record sem := { s_cap : nat; s_held : list bool (* per worker, all queries *) }.

Definition sinit (cap workers : nat) : sem := {| s_cap := cap; s_held := repeat false workers |}.

Definition used (s : sem) : nat := length (filter (fun b => b) (s_held s)).

Inductive slabel :=
| SAcqOk (w : nat)      (* the send succeeded: a slot was free *)
| SAcqCtx (w : nat)     (* gave up: the query's context is done *)
| SRel (w : nat).

Fixpoint set_held (w : nat) (v : bool) (l : list bool) : list bool :=
  match l, w with
  | [], _ => []
  | _ :: t, O => v :: t
  | b :: t, S w' => b :: set_held w' v t
  end.

Definition slot_step (s : sem) (l : slabel) : option sem :=
  match l with
  | SAcqOk w =>
      match nth_error (s_held s) w with
      | Some false => if used s <? s_cap s then Some {| s_cap := s_cap s; s_held := set_held w true (s_held s) |} else None
      | _ => None
      end
  | SAcqCtx w =>
      match nth_error (s_held s) w with
      | Some false => Some s
      | _ => None
      end
  | SRel w =>
      match nth_error (s_held s) w with
      | Some true => Some {| s_cap := s_cap s; s_held := set_held w false (s_held s) |}
      | _ => None
      end
  end.

Fixpoint slot_steps (s : sem) (ls : list slabel) : option sem :=
  match ls with
  | [] => Some s
  | l :: t => match slot_step s l with Some s' => slot_steps s' t | None => None end
  end.

(* the calls, as the code sees them: acquire() on a held slot returns true at once,
   release() on an unheld slot does nothing *)
Inductive scall :=
| CallAcquire (w : nat) (ret : bool)     (* ret = what acquire returned *)
| CallRelease (w : nat).

Definition call_step (s : sem) (c : scall) : option sem :=
  match c with
  | CallAcquire w ret =>
      match nth_error (s_held s) w with
      | Some true => if ret then Some s else None
      | Some false => if ret then slot_step s (SAcqOk w) else slot_step s (SAcqCtx w)
      | None => None
      end
  | CallRelease w =>
      match nth_error (s_held s) w with
      | Some true => slot_step s (SRel w)
      | Some false => Some s
      | None => None
      end
  end.

Fixpoint call_steps (s : sem) (cs : list scall) : option sem :=
  match cs with
  | [] => Some s
  | c :: t => match call_step s c with Some s' => call_steps s' t | None => None end
  end.
