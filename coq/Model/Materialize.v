(* Family T — how a JSON object's members become a Go map when a row is materialized
   (row_matcher.go: materializeRow / materializeValue).  Members arrive in document order,
   duplicates included.  encoding/json assigns every member in turn, so the last duplicate
   wins; gjson's Value() -- what the pinned tree used -- inserts a key only when it is absent,
   so the first duplicate wins.  Executable definitions only. *)
From BS Require Import Lib.Bytes.
From Coq Require Import List.
Import ListNotations.

Section Materialize.
  Variable V : Type.

  (* a Go map as an association list with at most one binding per key *)
  Definition gomap := list (str * V).

  Fixpoint get_key (k : str) (m : gomap) : option V :=
    match m with
    | [] => None
    | (k', v) :: t => if str_eqb k' k then Some v else get_key k t
    end.

  (* m[k] = v *)
  Fixpoint set_key (k : str) (v : V) (m : gomap) : gomap :=
    match m with
    | [] => [(k, v)]
    | (k', v') :: t => if str_eqb k' k then (k, v) :: t else (k', v') :: set_key k v t
    end.

  (* the fixed materializer and encoding/json: object[key] = value for every member *)
  Definition mat_last (members : list (str * V)) : gomap :=
    fold_left (fun m kv => set_key (fst kv) (snd kv) m) members [].

  (* the pinned materializer (gjson Value): if _, ok := m[key]; !ok { m[key] = value } *)
  Definition mat_first (members : list (str * V)) : gomap :=
    fold_left (fun m kv => match get_key (fst kv) m with Some _ => m | None => set_key (fst kv) (snd kv) m end) members [].

  (* what a JSON round trip through encoding/json yields for key k: the value of its last member *)
  Fixpoint last_member (k : str) (members : list (str * V)) : option V :=
    match members with
    | [] => None
    | (k', v) :: t => match last_member k t with Some x => Some x | None => if str_eqb k' k then Some v else None end
    end.
End Materialize.
