(* Family Q — the read pipeline composed (query_exec.go: Query, file stage, fileWorker,
   blockWorker/runJob, evaluateBlockFilters, recordUnreadBlocks, processDataBlock, teardown
   goroutine), K queries sharing one semaphore.

   Architecture: every actor is a small program counter machine whose transitions are the hook
   events (appendix A, read path).  A transition is *local*: it yields the next pc and a list of
   effects on what the actor shares with others - the query's cursor (Model/Cursor.v steps), the
   query's handle pool (Model/HandlePool.v steps), the two job channels, the global semaphore,
   worker spawning, and guards ("the query's context is cancelled", "all file workers exited").
   [apply_effs] runs the effects through the component step functions.  So the components are
   embedded, not re-modelled, and every invariant splits into a per-actor fact about local
   transitions and a generic fact about effects.

   Outcomes the engine does not control are carried by the event (filter verdicts, store
   failures, where a cancelled scan stopped); the model accepts any of them.
   Executable definitions only. *)
From BS Require Import Model.Stats Model.Cursor Model.HandlePool.
From Coq Require Import List ZArith Bool Arith.
Import ListNotations.

(* ------------------------------------------------------------------ environment of one query *)
Record blockenv := {
  b_off : Z;                (* RowDataOffset *)
  b_rows : Z;               (* metadata Rows *)
  b_bytes : Z;              (* bytes a complete scan reads (length prefixes included) *)
  b_tbytes : Z;             (* OnDiskSize *)
  b_matched : list row      (* the block's rows that match the query, in scan order *)
}.

Record fileenv := { f_id : fileid; f_blocks : list blockenv (* after the prefilter, ascending offset *) }.

Inductive item := IFile (f : fileenv) | IErr (e : errid).   (* what the MetaStore iterator yields *)

Record qenv := { e_items : list item; e_bsz : nat (* queryRowBatchSize *) }.

Definition job := (fileid * nat)%type.      (* file, index of the block in f_blocks *)
Definition job_eqb (a b : job) : bool := Z.eqb (fst a) (fst b) && Nat.eqb (snd a) (snd b).

Fixpoint find_file (f : fileid) (l : list item) : option fileenv :=
  match l with
  | [] => None
  | IFile fe :: t => if Z.eqb (f_id fe) f then Some fe else find_file f t
  | IErr _ :: t => find_file f t
  end.

Definition job_block (e : qenv) (j : job) : option blockenv :=
  match find_file (fst j) (e_items e) with
  | Some fe => nth_error (f_blocks fe) (snd j)
  | None => None
  end.

(* ------------------------------------------------------------------ channels *)
(* a Go channel as seen through send-intent / send-done / receive events: an entry is pending
   (sender announced), sent (sender saw the send succeed) or taken (received before the sender
   reported).  Receives name the payload (payloads are distinct). *)
Section Chan.
  Context {A : Type} (eqb : A -> A -> bool).
  Definition centry := (nat * A * estate)%type.

  Definition c_try (w : nat) (a : A) (l : list centry) : list centry := l ++ [(w, a, EPending)].

  Fixpoint c_ok (w : nat) (l : list centry) : option (list centry) :=
    match l with
    | [] => None
    | (w', a, st) :: t =>
        if (w' =? w)%nat && negb (st_eqb st ESent) then
          match st with EPending => Some ((w', a, ESent) :: t) | _ => Some t end
        else match c_ok w t with Some t' => Some ((w', a, st) :: t') | None => None end
    end.

  Fixpoint c_abort (w : nat) (l : list centry) : option (list centry) :=
    match l with
    | [] => None
    | (w', a, st) :: t =>
        if (w' =? w)%nat && st_eqb st EPending then Some t
        else match c_abort w t with Some t' => Some ((w', a, st) :: t') | None => None end
    end.

  Fixpoint c_take (a : A) (l : list centry) : option (list centry) :=
    match l with
    | [] => None
    | (w', a', st) :: t =>
        if eqb a' a && negb (st_eqb st ETaken) then
          match st with EPending => Some ((w', a', ETaken) :: t) | _ => Some t end
        else match c_take a t with Some t' => Some ((w', a', st) :: t') | None => None end
    end.

  Definition c_all_sent (l : list centry) : bool := forallb (fun e => st_eqb (snd e) ESent) l.
  Definition c_none_sent (l : list centry) : bool := forallb (fun e => negb (st_eqb (snd e) ESent)) l.
  Definition c_sender_free (w : nat) (l : list centry) : bool :=
    forallb (fun e => negb ((fst (fst e) =? w)%nat && negb (st_eqb (snd e) ESent))) l.
End Chan.

(* ------------------------------------------------------------------ events *)
Inductive ev :=
(* file stage *)
| VFsPull (f : fileid) | VFsPullErr | VFsEnd | VFsCtx | VFsDropPre | VFsDropBloom
| VFsJobTry | VFsJobSent | VFsJobAbort | VFsSpawn | VFsExit
(* file worker *)
| VFwTake (f : fileid) | VFwClosed | VFwCtx | VFwExit
| VEbfNoConds | VEbfCtx | VEbfPlanFail | VEbfNoSections | VEbfOpenFail
| VEbfFilterFail (i : nat) | VEbfReadFail (i : nat) | VEbfParseFail (i : nat) | VEbfSurvive (i : nat) | VEbfPruned (i : nat)
| VFwDispTry (i : nat) | VFwDispSent | VFwDispAbort | VBwSpawn
(* block worker *)
| VBwTake (j : job) | VBwClosed | VBwCtx | VBwExit
| VPdbOpenFail | VPdbReadFail | VPdbRowErr | VPdbCtx | VPdbDeliverFail | VPdbEnd (rows bytes : Z)
| VDeliverTry (n : nat) | VDeliverFast | VDeliverSlow | VDeliverCtx
(* shared components, emitted by whoever calls them *)
| VSlotAcqOk | VSlotAcqCtx | VSlotRel
| VPoolRetain (f : fileid) | VPoolRelease (f : fileid) | VPoolAcqIdle (f : fileid) | VPoolAcqOpen (f : fileid)
| VPoolPut (f : fileid) (closed : bool) | VPoolDiscard | VPoolCloseAll
| VStOpenOk | VStOpenFail
| VResStat | VResErr (e : errid)
(* teardown goroutine *)
| VTdFilesDone | VTdBlocksDone | VResWorkersDone.

(* ------------------------------------------------------------------ effects *)
Inductive eff :=
| ECur (l : clabel)
| EPool (l : plabel)
| ESlotAcq | ESlotRel
| ENeedInt                                  (* guard: the query's context is done (or its cancel announced) *)
| EFTry (f : fileid) | EFOk | EFAbort | EFTake (f : fileid) | EFClose | EFClosedEmpty
| EBTry (w : nat) (j : job) | EBOk (w : nat) | EBAbort (w : nat) | EBTake (j : job) | EBClose | EBClosedEmpty
| ESpawnFW | ESpawnBW
| ENeedFilesDone | ENeedBlocksDone
| ESurvive (j : job)                         (* ghost: the block went on to be scanned *)
| ERec (j : job).                            (* ghost: the block's stats entry was recorded *)

(* ------------------------------------------------------------------ file stage *)
Inductive fspc :=
| SRun (rest : list item)
| SPulled (f : fileenv) (rest : list item)
| SOwesErr (e : errid)
| SSending (f : fileenv) (rest : list item)
| SSpawn (rest : list item)
| SExiting
| SExited.

Definition fs_local (cap nfw : nat) (pc : fspc) (v : ev) : option (fspc * list eff) :=
  match pc, v with
  | SRun (IFile f :: rest), VFsPull f' => if Z.eqb (f_id f) f' then Some (SPulled f rest, []) else None
  | SRun (IErr e :: rest), VFsPullErr => Some (SOwesErr e, [])
  | SOwesErr e, VResErr e' => if Z.eqb e e' then Some (SExiting, [ECur (LRecordErr e)]) else None
  | SRun [], VFsEnd => Some (SExiting, [])
  | SRun (_ :: _), VFsEnd => Some (SExiting, [ENeedInt])        (* the iterator honoured ctx and stopped *)
  | SPulled f rest, VFsCtx => Some (SExiting, [ENeedInt])
  | SPulled f rest, VFsDropPre => match f_blocks f with [] => Some (SRun rest, []) | _ => None end
  | SPulled f rest, VFsDropBloom => match f_blocks f with [] => None | _ => Some (SRun rest, []) end
  | SPulled f rest, VFsJobTry => match f_blocks f with [] => None | _ => Some (SSending f rest, [EFTry (f_id f)]) end
  | SSending f rest, VFsJobSent => Some (if nfw <? cap then SSpawn rest else SRun rest, [EFOk])
  | SSending f rest, VFsJobAbort => Some (SExiting, [EFAbort; ENeedInt])
  | SSpawn rest, VFsSpawn => Some (SRun rest, [ESpawnFW])
  | SExiting, VFsExit => Some (SExited, [EFClose])
  | _, _ => None
  end.

(* ------------------------------------------------------------------ file worker *)
Inductive fpc :=
| FIdle | FExiting | FExited
| FTaken (f : fileenv)                                   (* fw.take: handles.retain next *)
| FEval (f : fileenv)                                    (* evaluateBlockFilters entered *)
| FEvalSlot (f : fileenv)                                (* slot held, nothing opened yet *)
| FOpening (f : fileenv) | FOpenFailed (f : fileenv)
| FLoop (f : fileenv) (i : nat) (sv : list nat)          (* handle in hand, block i next *)
| FFilterFail (f : fileenv) (i : nat) (sv : list nat)
| FUnread (f : fileenv) (todo : list nat) (k : fpc)      (* recordUnreadBlocks, then k *)
| FPruned (f : fileenv) (i : nat) (sv : list nat)
| FPutBack (f : fileenv) (healthy : bool) (sv : list nat)
| FPostEval (f : fileenv) (sv : list nat)                (* slot.release, then dispatch *)
| FDisp (f : fileenv) (sv : list nat)
| FDispRetained (f : fileenv) (i : nat) (sv : list nat)
| FDispSending (f : fileenv) (i : nat) (sv : list nat)
| FDispSpawn (f : fileenv) (sv : list nat)
| FDispAborted (f : fileenv)
| FFinalRelease (f : fileenv).

Record fwst := { fw_pc : fpc; fw_held : bool; fw_owes : bool }.

Definition all_idx (f : fileenv) : list nat := seq 0 (length (f_blocks f)).

Definition mk_unread (f : fileenv) (todo : list nat) (k : fpc) : fpc :=
  match todo with [] => k | _ => FUnread f todo k end.

Definition post_eval (held : bool) (f : fileenv) (sv : list nat) : fpc :=
  if held then FPostEval f sv else FDisp f sv.

Definition blk_stat (mk : Z -> Z -> Z -> Z -> bstat) (f : fileenv) (i : nat) : option bstat :=
  match nth_error (f_blocks f) i with
  | Some b => Some (mk (f_id f) (b_off b) (b_rows b) (b_tbytes b))
  | None => None
  end.

Definition fw0 (pc : fpc) (w : fwst) : fwst := {| fw_pc := pc; fw_held := fw_held w; fw_owes := false |}.
Definition fwfail (pc : fpc) (w : fwst) : fwst := {| fw_pc := pc; fw_held := fw_held w; fw_owes := true |}.
Definition fwheld (pc : fpc) (h : bool) (w : fwst) : fwst := {| fw_pc := pc; fw_held := h; fw_owes := false |}.

(* r = the pool reader id of this worker, sd = its sender id on the block job channel *)
Definition fw_local (e : qenv) (r sd : nat) (w : fwst) (v : ev) : option (fwst * list eff) :=
  match fw_pc w, v with
  | FIdle, VFwTake f' =>
      match find_file f' (e_items e) with
      | Some f => Some (fw0 (FTaken f) w, [EFTake f'])
      | None => None
      end
  | FIdle, VFwClosed => Some (fw0 FExiting w, [EFClosedEmpty])
  | FIdle, VFwCtx => Some (fw0 FExiting w, [ENeedInt])
  | FTaken f, VPoolRetain f' => if Z.eqb (f_id f) f' then Some (fw0 (FEval f) w, [EPool (PRetain f')]) else None
  | FEval f, VEbfNoConds => Some (fw0 (FDisp f (all_idx f)) w, map (fun i => ESurvive (f_id f, i)) (all_idx f))
  | FEval f, VSlotAcqOk => if fw_held w then None else Some (fwheld (FEvalSlot f) true w, [ESlotAcq])
  | FEval f, VSlotAcqCtx => if fw_held w then None else Some (fw0 (FDisp f []) w, [ENeedInt])
  | FEvalSlot f, VEbfCtx => Some (fw0 (FPostEval f []) w, [ENeedInt])
  | FEvalSlot f, VEbfPlanFail => Some (fwfail (mk_unread f (all_idx f) (FPostEval f [])) w, [])
  | FEvalSlot f, VEbfNoSections => Some (fw0 (FPostEval f (all_idx f)) w, map (fun i => ESurvive (f_id f, i)) (all_idx f))
  | FEvalSlot f, VPoolAcqIdle f' => if Z.eqb (f_id f) f' then Some (fw0 (FLoop f 0 []) w, [EPool (PAcquireIdle r f')]) else None
  | FEvalSlot f, VPoolAcqOpen f' => if Z.eqb (f_id f) f' then Some (fw0 (FOpening f) w, [EPool (PAcquireOpen r f')]) else None
  | FOpening f, VStOpenOk => Some (fw0 (FLoop f 0 []) w, [EPool (POpenOk r)])
  | FOpening f, VStOpenFail => Some (fw0 (FOpenFailed f) w, [EPool (POpenFail r)])
  | FOpenFailed f, VEbfOpenFail => Some (fwfail (mk_unread f (all_idx f) (FPostEval f [])) w, [])
  | FLoop f i sv, VEbfCtx => Some (fw0 (FPutBack f true sv) w, [ENeedInt])
  | FLoop f i sv, VEbfFilterFail i' =>
      if (i =? i')%nat && (i <? length (f_blocks f)) then Some (fwfail (FFilterFail f i sv) w, []) else None
  | FLoop f i sv, VEbfSurvive i' =>
      if (i =? i')%nat && (i <? length (f_blocks f)) then Some (fw0 (FLoop f (S i) (sv ++ [i])) w, [ESurvive (f_id f, i)]) else None
  | FLoop f i sv, VEbfPruned i' =>
      if (i =? i')%nat && (i <? length (f_blocks f)) then Some (fw0 (FPruned f i sv) w, []) else None
  | FLoop f i sv, VPoolPut f' c =>
      if Z.eqb (f_id f) f' && (i =? length (f_blocks f))%nat then Some (fw0 (FPostEval f sv) w, [EPool (PPut r f' c)]) else None
  | FFilterFail f i sv, VEbfReadFail i' =>
      if (i =? i')%nat then Some (fw0 (mk_unread f (seq i (length (f_blocks f) - i)) (FPutBack f false sv)) w, []) else None
  | FFilterFail f i sv, VEbfParseFail i' =>
      if (i =? i')%nat then Some (fw0 (mk_unread f [i] (FLoop f (S i) sv)) w, []) else None
  | FUnread f (i :: todo) k, VResStat =>
      match blk_stat stat_unread f i with
      | Some st => Some (fw0 (mk_unread f todo k) w, [ECur (LRecordStat st); ERec (f_id f, i)])
      | None => None
      end
  | FPruned f i sv, VResStat =>
      match blk_stat stat_pruned f i with
      | Some st => Some (fw0 (FLoop f (S i) sv) w, [ECur (LRecordStat st); ERec (f_id f, i)])
      | None => None
      end
  | FPutBack f true sv, VPoolPut f' c => if Z.eqb (f_id f) f' then Some (fw0 (FPostEval f sv) w, [EPool (PPut r f' c)]) else None
  | FPutBack f false sv, VPoolDiscard => Some (fw0 (FPostEval f sv) w, [EPool (PDiscard r)])
  | FPostEval f sv, VSlotRel => if fw_held w then Some (fwheld (FDisp f sv) false w, [ESlotRel]) else None
  | FPostEval f (i :: sv), VPoolRetain f' =>
      if fw_held w then None else if Z.eqb (f_id f) f' then Some (fw0 (FDispRetained f i sv) w, [EPool (PRetain f')]) else None
  | FPostEval f [], VPoolRelease f' =>
      if fw_held w then None else if Z.eqb (f_id f) f' then Some (fw0 FIdle w, [EPool (PRelease f')]) else None
  | FDisp f (i :: sv), VPoolRetain f' => if Z.eqb (f_id f) f' then Some (fw0 (FDispRetained f i sv) w, [EPool (PRetain f')]) else None
  | FDisp f [], VPoolRelease f' => if Z.eqb (f_id f) f' then Some (fw0 FIdle w, [EPool (PRelease f')]) else None
  | FDispRetained f i sv, VFwDispTry i' => if (i =? i')%nat then Some (fw0 (FDispSending f i sv) w, [EBTry sd (f_id f, i)]) else None
  | FDispSending f i sv, VFwDispSent => Some (fw0 (FDispSpawn f sv) w, [EBOk sd])
  | FDispSending f i sv, VFwDispAbort => Some (fw0 (FDispAborted f) w, [EBAbort sd; ENeedInt])
  | FDispSpawn f sv, VBwSpawn => Some (fw0 (FDisp f sv) w, [ESpawnBW])
  | FDispSpawn f (i :: sv), VPoolRetain f' => if Z.eqb (f_id f) f' then Some (fw0 (FDispRetained f i sv) w, [EPool (PRetain f')]) else None
  | FDispSpawn f [], VPoolRelease f' => if Z.eqb (f_id f) f' then Some (fw0 FIdle w, [EPool (PRelease f')]) else None
  | FDispAborted f, VPoolRelease f' => if Z.eqb (f_id f) f' then Some (fw0 (FFinalRelease f) w, [EPool (PRelease f')]) else None
  | FFinalRelease f, VPoolRelease f' => if Z.eqb (f_id f) f' then Some (fw0 FExiting w, [EPool (PRelease f')]) else None
  | FExiting, VFwExit => if fw_held w then None else Some (fw0 FExited w, [])
  | _, _ => None
  end.

(* a failure's error is recorded unless the query's context is already done *)
Definition fw_step (e : qenv) (r sd : nat) (w : fwst) (v : ev) : option (fwst * list eff) :=
  match v with
  | VResErr er =>
      if fw_owes w then Some ({| fw_pc := fw_pc w; fw_held := fw_held w; fw_owes := false |}, [ECur (LRecordErr er)]) else None
  | _ =>
      match fw_local e r sd w v with
      | Some (w', effs) => Some (w', if fw_owes w then ENeedInt :: effs else effs)
      | None => None
      end
  end.

(* ------------------------------------------------------------------ block worker *)
Inductive dphase := DTried | DBlocked | DReacq.

Inductive bpc :=
| BIdle | BExiting | BExited
| BTaken (j : job)
| BAcq (j : job)
| BOpening (j : job) | BOpenFailed (j : job)
| BRead (j : job)
| BReadFailed (j : job)
| BScan (j : job) (todo : list row) (clean : bool)
| BDeliv (j : job) (todo : list row) (clean final : bool) (ph : dphase)
| BDelivFailed (j : job) (todo : list row)          (* mid-scan deliver returned the ctx error *)
| BEnding (j : job) (clean : bool) (todo : list row)
| BEnded (j : job) (rows bytes : Z)
| BRelSlot (j : job)
| BRelRef (j : job) (exit : bool).

Record bwst := { bw_pc : bpc; bw_held : bool; bw_owes : bool }.

Definition bw0 (pc : bpc) (w : bwst) : bwst := {| bw_pc := pc; bw_held := bw_held w; bw_owes := false |}.
Definition bwfail (pc : bpc) (w : bwst) : bwst := {| bw_pc := pc; bw_held := bw_held w; bw_owes := true |}.
Definition bwheld (pc : bpc) (h : bool) (w : bwst) : bwst := {| bw_pc := pc; bw_held := h; bw_owes := false |}.

Definition rel_slot (held : bool) (j : job) : bpc := if held then BRelSlot j else BRelRef j false.

(* after a deliver call returned *)
Definition after_deliver (ok final clean : bool) (j : job) (todo : list row) : bpc :=
  if final then BEnding j clean todo
  else if ok then BScan j todo clean else BDelivFailed j todo.

(* r = pool reader id, sd = sender id on rowChan *)
Definition bw_local (e : qenv) (r sd : nat) (w : bwst) (v : ev) : option (bwst * list eff) :=
  match bw_pc w, v with
  | BIdle, VBwTake j => match job_block e j with Some _ => Some (bw0 (BTaken j) w, [EBTake j]) | None => None end
  | BIdle, VBwClosed => Some (bw0 BExiting w, [EBClosedEmpty])
  | BIdle, VBwCtx => Some (bw0 BExiting w, [ENeedInt])
  | BTaken j, VSlotAcqOk => if bw_held w then None else Some (bwheld (BAcq j) true w, [ESlotAcq])
  | BTaken j, VSlotAcqCtx => if bw_held w then None else Some (bw0 (BRelRef j true) w, [ENeedInt])
  | BAcq j, VPoolAcqIdle f' => if Z.eqb (fst j) f' then Some (bw0 (BRead j) w, [EPool (PAcquireIdle r f')]) else None
  | BAcq j, VPoolAcqOpen f' => if Z.eqb (fst j) f' then Some (bw0 (BOpening j) w, [EPool (PAcquireOpen r f')]) else None
  | BOpening j, VStOpenOk => Some (bw0 (BRead j) w, [EPool (POpenOk r)])
  | BOpening j, VStOpenFail => Some (bw0 (BOpenFailed j) w, [EPool (POpenFail r)])
  | BOpenFailed j, VPdbOpenFail => Some (bwfail (BEnding j false []) w, [])
  | BRead j, VPdbReadFail => Some (bw0 (BReadFailed j) w, [])
  | BRead j, VPoolPut f' c =>
      match job_block e j with
      | Some b => if Z.eqb (fst j) f' then Some (bw0 (BScan j (b_matched b) true) w, [EPool (PPut r f' c)]) else None
      | None => None
      end
  | BReadFailed j, VPoolDiscard => Some (bwfail (BEnding j false []) w, [EPool (PDiscard r)])
  | BScan j todo clean, VDeliverTry n =>
      if (1 <=? n)%nat && (n <=? length todo)%nat && (n <=? e_bsz e)%nat then
        let final := (n <? e_bsz e)%nat in
        (* a final flush of an undisturbed scan carries every remaining matched row *)
        if final && clean && negb (n =? length todo)%nat then None
        else Some (bw0 (BDeliv j (skipn n todo) clean final DTried) w, [ECur (LDeliverTry sd (firstn n todo))])
      else None
  | BScan j todo clean, VPdbRowErr => Some (bwfail (BEnding j false todo) w, [])
  | BScan j todo clean, VPdbCtx => Some (bw0 (BEnding j false todo) w, [ENeedInt])
  | BScan j todo clean, VPdbEnd rows bytes =>
      match job_block e j with
      | Some b =>
          if clean && negb (match todo with [] => Z.eqb rows (b_rows b) && Z.eqb bytes (b_bytes b) | _ => false end) then None
          else Some (bw0 (BEnded j rows bytes) w, [])
      | None => None
      end
  | BDeliv j todo clean final DTried, VDeliverFast =>
      Some (bw0 (after_deliver true final clean j todo) w, [ECur (LDeliverOk sd)])
  | BDeliv j todo clean final DTried, VSlotRel =>
      if bw_held w then Some (bwheld (BDeliv j todo clean final DBlocked) false w, [ESlotRel]) else None
  | BDeliv j todo clean final DBlocked, VDeliverSlow =>
      Some (bw0 (BDeliv j todo clean final DReacq) w, [ECur (LDeliverOk sd)])
  | BDeliv j todo clean final DBlocked, VDeliverCtx =>
      Some (bw0 (after_deliver false final false j todo) w, [ECur (LDeliverCtx sd); ENeedInt])
  | BDeliv j todo clean final DReacq, VSlotAcqOk =>
      if bw_held w then None else Some (bwheld (after_deliver true final clean j todo) true w, [ESlotAcq])
  | BDeliv j todo clean final DReacq, VSlotAcqCtx =>
      if bw_held w then None else Some (bw0 (after_deliver false final false j todo) w, [ENeedInt])
  | BDelivFailed j todo, VPdbDeliverFail => Some (bw0 (BEnding j false []) w, [])
  | BEnding j clean todo, VDeliverTry n =>
      (* the deferred flush of a disturbed scan: whatever was batched so far *)
      if clean then None else
      if (1 <=? n)%nat && (n <=? length todo)%nat && (n <? e_bsz e)%nat then
        Some (bw0 (BDeliv j [] false true DTried) w, [ECur (LDeliverTry sd (firstn n todo))])
      else None
  | BEnding j clean todo, VPdbEnd rows bytes =>
      match job_block e j with
      | Some b =>
          if clean && negb (match todo with [] => Z.eqb rows (b_rows b) && Z.eqb bytes (b_bytes b) | _ => false end) then None
          else Some (bw0 (BEnded j rows bytes) w, [])
      | None => None
      end
  | BEnded j rows bytes, VResStat =>
      match job_block e j with
      | Some b => Some (bw0 (rel_slot (bw_held w) j) w,
                        [ECur (LRecordStat (stat_scanned (fst j) (b_off b) rows bytes (b_rows b) (b_tbytes b))); ERec j])
      | None => None
      end
  | BRelSlot j, VSlotRel => if bw_held w then Some (bwheld (BRelRef j false) false w, [ESlotRel]) else None
  | BRelRef j ex, VPoolRelease f' =>
      if Z.eqb (fst j) f' then Some (bw0 (if ex then BExiting else BIdle) w, [EPool (PRelease f')]) else None
  | BExiting, VBwExit => if bw_held w then None else Some (bw0 BExited w, [])
  | _, _ => None
  end.

Definition bw_step (e : qenv) (r sd : nat) (w : bwst) (v : ev) : option (bwst * list eff) :=
  match v with
  | VResErr er =>
      if bw_owes w then Some ({| bw_pc := bw_pc w; bw_held := bw_held w; bw_owes := false |}, [ECur (LRecordErr er)]) else None
  | _ =>
      match bw_local e r sd w v with
      | Some (w', effs) => Some (w', if bw_owes w then ENeedInt :: effs else effs)
      | None => None
      end
  end.

(* ------------------------------------------------------------------ teardown goroutine *)
Inductive tdpc := TWaitFiles | TWaitBlocks | TCloseAll | TMark | TDone.

Definition td_local (pc : tdpc) (v : ev) : option (tdpc * list eff) :=
  match pc, v with
  | TWaitFiles, VTdFilesDone => Some (TWaitBlocks, [ENeedFilesDone; EBClose])
  | TWaitBlocks, VTdBlocksDone => Some (TCloseAll, [ENeedBlocksDone])
  | TCloseAll, VPoolCloseAll => Some (TMark, [EPool PCloseAll])
  | TMark, VResWorkersDone => Some (TDone, [ECur LWorkersDone])
  | _, _ => None
  end.

(* ------------------------------------------------------------------ state *)
Record qstate := {
  q_env : qenv;
  q_cur : cur;
  q_pool : pool;
  q_fs : fspc;
  q_fjobs : list (centry (A := fileid)); q_fclosed : bool;
  q_bjobs : list (centry (A := job)); q_bclosed : bool;
  q_fws : list fwst;
  q_bws : list bwst;
  q_td : tdpc;
  q_survived : list job;         (* ghost: blocks that went on to be scanned *)
  q_started : list fileid;       (* ghost: files handed to the file workers *)
  q_recorded : list job          (* ghost: blocks whose stats entry was recorded *)
}.

Record gstate := { g_cap : nat; g_used : nat; g_qs : list qstate }.

Definition qinit (e : qenv) (closers : nat) : qstate :=
  {| q_env := e; q_cur := cinit closers; q_pool := pinit; q_fs := SRun (e_items e);
     q_fjobs := []; q_fclosed := false; q_bjobs := []; q_bclosed := false;
     q_fws := []; q_bws := []; q_td := TWaitFiles; q_survived := []; q_started := []; q_recorded := [] |}.

Definition ginit (cap : nat) (es : list (qenv * nat)) : gstate :=
  {| g_cap := cap; g_used := 0; g_qs := map (fun ec => qinit (fst ec) (snd ec)) es |}.

Definition fw_exited (w : fwst) : bool := match fw_pc w with FExited => true | _ => false end.
Definition bw_exited (w : bwst) : bool := match bw_pc w with BExited => true | _ => false end.
Definition fs_exited (q : qstate) : bool := match q_fs q with SExited => true | _ => false end.

Definition new_fw : fwst := {| fw_pc := FIdle; fw_held := false; fw_owes := false |}.
Definition new_bw : bwst := {| bw_pc := BIdle; bw_held := false; bw_owes := false |}.

(* which cursor labels belong to the world outside the pipeline *)
Definition external_label (l : clabel) : bool :=
  match l with
  | LDeliverTry _ _ | LDeliverOk _ | LDeliverCtx _ | LRecordStat _ | LRecordErr _ | LWorkersDone => false
  | _ => true
  end.

Definition set_cur (q : qstate) (c : cur) : qstate :=
  {| q_env := q_env q; q_cur := c; q_pool := q_pool q; q_fs := q_fs q; q_fjobs := q_fjobs q; q_fclosed := q_fclosed q;
     q_bjobs := q_bjobs q; q_bclosed := q_bclosed q; q_fws := q_fws q; q_bws := q_bws q; q_td := q_td q; q_survived := q_survived q; q_started := q_started q; q_recorded := q_recorded q |}.
Definition set_pool (q : qstate) (p : pool) : qstate :=
  {| q_env := q_env q; q_cur := q_cur q; q_pool := p; q_fs := q_fs q; q_fjobs := q_fjobs q; q_fclosed := q_fclosed q;
     q_bjobs := q_bjobs q; q_bclosed := q_bclosed q; q_fws := q_fws q; q_bws := q_bws q; q_td := q_td q; q_survived := q_survived q; q_started := q_started q; q_recorded := q_recorded q |}.
Definition set_fjobs (q : qstate) (l : list centry) (c : bool) : qstate :=
  {| q_env := q_env q; q_cur := q_cur q; q_pool := q_pool q; q_fs := q_fs q; q_fjobs := l; q_fclosed := c;
     q_bjobs := q_bjobs q; q_bclosed := q_bclosed q; q_fws := q_fws q; q_bws := q_bws q; q_td := q_td q; q_survived := q_survived q; q_started := q_started q; q_recorded := q_recorded q |}.
Definition set_bjobs (q : qstate) (l : list centry) (c : bool) : qstate :=
  {| q_env := q_env q; q_cur := q_cur q; q_pool := q_pool q; q_fs := q_fs q; q_fjobs := q_fjobs q; q_fclosed := q_fclosed q;
     q_bjobs := l; q_bclosed := c; q_fws := q_fws q; q_bws := q_bws q; q_td := q_td q; q_survived := q_survived q; q_started := q_started q; q_recorded := q_recorded q |}.
Definition set_fws (q : qstate) (l : list fwst) : qstate :=
  {| q_env := q_env q; q_cur := q_cur q; q_pool := q_pool q; q_fs := q_fs q; q_fjobs := q_fjobs q; q_fclosed := q_fclosed q;
     q_bjobs := q_bjobs q; q_bclosed := q_bclosed q; q_fws := l; q_bws := q_bws q; q_td := q_td q; q_survived := q_survived q; q_started := q_started q; q_recorded := q_recorded q |}.
Definition set_bws (q : qstate) (l : list bwst) : qstate :=
  {| q_env := q_env q; q_cur := q_cur q; q_pool := q_pool q; q_fs := q_fs q; q_fjobs := q_fjobs q; q_fclosed := q_fclosed q;
     q_bjobs := q_bjobs q; q_bclosed := q_bclosed q; q_fws := q_fws q; q_bws := l; q_td := q_td q; q_survived := q_survived q; q_started := q_started q; q_recorded := q_recorded q |}.
Definition set_fs (q : qstate) (pc : fspc) : qstate :=
  {| q_env := q_env q; q_cur := q_cur q; q_pool := q_pool q; q_fs := pc; q_fjobs := q_fjobs q; q_fclosed := q_fclosed q;
     q_bjobs := q_bjobs q; q_bclosed := q_bclosed q; q_fws := q_fws q; q_bws := q_bws q; q_td := q_td q; q_survived := q_survived q; q_started := q_started q; q_recorded := q_recorded q |}.
Definition set_td (q : qstate) (pc : tdpc) : qstate :=
  {| q_env := q_env q; q_cur := q_cur q; q_pool := q_pool q; q_fs := q_fs q; q_fjobs := q_fjobs q; q_fclosed := q_fclosed q;
     q_bjobs := q_bjobs q; q_bclosed := q_bclosed q; q_fws := q_fws q; q_bws := q_bws q; q_td := pc; q_survived := q_survived q; q_started := q_started q; q_recorded := q_recorded q |}.
Definition add_survived (q : qstate) (j : job) : qstate :=
  {| q_env := q_env q; q_cur := q_cur q; q_pool := q_pool q; q_fs := q_fs q; q_fjobs := q_fjobs q; q_fclosed := q_fclosed q;
     q_bjobs := q_bjobs q; q_bclosed := q_bclosed q; q_fws := q_fws q; q_bws := q_bws q; q_td := q_td q; q_survived := q_survived q ++ [j]; q_started := q_started q; q_recorded := q_recorded q |}.
Definition add_started (q : qstate) (f : fileid) : qstate :=
  {| q_env := q_env q; q_cur := q_cur q; q_pool := q_pool q; q_fs := q_fs q; q_fjobs := q_fjobs q; q_fclosed := q_fclosed q;
     q_bjobs := q_bjobs q; q_bclosed := q_bclosed q; q_fws := q_fws q; q_bws := q_bws q; q_td := q_td q; q_survived := q_survived q;
     q_started := q_started q ++ [f]; q_recorded := q_recorded q |}.
Definition add_recorded (q : qstate) (j : job) : qstate :=
  {| q_env := q_env q; q_cur := q_cur q; q_pool := q_pool q; q_fs := q_fs q; q_fjobs := q_fjobs q; q_fclosed := q_fclosed q;
     q_bjobs := q_bjobs q; q_bclosed := q_bclosed q; q_fws := q_fws q; q_bws := q_bws q; q_td := q_td q; q_survived := q_survived q;
     q_started := q_started q; q_recorded := q_recorded q ++ [j] |}.

(* one effect on (semaphore count, query); [fx]: the cursor code (D7 fix or pinned) *)
Definition apply_eff (fx : bool) (cap : nat) (uq : nat * qstate) (e : eff) : option (nat * qstate) :=
  let (u, q) := uq in
  match e with
  | ECur l => match cursor_step fx (q_cur q) l with Some c => Some (u, set_cur q c) | None => None end
  | EPool l => match pool_step (q_pool q) l with Some p => Some (u, set_pool q p) | None => None end
  | ESlotAcq => if u <? cap then Some (S u, q) else None
  | ESlotRel => match u with S u' => Some (u', q) | O => None end
  | ENeedInt => if x_int (c_x (q_cur q)) then Some (u, q) else None
  | EFTry f => if q_fclosed q || negb (c_sender_free 0 (q_fjobs q)) then None else Some (u, add_started (set_fjobs q (c_try 0 f (q_fjobs q)) false) f)
  | EFOk => match c_ok 0 (q_fjobs q) with Some l => Some (u, set_fjobs q l (q_fclosed q)) | None => None end
  | EFAbort => match c_abort 0 (q_fjobs q) with Some l => Some (u, set_fjobs q l (q_fclosed q)) | None => None end
  | EFTake f => match c_take Z.eqb f (q_fjobs q) with Some l => Some (u, set_fjobs q l (q_fclosed q)) | None => None end
  | EFClose => if q_fclosed q || negb (c_all_sent (q_fjobs q)) then None else Some (u, set_fjobs q (q_fjobs q) true)
  | EFClosedEmpty => if q_fclosed q && c_none_sent (q_fjobs q) then Some (u, q) else None
  | EBTry w j => if q_bclosed q || negb (c_sender_free w (q_bjobs q)) then None else Some (u, set_bjobs q (c_try w j (q_bjobs q)) false)
  | EBOk w => match c_ok w (q_bjobs q) with Some l => Some (u, set_bjobs q l (q_bclosed q)) | None => None end
  | EBAbort w => match c_abort w (q_bjobs q) with Some l => Some (u, set_bjobs q l (q_bclosed q)) | None => None end
  | EBTake j => match c_take job_eqb j (q_bjobs q) with Some l => Some (u, set_bjobs q l (q_bclosed q)) | None => None end
  | EBClose => if q_bclosed q || negb (c_all_sent (q_bjobs q)) then None else Some (u, set_bjobs q (q_bjobs q) true)
  | EBClosedEmpty => if q_bclosed q && c_none_sent (q_bjobs q) then Some (u, q) else None
  | ESpawnFW => if length (q_fws q) <? cap then Some (u, set_fws q (q_fws q ++ [new_fw])) else None
  | ESpawnBW => if length (q_bws q) <? cap then Some (u, set_bws q (q_bws q ++ [new_bw])) else None
  | ENeedFilesDone => if fs_exited q && forallb fw_exited (q_fws q) then Some (u, q) else None
  | ENeedBlocksDone => if forallb bw_exited (q_bws q) then Some (u, q) else None
  | ESurvive j => Some (u, add_survived q j)
  | ERec j => Some (u, add_recorded q j)
  end.

Fixpoint apply_effs (fx : bool) (cap : nat) (uq : nat * qstate) (es : list eff) : option (nat * qstate) :=
  match es with
  | [] => Some uq
  | e :: t => match apply_eff fx cap uq e with Some uq' => apply_effs fx cap uq' t | None => None end
  end.

(* ------------------------------------------------------------------ labels and the step *)
Inductive actor := AFs | AFw (i : nat) | ABw (j : nat) | ATd.

Inductive qlabel :=
| LAct (q : nat) (a : actor) (v : ev)       (* a hook event of a pipeline goroutine of query q *)
| LExt (q : nat) (l : clabel).              (* consumer, Close callers, the caller's context *)

(* one actor's transition inside its query: the actor's new local state is installed first,
   then the effects run *)
Definition act_step (fx : bool) (cap : nat) (u : nat) (q : qstate) (a : actor) (v : ev) : option (nat * qstate) :=
  match a with
  | AFs =>
      match fs_local cap (length (q_fws q)) (q_fs q) v with
      | Some (pc, effs) => apply_effs fx cap (u, set_fs q pc) effs
      | None => None
      end
  | AFw i =>
      match nth_error (q_fws q) i with
      | Some w =>
          match fw_step (q_env q) (2 * i) i w v with
          | Some (w', effs) => apply_effs fx cap (u, set_fws q (set_nth i w' (q_fws q))) effs
          | None => None
          end
      | None => None
      end
  | ABw j =>
      match nth_error (q_bws q) j with
      | Some w =>
          match bw_step (q_env q) (2 * j + 1) j w v with
          | Some (w', effs) => apply_effs fx cap (u, set_bws q (set_nth j w' (q_bws q))) effs
          | None => None
          end
      | None => None
      end
  | ATd =>
      match td_local (q_td q) v with
      | Some (pc, effs) => apply_effs fx cap (u, set_td q pc) effs
      | None => None
      end
  end.

Definition qstep (fx : bool) (s : gstate) (l : qlabel) : option gstate :=
  match l with
  | LAct qi a v =>
      match nth_error (g_qs s) qi with
      | Some q =>
          match act_step fx (g_cap s) (g_used s) q a v with
          | Some (u', q') => Some {| g_cap := g_cap s; g_used := u'; g_qs := set_nth qi q' (g_qs s) |}
          | None => None
          end
      | None => None
      end
  | LExt qi cl =>
      if external_label cl then
        match nth_error (g_qs s) qi with
        | Some q =>
            match cursor_step fx (q_cur q) cl with
            | Some c => Some {| g_cap := g_cap s; g_used := g_used s; g_qs := set_nth qi (set_cur q c) (g_qs s) |}
            | None => None
            end
        | None => None
        end
      else None
  end.

Fixpoint qsteps (fx : bool) (s : gstate) (ls : list qlabel) : option gstate :=
  match ls with
  | [] => Some s
  | l :: t => match qstep fx s l with Some s' => qsteps fx s' t | None => None end
  end.

(* ------------------------------------------------------------------ derived notions *)
(* slots held by the workers of one query *)
Definition q_slots (q : qstate) : nat :=
  length (filter fw_held (q_fws q)) + length (filter bw_held (q_bws q)).

(* a worker between obtaining a handle (or asking the store for one) and giving it back: the
   section in which it does DataStore I/O *)
Definition fw_in_io (w : fwst) : bool :=
  match fw_pc w with
  | FOpening _ | FLoop _ _ _ | FFilterFail _ _ _ | FPruned _ _ _ | FPutBack _ _ _ => true
  | FUnread _ _ (FPutBack _ _ _) | FUnread _ _ (FLoop _ _ _) => true
  | _ => false
  end.
Definition bw_in_io (w : bwst) : bool :=
  match bw_pc w with
  | BOpening _ | BRead _ | BReadFailed _ => true
  | _ => false
  end.

(* blocked on someone else's progress: a consumer (deliver) or the next stage (dispatch) *)
Definition fw_blocked (w : fwst) : bool := match fw_pc w with FDispSending _ _ _ => true | _ => false end.
Definition bw_blocked (w : bwst) : bool := match bw_pc w with BDeliv _ _ _ _ DBlocked => true | _ => false end.

(* the expected rows of a completed, undisturbed query: the matched rows of the blocks that went on to be scanned *)
Definition survived_rows (q : qstate) : list row :=
  flat_map (fun j => match job_block (q_env q) j with Some b => b_matched b | None => [] end) (q_survived q).

Definition clean_completion (q : qstate) : bool :=
  complete (q_cur q) && negb (m_int_at_done (c_m (q_cur q))) &&
  match m_errs (c_m (q_cur q)) with [] => true | _ => false end.
