(* Family T — row framing (file_format.go: BlockRowScanner.Next; ingest.go / merge.go
   writers).  Bytes are N (< 256), offsets and lengths are Z (Go int).  Executable
   definitions only. *)
From BS Require Import Lib.Bytes.
From Coq Require Import List ZArith NArith Bool.
Import ListNotations.
Open Scope Z_scope.

Definition lenZ (s : str) : Z := Z.of_nat (length s).

(* s[off : off+n] for 0 <= off, 0 <= n (callers establish off + n <= len s) *)
Definition slice (s : str) (off n : Z) : str := firstn (Z.to_nat n) (skipn (Z.to_nat off) s).

(* binary.LittleEndian.PutUint32(uint32(n)): the conversion truncates to 32 bits *)
Definition le32 (n : Z) : str :=
  let m := Z.to_N n in
  [ (m mod 256)%N; ((m / 256) mod 256)%N; ((m / 65536) mod 256)%N; ((m / 16777216) mod 256)%N ].

(* binary.LittleEndian.Uint32(b) for len b >= 4 *)
Definition rd32 (b : str) : Z :=
  match b with
  | a :: b :: c :: d :: _ => Z.of_N (a + 256 * b + 65536 * c + 16777216 * d)
  | _ => 0
  end.

Definition LengthPrefixSize : Z := 4.

(* writer: [uint32 length][row bytes] per row, concatenated *)
Definition frame_row (r : str) : str := le32 (lenZ r) ++ r.
Definition frame (rows : list str) : str := flat_map frame_row rows.

(* ingest.go / merge.go accounting, one row at a time *)
Definition acc_usize (rows : list str) : Z := fold_left (fun a r => a + (lenZ r + LengthPrefixSize)) rows 0.
Definition acc_rows (rows : list str) : Z := fold_left (fun a _ => a + 1) rows 0.

(* BlockRowScanner.Next at position pos; rest = data[pos:] *)
Inductive sres := SEnd | SErr | SRow (off n : Z).

Definition scan_step (dlen pos : Z) (rest : str) : sres :=
  if pos =? dlen then SEnd
  else if dlen - pos <? LengthPrefixSize then SErr
  else
    let n := rd32 rest in
    let pos1 := pos + LengthPrefixSize in
    if dlen - pos1 <? n then SErr else SRow pos1 n.

(* repeated Next: the rows (offset of the row bytes, row bytes) yielded before the end
   or the first error; the flag is true iff the scan ended without an error *)
Fixpoint scan_go (fuel : nat) (dlen pos : Z) (rest : str) : list (Z * str) * bool :=
  match fuel with
  | O => ([], false)
  | S f =>
      match scan_step dlen pos rest with
      | SEnd => ([], true)
      | SErr => ([], false)
      | SRow o n =>
          let body := skipn 4 rest in
          let '(rs, ok) := scan_go f dlen (o + n) (skipn (Z.to_nat n) body) in
          ((o, firstn (Z.to_nat n) body) :: rs, ok)
      end
  end.

Definition scan_x (data : str) : list (Z * str) * bool := scan_go (S (length data)) (lenZ data) 0 data.
Definition scan (data : str) : list str * bool := let '(rs, ok) := scan_x data in (map snd rs, ok).
Definition scan_extents (data : str) : list (Z * Z) := map (fun '(o, r) => (o, lenZ r)) (fst (scan_x data)).
