(* The two shipped MetaStores under concurrent queries, flushes and merges (C14).

   MemoryMetaStore (memory_meta_store.go): GetMaybeFilesForQuery copies the candidate set under
   the read lock -- one atomic step -- and yields from the copy; Update is one atomic step under
   the write lock.
   FileSystemDataStore used as MetaStore (file_system_store.go): the referenced set IS the
   directory: a file is visible from its writer's Close (rename) on; a scan is a readdir snapshot
   followed, file by file, by opening and parsing whatever is at that name at that moment (a
   missing or unreadable file is skipped silently); Update removes the sources one by one.

   Files are immutable once written; the DataStore is abstracted to "is the file still there"
   (published and not tombstoned); an open handle keeps a tombstoned file readable.
   One step per atomic action of a flush, a merge (single flight) or a query; any interleaving
   of the actors is a list of labels accepted by [mstep]. Executable definitions only. *)
From Coq Require Import List Bool Arith.
Import ListNotations.
Open Scope nat_scope.

Inductive mkind := MemStore | FsMeta.

Record file := mkFile {
  fl_blocks : list (list nat);    (* row ids per data block; never changes *)
  fl_there : bool;                (* present in the DataStore: published and not tombstoned *)
  fl_pub : bool                   (* ghost: its writer's Close has returned nil at some point *)
}.

Definition rows (f : file) : list nat := concat (fl_blocks f).

Record merge := mkMerge {
  m_srcs : list nat;              (* the group's source files *)
  m_out : option nat;             (* output file, once created *)
  m_committed : bool              (* MemoryMetaStore: Update done. FS: first source removed *)
}.

Record query := mkQuery {
  q_acked0 : list nat;            (* ghost: rows acknowledged before the query started *)
  q_overlap : bool;               (* ghost: a merge was running at some moment of the query *)
  q_listing : option (list nat);  (* FS: readdir snapshot, files not yet parsed *)
  q_snap : option (list nat);     (* files yielded by the MetaStore iterator so far / the snapshot *)
  q_todo : list (nat * nat);      (* (file, block) still to be read *)
  q_handles : list nat;           (* files this query holds an open handle on *)
  q_got : list nat;               (* rows delivered *)
  q_err : bool;                   (* a block error was recorded: Err() will be non-nil *)
  q_done : bool
}.

Record mstate := mkM {
  s_files : list file;            (* file id = index; append-only *)
  s_meta : list nat;              (* MemoryMetaStore content *)
  s_pending : list nat;           (* flush files created, MetaStore.Update not yet done (or given up) *)
  s_commit : list nat;            (* flush files committed, acknowledgement not yet sent *)
  s_acked : list nat;             (* rows acknowledged so far *)
  s_ingested : list nat;          (* rows ingested so far *)
  s_merge : option merge;
  s_queries : list query
}.

Definition m0 : mstate := mkM [] [] [] [] [] [] None [].

Definition getf (s : mstate) (f : nat) : option file := nth_error (s_files s) f.
Definition frows (s : mstate) (f : nat) : list nat := match getf s f with Some x => rows x | None => [] end.
Definition rows_of (s : mstate) (fs : list nat) : list nat := flat_map (frows s) fs.
Definition there (s : mstate) (f : nat) : bool := match getf s f with Some x => fl_there x | None => false end.
Definition published (s : mstate) (f : nat) : bool := match getf s f with Some x => fl_pub x | None => false end.
Definition block_rows (s : mstate) (fb : nat * nat) : list nat :=
  match getf s (fst fb) with Some x => nth (snd fb) (fl_blocks x) [] | None => [] end.
Definition blocks_of (s : mstate) (f : nat) : list (nat * nat) :=
  match getf s f with Some x => map (fun i => (f, i)) (seq 0 (length (fl_blocks x))) | None => [] end.

Definition memn (a : nat) (l : list nat) : bool := existsb (Nat.eqb a) l.
Fixpoint nodupn (l : list nat) : bool :=
  match l with [] => true | x :: t => negb (memn x t) && nodupn t end.
Definition incln (a b : list nat) : bool := forallb (fun x => memn x b) a.
Definition disjn (a b : list nat) : bool := forallb (fun x => negb (memn x b)) a.
Definition remove_all (xs l : list nat) : list nat := filter (fun x => negb (memn x xs)) l.

Fixpoint upd_nth {A} (i : nat) (x : A) (l : list A) : list A :=
  match l, i with
  | [], _ => []
  | _ :: t, O => x :: t
  | y :: t, S j => y :: upd_nth j x t
  end.

Fixpoint remove_at {A} (i : nat) (l : list A) : list A :=
  match l, i with
  | [], _ => []
  | _ :: t, O => t
  | y :: t, S j => y :: remove_at j t
  end.

Definition set_there (f : nat) (b : bool) (s : mstate) : list file :=
  match getf s f with
  | Some x => upd_nth f (mkFile (fl_blocks x) b (fl_pub x || b)) (s_files s)
  | None => s_files s
  end.

(* the files a scan can see right now (FS) *)
Definition visible (s : mstate) : list nat := filter (there s) (seq 0 (length (s_files s))).

(* the .dat names a readdir returns: published files, and the 0-byte reservations of files still
   being written (a flush's, or the merge output's). A flush file that was published and then
   removed -- a merge over the FS store takes it as a source as soon as it is published, before
   its flush has called Update -- has no entry any more although its flush is still pending. *)
Definition has_entry (s : mstate) (f : nat) : bool :=
  there s f || (memn f (s_pending s) && negb (published s f))
  || match s_merge s with
     | Some m => match m_out m with Some o => (o =? f) && negb (m_committed m) | None => false end
     | None => false
     end.
Definition listed (s : mstate) : list nat := filter (has_entry s) (seq 0 (length (s_files s))).

Definition merge_running (s : mstate) : bool := match s_merge s with Some _ => true | None => false end.

(* every running query notes that a merge was running *)
Definition mark_overlap (qs : list query) : list query :=
  map (fun q => if q_done q then q else
                mkQuery (q_acked0 q) true (q_listing q) (q_snap q) (q_todo q) (q_handles q) (q_got q) (q_err q) (q_done q)) qs.

Inductive mlabel :=
(* flush (handleFlush): CreateFile..Write | Close | MetaStore.Update | ack; or failure and cleanup *)
| LFCreate (blocks : list (list nat))      (* new file with these fresh rows; not yet visible *)
| LFPublish (f : nat)                      (* writer.Close returned nil *)
| LFUpdate (f : nat)                       (* MetaStore.Update(add f) *)
| LFAck (f : nat)                          (* done channels receive nil *)
| LFFail (f : nat)                         (* the flush failed: Abort/TombstoneFile, error ack *)
(* merge (single flight): scan | per group CreateFile..Close | Update | TombstoneFile per source *)
| LMStart (srcs : list nat)
| LMCreate (blocks : list (list nat))      (* output: the sources' rows, regrouped *)
| LMPublish
| LMUpdate                                 (* MemoryMetaStore: atomic swap. FS: nothing happens here *)
| LMRemove (f : nat)                       (* FS Update's os.Remove / TombstoneFile of a source *)
| LMEnd
| LMAbort                                  (* merge failed before committing: output tombstoned *)
(* query *)
| LQStart                                  (* Query called: new query id = length queries *)
| LQSnap (q : nat)                         (* MemoryMetaStore: snapshot under the read lock *)
| LQList (q : nat)                         (* FS: os.ReadDir *)
| LQParse (q : nat) (f : nat) (yielded : bool)   (* FS: readFileMetadata of one listed file, now *)
| LQRead (q : nat) (i : nat) (ok : bool)   (* read the i-th remaining block; ok=false: open failed *)
| LQEnd (q : nat).

Definition set_q (i : nat) (q : query) (s : mstate) : mstate :=
  mkM (s_files s) (s_meta s) (s_pending s) (s_commit s) (s_acked s) (s_ingested s) (s_merge s) (upd_nth i q (s_queries s)).

Definition with_merge_step (s : mstate) : list query := mark_overlap (s_queries s).

Definition mstep (k : mkind) (s : mstate) (l : mlabel) : option mstate :=
  match l with
  | LFCreate blocks =>
      let r := concat blocks in
      if nodupn r && disjn r (s_ingested s) then
        Some (mkM (s_files s ++ [mkFile blocks false false]) (s_meta s) (s_pending s ++ [length (s_files s)]) (s_commit s)
                  (s_acked s) (s_ingested s ++ r) (s_merge s) (s_queries s))
      else None
  | LFPublish f =>
      if memn f (s_pending s) && negb (published s f) then
        Some (mkM (set_there f true s) (s_meta s) (s_pending s) (s_commit s) (s_acked s) (s_ingested s) (s_merge s) (s_queries s))
      else None
  | LFUpdate f =>
      if memn f (s_pending s) && (there s f || match k with FsMeta => published s f | MemStore => false end) then
        Some (mkM (s_files s) (match k with MemStore => s_meta s ++ [f] | FsMeta => s_meta s end)
                  (remove_all [f] (s_pending s)) (s_commit s ++ [f]) (s_acked s) (s_ingested s) (s_merge s) (s_queries s))
      else None
  | LFAck f =>
      (* committed: MemoryMetaStore references it; FS: it is published *)
      if memn f (s_commit s) then
        Some (mkM (s_files s) (s_meta s) (s_pending s) (remove_all [f] (s_commit s)) (s_acked s ++ frows s f) (s_ingested s)
                  (s_merge s) (s_queries s))
      else None
  | LFFail f =>
      if memn f (s_pending s) then
        Some (mkM (set_there f false s) (s_meta s) (remove_all [f] (s_pending s)) (s_commit s) (s_acked s) (s_ingested s)
                  (s_merge s) (s_queries s))
      else None
  | LMStart srcs =>
      let view := match k with MemStore => s_meta s | FsMeta => visible s end in
      if negb (merge_running s) && nodupn srcs && incln srcs view && forallb (there s) srcs then
        Some (mkM (s_files s) (s_meta s) (s_pending s) (s_commit s) (s_acked s) (s_ingested s)
                  (Some (mkMerge srcs None false)) (with_merge_step s))
      else None
  | LMCreate blocks =>
      match s_merge s with
      | Some m =>
          let r := concat blocks in
          if match m_out m with None => true | Some _ => false end
             && nodupn r && incln r (rows_of s (m_srcs m)) && incln (rows_of s (m_srcs m)) r then
            Some (mkM (s_files s ++ [mkFile blocks false false]) (s_meta s) (s_pending s) (s_commit s) (s_acked s) (s_ingested s)
                      (Some (mkMerge (m_srcs m) (Some (length (s_files s))) (m_committed m))) (with_merge_step s))
          else None
      | None => None
      end
  | LMPublish =>
      match s_merge s with
      | Some m =>
          match m_out m with
          | Some o =>
              if negb (there s o) && negb (m_committed m) then
                Some (mkM (set_there o true s) (s_meta s) (s_pending s) (s_commit s) (s_acked s) (s_ingested s) (s_merge s) (with_merge_step s))
              else None
          | None => None
          end
      | None => None
      end
  | LMUpdate =>
      match s_merge s with
      | Some m =>
          match m_out m with
          | Some o =>
              if there s o && negb (m_committed m) then
                match k with
                | MemStore =>
                    Some (mkM (s_files s) (remove_all (m_srcs m) (s_meta s) ++ [o]) (s_pending s) (s_commit s) (s_acked s) (s_ingested s)
                              (Some (mkMerge (m_srcs m) (m_out m) true)) (with_merge_step s))
                | FsMeta =>
                    Some (mkM (s_files s) (s_meta s) (s_pending s) (s_commit s) (s_acked s) (s_ingested s)
                              (Some (mkMerge (m_srcs m) (m_out m) true)) (with_merge_step s))
                end
              else None
          | None => None
          end
      | None => None
      end
  | LMRemove f =>
      match s_merge s with
      | Some m =>
          if m_committed m && memn f (m_srcs m) then
            Some (mkM (set_there f false s) (s_meta s) (s_pending s) (s_commit s) (s_acked s) (s_ingested s) (s_merge s) (with_merge_step s))
          else None
      | None => None
      end
  | LMEnd =>
      match s_merge s with
      | Some m =>
          if m_committed m && forallb (fun f => negb (there s f)) (m_srcs m) then
            Some (mkM (s_files s) (s_meta s) (s_pending s) (s_commit s) (s_acked s) (s_ingested s) None (with_merge_step s))
          else None
      | None => None
      end
  | LMAbort =>
      match s_merge s with
      | Some m =>
          if negb (m_committed m) then
            Some (mkM (match m_out m with Some o => set_there o false s | None => s_files s end)
                      (s_meta s) (s_pending s) (s_commit s) (s_acked s) (s_ingested s) None (with_merge_step s))
          else None
      | None => None
      end
  | LQStart =>
      Some (mkM (s_files s) (s_meta s) (s_pending s) (s_commit s) (s_acked s) (s_ingested s) (s_merge s)
                (s_queries s ++ [mkQuery (s_acked s) (merge_running s) None None [] [] [] false false]))
  | LQSnap q =>
      match k, nth_error (s_queries s) q with
      | MemStore, Some x =>
          if match q_snap x with None => true | Some _ => false end && negb (q_done x) then
            Some (set_q q (mkQuery (q_acked0 x) (q_overlap x) None (Some (s_meta s))
                                   (flat_map (blocks_of s) (s_meta s)) (q_handles x) (q_got x) (q_err x) false) s)
          else None
      | _, _ => None
      end
  | LQList q =>
      match k, nth_error (s_queries s) q with
      | FsMeta, Some x =>
          if match q_listing x with None => true | Some _ => false end
             && match q_snap x with None => true | Some _ => false end && negb (q_done x) then
            Some (set_q q (mkQuery (q_acked0 x) (q_overlap x) (Some (listed s)) (Some [])
                                   (q_todo x) (q_handles x) (q_got x) (q_err x) false) s)
          else None
      | _, _ => None
      end
  | LQParse q f yielded =>
      match k, nth_error (s_queries s) q with
      | FsMeta, Some x =>
          match q_listing x, q_snap x with
          | Some lst, Some sn =>
              if memn f lst && Bool.eqb yielded (there s f) && negb (q_done x) then
                Some (set_q q (mkQuery (q_acked0 x) (q_overlap x) (Some (remove_all [f] lst))
                                       (Some (if yielded then sn ++ [f] else sn))
                                       (if yielded then q_todo x ++ blocks_of s f else q_todo x)
                                       (q_handles x) (q_got x) (q_err x) false) s)
              else None
          | _, _ => None
          end
      | _, _ => None
      end
  | LQRead q i ok =>
      match nth_error (s_queries s) q with
      | Some x =>
          match nth_error (q_todo x) i with
          | Some fb =>
              let f := fst fb in
              if negb (q_done x) &&
                 (if ok then there s f || memn f (q_handles x) else negb (there s f)) then
                Some (set_q q (mkQuery (q_acked0 x) (q_overlap x) (q_listing x) (q_snap x) (remove_at i (q_todo x))
                                       (if ok then f :: q_handles x else q_handles x)
                                       (if ok then q_got x ++ block_rows s fb else q_got x)
                                       (q_err x || negb ok) false) s)
              else None
          | None => None
          end
      | None => None
      end
  | LQEnd q =>
      match nth_error (s_queries s) q with
      | Some x =>
          if negb (q_done x)
             && match q_snap x with Some _ => true | None => false end
             && match q_listing x with Some (_ :: _) => false | _ => true end
             && match q_todo x with [] => true | _ => false end then
            Some (set_q q (mkQuery (q_acked0 x) (q_overlap x) (q_listing x) (q_snap x) [] (q_handles x) (q_got x) (q_err x) true) s)
          else None
      | None => None
      end
  end.

Fixpoint mrun (k : mkind) (s : mstate) (ls : list mlabel) : option mstate :=
  match ls with
  | [] => Some s
  | l :: t => match mstep k s l with Some s' => mrun k s' t | None => None end
  end.

(* what the property asks of a finished query *)
Definition query_ok (s : mstate) (q : query) : bool :=
  nodupn (q_got q) && incln (q_acked0 q) (q_got q) && incln (q_got q) (s_ingested s).
