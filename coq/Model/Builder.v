(* C25: the flattening constructors of all three tree kinds, the QueryBuilder state machine
   (query.go) and the exported JSON shapes (struct tags, omitempty) as a value-level codec.
   Executable only. *)
From BS Require Export Lib.Bytes Model.Json Model.Expr Model.MinMax Model.QueryFn.
From Coq Require Import String.
Open Scope N_scope.

(* ---- flattening constructors for prefilter and regex trees (bloom ones are in Expr.v) ---- *)
Definition flatten_pand (es : list pexpr) : list pexpr :=
  flat_map (fun e => match e with PAnd cs => cs | _ => [e] end) es.
Definition flatten_por (es : list pexpr) : list pexpr :=
  flat_map (fun e => match e with POr cs => cs | _ => [e] end) es.
Definition mk_pand es := PAnd (flatten_pand es).
Definition mk_por es := POr (flatten_por es).

Definition flatten_rand (es : list rexpr) : list rexpr :=
  flat_map (fun e => match e with RAnd cs => cs | _ => [e] end) es.
Definition flatten_ror (es : list rexpr) : list rexpr :=
  flat_map (fun e => match e with ROr cs => cs | _ => [e] end) es.
Definition mk_rand es := RAnd (flatten_rand es).
Definition mk_ror es := ROr (flatten_ror es).

(* ---- QueryBuilder ---- *)
Inductive bcall :=
| KField (f : str) | KToken (t : str) | KFieldToken (f t : str) | KMatch (e : bexpr)
| KFieldRegex (f p : str) | KMatchRegex (e : rexpr)
| KMatchPrefilter (e : pexpr).

Record bstate := {
  st_bloom : option bexpr; st_bexplicit : bool; st_bimplicit : list bexpr;
  st_regex : option rexpr; st_rexplicit : bool; st_rimplicit : list rexpr;
  st_pre : option pexpr
}.

Definition st_init : bstate :=
  {| st_bloom := None; st_bexplicit := false; st_bimplicit := [];
     st_regex := None; st_rexplicit := false; st_rimplicit := []; st_pre := None |}.

(* addBloomExpression *)
Definition add_bloom (s : bstate) (e : bexpr) : bstate :=
  if st_bexplicit s then
    {| st_bloom := match st_bloom s with None => Some e | Some cur => Some (mk_and [cur; e]) end;
       st_bexplicit := true; st_bimplicit := st_bimplicit s;
       st_regex := st_regex s; st_rexplicit := st_rexplicit s; st_rimplicit := st_rimplicit s; st_pre := st_pre s |}
  else
    {| st_bloom := st_bloom s; st_bexplicit := false; st_bimplicit := st_bimplicit s ++ [e];
       st_regex := st_regex s; st_rexplicit := st_rexplicit s; st_rimplicit := st_rimplicit s; st_pre := st_pre s |}.

(* where / Match *)
Definition set_bloom (s : bstate) (e : bexpr) : bstate :=
  {| st_bloom := Some e; st_bexplicit := true; st_bimplicit := [];
     st_regex := st_regex s; st_rexplicit := st_rexplicit s; st_rimplicit := st_rimplicit s; st_pre := st_pre s |}.

Definition add_regex (s : bstate) (e : rexpr) : bstate :=
  if st_rexplicit s then
    {| st_bloom := st_bloom s; st_bexplicit := st_bexplicit s; st_bimplicit := st_bimplicit s;
       st_regex := match st_regex s with None => Some e | Some cur => Some (mk_rand [cur; e]) end;
       st_rexplicit := true; st_rimplicit := st_rimplicit s; st_pre := st_pre s |}
  else
    {| st_bloom := st_bloom s; st_bexplicit := st_bexplicit s; st_bimplicit := st_bimplicit s;
       st_regex := st_regex s; st_rexplicit := false; st_rimplicit := st_rimplicit s ++ [e]; st_pre := st_pre s |}.

Definition set_regex (s : bstate) (e : rexpr) : bstate :=
  {| st_bloom := st_bloom s; st_bexplicit := st_bexplicit s; st_bimplicit := st_bimplicit s;
     st_regex := Some e; st_rexplicit := true; st_rimplicit := []; st_pre := st_pre s |}.

Definition set_pre (s : bstate) (e : pexpr) : bstate :=
  {| st_bloom := st_bloom s; st_bexplicit := st_bexplicit s; st_bimplicit := st_bimplicit s;
     st_regex := st_regex s; st_rexplicit := st_rexplicit s; st_rimplicit := st_rimplicit s; st_pre := Some e |}.

Definition bstep (s : bstate) (k : bcall) : bstate :=
  match k with
  | KField f => add_bloom s (BCond (Some (CField f)))
  | KToken t => add_bloom s (BCond (Some (CToken t)))
  | KFieldToken f t => add_bloom s (BCond (Some (CFieldToken f t)))
  | KMatch e => set_bloom s e
  | KFieldRegex f p => add_regex s (RCond (Some (f, p)))
  | KMatchRegex e => set_regex s e
  | KMatchPrefilter e => set_pre s e
  end.

(* Build *)
Definition build_state (s : bstate) : query :=
  {| q_pre := st_pre s;
     q_bloom := if negb (st_bexplicit s) && nonempty_list (st_bimplicit s) then Some (mk_and (st_bimplicit s)) else st_bloom s;
     q_regex := if negb (st_rexplicit s) && nonempty_list (st_rimplicit s) then Some (mk_rand (st_rimplicit s)) else st_regex s |}.

Definition build (calls : list bcall) : query := build_state (fold_left bstep calls st_init).

(* ---- what the caller wrote: the last Match replaces what came before, every later call is
   AND-ed as a nested binary conjunction (DESIGN 7.2) ---- *)
Definition and_b (cur : option bexpr) (e : bexpr) : option bexpr :=
  match cur with None => Some e | Some c => Some (BAnd [c; e]) end.
Definition and_r (cur : option rexpr) (e : rexpr) : option rexpr :=
  match cur with None => Some e | Some c => Some (RAnd [c; e]) end.

Definition den_step (q : query) (k : bcall) : query :=
  match k with
  | KField f => {| q_pre := q_pre q; q_bloom := and_b (q_bloom q) (BCond (Some (CField f))); q_regex := q_regex q |}
  | KToken t => {| q_pre := q_pre q; q_bloom := and_b (q_bloom q) (BCond (Some (CToken t))); q_regex := q_regex q |}
  | KFieldToken f t => {| q_pre := q_pre q; q_bloom := and_b (q_bloom q) (BCond (Some (CFieldToken f t))); q_regex := q_regex q |}
  | KMatch e => {| q_pre := q_pre q; q_bloom := Some e; q_regex := q_regex q |}
  | KFieldRegex f p => {| q_pre := q_pre q; q_bloom := q_bloom q; q_regex := and_r (q_regex q) (RCond (Some (f, p))) |}
  | KMatchRegex e => {| q_pre := q_pre q; q_bloom := q_bloom q; q_regex := Some e |}
  | KMatchPrefilter e => {| q_pre := Some e; q_bloom := q_bloom q; q_regex := q_regex q |}
  end.

Definition den (calls : list bcall) : query :=
  fold_left den_step calls {| q_pre := None; q_bloom := None; q_regex := None |}.

(* ---- JSON shapes: Go values as encoding/json sees them (the text layer -- escaping,
   number formatting -- is encoding/json itself and is not modelled) ---- *)
Inductive gj :=
| GNull | GStr (s : str) | GInt (z : Z) | GArr (xs : list gj) | GObj (kvs : list (string * gj)).

Definition s_condition : str := lit "CONDITION".
Definition s_and : str := lit "AND".
Definition s_or : str := lit "OR".
Definition s_bogus : str := lit "BOGUS".

(* a field tagged omitempty is left out when its value is empty *)
Definition omit_str (k : string) (s : str) : list (string * gj) :=
  match s with [] => [] | _ => [(k, GStr s)] end.
Definition omit_int (k : string) (z : Z) : list (string * gj) :=
  if Z.eqb z 0 then [] else [(k, GInt z)].
Definition omit_arr (k : string) (xs : list gj) : list (string * gj) :=
  match xs with [] => [] | _ => [(k, GArr xs)] end.

Definition bcond_json (c : bcond) : gj :=
  match c with
  | CField f => GObj [("Type"%string, GStr (lit "FIELD")); ("Field"%string, GStr f); ("Token"%string, GStr [])]
  | CToken t => GObj [("Type"%string, GStr (lit "TOKEN")); ("Field"%string, GStr []); ("Token"%string, GStr t)]
  | CFieldToken f t => GObj [("Type"%string, GStr (lit "FIELD_TOKEN")); ("Field"%string, GStr f); ("Token"%string, GStr t)]
  | CUnk => GObj [("Type"%string, GStr s_bogus); ("Field"%string, GStr []); ("Token"%string, GStr [])]
  end.

Fixpoint bexpr_json (e : bexpr) : gj :=
  match e with
  | BCond None => GObj [("ExpressionType"%string, GStr s_condition)]
  | BCond (Some c) => GObj [("ExpressionType"%string, GStr s_condition); ("Condition"%string, bcond_json c)]
  | BAnd cs => GObj (("ExpressionType"%string, GStr s_and) :: omit_arr "Children" (map bexpr_json cs))
  | BOr cs => GObj (("ExpressionType"%string, GStr s_or) :: omit_arr "Children" (map bexpr_json cs))
  | BUnk => GObj [("ExpressionType"%string, GStr s_bogus)]
  end.

Fixpoint jfield (k : string) (kvs : list (string * gj)) : option gj :=
  match kvs with
  | [] => None
  | (k', v) :: t => if String.eqb k k' then Some v else jfield k t
  end.

Definition jstr (o : option gj) : str := match o with Some (GStr s) => s | _ => [] end.
Definition jint (o : option gj) : Z := match o with Some (GInt z) => z | _ => 0%Z end.

Definition bcond_of_json (j : gj) : bcond :=
  match j with
  | GObj kvs =>
      let ty := jstr (jfield "Type" kvs) in
      let f := jstr (jfield "Field" kvs) in
      let t := jstr (jfield "Token" kvs) in
      if str_eqb ty (lit "FIELD") then CField f
      else if str_eqb ty (lit "TOKEN") then CToken t
      else if str_eqb ty (lit "FIELD_TOKEN") then CFieldToken f t
      else CUnk
  | _ => CUnk
  end.

(* decoding needs fuel only because gj nests through lists; the out-of-fuel value BUnk is
   excluded by the round-trip theorem's fuel bound *)
Fixpoint bexpr_of_json (fuel : nat) (j : gj) : bexpr :=
  match fuel with
  | O => BUnk
  | S n =>
      match j with
      | GObj kvs =>
          let ty := jstr (jfield "ExpressionType" kvs) in
          let kids := match jfield "Children" kvs with Some (GArr xs) => map (bexpr_of_json n) xs | _ => [] end in
          if str_eqb ty s_condition then
            BCond (match jfield "Condition" kvs with Some (GObj c) => Some (bcond_of_json (GObj c)) | _ => None end)
          else if str_eqb ty s_and then BAnd kids
          else if str_eqb ty s_or then BOr kids
          else BUnk
      | _ => BUnk
      end
  end.

Fixpoint bexpr_depth (e : bexpr) : nat :=
  match e with
  | BAnd cs | BOr cs => S (fold_right (fun c acc => Nat.max (bexpr_depth c) acc) O cs)
  | _ => 1%nat
  end.

(* regex trees *)
Fixpoint rexpr_json (e : rexpr) : gj :=
  match e with
  | RCond None => GObj [("ExpressionType"%string, GStr s_condition)]
  | RCond (Some (f, p)) => GObj [("ExpressionType"%string, GStr s_condition);
                                 ("Condition"%string, GObj [("Field"%string, GStr f); ("Pattern"%string, GStr p)])]
  | RAnd cs => GObj (("ExpressionType"%string, GStr s_and) :: omit_arr "Children" (map rexpr_json cs))
  | ROr cs => GObj (("ExpressionType"%string, GStr s_or) :: omit_arr "Children" (map rexpr_json cs))
  | RUnk => GObj [("ExpressionType"%string, GStr s_bogus)]
  end.

Fixpoint rexpr_of_json (fuel : nat) (j : gj) : rexpr :=
  match fuel with
  | O => RUnk
  | S n =>
      match j with
      | GObj kvs =>
          let ty := jstr (jfield "ExpressionType" kvs) in
          let kids := match jfield "Children" kvs with Some (GArr xs) => map (rexpr_of_json n) xs | _ => [] end in
          if str_eqb ty s_condition then
            RCond (match jfield "Condition" kvs with
                   | Some (GObj c) => Some (jstr (jfield "Field" c), jstr (jfield "Pattern" c))
                   | _ => None end)
          else if str_eqb ty s_and then RAnd kids
          else if str_eqb ty s_or then ROr kids
          else RUnk
      | _ => RUnk
      end
  end.

Fixpoint rexpr_depth (e : rexpr) : nat :=
  match e with
  | RAnd cs | ROr cs => S (fold_right (fun c acc => Nat.max (rexpr_depth c) acc) O cs)
  | _ => 1%nat
  end.

(* prefilter trees *)
Definition op_str (o : op) : str :=
  match o with
  | OpEQ => lit "EQ" | OpNE => lit "NE" | OpGT => lit "GT" | OpGTE => lit "GTE" | OpLT => lit "LT" | OpLTE => lit "LTE"
  | OpIN => lit "IN" | OpNOTIN => lit "NOT_IN" | OpBETWEEN => lit "BETWEEN" | OpNOTBETWEEN => lit "NOT_BETWEEN"
  | OpUnknown => s_bogus
  end.

Definition op_of_str (s : str) : op :=
  if str_eqb s (lit "EQ") then OpEQ else if str_eqb s (lit "NE") then OpNE
  else if str_eqb s (lit "GT") then OpGT else if str_eqb s (lit "GTE") then OpGTE
  else if str_eqb s (lit "LT") then OpLT else if str_eqb s (lit "LTE") then OpLTE
  else if str_eqb s (lit "IN") then OpIN else if str_eqb s (lit "NOT_IN") then OpNOTIN
  else if str_eqb s (lit "BETWEEN") then OpBETWEEN else if str_eqb s (lit "NOT_BETWEEN") then OpNOTBETWEEN
  else OpUnknown.

Definition scond_json (c : scond) : gj :=
  GObj (omit_str "Operator" (op_str (s_op c)) ++ omit_str "Value" (s_val c)
        ++ omit_arr "Values" (map GStr (s_vals c)) ++ omit_str "Min" (s_min c) ++ omit_str "Max" (s_max c)).

Definition ncond_json (c : ncond) : gj :=
  GObj (omit_str "Operator" (op_str (n_op c)) ++ omit_int "Value" (n_val c)
        ++ omit_arr "Values" (map GInt (n_vals c)) ++ omit_int "Min" (n_min c) ++ omit_int "Max" (n_max c)).

Definition scond_of_json (kvs : list (string * gj)) : scond :=
  {| s_op := op_of_str (jstr (jfield "Operator" kvs)); s_val := jstr (jfield "Value" kvs);
     s_vals := match jfield "Values" kvs with Some (GArr xs) => map (fun x => jstr (Some x)) xs | _ => [] end;
     s_min := jstr (jfield "Min" kvs); s_max := jstr (jfield "Max" kvs) |}.

Definition ncond_of_json (kvs : list (string * gj)) : ncond :=
  {| n_op := op_of_str (jstr (jfield "Operator" kvs)); n_val := jint (jfield "Value" kvs);
     n_vals := match jfield "Values" kvs with Some (GArr xs) => map (fun x => jint (Some x)) xs | _ => [] end;
     n_min := jint (jfield "Min" kvs); n_max := jint (jfield "Max" kvs) |}.

Definition s_partition : str := lit "PARTITION".
Definition s_minmax : str := lit "MINMAX".

Definition pcond_json (c : pcond) : gj :=
  match c with
  | PPartition None => GObj [("ConditionType"%string, GStr s_partition)]
  | PPartition (Some sc) => GObj [("ConditionType"%string, GStr s_partition); ("PartitionCondition"%string, scond_json sc)]
  | PMinMax f None => GObj (("ConditionType"%string, GStr s_minmax) :: omit_str "MinMaxFieldName" f)
  | PMinMax f (Some nc) => GObj (("ConditionType"%string, GStr s_minmax) :: omit_str "MinMaxFieldName" f ++ [("MinMaxCondition"%string, ncond_json nc)])
  | PUnknownCond => GObj [("ConditionType"%string, GStr s_bogus)]
  end.

Definition pcond_of_json (kvs : list (string * gj)) : pcond :=
  let ty := jstr (jfield "ConditionType" kvs) in
  if str_eqb ty s_partition then
    PPartition (match jfield "PartitionCondition" kvs with Some (GObj c) => Some (scond_of_json c) | _ => None end)
  else if str_eqb ty s_minmax then
    PMinMax (jstr (jfield "MinMaxFieldName" kvs))
            (match jfield "MinMaxCondition" kvs with Some (GObj c) => Some (ncond_of_json c) | _ => None end)
  else PUnknownCond.

Fixpoint pexpr_json (e : pexpr) : gj :=
  match e with
  | PCond None => GObj [("ExpressionType"%string, GStr s_condition)]
  | PCond (Some c) => GObj [("ExpressionType"%string, GStr s_condition); ("Condition"%string, pcond_json c)]
  | PAnd cs => GObj (("ExpressionType"%string, GStr s_and) :: omit_arr "Children" (map pexpr_json cs))
  | POr cs => GObj (("ExpressionType"%string, GStr s_or) :: omit_arr "Children" (map pexpr_json cs))
  | PUnknown => GObj [("ExpressionType"%string, GStr s_bogus)]
  end.

Fixpoint pexpr_of_json (fuel : nat) (j : gj) : pexpr :=
  match fuel with
  | O => PUnknown
  | S n =>
      match j with
      | GObj kvs =>
          let ty := jstr (jfield "ExpressionType" kvs) in
          let kids := match jfield "Children" kvs with Some (GArr xs) => map (pexpr_of_json n) xs | _ => [] end in
          if str_eqb ty s_condition then
            PCond (match jfield "Condition" kvs with Some (GObj c) => Some (pcond_of_json c) | _ => None end)
          else if str_eqb ty s_and then PAnd kids
          else if str_eqb ty s_or then POr kids
          else PUnknown
      | _ => PUnknown
      end
  end.

Fixpoint pexpr_depth (e : pexpr) : nat :=
  match e with
  | PAnd cs | POr cs => S (fold_right (fun c acc => Nat.max (pexpr_depth c) acc) O cs)
  | _ => 1%nat
  end.
