(* Family Q — query statistics (query_results.go: QueryStats/Stats, query_exec.go: BlockStats
   and the three producers of an entry: evaluateBlockFilters (pruned block),
   recordUnreadBlocks (filter-pass failure), processDataBlock (scanned block, deferred)).
   Executable definitions only. Durations are not modelled (timings are not a property). *)
From Coq Require Import List ZArith Bool.
Import ListNotations.
Local Open Scope Z_scope.

(* one BlockStats entry; a block is identified by (file, row data offset) *)
Record bstat := {
  bs_file : Z;          (* FilePointer (an index chosen by the harness) *)
  bs_off : Z;           (* BlockOffset *)
  bs_rows : Z;          (* RowsProcessed *)
  bs_bytes : Z;         (* BytesProcessed *)
  bs_trows : Z;         (* TotalRows *)
  bs_tbytes : Z;        (* TotalBytes *)
  bs_skipped : bool     (* BloomFilterSkipped *)
}.

Definition bkey := (Z * Z)%type.
Definition bs_key (b : bstat) : bkey := (bs_file b, bs_off b).
Definition bkey_eqb (a b : bkey) : bool := (fst a =? fst b) && (snd a =? snd b).

(* evaluateBlockFilters: a block its filters pruned *)
Definition stat_pruned (f off trows tbytes : Z) : bstat :=
  {| bs_file := f; bs_off := off; bs_rows := 0; bs_bytes := 0; bs_trows := trows; bs_tbytes := tbytes; bs_skipped := true |}.

(* recordUnreadBlocks: a block a filter-pass failure kept from being evaluated *)
Definition stat_unread (f off trows tbytes : Z) : bstat :=
  {| bs_file := f; bs_off := off; bs_rows := 0; bs_bytes := 0; bs_trows := trows; bs_tbytes := tbytes; bs_skipped := false |}.

(* processDataBlock's deferred record: what the scan actually read *)
Definition stat_scanned (f off rows bytes trows tbytes : Z) : bstat :=
  {| bs_file := f; bs_off := off; bs_rows := rows; bs_bytes := bytes; bs_trows := trows; bs_tbytes := tbytes; bs_skipped := false |}.

(* Results.Stats() *)
Record qstats := {
  qs_processed : Z;
  qs_skipped : Z;
  qs_rows : Z;
  qs_bytes : Z;
  qs_matched : Z;
  qs_blocks : list bstat
}.

Definition stats_add (acc : qstats) (b : bstat) : qstats :=
  {| qs_processed := if bs_skipped b then qs_processed acc else qs_processed acc + 1;
     qs_skipped := if bs_skipped b then qs_skipped acc + 1 else qs_skipped acc;
     qs_rows := qs_rows acc + bs_rows b;
     qs_bytes := qs_bytes acc + bs_bytes b;
     qs_matched := qs_matched acc;
     qs_blocks := qs_blocks acc |}.

Definition stats_of (matched : Z) (l : list bstat) : qstats :=
  fold_left stats_add l
    {| qs_processed := 0; qs_skipped := 0; qs_rows := 0; qs_bytes := 0; qs_matched := matched; qs_blocks := l |}.

(* specification side: plain sums *)
Definition sumZ {A} (f : A -> Z) (l : list A) : Z := fold_right (fun x acc => f x + acc) 0 l.
Definition count_if {A} (p : A -> bool) (l : list A) : Z := sumZ (fun x => if p x then 1 else 0) l.

Definition has_key (k : bkey) (l : list bstat) : bool := existsb (fun b => bkey_eqb (bs_key b) k) l.
Definition count_key (k : bkey) (l : list bstat) : Z := count_if (fun b => bkey_eqb (bs_key b) k) l.

Fixpoint keys_nodup (l : list bstat) : bool :=
  match l with
  | [] => true
  | b :: t => negb (has_key (bs_key b) t) && keys_nodup t
  end.

(* a skipped entry reports zero rows and bytes *)
Definition skipped_zero (b : bstat) : bool :=
  if bs_skipped b then (bs_rows b =? 0) && (bs_bytes b =? 0) else true.

(* listed as processed (not pruned) *)
Definition listed_processed (k : bkey) (l : list bstat) : bool :=
  existsb (fun b => bkey_eqb (bs_key b) k && negb (bs_skipped b)) l.
