(* FileSystemDataStore (file_system_store.go) over a small POSIX-like file system.

   Directory = finite map name -> inode id; inodes carry volatile and durable
   content and a link count; open handles (writers, readers) point at inodes, so
   unlink-while-open and rename-over behave as on a real file system.

   The model is a labelled transition system whose labels are the verif hook
   events of file_system_store.go: one label per os.* call, with its outcome.
   [step] checks that the label is what the code can do next (program order of
   each call, outcome consistent with the directory) and applies its effect.
   Replaying an event log through [step] is the trace-inclusion check; the
   [plan_*] functions generate the label sequence of a whole API call (used to
   check that the code did everything it must, and for the atomic-call theorems).

   Executable definitions only. *)
From BS Require Import Lib.Bytes.
From Coq Require Import List NArith Bool Arith.
Import ListNotations.
Open Scope nat_scope.

(* ---------------------------------------------------------------- names *)
Inductive ext := Dat | Tmp.
Definition ext_eqb (a b : ext) : bool :=
  match a, b with Dat, Dat | Tmp, Tmp => true | _, _ => false end.
Definition fname := (str * ext)%type.          (* rootDir/<base>.dat | rootDir/<base>.tmp *)
Definition fname_eqb (a b : fname) : bool := str_eqb (fst a) (fst b) && ext_eqb (snd a) (snd b).

Definition dirmap := list (fname * nat).
Fixpoint dlookup (n : fname) (d : dirmap) : option nat :=
  match d with
  | [] => None
  | (m, i) :: t => if fname_eqb n m then Some i else dlookup n t
  end.
Fixpoint dremove (n : fname) (d : dirmap) : dirmap :=
  match d with
  | [] => []
  | (m, i) :: t => if fname_eqb n m then dremove n t else (m, i) :: dremove n t
  end.
Definition dset (n : fname) (i : nat) (d : dirmap) : dirmap := (n, i) :: dremove n d.

(* ---------------------------------------------------------------- file system *)
Record inode := mkI {
  i_data : str;            (* volatile content (page cache) *)
  i_dur : str;             (* content as of the last fsync of this file *)
  i_nlink : nat;
  i_owner : option nat;    (* ghost: None = 0-byte reservation, Some a = temp file of writer a *)
  i_base : str             (* ghost: the base name it was created under *)
}.

Record fsys := mkF {
  f_dir : dirmap;                        (* volatile directory *)
  f_ddir : dirmap;                       (* directory as of the last fsync of the directory *)
  f_pend : list (fname * option nat);    (* entry changes since then, oldest first *)
  f_ino : list inode                     (* inode id = index; never reused *)
}.

Definition fs0 : fsys := mkF [] [] [] [].

Fixpoint ino_upd (i : nat) (g : inode -> inode) (l : list inode) : list inode :=
  match l, i with
  | [], _ => []
  | x :: t, O => g x :: t
  | x :: t, S j => x :: ino_upd j g t
  end.

Definition dec_nlink (x : inode) := mkI (i_data x) (i_dur x) (pred (i_nlink x)) (i_owner x) (i_base x).
Definition app_data (b : str) (x : inode) := mkI (i_data x ++ b) (i_dur x) (i_nlink x) (i_owner x) (i_base x).
Definition sync_data (x : inode) := mkI (i_data x) (i_data x) (i_nlink x) (i_owner x) (i_base x).

Definition fs_create (n : fname) (owner : option nat) (f : fsys) : fsys :=
  let i := length (f_ino f) in
  mkF (dset n i (f_dir f)) (f_ddir f) (f_pend f ++ [(n, Some i)]) (f_ino f ++ [mkI [] [] 1 owner (fst n)]).

Definition fs_unlink (n : fname) (f : fsys) : fsys :=
  match dlookup n (f_dir f) with
  | None => f
  | Some i => mkF (dremove n (f_dir f)) (f_ddir f) (f_pend f ++ [(n, None)]) (ino_upd i dec_nlink (f_ino f))
  end.

(* rename(2): the destination entry is replaced, whatever it names *)
Definition fs_rename (a b : fname) (f : fsys) : fsys :=
  match dlookup a (f_dir f) with
  | None => f
  | Some i =>
      let inos := match dlookup b (f_dir f) with
                  | Some j => ino_upd j dec_nlink (f_ino f)
                  | None => f_ino f
                  end in
      mkF (dset b i (dremove a (f_dir f))) (f_ddir f) (f_pend f ++ [(b, Some i); (a, None)]) inos
  end.

Definition fs_append (i : nat) (b : str) (f : fsys) : fsys :=
  mkF (f_dir f) (f_ddir f) (f_pend f) (ino_upd i (app_data b) (f_ino f)).
Definition fs_fsync (i : nat) (f : fsys) : fsys :=
  mkF (f_dir f) (f_ddir f) (f_pend f) (ino_upd i sync_data (f_ino f)).
Definition fs_dirsync (f : fsys) : fsys := mkF (f_dir f) (f_dir f) [] (f_ino f).

Definition data_of (f : fsys) (i : nat) : str :=
  match nth_error (f_ino f) i with Some x => i_data x | None => [] end.

(* ---------------------------------------------------------------- writers *)
(* Where a writer is inside CreateFile / Close / Abort. PReady = the writer is
   with the caller, no call in progress. *)
Inductive phase :=
| PDraw                 (* CreateFile: about to draw a name *)
| PReserved             (* reservation created, its handle still open *)
| PResClosed            (* about to create the .tmp *)
| PUnres (again : bool) (* must remove the reservation, then redraw or fail *)
| PCreateFailed         (* CreateFile returned an error *)
| PReady
| PSynced               (* Close: Sync ok *)
| PSyncFailed           (* Close: Sync failed, handle about to be closed *)
| PHClosed              (* Close: handle closed, about to rename *)
| PRenamed              (* Close: renamed, about to fsync the directory *)
| PAbortClosed          (* Abort: handle closed, about to remove .tmp *)
| PAbortRmTmp.          (* Abort: about to remove the final path *)

(* ghost: what the writer's own actions have established under its name *)
Inductive layout := LNone | LRes | LPre | LPost.

Record writer := mkW {
  w_base : str;
  w_res : nat;          (* reservation inode *)
  w_ino : nat;          (* temp-file inode *)
  w_hasino : bool;
  w_ph : phase;
  w_hopen : bool;       (* renameOnCloseFile.file is open *)
  w_pub : bool;         (* renameOnCloseFile.published *)
  w_att : nat;          (* attempts used by CreateFile *)
  w_lostf : bool;       (* renameOnCloseFile.dead (own_check only): .tmp found gone or replaced, or Abort completed *)
  (* ghost *)
  w_written : str;      (* bytes accepted by Write *)
  w_lay : layout;
  w_cok : bool;         (* a Close returned nil *)
  w_gone : bool;        (* removed by TombstoneFile/Update after that *)
  w_aborted : bool      (* an Abort ran to completion *)
}.

Definition w0 : writer := mkW [] 0 0 false PDraw false false 0 false [] LNone false false false.

Definition set_ph p w := mkW (w_base w) (w_res w) (w_ino w) (w_hasino w) p (w_hopen w) (w_pub w) (w_att w) (w_lostf w) (w_written w) (w_lay w) (w_cok w) (w_gone w) (w_aborted w).
Definition set_hopen h w := mkW (w_base w) (w_res w) (w_ino w) (w_hasino w) (w_ph w) h (w_pub w) (w_att w) (w_lostf w) (w_written w) (w_lay w) (w_cok w) (w_gone w) (w_aborted w).
Definition set_lay l w := mkW (w_base w) (w_res w) (w_ino w) (w_hasino w) (w_ph w) (w_hopen w) (w_pub w) (w_att w) (w_lostf w) (w_written w) l (w_cok w) (w_gone w) (w_aborted w).
Definition set_att n w := mkW (w_base w) (w_res w) (w_ino w) (w_hasino w) (w_ph w) (w_hopen w) (w_pub w) n (w_lostf w) (w_written w) (w_lay w) (w_cok w) (w_gone w) (w_aborted w).
Definition set_reserved b r w := mkW b r (w_ino w) (w_hasino w) PReserved (w_hopen w) (w_pub w) (S (w_att w)) (w_lostf w) (w_written w) LRes (w_cok w) (w_gone w) (w_aborted w).
Definition set_tmp i w := mkW (w_base w) (w_res w) i true PReady true (w_pub w) (w_att w) (w_lostf w) (w_written w) LPre (w_cok w) (w_gone w) (w_aborted w).
Definition add_written b w := mkW (w_base w) (w_res w) (w_ino w) (w_hasino w) (w_ph w) (w_hopen w) (w_pub w) (w_att w) (w_lostf w) (w_written w ++ b) (w_lay w) (w_cok w) (w_gone w) (w_aborted w).
Definition set_published w := mkW (w_base w) (w_res w) (w_ino w) (w_hasino w) PReady (w_hopen w) true (w_att w) (w_lostf w) (w_written w) (w_lay w) true (w_gone w) (w_aborted w).
Definition set_aborted w := mkW (w_base w) (w_res w) (w_ino w) (w_hasino w) PReady false (w_pub w) (w_att w) (w_lostf w) (w_written w) (w_lay w) (w_cok w) (w_gone w) true.
Definition set_lostf w := mkW (w_base w) (w_res w) (w_ino w) (w_hasino w) (w_ph w) false (w_pub w) (w_att w) true (w_written w) (w_lay w) (w_cok w) (w_gone w) (w_aborted w).
Definition set_gone w := mkW (w_base w) (w_res w) (w_ino w) (w_hasino w) (w_ph w) (w_hopen w) (w_pub w) (w_att w) (w_lostf w) (w_written w) LNone (w_cok w) true (w_aborted w).

Fixpoint upd {A} (i : nat) (x : A) (l : list A) : list A :=
  match l, i with
  | [], _ => []
  | _ :: t, O => x :: t
  | y :: t, S j => y :: upd j x t
  end.

Record state := mkS {
  s_fs : fsys;
  s_ws : list writer;          (* writer id = index *)
  s_rd : list nat;             (* OpenFile handles: the inode each one holds *)
  s_sc : list (list str)       (* directory scans: the .dat bases of each readdir snapshot *)
}.
Definition s0 : state := mkS fs0 [] [] [].

Definition set_fs f s := mkS f (s_ws s) (s_rd s) (s_sc s).
Definition set_w a w s := mkS (s_fs s) (upd a w (s_ws s)) (s_rd s) (s_sc s).
Definition set_fs_w f a w s := mkS f (upd a w (s_ws s)) (s_rd s) (s_sc s).

(* ---------------------------------------------------------------- configuration *)
Record cfg := mkC {
  own_check : bool;          (* true: Close/Abort verify that .tmp still names the open handle (fix of D8) *)
  max_att : nat;             (* maxCreateFileAttempts *)
  valid : str -> bool        (* ReadFileMetadata accepts these bytes (library oracle) *)
}.

(* ---------------------------------------------------------------- labels *)
Inductive cres := COk | CExists | CFail.       (* outcome of an O_EXCL create *)
Inductive rres := ROk | RNoent | RFail.        (* outcome of os.Remove *)

Inductive label :=
| LBegin (a : nat)                             (* CreateFile called; a = next writer id *)
| LReserve (a : nat) (b : str) (r : cres)      (* draw b; os.OpenFile(b.dat, O_EXCL) *)
| LGiveUp (a : nat)                            (* attempts exhausted *)
| LResClose (a : nat) (ok : bool)              (* reservation.Close *)
| LUnreserve (a : nat) (r : rres)              (* os.Remove(final) on a CreateFile error path *)
| LTmpCreate (a : nat) (r : cres)              (* os.OpenFile(b.tmp, O_EXCL) *)
| LWrite (a : nat) (bytes : str) (n : nat)     (* file.Write: n bytes accepted *)
| LLost (a : nat) (in_abort : bool)            (* own_check only: .tmp no longer ours; handle closed *)
| LSync (a : nat) (ok : bool)
| LHClose (a : nat) (ok : bool)
| LRename (a : nat) (ok : bool)
| LDirSync (a : nat) (ok : bool)
| LAbortHClose (a : nat)
| LAbortRm (a : nat) (e : ext) (r : rres)
| LRm (b : str) (e : ext) (r : rres)           (* TombstoneFile / Update: os.Remove by name *)
| LOpen (b : str) (ok : bool)                  (* OpenFile(b.dat) *)
| LReadDir                                     (* os.ReadDir snapshot of a scan *)
| LParse (k : nat) (b : str) (yielded : bool). (* scan k reads b.dat's footer now *)

Definition present (n : fname) (f : fsys) : bool :=
  match dlookup n (f_dir f) with Some _ => true | None => false end.

Definition cres_ok (r : cres) (n : fname) (f : fsys) : bool :=
  match r with COk => negb (present n f) | CExists => present n f | CFail => true end.
Definition rres_ok (r : rres) (n : fname) (f : fsys) : bool :=
  match r with ROk => present n f | RNoent => negb (present n f) | RFail => true end.
Definition apply_rm (r : rres) (n : fname) (f : fsys) : fsys :=
  match r with ROk => fs_unlink n f | _ => f end.

(* lostTemp(): the handle is open and b.tmp does not name its inode *)
Definition lost_now (f : fsys) (w : writer) : bool :=
  w_hopen w &&
  match dlookup (w_base w, Tmp) (f_dir f) with
  | Some i => negb (i =? w_ino w)
  | None => true
  end.

Definition lost (f : fsys) (w : writer) : bool := w_lostf w || lost_now f w.

Definition is_ready (w : writer) : bool := match w_ph w with PReady => true | _ => false end.

(* ghost bookkeeping for removals by name: every writer of that base loses its claim *)
Definition clear_claim (b : str) (e : ext) (w : writer) : writer :=
  if str_eqb (w_base w) b then
    match e, w_lay w with
    | Dat, LNone => w
    | Dat, _ => if w_cok w then set_gone w else set_lay LNone w
    | Tmp, LPre => set_lay LRes w
    | Tmp, _ => w
    end
  else w.

Definition guardb (b : bool) : option unit := if b then Some tt else None.
Notation "'check' b ';;' k" := (match guardb b with Some _ => k | None => None end) (at level 200, b at level 100, k at level 200).

Definition step (c : cfg) (s : state) (l : label) : option state :=
  let f := s_fs s in
  let getw a := nth_error (s_ws s) a in
  match l with
  | LBegin a =>
      check (a =? length (s_ws s)) ;;
      Some (mkS f (s_ws s ++ [w0]) (s_rd s) (s_sc s))
  | LReserve a b r =>
      match getw a with
      | Some w =>
          check (match w_ph w with PDraw => true | _ => false end && (w_att w <? max_att c) && cres_ok r (b, Dat) f) ;;
          match r with
          | COk => Some (set_fs_w (fs_create (b, Dat) None f) a (set_reserved b (length (f_ino f)) w) s)
          | CExists => Some (set_w a (set_att (S (w_att w)) w) s)
          | CFail => Some (set_w a (set_ph PCreateFailed (set_att (S (w_att w)) w)) s)
          end
      | None => None
      end
  | LGiveUp a =>
      match getw a with
      | Some w =>
          check (match w_ph w with PDraw => true | _ => false end && (max_att c <=? w_att w)) ;;
          Some (set_w a (set_ph PCreateFailed w) s)
      | None => None
      end
  | LResClose a ok =>
      match getw a with
      | Some w =>
          check (match w_ph w with PReserved => true | _ => false end) ;;
          Some (set_w a (set_ph (if ok then PResClosed else PUnres false) w) s)
      | None => None
      end
  | LUnreserve a r =>
      match getw a with
      | Some w =>
          match w_ph w with
          | PUnres again =>
              check (rres_ok r (w_base w, Dat) f) ;;
              let ws1 := match r with ROk => map (clear_claim (w_base w) Dat) (s_ws s) | _ => s_ws s end in
              let w1 := match nth_error ws1 a with Some x => x | None => w end in
              Some (mkS (apply_rm r (w_base w, Dat) f)
                      (upd a (set_lay LNone (set_ph (if again then PDraw else PCreateFailed) w1)) ws1)
                      (s_rd s) (s_sc s))
          | _ => None
          end
      | None => None
      end
  | LTmpCreate a r =>
      match getw a with
      | Some w =>
          check (match w_ph w with PResClosed => true | _ => false end && cres_ok r (w_base w, Tmp) f) ;;
          match r with
          | COk => Some (set_fs_w (fs_create (w_base w, Tmp) (Some a) f) a (set_tmp (length (f_ino f)) w) s)
          | CExists => Some (set_w a (set_ph (PUnres true) w) s)
          | CFail => Some (set_w a (set_ph (PUnres false) w) s)
          end
      | None => None
      end
  | LWrite a bytes n =>
      match getw a with
      | Some w =>
          check (is_ready w && w_hasino w && (n <=? length bytes) && (w_hopen w || (n =? 0))) ;;
          Some (set_fs_w (fs_append (w_ino w) (firstn n bytes) f) a (add_written (firstn n bytes) w) s)
      | None => None
      end
  | LLost a in_abort =>
      match getw a with
      | Some w =>
          check (own_check c && is_ready w && w_hasino w && lost f w && (negb in_abort || negb (w_pub w))) ;;
          Some (set_w a (if in_abort then set_aborted (set_lostf w) else set_lostf w) s)
      | None => None
      end
  | LSync a ok =>
      match getw a with
      | Some w =>
          check (is_ready w && w_hasino w && (negb (own_check c) || negb (lost f w)) && (negb ok || w_hopen w)) ;;
          if ok then Some (set_fs_w (fs_fsync (w_ino w) f) a (set_ph PSynced w) s)
          else Some (set_w a (set_ph PSyncFailed w) s)
      | None => None
      end
  | LHClose a ok =>
      match getw a with
      | Some w =>
          match w_ph w with
          | PSynced => Some (set_w a (set_hopen false (set_ph (if ok then PHClosed else PReady) w)) s)
          | PSyncFailed => Some (set_w a (set_hopen false (set_ph PReady w)) s)
          | _ => None
          end
      | None => None
      end
  | LRename a ok =>
      match getw a with
      | Some w =>
          check (match w_ph w with PHClosed => true | _ => false end) ;;
          if ok then
            match dlookup (w_base w, Tmp) (f_dir f) with
            | Some j =>
                let ws1 := map (clear_claim (w_base w) Dat) (s_ws s) in
                let w1 := match nth_error ws1 a with Some x => x | None => w end in
                let w2 := set_ph PRenamed (if j =? w_ino w then set_lay LPost w1 else w1) in
                Some (mkS (fs_rename (w_base w, Tmp) (w_base w, Dat) f) (upd a w2 ws1) (s_rd s) (s_sc s))
            | None => None
            end
          else Some (set_w a (set_ph PReady w) s)
      | None => None
      end
  | LDirSync a ok =>
      match getw a with
      | Some w =>
          check (match w_ph w with PRenamed => true | _ => false end) ;;
          if ok then Some (set_fs_w (fs_dirsync f) a (set_published w) s)
          else Some (set_w a (set_ph PReady w) s)
      | None => None
      end
  | LAbortHClose a =>
      match getw a with
      | Some w =>
          check (is_ready w && w_hasino w && negb (w_pub w) && (negb (own_check c) || negb (lost f w))) ;;
          Some (set_w a (set_hopen false (set_ph PAbortClosed w)) s)
      | None => None
      end
  | LAbortRm a e r =>
      match getw a with
      | Some w =>
          check (match w_ph w, e with PAbortClosed, Tmp => true | PAbortRmTmp, Dat => true | _, _ => false end
                 && rres_ok r (w_base w, e) f) ;;
          let f' := apply_rm r (w_base w, e) f in
          let ws1 := match r with ROk => map (clear_claim (w_base w) e) (s_ws s) | _ => s_ws s end in
          let w1 := match nth_error ws1 a with Some x => x | None => w end in
          let w2 := match e with
                    | Tmp => set_ph PAbortRmTmp w1
                    | Dat => let w' := set_aborted (if own_check c then set_lostf w1 else w1) in
                             match r with RFail => w' | _ => set_lay LNone w' end
                    end in
          Some (mkS f' (upd a w2 ws1) (s_rd s) (s_sc s))
      | None => None
      end
  | LRm b e r =>
      check (rres_ok r (b, e) f) ;;
      match r with
      | ROk => Some (mkS (fs_unlink (b, e) f) (map (clear_claim b e) (s_ws s)) (s_rd s) (s_sc s))
      | _ => Some s
      end
  | LOpen b ok =>
      match dlookup (b, Dat) (f_dir f), ok with
      | Some i, true => Some (mkS f (s_ws s) (s_rd s ++ [i]) (s_sc s))
      | None, false => Some s
      | _, _ => None
      end
  | LReadDir =>
      let bases := map (fun e => fst (fst e)) (filter (fun e => ext_eqb (snd (fst e)) Dat) (f_dir f)) in
      Some (mkS f (s_ws s) (s_rd s) (s_sc s ++ [bases]))
  | LParse k b yielded =>
      match nth_error (s_sc s) k with
      | Some bases =>
          let now := match dlookup (b, Dat) (f_dir f) with
                     | Some i => valid c (data_of f i)
                     | None => false
                     end in
          check (mem_str b bases && Bool.eqb yielded now) ;;
          Some s
      | None => None
      end
  end.

Fixpoint run (c : cfg) (s : state) (ls : list label) : option state :=
  match ls with
  | [] => Some s
  | l :: t => match step c s l with Some s' => run c s' t | None => None end
  end.

(* ---------------------------------------------------------------- observations *)
(* a directory scan done now: (base, bytes) of every .dat that parses *)
Definition scan (c : cfg) (s : state) : list (str * str) :=
  flat_map (fun e =>
    match e with
    | ((b, Dat), i) => let d := data_of (s_fs s) i in if valid c d then [(b, d)] else []
    | _ => []
    end) (f_dir (s_fs s)).

(* OpenFile(b.dat) then read everything *)
Definition read_file (s : state) (b : str) : option str :=
  match dlookup (b, Dat) (f_dir (s_fs s)) with
  | Some i => Some (data_of (s_fs s) i)
  | None => None
  end.

(* the abstract specification: files whose Close succeeded and that were not tombstoned,
   each with exactly the bytes written *)
Definition spec_files (s : state) : list (str * str) :=
  flat_map (fun w => if w_cok w && negb (w_gone w) then [(w_base w, w_written w)] else []) (s_ws s).

(* complete files whose Close got as far as the rename and then failed at the directory fsync
   (or is still between the two), not removed since: visible to scans, as the store documents *)
Definition window_files (s : state) : list (str * str) :=
  flat_map (fun w => match w_lay w with
                     | LPost => if w_cok w then [] else [(w_base w, w_written w)]
                     | _ => [] end) (s_ws s).

(* ---------------------------------------------------------------- the caller's obligations *)
(* "no TombstoneFile (or Update removal) of a pointer whose writer is still open": every writer
   of that pointer has either finished with a successful Close or been aborted (or never got the
   name). And Abort is not called again on a writer it already aborted (with own_check the store
   itself makes that a no-op). *)
Definition guard_ok (s : state) (l : label) : bool :=
  match l with
  | LRm b _ _ =>
      forallb (fun w => negb (str_eqb (w_base w) b)
                        || match w_lay w with LNone => true | _ => false end
                        || w_cok w || w_aborted w) (s_ws s)
  | LAbortHClose a =>
      match nth_error (s_ws s) a with Some w => negb (w_aborted w) | None => true end
  | _ => true
  end.

Fixpoint run_g (c : cfg) (s : state) (ls : list label) : option state :=
  match ls with
  | [] => Some s
  | l :: t => if guard_ok s l then match step c s l with Some s' => run_g c s' t | None => None end else None
  end.

(* labels that report an injected failure after which a complete file can stay visible although
   no Close succeeded *)
Definition faultfree (l : label) : bool :=
  match l with
  | LDirSync _ false => false
  | LAbortRm _ Dat RFail => false
  | _ => true
  end.

(* raw directory listing with contents, for comparison with the real directory *)
Definition listing (s : state) : list (fname * str) :=
  map (fun e => (fst e, data_of (s_fs s) (snd e))) (f_dir (s_fs s)).

(* ---------------------------------------------------------------- whole API calls *)
(* Fault schedule of one call: which os.* call (counted within the call) fails.
   [fault_at k] = the k-th faultable call fails (0-based); none if k is large. *)
Definition fails (fault : option nat) (k : nat) : bool :=
  match fault with Some j => j =? k | None => false end.

(* a missing entry is reported as such before any other failure can happen *)
Definition rm_res (fl : bool) (n : fname) (f : fsys) : rres :=
  if present n f then (if fl then RFail else ROk) else RNoent.

(* CreateFile by writer id a with the draw stream [draw] starting at position pos.
   Returns the labels; [fuel] bounds the loop (max_att suffices). *)
Fixpoint plan_create (c : cfg) (fuel : nat) (a : nat) (draw : nat -> str) (pos att : nat)
         (fault : option nat) (k : nat) (f : fsys) : list label :=
  match fuel with
  | O => [LGiveUp a]
  | S fuel' =>
      if max_att c <=? att then [LGiveUp a] else
      let b := draw pos in
      if fails fault k then [LReserve a b CFail] else
      if present (b, Dat) f then LReserve a b CExists :: plan_create c fuel' a draw (S pos) (S att) fault (S k) f else
      let f1 := fs_create (b, Dat) None f in
      if fails fault (S k) then [LReserve a b COk; LResClose a false; LUnreserve a (rm_res false (b, Dat) f1)] else
      if fails fault (S (S k)) then
        [LReserve a b COk; LResClose a true; LTmpCreate a CFail; LUnreserve a (rm_res false (b, Dat) f1)]
      else if present (b, Tmp) f1 then
        [LReserve a b COk; LResClose a true; LTmpCreate a CExists; LUnreserve a ROk]
          ++ plan_create c fuel' a draw (S pos) (S att) fault (S (S (S k))) f
      else [LReserve a b COk; LResClose a true; LTmpCreate a COk]
  end.

Definition draws_used (ls : list label) : nat :=
  length (filter (fun l => match l with LReserve _ _ _ => true | _ => false end) ls).

(* Close: [fault] = which of sync(0) / close(1) / rename(2) / dirsync(3) fails *)
Definition plan_close (c : cfg) (a : nat) (fault : option nat) (s : state) : list label :=
  match nth_error (s_ws s) a with
  | None => []
  | Some w =>
      if own_check c && lost (s_fs s) w then [LLost a false] else
      if negb (w_hopen w) || fails fault 0 then [LSync a false; LHClose a false] else
      if fails fault 1 then [LSync a true; LHClose a false] else
      if fails fault 2 || negb (present (w_base w, Tmp) (s_fs s)) then [LSync a true; LHClose a true; LRename a false] else
      [LSync a true; LHClose a true; LRename a true; LDirSync a (negb (fails fault 3))]
  end.

(* Abort: [fault] = which of remove tmp(0) / remove final(1) fails *)
Definition plan_abort (c : cfg) (a : nat) (fault : option nat) (s : state) : list label :=
  match nth_error (s_ws s) a with
  | None => []
  | Some w =>
      if w_pub w then [] else
      if own_check c && lost (s_fs s) w then [LLost a true] else
      let f := s_fs s in
      let r1 := rm_res (fails fault 0) (w_base w, Tmp) f in
      let f1 := apply_rm r1 (w_base w, Tmp) f in
      [LAbortHClose a; LAbortRm a Tmp r1; LAbortRm a Dat (rm_res (fails fault 1) (w_base w, Dat) f1)]
  end.

(* TombstoneFile(b.dat): [fault] = which of remove final(0) / remove tmp(1) fails *)
Definition plan_tombstone (b : str) (fault : option nat) (s : state) : list label :=
  let f := s_fs s in
  let r1 := rm_res (fails fault 0) (b, Dat) f in
  let f1 := apply_rm r1 (b, Dat) f in
  [LRm b Dat r1; LRm b Tmp (rm_res (fails fault 1) (b, Tmp) f1)].

(* Update(_, deletes): os.Remove of each pointer, results ignored *)
Fixpoint plan_update (bs : list str) (f : fsys) : list label :=
  match bs with
  | [] => []
  | b :: t => let r := rm_res false (b, Dat) f in LRm b Dat r :: plan_update t (apply_rm r (b, Dat) f)
  end.

Inductive op :=
| OCreate (draw : nat -> str) (pos : nat) (fault : option nat)
| OWrite (a : nat) (bytes : str) (n : nat)
| OClose (a : nat) (fault : option nat)
| OAbort (a : nat) (fault : option nat)
| OTombstone (b : str) (fault : option nat)
| OUpdate (bs : list str)
| OOpen (b : str)
| OScan.

Definition plan (c : cfg) (s : state) (o : op) : list label :=
  match o with
  | OCreate draw pos fault =>
      let a := length (s_ws s) in
      LBegin a :: plan_create c (S (max_att c)) a draw pos 0 fault 0 (s_fs s)
  | OWrite a bytes n => [LWrite a bytes n]
  | OClose a fault => plan_close c a fault s
  | OAbort a fault => plan_abort c a fault s
  | OTombstone b fault => plan_tombstone b fault s
  | OUpdate bs => plan_update bs (s_fs s)
  | OOpen b => [LOpen b (present (b, Dat) (s_fs s))]
  | OScan => [LReadDir]
  end.

Definition exec (c : cfg) (s : state) (o : op) : option state := run c s (plan c s o).

Fixpoint exec_all (c : cfg) (s : state) (os : list op) : option state :=
  match os with
  | [] => Some s
  | o :: t => match exec c s o with Some s' => exec_all c s' t | None => None end
  end.

(* what the caller sees *)
Definition close_ok (s' : state) (a : nat) : bool :=
  match nth_error (s_ws s') a with Some w => w_pub w | None => false end.
Definition create_ok (s' : state) (a : nat) : option str :=
  match nth_error (s_ws s') a with
  | Some w => if w_hasino w then Some (w_base w) else None
  | None => None
  end.
