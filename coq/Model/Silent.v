(* Family L — silence (C27). Executable definitions only.

   The translator (harness/translate) emits Generated/SilentGraph.v: for every function,
   method and package-level declaration of package bloomsearch the external identifiers
   it references, as (import path, name) pairs, plus the syntactic facts about how
   NewBloomSearchEngine binds the engine's logger. This file says which references are
   output sinks, i.e. can make the process write to file descriptor 1 or 2 without being
   handed a writer by the caller. *)
From Coq Require Import List String Ascii Bool.
Import ListNotations.
Open Scope string_scope.

Definition ref := (string * string)%type.      (* (import path, identifier) *)

Record fnrec := { fn_file : string; fn_name : string; fn_refs : list ref }.

(* expressions of the logger facts *)
Inductive gexpr :=
| GRef (pkg name : string)            (* identifier of an imported package *)
| GLocal (name : string)              (* local or package-level identifier *)
| GSel (e : gexpr) (field : string)   (* e.field *)
| GCall (f : gexpr) (args : list gexpr)
| GOther (text : string).             (* anything else, printed *)

Definition mem (x : string) (l : list string) : bool := existsb (String.eqb x) l.

(* package log: everything reaches the standard logger (stderr) except constructing a
   logger on a caller-supplied writer, the type and the flag constants *)
Definition log_safe : list string :=
  ["New"; "Logger"; "Ldate"; "Ltime"; "Lmicroseconds"; "Llongfile"; "Lshortfile"; "LUTC"; "Lmsgprefix"; "LstdFlags"].

(* package log/slog: the package-level logging functions and the default logger *)
Definition slog_sinks : list string :=
  ["Debug"; "DebugContext"; "Info"; "InfoContext"; "Warn"; "WarnContext"; "Error"; "ErrorContext";
   "Log"; "LogAttrs"; "Default"; "SetDefault"; "With"; "SetLogLoggerLevel"].

Definition os_sinks : list string := ["Stdout"; "Stderr"; "NewFile"].

Definition fmt_sinks : list string := ["Print"; "Printf"; "Println"].

(* raw descriptor access *)
Definition syscall_sinks : list string :=
  ["Write"; "Pwrite"; "Writev"; "Sendfile"; "Syscall"; "Syscall6"; "Syscall9"; "RawSyscall"; "RawSyscall6";
   "Dup2"; "Dup3"; "Stdout"; "Stderr"; "ForkExec"; "StartProcess"; "Exec"].

Definition debug_sinks : list string := ["PrintStack"; "SetTraceback"; "WriteHeapDump"].

(* servers that report through the standard logger when no ErrorLog is configured *)
Definition http_sinks : list string :=
  ["ListenAndServe"; "ListenAndServeTLS"; "Serve"; "ServeTLS"; "Server"].

(* packages every identifier of which counts: they print usage/errors to stderr, run
   foreign code, or cannot be analysed by a syntactic translator *)
Definition sink_packages : list string :=
  ["flag"; "plugin"; "net/rpc"; "net/http/cgi"; "net/http/fcgi"; "golang.org/x/sys/unix"; "golang.org/x/sys/windows";
   "C"; "go:linkname"; "nongo"; "string"].

Definition starts_with_qmark (s : string) : bool :=
  match s with
  | String c _ => Ascii.eqb c (ascii_of_nat 63)
  | EmptyString => false
  end.

Definition is_sink (r : ref) : bool :=
  let '(pkg, name) := r in
  if String.eqb name "." then true                              (* dot import: unqualified names escape the scan *)
  else if starts_with_qmark pkg then true                       (* qualifier the translator could not resolve *)
  else if mem pkg sink_packages then negb (String.eqb name "import" || String.eqb name "_") || String.eqb pkg "C"
  else if String.eqb name "import" || String.eqb name "_" then false
  else if String.eqb pkg "builtin" then mem name ["print"; "println"]
  else if String.eqb pkg "os" then mem name os_sinks
  else if String.eqb pkg "fmt" then mem name fmt_sinks
  else if String.eqb pkg "log" then negb (mem name log_safe)
  else if String.eqb pkg "log/slog" then mem name slog_sinks
  else if String.eqb pkg "syscall" then mem name syscall_sinks
  else if String.eqb pkg "runtime/debug" then mem name debug_sinks
  else if String.eqb pkg "net/http" then mem name http_sinks
  else if String.eqb pkg "net/http/httputil" then String.eqb name "ReverseProxy"
  else false.

Definition fn_ok (f : fnrec) : bool := forallb (fun r => negb (is_sink r)) (fn_refs f).

Definition graph_ok (g : list fnrec) : bool := forallb fn_ok g.

(* the (function, reference) pairs that are sinks: what a failing check reports *)
Definition sink_refs (g : list fnrec) : list (string * string * ref) :=
  flat_map (fun f => map (fun r => (fn_file f, fn_name f, r)) (filter is_sink (fn_refs f))) g.

(* ---- logger construction ------------------------------------------------------- *)

(* slog.New(slog.DiscardHandler) *)
Definition discard_ctor : gexpr := GCall (GRef "log/slog" "New") [GRef "log/slog" "DiscardHandler"].

(* config.Logger *)
Definition config_logger : gexpr := GSel (GLocal "config") "Logger".

(* the bindings NewBloomSearchEngine is expected to make, in order:
     logger := config.Logger
     if logger == nil { logger = slog.New(slog.DiscardHandler) } *)
Definition expected_var_writes : list (string * gexpr) :=
  [("top", config_logger); ("ifnil", discard_ctor)].

Definition expected_field_writes (v : string) : list (string * gexpr) :=
  [("NewBloomSearchEngine", GLocal v)].

Fixpoint gexpr_eqb (a b : gexpr) : bool :=
  match a, b with
  | GRef p n, GRef p' n' => String.eqb p p' && String.eqb n n'
  | GLocal n, GLocal n' => String.eqb n n'
  | GSel e f, GSel e' f' => gexpr_eqb e e' && String.eqb f f'
  | GCall f xs, GCall f' ys =>
      gexpr_eqb f f' &&
      (fix go (xs ys : list gexpr) : bool :=
         match xs, ys with
         | [], [] => true
         | x :: xs', y :: ys' => gexpr_eqb x y && go xs' ys'
         | _, _ => false
         end) xs ys
  | GOther t, GOther t' => String.eqb t t'
  | _, _ => false
  end.

(* What the logger variable holds after the recorded bindings ran, given whether
   config.Logger is nil. A binding is (guard, value): "top" is an unconditional statement of
   the function body, "ifnil" sits directly under `if v == nil` (no init, no else); any
   other guard, or an `ifnil` whose effect depends on a value this reading cannot judge,
   makes the outcome unknown. *)
Inductive lval := LUnset | LConfig | LBuilt (e : gexpr) | LUnknown.

Fixpoint run_writes (cfg_nil : bool) (cur : lval) (ws : list (string * gexpr)) : lval :=
  match ws with
  | [] => cur
  | (g, e) :: t =>
      if String.eqb g "top" then
        run_writes cfg_nil (if gexpr_eqb e config_logger then LConfig else LBuilt e) t
      else if String.eqb g "ifnil" then
        match cur with
        | LConfig => run_writes cfg_nil (if cfg_nil then LBuilt e else LConfig) t
        | _ => LUnknown
        end
      else LUnknown
  end.

(* ---- helpers for the cross-check of the harness's own scan ---------------------- *)

Definition ref_eqb (a b : ref) : bool := String.eqb (fst a) (fst b) && String.eqb (snd a) (snd b).

Definition refs_sub (a b : list ref) : bool := forallb (fun x => existsb (ref_eqb x) b) a.

Definition refs_eqb (a b : list ref) : bool := refs_sub a b && refs_sub b a.

Definition is_pseudo (name : string) : bool :=
  String.eqb name "import" || String.eqb name "nongo" ||
  match index 0 ":" name with Some _ => true | None => false end.

Definition find_fn (g : list fnrec) (file name : string) : list fnrec :=
  filter (fun f => String.eqb (fn_file f) file && String.eqb (fn_name f) name) g.

Definition count_real_fns (g : list fnrec) : nat :=
  List.length (filter (fun f => negb (is_pseudo (fn_name f))) g).
