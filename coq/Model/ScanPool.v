(* Family T — the scan buffer pool (codec_pool.go: getScanBuffer / putScanBuffer) and the
   ownership discipline of the query scan path (file_format.go: readPooledBlockRowData;
   query_exec.go: processDataBlock; row_matcher.go: materializeRow).
   Part 1: the capacity-class arithmetic.  Part 2: a labelled transition system over
   memory regions: pooled buffers, buffers held by a scan, and delivered rows.
   Executable definitions only. *)
From Coq Require Import List ZArith Bool Arith.
Import ListNotations.
Open Scope Z_scope.

(* ---- Part 1: classes ---- *)
Definition minShift : Z := 10.
Definition maxShift : Z := 26.

(* math/bits.Len *)
Definition blen (x : Z) : Z := if x <=? 0 then 0 else Z.log2 x + 1.

Inductive getres := GNil | GUnpooled (cap : Z) | GClass (k : Z).

(* getScanBuffer(size): which pool class serves it *)
Definition get_class (size : Z) : getres :=
  if size <=? 0 then GNil
  else
    let s := blen (size - 1) in
    let s := if s <? minShift then minShift else s in
    if s >? maxShift then GUnpooled size else GClass s.

(* putScanBuffer(buf) with cap(buf) = c: the class it is filed under, if any *)
Definition put_class (c : Z) : option Z :=
  if (c <? 2 ^ minShift) || (c >? 2 ^ maxShift) then None else Some (blen c - 1).

(* ---- Part 2: ownership ---- *)
(* regions are numbered; a delivered row is a region of its own *)
Inductive oev :=
| OGet (r : nat) (size cap : Z)     (* getScanBuffer(size) handed out region r with capacity cap *)
| OPut (r : nat) (cap : Z)          (* putScanBuffer on region r *)
| OFill (r : nat) (v : nat)         (* a reader or decompressor writes content v into region r *)
| ORow (r : nat)                    (* materializeRow of a view into region r: delivers a fresh region *)
| OMut (d : nat) (v : nat).         (* the caller overwrites delivered row d *)

Record ost := {
  o_held : list (nat * Z);          (* regions handed out and not yet put back: region, capacity *)
  o_pooled : list (nat * (Z * Z));  (* regions sitting in the pool: region, (class, capacity) *)
  o_delivered : list nat;           (* regions of the delivered rows *)
  o_next : nat;                     (* regions >= o_next have never been used *)
  o_heap : nat -> nat               (* content of every region *)
}.

Definition o_init (next : nat) : ost :=
  {| o_held := []; o_pooled := []; o_delivered := []; o_next := next; o_heap := fun _ => O |}.

Definition upd (h : nat -> nat) (r v : nat) : nat -> nat := fun x => if Nat.eqb x r then v else h x.

Fixpoint assoc_nat {A} (r : nat) (l : list (nat * A)) : option A :=
  match l with [] => None | (k, v) :: t => if Nat.eqb k r then Some v else assoc_nat r t end.
Fixpoint remove_nat {A} (r : nat) (l : list (nat * A)) : list (nat * A) :=
  match l with [] => [] | (k, v) :: t => if Nat.eqb k r then remove_nat r t else (k, v) :: remove_nat r t end.
Definition mem_nat (r : nat) (l : list nat) : bool := existsb (Nat.eqb r) l.

Definition with_sets (s : ost) held pooled : ost :=
  {| o_held := held; o_pooled := pooled; o_delivered := o_delivered s; o_next := o_next s; o_heap := o_heap s |}.

(* one step; None = the discipline is broken (a guard fails) *)
Definition ostep (s : ost) (e : oev) : option ost :=
  match e with
  | OGet r size cap =>
      match assoc_nat r (o_held s) with
      | Some _ => None                                         (* handed out twice *)
      | None =>
          if mem_nat r (o_delivered s) then None
          else if cap <? size then None                        (* the [:size] reslice would fail *)
          else
            match assoc_nat r (o_pooled s) with
            | Some (k, c) =>
                match get_class size with
                | GClass k' => if (k =? k') && (c =? cap) then Some (with_sets s ((r, cap) :: o_held s) (remove_nat r (o_pooled s))) else None
                | _ => None
                end
            | None =>
                (* a new allocation *)
                if (r <? o_next s)%nat then None
                else
                  match get_class size with
                  | GNil => None
                  | GUnpooled c => if c =? cap then Some {| o_held := (r, cap) :: o_held s; o_pooled := o_pooled s; o_delivered := o_delivered s; o_next := S r; o_heap := o_heap s |} else None
                  | GClass k => if cap =? 2 ^ k then Some {| o_held := (r, cap) :: o_held s; o_pooled := o_pooled s; o_delivered := o_delivered s; o_next := S r; o_heap := o_heap s |} else None
                  end
            end
      end
  | OPut r cap =>
      match assoc_nat r (o_held s) with
      | None => None                                           (* put of a buffer nobody holds *)
      | Some c =>
          if negb (c =? cap) then None
          else
            match put_class cap with
            | None => Some (with_sets s (remove_nat r (o_held s)) (o_pooled s))
            | Some k => Some (with_sets s (remove_nat r (o_held s)) ((r, (k, cap)) :: o_pooled s))
            end
      end
  | OFill r v =>
      match assoc_nat r (o_held s) with
      | None => None                                           (* writing into a buffer that is not held *)
      | Some _ => Some {| o_held := o_held s; o_pooled := o_pooled s; o_delivered := o_delivered s; o_next := o_next s; o_heap := upd (o_heap s) r v |}
      end
  | ORow r =>
      match assoc_nat r (o_held s) with
      | None => None                                           (* materializing from a released buffer *)
      | Some _ =>
          let d := o_next s in
          Some {| o_held := o_held s; o_pooled := o_pooled s; o_delivered := d :: o_delivered s; o_next := S d;
                  o_heap := upd (o_heap s) d (o_heap s r) |}   (* string(rowBytes): an independent copy *)
      end
  | OMut d v =>
      if mem_nat d (o_delivered s)
      then Some {| o_held := o_held s; o_pooled := o_pooled s; o_delivered := o_delivered s; o_next := o_next s; o_heap := upd (o_heap s) d v |}
      else None
  end.

Fixpoint oreplay (s : ost) (evs : list oev) : option ost :=
  match evs with
  | [] => Some s
  | e :: t => match ostep s e with None => None | Some s' => oreplay s' t end
  end.

(* index of the first event the discipline rejects *)
Fixpoint ofirst_bad (s : ost) (evs : list oev) (i : nat) : option nat :=
  match evs with
  | [] => None
  | e :: t => match ostep s e with None => Some i | Some s' => ofirst_bad s' t (S i) end
  end.
