(* Family T — the scan buffer pool (codec_pool.go: getScanBuffer / putScanBuffer) and the
   ownership discipline of the query scan path (file_format.go: readPooledBlockRowData;
   query_exec.go: processDataBlock; row_matcher.go: materializeRow).
   Part 1: the capacity-class arithmetic.  Part 2: a labelled transition system over
   memory regions: pooled buffers, buffers held by a scan, and delivered rows.
   Part 3: readPooledBlockRowData as a program over that system.
   Executable definitions only. *)
From BS Require Import Model.Validate.
From Coq Require Import List ZArith NArith Bool.
Import ListNotations.
Open Scope Z_scope.

(* ---- Part 1: classes ---- *)
Definition minShift : Z := 10.
Definition maxShift : Z := 26.

(* math/bits.Len *)
Definition blen (x : Z) : Z := if x <=? 0 then 0 else Z.log2 x + 1.

Inductive getres := GNil | GUnpooled (cap : Z) | GClass (k : Z).

(* getScanBuffer(size): which pool class serves it *)
Definition get_class (size : Z) : getres :=
  if size <=? 0 then GNil
  else
    let s := blen (size - 1) in
    let s := if s <? minShift then minShift else s in
    if s >? maxShift then GUnpooled size else GClass s.

(* putScanBuffer(buf) with cap(buf) = c: the class it is filed under, if any *)
Definition put_class (c : Z) : option Z :=
  if (c <? 2 ^ minShift) || (c >? 2 ^ maxShift) then None else Some (blen c - 1).

(* ---- Part 2: ownership ---- *)
(* regions (buffers and delivered rows alike) are numbered by N; contents are abstract tokens *)
Inductive oev :=
| OGet (r : N) (size cap : Z)     (* getScanBuffer(size) handed out region r with capacity cap *)
| OPut (r : N) (cap : Z)          (* putScanBuffer on region r *)
| OFill (r : N) (v : N)           (* a reader or decompressor writes content v into region r *)
| ORow (r : N)                    (* materializeRow of a view into region r: delivers a fresh region *)
| OMut (d : N) (v : N).           (* the caller overwrites delivered row d *)

Record ost := {
  o_held : list (N * Z);            (* regions handed out and not yet put back: region, capacity *)
  o_pooled : list (N * (Z * Z));    (* regions sitting in the pool: region, (class, capacity) *)
  o_delivered : list N;             (* regions of the delivered rows *)
  o_next : N;                       (* regions >= o_next have never been used *)
  o_heap : N -> N                   (* content of every region *)
}.

Definition o_init (next : N) : ost :=
  {| o_held := []; o_pooled := []; o_delivered := []; o_next := next; o_heap := fun _ => 0%N |}.

Definition upd (h : N -> N) (r v : N) : N -> N := fun x => if N.eqb x r then v else h x.

Fixpoint assoc_n {A} (r : N) (l : list (N * A)) : option A :=
  match l with [] => None | (k, v) :: t => if N.eqb k r then Some v else assoc_n r t end.
Fixpoint remove_n {A} (r : N) (l : list (N * A)) : list (N * A) :=
  match l with [] => [] | (k, v) :: t => if N.eqb k r then remove_n r t else (k, v) :: remove_n r t end.
Definition mem_n (r : N) (l : list N) : bool := existsb (N.eqb r) l.

Definition mk (held : list (N * Z)) (pooled : list (N * (Z * Z))) (delivered : list N) (next : N) (heap : N -> N) : ost :=
  {| o_held := held; o_pooled := pooled; o_delivered := delivered; o_next := next; o_heap := heap |}.

(* one step; None = the discipline is broken (a guard fails) *)
Definition ostep (s : ost) (e : oev) : option ost :=
  match e with
  | OGet r size cap =>
      match assoc_n r (o_held s) with
      | Some _ => None                                         (* handed out twice *)
      | None =>
          if mem_n r (o_delivered s) then None
          else if cap <? size then None                        (* the [:size] reslice would fail *)
          else
            match assoc_n r (o_pooled s) with
            | Some (k, c) =>
                match get_class size with
                | GClass k' =>
                    if (k =? k') && (c =? cap)
                    then Some (mk ((r, cap) :: o_held s) (remove_n r (o_pooled s)) (o_delivered s) (o_next s) (o_heap s))
                    else None
                | _ => None
                end
            | None =>
                (* a new allocation *)
                if (r <? o_next s)%N then None
                else
                  match get_class size with
                  | GNil => None
                  | GUnpooled c =>
                      if c =? cap then Some (mk ((r, cap) :: o_held s) (o_pooled s) (o_delivered s) (r + 1)%N (o_heap s)) else None
                  | GClass k =>
                      if cap =? 2 ^ k then Some (mk ((r, cap) :: o_held s) (o_pooled s) (o_delivered s) (r + 1)%N (o_heap s)) else None
                  end
            end
      end
  | OPut r cap =>
      match assoc_n r (o_held s) with
      | None => None                                           (* put of a buffer nobody holds *)
      | Some c =>
          if negb (c =? cap) then None
          else
            match put_class cap with
            | None => Some (mk (remove_n r (o_held s)) (o_pooled s) (o_delivered s) (o_next s) (o_heap s))
            | Some k => Some (mk (remove_n r (o_held s)) ((r, (k, cap)) :: o_pooled s) (o_delivered s) (o_next s) (o_heap s))
            end
      end
  | OFill r v =>
      match assoc_n r (o_held s) with
      | None => None                                           (* writing into a buffer that is not held *)
      | Some _ => Some (mk (o_held s) (o_pooled s) (o_delivered s) (o_next s) (upd (o_heap s) r v))
      end
  | ORow r =>
      match assoc_n r (o_held s) with
      | None => None                                           (* materializing from a released buffer *)
      | Some _ =>
          let d := o_next s in                                 (* string(rowBytes): an independent copy *)
          Some (mk (o_held s) (o_pooled s) (d :: o_delivered s) (d + 1)%N (upd (o_heap s) d (o_heap s r)))
      end
  | OMut d v =>
      if mem_n d (o_delivered s)
      then Some (mk (o_held s) (o_pooled s) (o_delivered s) (o_next s) (upd (o_heap s) d v))
      else None
  end.

Fixpoint oreplay (s : ost) (evs : list oev) : option ost :=
  match evs with
  | [] => Some s
  | e :: t => match ostep s e with None => None | Some s' => oreplay s' t end
  end.

(* index of the first event the discipline rejects *)
Fixpoint ofirst_bad (s : ost) (evs : list oev) (i : nat) : option nat :=
  match evs with
  | [] => None
  | e :: t => match ostep s e with None => Some i | Some s' => ofirst_bad s' t (S i) end
  end.

(* ---- Part 3: readPooledBlockRowData as a program over the pool ----
   The branch is chosen on normalizeCompression(block.Compression): the legacy empty value and
   "none" are the same compression (both are CNone here).  c and d are the regions the first and
   the second getScanBuffer call hand out (RowDataSize, then UncompressedSize). *)
Definition pooled_self (k : comp) : bool := match k with CNone => true | _ => false end.

(* the pool events of a successful read, and the region whose bytes the caller goes on to scan:
   uncompressed rows are the read buffer itself; a codec decodes into d and c goes straight back *)
Definition pooled_read (k : comp) (c d : N) (csize ccap dsize dcap : Z) : list oev * N :=
  if pooled_self k then ([OGet c csize ccap], c)
  else ([OGet c csize ccap; OGet d dsize dcap; OPut c ccap], d).

(* the release closure handed to the caller *)
Definition pooled_release (k : comp) (ccap dcap : Z) (r : N) : list oev :=
  [OPut r (if pooled_self k then ccap else dcap)].
