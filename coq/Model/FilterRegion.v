(* Family T — filter sections, block row data decoding, the block filter region writer
   and the chunked region reader (file_format.go: encodeFilterSection, parseFilterSection,
   decodeBlockRowDataInto, ReadDataBlockRowData, ReadDataBlockBloomFilters,
   blockFilterRegionWriter.add/finish, blockFilterCursor.heldSection/readChunkFrom/filtersFor).
   Library behaviour (CRC32C, the bloom binary decoder, the decompressors) enters as
   section variables.  Executable definitions only. *)
From BS Require Import Lib.Bytes Lib.Wrap64 Model.Framing Model.Validate.
From Coq Require Import List ZArith NArith Bool.
Import ListNotations.
Open Scope Z_scope.

Definition HashSize : Z := 4.

Section Codec.
  Variable crc : str -> N.                       (* crc32.Checksum(_, Castagnoli) *)
  Variable dec_ok : str -> bool.                 (* bloom.BloomFilter.ReadFrom accepts these bytes *)
  Variable decompress : comp -> str -> option str.  (* full content of a snappy/zstd stream, None if it errors *)

  (* a filter is represented by its bloom binary encoding *)
  Definition filters := (option str * option str * option str)%type.

  Definition enc_filter (f : option str) : str :=
    match f with None => [] | Some x => le32 (lenZ x) ++ x end.
  Definition flag_of (f : option str) (bit : N) : N := match f with None => 0%N | Some _ => bit end.

  Definition section_payload (fs : filters) : str :=
    let '(f1, f2, f3) := fs in
    (flag_of f1 1 + flag_of f2 2 + flag_of f3 4)%N :: enc_filter f1 ++ enc_filter f2 ++ enc_filter f3.

  Definition filter_fits (f : option str) : bool :=
    match f with None => true | Some x => lenZ x <=? 4294967295 end.

  (* encodeFilterSection: None when a filter does not fit the uint32 length prefix *)
  Definition encode_section (fs : filters) : option str :=
    let '(f1, f2, f3) := fs in
    if filter_fits f1 && filter_fits f2 && filter_fits f3
    then let p := section_payload fs in Some (p ++ le32 (Z.of_N (crc p)))
    else None.

  (* the closure `next` of parseFilterSection, for one presence bit *)
  Definition take_filter (present : bool) (rest : str) : option (option str * str) :=
    if negb present then Some (None, rest)
    else if lenZ rest <? LengthPrefixSize then None
    else
      let n := rd32 rest in
      let body := skipn 4 rest in
      if lenZ body <? n then None
      else
        let f := firstn (Z.to_nat n) body in
        if dec_ok f then Some (Some f, skipn (Z.to_nat n) body) else None.

  Definition parse_section (s : str) : option filters :=
    let L := lenZ s in
    if L <? HashSize + 1 then None
    else
      let payload := firstn (Z.to_nat (L - HashSize)) s in
      let expected := rd32 (skipn (Z.to_nat (L - HashSize)) s) in
      if negb (Z.of_N (crc payload) =? expected) then None
      else
        match payload with
        | [] => None
        | flags :: rest =>
            if (8 <=? flags)%N then None       (* flags &^ filterSectionFlagsAll != 0 *)
            else
              match take_filter (N.testbit flags 0) rest with
              | None => None
              | Some (f1, r1) =>
                  match take_filter (N.testbit flags 1) r1 with
                  | None => None
                  | Some (f2, r2) =>
                      match take_filter (N.testbit flags 2) r2 with
                      | None => None
                      | Some (f3, r3) =>
                          match r3 with [] => Some (f1, f2, f3) | _ :: _ => None end
                      end
                  end
              end
        end.

  (* decodeBlockRowDataInto: CRC before anything else, output bounded by UncompressedSize *)
  Definition decode_block (b : blockJ) (c : str) : option str :=
    if b_has_hash b && negb (crc c =? b_hash b)%N then None
    else
      match b_comp b with
      | CNone => Some c
      | COther => None
      | k =>
          if b_usize b <? 0 then None
          else
            match decompress k c with
            | Some d => if lenZ d =? b_usize b then Some d else None
            | None => None
            end
      end.

  (* readFullAt on a file of these bytes: Seek(off) then ReadFull(n bytes) *)
  Definition read_at (file : str) (off n : Z) : option str :=
    if (off <? 0) || (n <? 0) then None
    else if (0 <? n) && (lenZ file <? off + n) then None   (* a zero-length ReadFull never touches the reader *)
    else Some (slice file off n).

  (* ReadDataBlockRowData: allocates rds b bytes, reads them at rdo b, decodes *)
  Definition read_block (file : str) (b : blockJ) : option str :=
    if (rdo b <? 0) || (rds b <? 0) then None
    else match read_at file (rdo b) (rds b) with
         | None => None
         | Some c => decode_block b c
         end.

  (* rows of a block as the public helpers deliver them: decode, then scan to the end *)
  Definition read_rows (file : str) (b : blockJ) : option (list str) :=
    match read_block file b with
    | None => None
    | Some d => let '(rows, ok) := scan d in if ok then Some rows else None
    end.

  (* ReadDataBlockBloomFilters *)
  Definition read_filters (file : str) (b : blockJ) : option filters :=
    if (bfs b <? 0) || (bfo b <? 0) then None
    else if bfs b =? 0 then Some (None, None, None)
    else match read_at file (bfo b) (bfs b) with
         | None => None
         | Some s => parse_section s
         end.
End Codec.

(* ---- blockFilterRegionWriter ---- *)
Definition set_loc (b : blockJ) (o s fo fs : Z) : blockJ :=
  {| rdo := o; rds := s; bfo := fo; bfs := fs; b_rows := b_rows b; b_usize := b_usize b;
     b_comp := b_comp b; b_hash := b_hash b; b_has_hash := b_has_hash b; b_cnt := b_cnt b |}.

(* add: (relative offset, size, buffer afterwards) *)
Definition region_add (buf section : str) : Z * Z * str := (lenZ buf, lenZ section, buf ++ section).

(* finish: every block's BloomFilterOffset += regionOffset *)
Definition rebase (roff : Z) (b : blockJ) : blockJ := set_loc b (rdo b) (rds b) (bfo b + roff) (bfs b).
Definition region_finish (roff : Z) (blocks : list blockJ) : list blockJ := map (rebase roff) blocks.

(* ---- blockFilterCursor ---- *)
Record chunk := { ck_start : Z; ck_len : Z }.

(* heldSection: the section's offset inside the chunk in hand, and its size *)
Definition held (c : option chunk) (b : blockJ) : option (Z * Z) :=
  match c with
  | None => None
  | Some ck =>
      let off := sub64 (bfo b) (ck_start ck) in
      if (off <? 0) || (off >? ck_len ck) || (bfs b >? sub64 (ck_len ck) off) then None
      else Some (off, bfs b)
  end.

(* the loop of readChunkFrom over blocks i+1.. : the chunk's end *)
Fixpoint grow (rest : list blockJ) (rs re target start end_ : Z) : Z :=
  match rest with
  | [] => end_
  | nb :: t =>
      if bfs nb =? 0 then grow t rs re target start end_
      else if negb (validate_fs nb rs re) then end_
      else
        let ns := bfo nb in
        let ne := add64 ns (bfs nb) in
        if (ns <? start) || (sub64 ne start >? target) then end_
        else grow t rs re target start (if ne >? end_ then ne else end_)
  end.

Definition read_chunk_from (blocks : list blockJ) (i : nat) (rs re target : Z) : Z * Z :=
  match nth_error blocks i with
  | None => (0, 0)
  | Some b =>
      let start := bfo b in
      (start, grow (skipn (S i) blocks) rs re target start (add64 start (bfs b)))
  end.

Inductive fkind := KInvalid | KEmpty | KSection | KMiss | KReadFail.

Record fstep := {
  fs_kind : fkind;
  fs_read : option (Z * Z);         (* the chunk read issued by this call: offset, length *)
  fs_chunk : option chunk;          (* chunk in hand afterwards *)
  fs_held : option (Z * Z)          (* heldSection for the block against that chunk *)
}.

(* filtersFor(i) on a file of fsize bytes *)
Definition filters_for (blocks : list blockJ) (rs re target fsize : Z) (c : option chunk) (i : nat) : fstep :=
  match nth_error blocks i with
  | None => {| fs_kind := KInvalid; fs_read := None; fs_chunk := c; fs_held := None |}
  | Some b =>
      if negb (validate_fs b rs re) then {| fs_kind := KInvalid; fs_read := None; fs_chunk := c; fs_held := None |}
      else if bfs b =? 0 then {| fs_kind := KEmpty; fs_read := None; fs_chunk := c; fs_held := None |}
      else
        match held c b with
        | Some h => {| fs_kind := KSection; fs_read := None; fs_chunk := c; fs_held := Some h |}
        | None =>
            let '(start, end_) := read_chunk_from blocks i rs re target in
            let n := sub64 end_ start in
            let n' := if n <=? 0 then 0 else n in        (* getScanBuffer(size <= 0) = nil *)
            if (start <? 0) || ((0 <? n') && (fsize <? start + n')) then
              {| fs_kind := KReadFail; fs_read := Some (start, n'); fs_chunk := c; fs_held := held c b |}
            else
              let c' := if n <=? 0 then None else Some {| ck_start := start; ck_len := n |} in
              match held c' b with
              | Some h => {| fs_kind := KSection; fs_read := Some (start, n'); fs_chunk := c'; fs_held := Some h |}
              | None => {| fs_kind := KMiss; fs_read := Some (start, n'); fs_chunk := c'; fs_held := None |}
              end
        end
  end.

(* a pass: filtersFor for each index of order, stopping after a failed read *)
Fixpoint cursor_pass (blocks : list blockJ) (rs re target fsize : Z) (c : option chunk) (order : list nat) : list fstep :=
  match order with
  | [] => []
  | i :: t =>
      let st := filters_for blocks rs re target fsize c i in
      match fs_kind st with
      | KReadFail => [st]
      | _ => st :: cursor_pass blocks rs re target fsize (fs_chunk st) t
      end
  end.
