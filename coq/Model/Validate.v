(* Family T — metadata framing checks (file_format.go: FileMetadata.validate,
   DataBlockMetadata.validateFilterSection, planBlockFilterReads).  Every field is a Go
   int (int64 here); the arithmetic the code performs is written with explicit
   wrap-around (add64 / sub64).  Executable definitions only. *)
From BS Require Import Lib.Bytes Lib.Wrap64.
From Coq Require Import List ZArith NArith Bool.
Import ListNotations.
Open Scope Z_scope.

Inductive comp := CNone | CSnappy | CZstd | COther.

Definition comp_eqb (a b : comp) : bool :=
  match a, b with
  | CNone, CNone | CSnappy, CSnappy | CZstd, CZstd | COther, COther => true
  | _, _ => false
  end.

(* DataBlockMetadata: the framing fields and what C17 compares *)
Record blockJ := {
  rdo : Z; rds : Z;            (* RowDataOffset, RowDataSize *)
  bfo : Z; bfs : Z;            (* BloomFilterOffset, BloomFilterSize *)
  b_rows : Z; b_usize : Z;     (* Rows, UncompressedSize *)
  b_comp : comp;               (* Compression after normalizeCompression *)
  b_hash : N; b_has_hash : bool;
  b_cnt : Z * Z * Z            (* BloomEntryCounts: fields, tokens, field-tokens *)
}.

(* fileMetadataJSON: what the footer's JSON payload decodes to *)
Record metaJ := {
  m_roff : Z; m_rsize : Z;     (* BlockFilterRegionOffset / Size *)
  m_ffs : Z;                   (* FileFilterSectionSize *)
  m_cnt : Z * Z * Z;
  m_blocks : list blockJ
}.

(* validateFilterSection(regionOffset, regionEnd) = nil *)
Definition validate_fs (b : blockJ) (rs re : Z) : bool :=
  if bfs b <? 0 then false
  else if bfs b =? 0 then true
  else negb ((bfo b <? rs) || (bfo b >? re) || (bfs b >? sub64 re (bfo b))).

(* FileMetadata.validate(dataLimit) = nil *)
Definition validate_block (roff rend : Z) (b : blockJ) : bool :=
  if (rdo b <? 0) || (rds b <? 0) then false
  else if (rdo b >? roff) || (rds b >? sub64 roff (rdo b)) then false
  else validate_fs b roff rend.

Definition validate (m : metaJ) (limit : Z) : bool :=
  if (m_roff m <? 0) || (m_rsize m <? 0) then false
  else if (limit <? 0) || (m_roff m >? limit) || (m_rsize m >? sub64 limit (m_roff m)) then false
  else forallb (validate_block (m_roff m) (add64 (m_roff m) (m_rsize m))) (m_blocks m).

(* planBlockFilterReads: Some (regionStart, regionEnd, hasSections) or an error *)
Definition plan_reads (blocks : list blockJ) (roff rsize : Z) : option (Z * Z * bool) :=
  if (roff <? 0) || (rsize <? 0) then None
  else
    let rs := roff in
    let re := add64 rs rsize in
    if re <? rs then None
    else if forallb (fun b => validate_fs b rs re) blocks
         then Some (rs, re, existsb (fun b => bfs b >? 0) blocks)
         else None.
