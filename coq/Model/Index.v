(* Family R/M/G: how flush and merge build the indexes of a file (ingest.go:bloomEntrySets,
   buildSizedBloomFilter; flush.go:handleFlush; merge.go:mergeDataBlocks/copyDataBlock):
   an abstract bloom filter over an arbitrary hash, entry sets, block and file assembly.
   Executable only. *)
From BS Require Export Lib.Bytes Model.Json Model.Expr Model.MinMax Model.QueryFn.
Open Scope N_scope.

Section Index.
  Variable tok : str -> list str.
  Variable locs : str -> list N.            (* the k bit positions of an entry: any function *)

  (* a filter is the list of bits set *)
  Definition bf_add (x : str) (bits : list N) : list N := locs x ++ bits.
  Definition bf_build (entries : list str) : list N := fold_right bf_add [] entries.
  Definition bf_test (bits : list N) (x : str) : bool := forallb (fun i => existsb (N.eqb i) bits) (locs x).

  (* buildFilters over entry sets *)
  Definition build_filters (fields tokens fts : list str) : filters :=
    {| f_field := Some (bf_test (bf_build fields));
       f_token := Some (bf_test (bf_build tokens));
       f_ft := Some (bf_test (bf_build fts)) |}.

  Definition rows_fields (rows : list srow) : list str := flat_map (fun r => e_fields (walk_row (sr_json r))) rows.
  Definition rows_tokens (rows : list srow) : list str := flat_map (fun r => e_tokens tok (walk_row (sr_json r))) rows.
  Definition rows_fts (rows : list srow) : list str := flat_map (fun r => e_fieldtokens tok (walk_row (sr_json r))) rows.

  Definition filters_for (rows : list srow) : filters :=
    build_filters (rows_fields rows) (rows_tokens rows) (rows_fts rows).

  (* one flushed (or merged) block: its rows, all of partition [p]; minmax from the rows' indexed values *)
  Definition make_block (keys : list str) (p : str) (rows : list srow) : block :=
    {| bk_meta := {| b_partition := p; b_mm := index_rows keys (map sr_pre rows) |};
       bk_filters := filters_for rows; bk_section := true; bk_rows := rows |}.

  (* a file's filters are built from the union of its blocks' entries *)
  Definition make_file (blocks : list block) : file :=
    {| fl_filters := filters_for (flat_map bk_rows blocks); fl_blocks := blocks |}.

  (* flush: one block per partition buffer *)
  Definition flush_file (keys : list str) (buffers : list (str * list srow)) : file :=
    make_file (map (fun pb => make_block keys (fst pb) (snd pb)) buffers).

  (* merge of same-partition, same-key-set blocks into one: rows re-streamed, filters rebuilt,
     ranges unioned pairwise as mergeDataBlocks does *)
  Definition merge_blocks (p : str) (srcs : list block) : block :=
    {| bk_meta := {| b_partition := p;
                     b_mm := match srcs with
                             | [] => []
                             | b0 :: rest => fold_left (fun acc b => merge_mm acc (b_mm (bk_meta b))) rest (b_mm (bk_meta b0))
                             end |};
       bk_filters := filters_for (flat_map bk_rows srcs); bk_section := true;
       bk_rows := flat_map bk_rows srcs |}.
End Index.
