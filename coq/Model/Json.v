(* Family R: JSON rows, the shared path walker (row_matcher.go:pathWalker.walkValue /
   emitKeyPrefixPaths, tokenizer.go:walkPathValues), leaf text (leafTokenInput) and the
   bloom entry sets of a row (ingest.go:indexRow / addFieldToken). Executable only. *)
From BS Require Export Lib.Bytes.
Open Scope N_scope.

(* keys in document order, duplicates allowed (raw JSON can contain them);
   numbers carry their raw literal *)
Inductive json :=
| JNull
| JBool (b : bool)
| JNum (raw : str)
| JStr (s : str)
| JArr (xs : list json)
| JObj (kvs : list (str * json)).

(* what is emitted at a path: a container / key-prefix (isLeaf=false), a null leaf, or a leaf with text *)
Inductive leaf := LContainer | LNull | LText (t : str).
Definition em := (str * leaf)%type.

Definition dot : N := 46.                       (* the engine fixes the delimiter "." *)
Definition colon2 : str := [58; 58].            (* "::" of makeFieldTokenKey *)

Definition nonempty (s : str) : bool := match s with [] => false | _ => true end.
Definition nonempty_list {A} (l : list A) : bool := match l with [] => false | _ => true end.

(* buffer after descending into key: no delimiter after an empty parent *)
Definition join (parent key : str) : str :=
  match parent with [] => key | _ => parent ++ dot :: key end.

(* key[:i] for every i with key[i] = '.', in increasing i *)
Fixpoint key_prefixes (k : str) : list str :=
  match k with
  | [] => []
  | c :: rest => (if c =? dot then [[]] else []) ++ map (cons c) (key_prefixes rest)
  end.

Definition emit_if_nonempty (p : str) (l : leaf) : list em :=
  if nonempty p then [(p, l)] else [].

(* emitKeyPrefixPaths *)
Definition prefix_ems (parent key : str) : list em :=
  flat_map (fun p => emit_if_nonempty (join parent p) LContainer) (key_prefixes key).

(* leafTokenInput *)
Definition str_true : str := [116; 114; 117; 101].
Definition str_false : str := [102; 97; 108; 115; 101].
Definition leaf_of (v : json) : leaf :=
  match v with
  | JNull => LNull
  | JBool true => LText str_true
  | JBool false => LText str_false
  | JNum raw => LText raw
  | JStr s => LText s
  | _ => LContainer
  end.

(* pathWalker.walkValue: the emission list, in emission order *)
Fixpoint walk (path : str) (v : json) : list em :=
  match v with
  | JObj kvs =>
      emit_if_nonempty path LContainer ++
      (fix go (l : list (str * json)) : list em :=
         match l with
         | [] => []
         | (k, c) :: t => prefix_ems path k ++ walk (join path k) c ++ go t
         end) kvs
  | JArr xs =>
      emit_if_nonempty path LContainer ++
      (fix go (l : list json) : list em :=
         match l with
         | [] => []
         | c :: t => walk path c ++ go t
         end) xs
  | _ => emit_if_nonempty path (leaf_of v)
  end.

Definition walk_row (v : json) : list em := walk [] v.

(* text leaves of an emission list *)
Fixpoint text_leaves (es : list em) : list (str * str) :=
  match es with
  | [] => []
  | (p, LText t) :: r => (p, t) :: text_leaves r
  | _ :: r => text_leaves r
  end.

Definition ft_key (path token : str) : str := path ++ colon2 ++ token.

(* the three entry sets a row contributes (as lists; consumers treat them as sets) *)
Section Entries.
  Variable tok : str -> list str.     (* the configured tokenizer on a leaf's canonical text *)

  Definition e_fields (es : list em) : list str := map fst es.
  Definition e_tokens (es : list em) : list str := flat_map (fun pt => tok (snd pt)) (text_leaves es).
  Definition e_fieldtokens (es : list em) : list str :=
    flat_map (fun pt => map (ft_key (fst pt)) (tok (snd pt))) (text_leaves es).
End Entries.
