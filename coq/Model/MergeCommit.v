(* Family G: merge.go — Merge (mergeMu.TryLock single-flight), merge() and
   executeMergeGroup as a program over store calls with an arbitrary fault oracle;
   flush.go abortFileWriter; the visible content under the two shipped MetaStores
   (MemoryMetaStore: atomic Update; FileSystemDataStore used as MetaStore: a
   directory scan).  Executable definitions only. *)
From BS Require Export Model.MergePlan.
From Coq Require Import List ZArith Bool Arith.
Open Scope Z_scope.

(* ---- store calls and traces ---- *)
Inductive call :=
| KIter                                   (* MetaStore.GetMaybeFilesForQuery drained by collectMaybeFiles *)
| KCreate (out : Z)                       (* DataStore.CreateFile; out = the pointer it hands back *)
| KOpen (p : Z)                           (* DataStore.OpenFile of a source *)
| KRead (p : Z)                           (* Read on a source handle *)
| KWrite (out : Z)                        (* Write on the output writer *)
| KClose (out : Z)                        (* writer.Close: the publish step *)
| KAbort (out : Z)                        (* writer.Abort *)
| KUpdate (writes deletes : list Z)       (* MetaStore.Update *)
| KTomb (p : Z).                          (* DataStore.TombstoneFile *)

Record ev := Ev { e_call : call; e_ok : bool }.

(* the n-th store call issued by this Merge fails iff [fo n]; any function is allowed *)
Definition oracle := nat -> bool.

(* calls of one executeMergeGroup between CreateFile and Close *)
Inductive bop := BOpen (p : Z) | BRead (p : Z) | BWrite.

Record group := { g_srcs : list Z; g_body : list bop }.

Inductive ret :=
| RetStats            (* (stats, nil) *)
| RetStatsCleanup     (* (stats, error wrapping ErrPostCommitCleanup) *)
| RetErr              (* (nil, error) *)
| RetInProgress.      (* (nil, ErrMergeInProgress) *)

Definition bop_call (out : Z) (o : bop) : call :=
  match o with BOpen p => KOpen p | BRead p => KRead p | BWrite => KWrite out end.

(* the body of executeMergeGroup: stops at the first failing call *)
Fixpoint run_body (fo : oracle) (n : nat) (out : Z) (ops : list bop) : list ev * bool * nat :=
  match ops with
  | [] => ([], true, n)
  | o :: t =>
      if fo n then ([Ev (bop_call out o) false], false, S n)
      else let '(tr, ok, n') := run_body fo (S n) out t in (Ev (bop_call out o) true :: tr, ok, n')
  end.

(* best-effort tombstones: every pointer is attempted, results collected *)
Fixpoint tomb_all (fo : oracle) (n : nat) (ps : list Z) : list ev * list bool * nat :=
  match ps with
  | [] => ([], [], n)
  | p :: t =>
      let ok := negb (fo n) in
      let '(tr, oks, n') := tomb_all fo (S n) t in
      (Ev (KTomb p) ok :: tr, ok :: oks, n')
  end.

(* flush.go abortFileWriter: Abort when the writer has it, else Close unless a Close was
   already attempted; then TombstoneFile.  All results are ignored. *)
Definition abort_writer (fo : oracle) (n : nat) (has_abort close_attempted : bool) (out : Z) : list ev * nat :=
  if has_abort then ([Ev (KAbort out) (negb (fo n)); Ev (KTomb out) (negb (fo (S n)))], S (S n))
  else if close_attempted then ([Ev (KTomb out) (negb (fo n))], S n)
  else ([Ev (KClose out) (negb (fo n)); Ev (KTomb out) (negb (fo (S n)))], S (S n)).

(* executeMergeGroup *)
Definition exec_group (fo : oracle) (n : nat) (has_abort : bool) (out : Z) (body : list bop) : list ev * bool * nat :=
  if fo n then ([Ev (KCreate out) false], false, S n)
  else
    let '(tr, ok, n1) := run_body fo (S n) out body in
    if negb ok then
      let '(tra, n2) := abort_writer fo n1 has_abort false out in
      (Ev (KCreate out) true :: tr ++ tra, false, n2)
    else if fo n1 then
      let '(tra, n2) := abort_writer fo (S n1) has_abort true out in
      (Ev (KCreate out) true :: tr ++ Ev (KClose out) false :: tra, false, n2)
    else (Ev (KCreate out) true :: tr ++ [Ev (KClose out) true], true, S n1).

(* the group loop of merge(): on a group failure the outputs of the groups that already
   completed are tombstoned.  outp i = the pointer CreateFile returns for group i;
   done = writeOps so far *)
Fixpoint run_groups (fo : oracle) (has_abort : bool) (outp : nat -> Z) (gi : nat) (groups : list group)
  (done : list Z) (n : nat) : list ev * bool * list Z * nat :=
  match groups with
  | [] => ([], true, done, n)
  | g :: gs =>
      let '(tr, ok, n1) := exec_group fo n has_abort (outp gi) (g_body g) in
      if ok then
        let '(tr2, ok2, done2, n2) := run_groups fo has_abort outp (S gi) gs (done ++ [outp gi]) n1 in
        (tr ++ tr2, ok2, done2, n2)
      else
        let '(trc, _, n2) := tomb_all fo n1 done in
        (tr ++ trc, false, done, n2)
  end.

(* merge(): collect, group loop, Update, source tombstones *)
Definition merge_prog (fo : oracle) (has_abort : bool) (outp : nat -> Z) (groups : list group) : list ev * ret :=
  if fo O then ([Ev KIter false], RetErr)
  else
    let '(tr, ok, done, n) := run_groups fo has_abort outp O groups [] 1%nat in
    if negb ok then (Ev KIter true :: tr, RetErr)
    else
      match done with
      | [] => (Ev KIter true :: tr, RetStats)                   (* len(writeOps) == 0: nothing to merge *)
      | _ :: _ =>
          let dels := flat_map g_srcs groups in
          if fo n then
            let '(trc, _, _) := tomb_all fo (S n) done in
            (Ev KIter true :: tr ++ Ev (KUpdate done dels) false :: trc, RetErr)
          else
            let '(trt, oks, _) := tomb_all fo (S n) dels in
            (Ev KIter true :: tr ++ Ev (KUpdate done dels) true :: trt,
             if forallb (fun b => b) oks then RetStats else RetStatsCleanup)
      end.

(* ---- from the plan to the program ---- *)

(* blockWithFile: the pointer of the file a block came from (block ids are unique in a store) *)
Fixpoint ptr_of (g : list file) (id : Z) : Z :=
  match g with
  | [] => 0
  | f :: t => if mem_z id (map b_id (f_blocks f)) then f_ptr f else ptr_of t id
  end.

(* per output block: each member is opened and read (copyDataBlock / loadBlockRowData), then
   the block's row data is written.  The writes of the filter region and the footer follow the
   last block's write; a run of Writes is one BWrite. *)
Definition group_body (c : cfg) (porder : list str) (g : list file) : list bop :=
  flat_map (fun members =>
              flat_map (fun b => [BOpen (ptr_of g (b_id b)); BRead (ptr_of g (b_id b))]) members ++ [BWrite])
           (plan_blocks c porder (group_blocks g)).

Fixpoint plan_groups (c : cfg) (porders : list (list str)) (fgroups : list (list file)) : list group :=
  match fgroups, porders with
  | g :: gs, po :: pos => {| g_srcs := map f_ptr g; g_body := group_body c po g |} :: plan_groups c pos gs
  | g :: gs, [] => {| g_srcs := map f_ptr g; g_body := group_body c (partitions_of (group_blocks g)) g |} :: plan_groups c [] gs
  | [], _ => []
  end.

(* Merge's body on the files the iterator yielded *)
Definition merge_engine (c : cfg) (fo : oracle) (has_abort : bool) (outp : nat -> Z) (porders : list (list str))
  (files : list file) : list ev * ret :=
  merge_prog fo has_abort outp (plan_groups c porders (plan_files c files)).

(* ---- visible content ---- *)
Definition remove_ptrs (ps : list Z) (st : list file) : list file :=
  filter (fun f => negb (mem_z (f_ptr f) ps)) st.

(* MemoryMetaStore.Update: s.files[p] = meta for every write, then delete every delete *)
Definition set_file (f : file) (st : list file) : list file :=
  if mem_z (f_ptr f) (map f_ptr st)
  then map (fun g => if f_ptr g =? f_ptr f then f else g) st
  else st ++ [f].
Definition ms_update (writes : list file) (deletes : list Z) (st : list file) : list file :=
  remove_ptrs deletes (fold_left (fun s w => set_file w s) writes st).

Inductive mskind := MSMemory | MSFs.

(* effect of one store call on what GetMaybeFilesForQuery shows; outf p = the complete
   file a successful Close publishes under pointer p.
   MemoryMetaStore: only a successful Update changes it, atomically.
   FileSystemDataStore as MetaStore: a published file is visible from its Close on; Update
   removes the deletes and ignores the writes; TombstoneFile removes the file. *)
Definition vis_step (k : mskind) (outf : Z -> file) (st : list file) (e : ev) : list file :=
  if negb (e_ok e) then st
  else
    match k, e_call e with
    | MSMemory, KUpdate ws ds => ms_update (map outf ws) ds st
    | MSFs, KUpdate _ ds => remove_ptrs ds st
    | MSFs, KClose out => set_file (outf out) st
    | MSFs, KTomb p => remove_ptrs [p] st
    | _, _ => st
    end.

Definition vis_after (k : mskind) (outf : Z -> file) (st : list file) (tr : list ev) : list file :=
  fold_left (vis_step k outf) tr st.

(* ---- outcome classes, as executable predicates on a trace ---- *)
Definition is_update_ok (e : ev) : bool :=
  e_ok e && match e_call e with KUpdate _ _ => true | _ => false end.

(* split at the first successful Update *)
Fixpoint split_update (tr : list ev) : option (list ev * (list Z * list Z) * list ev) :=
  match tr with
  | [] => None
  | e :: t =>
      match e_call e, e_ok e with
      | KUpdate ws ds, true => Some ([], (ws, ds), t)
      | _, _ =>
          match split_update t with
          | Some (pre, u, post) => Some (e :: pre, u, post)
          | None => None
          end
      end
  end.

Definition created (tr : list ev) : list Z :=
  flat_map (fun e => match e_call e, e_ok e with KCreate o, true => [o] | _, _ => [] end) tr.

Definition closed_ok (tr : list ev) (o : Z) : bool :=
  existsb (fun e => e_ok e && match e_call e with KClose o' => o' =? o | _ => false end) tr.

(* an Abort or a TombstoneFile of o was attempted *)
Definition cleanup_attempted (tr : list ev) (o : Z) : bool :=
  existsb (fun e => match e_call e with KAbort o' => o' =? o | KTomb o' => o' =? o | _ => false end) tr.

Definition tomb_attempted (tr : list ev) (p : Z) : bool :=
  existsb (fun e => match e_call e with KTomb p' => p' =? p | _ => false end) tr.

Definition touches_cleanup (ps : list Z) (e : ev) : bool :=
  match e_call e with KAbort o => mem_z o ps | KTomb o => mem_z o ps | _ => false end.

Definition incl_z (a b : list Z) : bool := forallb (fun x => mem_z x b) a.

(* committed: one successful Update; its writes are exactly the created outputs, each
   closed successfully before it and never aborted or tombstoned; no delete is tombstoned
   before it and every delete is tombstoned (attempted) after it *)
Definition committedb (tr : list ev) : bool :=
  match split_update tr with
  | None => false
  | Some (pre, (ws, ds), post) =>
      negb (existsb is_update_ok post)
      && incl_z (created tr) ws && incl_z ws (created pre)
      && forallb (closed_ok pre) ws
      && negb (existsb (touches_cleanup ws) tr)
      && negb (existsb (touches_cleanup ds) pre)
      && forallb (tomb_attempted post) ds
  end.

Definition source_cleanup_ok (tr : list ev) : bool :=
  match split_update tr with
  | None => true
  | Some (_, _, post) => forallb e_ok post
  end.

(* aborted: no successful Update, and every output CreateFile handed out was aborted or
   tombstoned (attempted) *)
Definition abortedb (tr : list ev) : bool :=
  negb (existsb is_update_ok tr) && forallb (cleanup_attempted tr) (created tr).

(* nothing to merge: the iterator was drained and no other store call was made *)
Definition nothingb (tr : list ev) : bool :=
  match tr with [e] => e_ok e && match e_call e with KIter => true | _ => false end | _ => false end.

(* the return value contract *)
Definition ret_okb (tr : list ev) (r : ret) : bool :=
  match r with
  | RetStats => (committedb tr && source_cleanup_ok tr) || nothingb tr
  | RetStatsCleanup => committedb tr && negb (source_cleanup_ok tr)
  | RetErr => abortedb tr
  | RetInProgress => match tr with [] => true | _ => false end
  end.

(* ---- single flight: Merge = TryLock; merge(); Unlock ---- *)
Inductive sfev :=
| SfTry (c : nat)                 (* caller c executes mergeMu.TryLock *)
| SfCall (c : nat)                (* caller c's Merge performs a store call *)
| SfRet (c : nat) (inprog : bool). (* caller c's Merge returns; inprog: with ErrMergeInProgress *)

Inductive pc := PRun | PRefused.

Record sfst := { sf_holder : option nat; sf_pcs : list (nat * pc) }.
Definition sf_init : sfst := {| sf_holder := None; sf_pcs := [] |}.

Fixpoint pc_of (c : nat) (l : list (nat * pc)) : option pc :=
  match l with [] => None | (c', p) :: t => if Nat.eqb c c' then Some p else pc_of c t end.
Definition pc_del (c : nat) (l : list (nat * pc)) : list (nat * pc) :=
  filter (fun x => negb (Nat.eqb c (fst x))) l.

Definition sf_step (s : sfst) (e : sfev) : option sfst :=
  match e with
  | SfTry c =>
      match pc_of c (sf_pcs s) with
      | Some _ => None                                    (* c is already inside Merge *)
      | None =>
          match sf_holder s with
          | None => Some {| sf_holder := Some c; sf_pcs := (c, PRun) :: sf_pcs s |}
          | Some _ => Some {| sf_holder := sf_holder s; sf_pcs := (c, PRefused) :: sf_pcs s |}
          end
      end
  | SfCall c =>
      match pc_of c (sf_pcs s) with
      | Some PRun => Some s
      | _ => None
      end
  | SfRet c inprog =>
      match pc_of c (sf_pcs s), inprog with
      | Some PRun, false => Some {| sf_holder := None; sf_pcs := pc_del c (sf_pcs s) |}   (* deferred Unlock *)
      | Some PRefused, true => Some {| sf_holder := sf_holder s; sf_pcs := pc_del c (sf_pcs s) |}
      | _, _ => None
      end
  end.

Fixpoint sf_replay (s : sfst) (l : list sfev) : option sfst :=
  match l with
  | [] => Some s
  | e :: t => match sf_step s e with Some s' => sf_replay s' t | None => None end
  end.
