(* Family P: the write pipeline as a labelled transition system.
   Mirrors engine.go (Start, Stop), ingest.go (IngestRows, Flush, ingestWorker,
   processIngestRequest, flushBufferedData, triggerFlush), flush.go (flushWorker,
   handleFlush, abortFileWriter) and chan_helpers.go.  Executable definitions only.

   One label = one atomic action of one goroutine (the verif hook events, the store
   calls seen by the store wrapper, the harness-observed return of Stop).  Blocking is
   a guard: [step c s l = None] means l cannot happen in s.  A Go [select] with several
   ready cases is several enabled labels.  Store outcomes are carried by the labels, so
   quantifying over label sequences quantifies over every fault oracle; the AfterFunc
   callback of Stop's context is the independent label [LFlushCancel].

   Restrictions (documented in props/C05..C10.json): one Stop call per engine; the
   library failures inside handleFlush that are not store calls (finalizeCompression,
   encodeFilterSection) and inside processIngestRequest (compression writer creation,
   in-memory buffer writes) are not modelled. *)
From Coq Require Export List ZArith Bool Arith.
Export ListNotations.
Open Scope Z_scope.

(* ---- static data ---- *)
Inductive res := RNil | RErr.                        (* value sent on a done channel / Stop's result *)
Inductive chcap :=                                   (* the caller's receive capability *)
| ChNil                                              (* nil done channel *)
| ChBuf                                              (* buffered channel (capacity >= 1, one value per batch) *)
| ChDrain                                            (* unbuffered, a goroutine keeps receiving *)
| ChAbandon.                                         (* unbuffered, nobody ever receives *)
Definition contrib := list (nat * (Z * Z)).          (* partition id -> rows, uncompressed bytes *)
Inductive kind := KForce | KBatch (valid : bool) (c : contrib).
Inductive fate := FAnswered (x : res) | FGivenUp (x : res) | FNilChan (x : res).
Inductive outcome := AOk | AGiveUp | ANil.           (* result of one delivery attempt *)
Inductive who := Actor | Worker.
Inductive skind := KCreate | KWrite | KClose | KAbort | KTomb | KUpdate.
Inductive phase := PhCreate | PhWrite | PhAbort | PhAbortClose | PhTomb | PhUpdate.
Inductive mode := MRun | MDrain | MFinal.

Record cfg := mkCfg {
  c_icap : Z;            (* IngestBufferSize *)
  c_fcap : Z;            (* capacity of flushChan *)
  c_max_rows : Z; c_max_bytes : Z;          (* MaxBufferedRows / MaxBufferedBytes *)
  c_part_rows : Z; c_part_bytes : Z;        (* MaxRowGroupRows / MaxRowGroupBytes *)
  c_timeless : bool;     (* MaxBufferedTime cannot elapse during the run *)
  c_has_abort : bool;    (* the DataStore's writer implements Abort *)
  c_fixD5 : bool;        (* Stop's deadline branch calls flushCancel *)
  c_fixD6 : bool;        (* Stop starts the workers of a never-started engine *)
  c_fixD9 : bool }.      (* Stop returns nil only if the AfterFunc never ran *)

Record freq := mkFreq { fw : list nat; fparts : nat }.      (* flushRequest: waiters, #partition buffers *)
Record buffer := mkBuf { b_w : list nat; b_rows : Z; b_bytes : Z; b_parts : list (nat * (Z * Z)) }.
Definition buf_empty : buffer := mkBuf [] 0 0 [].

Inductive stoppc := SNone | SBegun | SFlagged | SWait | SBr (x : res) | SReturned (x : res).
Inductive actorpc :=
| ANone | AIdle | AHold (r : nat)
| AAckNow (r : nat) (x : res)          (* sendOptionalWithContext of an empty / rejected batch *)
| AEnq (f : freq)                      (* blocked in triggerFlush's select *)
| AAbandon (l : list nat)              (* triggerFlush's abandon branch: error attempts *)
| AExited.
Inductive workerpc :=
| WNone | WIdle | WHold (f : freq)
| WStep (f : freq) (ph : phase)        (* about to issue the next store call of handleFlush *)
| WIn (f : freq) (ph : phase) (k : skind)   (* inside a store call *)
| WAck (x : res) (l : list nat)        (* sendToChannelsWithContext *)
| WExited.

Inductive label :=
(* IngestRows / Flush callers *)
| LTry (r : nat) (k : kind) (ch : chcap) | LRefuse | LSent (r : nat) | LCtxErr (r : nat)
(* Start / Stop *)
| LStart | LStartNoop
| LStopBegin | LStopFlag | LCtxCancel | LStopCtxDone | LFlushCancel
| LStopBr (x : res) | LStopReturn (x : res)
(* ingest actor *)
| LActorCtxDone | LActorTake (r : nat) | LActorForce | LActorAckNow | LActorReject
| LActorBuffer (flush : bool) | LTickFlush | LFqSent | LFqAbandon | LDrainEnd | LActorExit
(* flush worker *)
| LWorkerCtxDone | LWorkerTake | LWorkerIngestDone | LWorkerExit
| LFlAbandoned | LFlAckOnly | LFlBegin
| LSBegin (k : skind) | LSEnd (k : skind) (ok : bool)
(* one done-channel delivery attempt *)
| LAck (w : who) (o : outcome).

Record state := mkState {
  reqs : list (nat * (kind * chcap));
  pending : list nat;
  ich : list nat;
  accepted : list nat;
  started : bool;
  stopped : bool;
  ctxc : bool;
  fcanc : bool;
  armed : bool;
  sdone : bool;
  spc : stoppc;
  apc : actorpc;
  amode : mode;
  buf : buffer;
  fch : list freq;
  wpc : workerpc;
  wmode : mode;
  wclosed : bool;
  wlive : bool;
  finished : list (nat * fate);
  visible : list nat;
  commits : list (list nat * bool) }.

Definition set_reqs (v : list (nat * (kind * chcap))) (s : state) : state :=
  {| reqs := v; pending := pending s; ich := ich s; accepted := accepted s; started := started s; stopped := stopped s; ctxc := ctxc s; fcanc := fcanc s; armed := armed s; sdone := sdone s; spc := spc s; apc := apc s; amode := amode s; buf := buf s; fch := fch s; wpc := wpc s; wmode := wmode s; wclosed := wclosed s; wlive := wlive s; finished := finished s; visible := visible s; commits := commits s |}.
Definition set_pending (v : list nat) (s : state) : state :=
  {| reqs := reqs s; pending := v; ich := ich s; accepted := accepted s; started := started s; stopped := stopped s; ctxc := ctxc s; fcanc := fcanc s; armed := armed s; sdone := sdone s; spc := spc s; apc := apc s; amode := amode s; buf := buf s; fch := fch s; wpc := wpc s; wmode := wmode s; wclosed := wclosed s; wlive := wlive s; finished := finished s; visible := visible s; commits := commits s |}.
Definition set_ich (v : list nat) (s : state) : state :=
  {| reqs := reqs s; pending := pending s; ich := v; accepted := accepted s; started := started s; stopped := stopped s; ctxc := ctxc s; fcanc := fcanc s; armed := armed s; sdone := sdone s; spc := spc s; apc := apc s; amode := amode s; buf := buf s; fch := fch s; wpc := wpc s; wmode := wmode s; wclosed := wclosed s; wlive := wlive s; finished := finished s; visible := visible s; commits := commits s |}.
Definition set_accepted (v : list nat) (s : state) : state :=
  {| reqs := reqs s; pending := pending s; ich := ich s; accepted := v; started := started s; stopped := stopped s; ctxc := ctxc s; fcanc := fcanc s; armed := armed s; sdone := sdone s; spc := spc s; apc := apc s; amode := amode s; buf := buf s; fch := fch s; wpc := wpc s; wmode := wmode s; wclosed := wclosed s; wlive := wlive s; finished := finished s; visible := visible s; commits := commits s |}.
Definition set_started (v : bool) (s : state) : state :=
  {| reqs := reqs s; pending := pending s; ich := ich s; accepted := accepted s; started := v; stopped := stopped s; ctxc := ctxc s; fcanc := fcanc s; armed := armed s; sdone := sdone s; spc := spc s; apc := apc s; amode := amode s; buf := buf s; fch := fch s; wpc := wpc s; wmode := wmode s; wclosed := wclosed s; wlive := wlive s; finished := finished s; visible := visible s; commits := commits s |}.
Definition set_stopped (v : bool) (s : state) : state :=
  {| reqs := reqs s; pending := pending s; ich := ich s; accepted := accepted s; started := started s; stopped := v; ctxc := ctxc s; fcanc := fcanc s; armed := armed s; sdone := sdone s; spc := spc s; apc := apc s; amode := amode s; buf := buf s; fch := fch s; wpc := wpc s; wmode := wmode s; wclosed := wclosed s; wlive := wlive s; finished := finished s; visible := visible s; commits := commits s |}.
Definition set_ctxc (v : bool) (s : state) : state :=
  {| reqs := reqs s; pending := pending s; ich := ich s; accepted := accepted s; started := started s; stopped := stopped s; ctxc := v; fcanc := fcanc s; armed := armed s; sdone := sdone s; spc := spc s; apc := apc s; amode := amode s; buf := buf s; fch := fch s; wpc := wpc s; wmode := wmode s; wclosed := wclosed s; wlive := wlive s; finished := finished s; visible := visible s; commits := commits s |}.
Definition set_fcanc (v : bool) (s : state) : state :=
  {| reqs := reqs s; pending := pending s; ich := ich s; accepted := accepted s; started := started s; stopped := stopped s; ctxc := ctxc s; fcanc := v; armed := armed s; sdone := sdone s; spc := spc s; apc := apc s; amode := amode s; buf := buf s; fch := fch s; wpc := wpc s; wmode := wmode s; wclosed := wclosed s; wlive := wlive s; finished := finished s; visible := visible s; commits := commits s |}.
Definition set_armed (v : bool) (s : state) : state :=
  {| reqs := reqs s; pending := pending s; ich := ich s; accepted := accepted s; started := started s; stopped := stopped s; ctxc := ctxc s; fcanc := fcanc s; armed := v; sdone := sdone s; spc := spc s; apc := apc s; amode := amode s; buf := buf s; fch := fch s; wpc := wpc s; wmode := wmode s; wclosed := wclosed s; wlive := wlive s; finished := finished s; visible := visible s; commits := commits s |}.
Definition set_sdone (v : bool) (s : state) : state :=
  {| reqs := reqs s; pending := pending s; ich := ich s; accepted := accepted s; started := started s; stopped := stopped s; ctxc := ctxc s; fcanc := fcanc s; armed := armed s; sdone := v; spc := spc s; apc := apc s; amode := amode s; buf := buf s; fch := fch s; wpc := wpc s; wmode := wmode s; wclosed := wclosed s; wlive := wlive s; finished := finished s; visible := visible s; commits := commits s |}.
Definition set_spc (v : stoppc) (s : state) : state :=
  {| reqs := reqs s; pending := pending s; ich := ich s; accepted := accepted s; started := started s; stopped := stopped s; ctxc := ctxc s; fcanc := fcanc s; armed := armed s; sdone := sdone s; spc := v; apc := apc s; amode := amode s; buf := buf s; fch := fch s; wpc := wpc s; wmode := wmode s; wclosed := wclosed s; wlive := wlive s; finished := finished s; visible := visible s; commits := commits s |}.
Definition set_apc (v : actorpc) (s : state) : state :=
  {| reqs := reqs s; pending := pending s; ich := ich s; accepted := accepted s; started := started s; stopped := stopped s; ctxc := ctxc s; fcanc := fcanc s; armed := armed s; sdone := sdone s; spc := spc s; apc := v; amode := amode s; buf := buf s; fch := fch s; wpc := wpc s; wmode := wmode s; wclosed := wclosed s; wlive := wlive s; finished := finished s; visible := visible s; commits := commits s |}.
Definition set_amode (v : mode) (s : state) : state :=
  {| reqs := reqs s; pending := pending s; ich := ich s; accepted := accepted s; started := started s; stopped := stopped s; ctxc := ctxc s; fcanc := fcanc s; armed := armed s; sdone := sdone s; spc := spc s; apc := apc s; amode := v; buf := buf s; fch := fch s; wpc := wpc s; wmode := wmode s; wclosed := wclosed s; wlive := wlive s; finished := finished s; visible := visible s; commits := commits s |}.
Definition set_buf (v : buffer) (s : state) : state :=
  {| reqs := reqs s; pending := pending s; ich := ich s; accepted := accepted s; started := started s; stopped := stopped s; ctxc := ctxc s; fcanc := fcanc s; armed := armed s; sdone := sdone s; spc := spc s; apc := apc s; amode := amode s; buf := v; fch := fch s; wpc := wpc s; wmode := wmode s; wclosed := wclosed s; wlive := wlive s; finished := finished s; visible := visible s; commits := commits s |}.
Definition set_fch (v : list freq) (s : state) : state :=
  {| reqs := reqs s; pending := pending s; ich := ich s; accepted := accepted s; started := started s; stopped := stopped s; ctxc := ctxc s; fcanc := fcanc s; armed := armed s; sdone := sdone s; spc := spc s; apc := apc s; amode := amode s; buf := buf s; fch := v; wpc := wpc s; wmode := wmode s; wclosed := wclosed s; wlive := wlive s; finished := finished s; visible := visible s; commits := commits s |}.
Definition set_wpc (v : workerpc) (s : state) : state :=
  {| reqs := reqs s; pending := pending s; ich := ich s; accepted := accepted s; started := started s; stopped := stopped s; ctxc := ctxc s; fcanc := fcanc s; armed := armed s; sdone := sdone s; spc := spc s; apc := apc s; amode := amode s; buf := buf s; fch := fch s; wpc := v; wmode := wmode s; wclosed := wclosed s; wlive := wlive s; finished := finished s; visible := visible s; commits := commits s |}.
Definition set_wmode (v : mode) (s : state) : state :=
  {| reqs := reqs s; pending := pending s; ich := ich s; accepted := accepted s; started := started s; stopped := stopped s; ctxc := ctxc s; fcanc := fcanc s; armed := armed s; sdone := sdone s; spc := spc s; apc := apc s; amode := amode s; buf := buf s; fch := fch s; wpc := wpc s; wmode := v; wclosed := wclosed s; wlive := wlive s; finished := finished s; visible := visible s; commits := commits s |}.
Definition set_wclosed (v : bool) (s : state) : state :=
  {| reqs := reqs s; pending := pending s; ich := ich s; accepted := accepted s; started := started s; stopped := stopped s; ctxc := ctxc s; fcanc := fcanc s; armed := armed s; sdone := sdone s; spc := spc s; apc := apc s; amode := amode s; buf := buf s; fch := fch s; wpc := wpc s; wmode := wmode s; wclosed := v; wlive := wlive s; finished := finished s; visible := visible s; commits := commits s |}.
Definition set_wlive (v : bool) (s : state) : state :=
  {| reqs := reqs s; pending := pending s; ich := ich s; accepted := accepted s; started := started s; stopped := stopped s; ctxc := ctxc s; fcanc := fcanc s; armed := armed s; sdone := sdone s; spc := spc s; apc := apc s; amode := amode s; buf := buf s; fch := fch s; wpc := wpc s; wmode := wmode s; wclosed := wclosed s; wlive := v; finished := finished s; visible := visible s; commits := commits s |}.
Definition set_finished (v : list (nat * fate)) (s : state) : state :=
  {| reqs := reqs s; pending := pending s; ich := ich s; accepted := accepted s; started := started s; stopped := stopped s; ctxc := ctxc s; fcanc := fcanc s; armed := armed s; sdone := sdone s; spc := spc s; apc := apc s; amode := amode s; buf := buf s; fch := fch s; wpc := wpc s; wmode := wmode s; wclosed := wclosed s; wlive := wlive s; finished := v; visible := visible s; commits := commits s |}.
Definition set_visible (v : list nat) (s : state) : state :=
  {| reqs := reqs s; pending := pending s; ich := ich s; accepted := accepted s; started := started s; stopped := stopped s; ctxc := ctxc s; fcanc := fcanc s; armed := armed s; sdone := sdone s; spc := spc s; apc := apc s; amode := amode s; buf := buf s; fch := fch s; wpc := wpc s; wmode := wmode s; wclosed := wclosed s; wlive := wlive s; finished := finished s; visible := v; commits := commits s |}.
Definition set_commits (v : list (list nat * bool)) (s : state) : state :=
  {| reqs := reqs s; pending := pending s; ich := ich s; accepted := accepted s; started := started s; stopped := stopped s; ctxc := ctxc s; fcanc := fcanc s; armed := armed s; sdone := sdone s; spc := spc s; apc := apc s; amode := amode s; buf := buf s; fch := fch s; wpc := wpc s; wmode := wmode s; wclosed := wclosed s; wlive := wlive s; finished := finished s; visible := visible s; commits := v |}.

Definition init : state :=
  {| reqs := []; pending := []; ich := []; accepted := [];
     started := false; stopped := false; ctxc := false; fcanc := false; armed := false; sdone := false;
     spc := SNone; apc := ANone; amode := MRun; buf := buf_empty; fch := [];
     wpc := WNone; wmode := MRun; wclosed := false; wlive := false;
     finished := []; visible := []; commits := [] |}.

(* ---- small helpers ---- *)
Fixpoint assoc {A} (r : nat) (l : list (nat * A)) : option A :=
  match l with
  | [] => None
  | (q, a) :: t => if Nat.eqb r q then Some a else assoc r t
  end.
Fixpoint mem (r : nat) (l : list nat) : bool :=
  match l with [] => false | q :: t => Nat.eqb r q || mem r t end.
Fixpoint remove1 (r : nat) (l : list nat) : list nat :=
  match l with [] => [] | q :: t => if Nat.eqb r q then t else q :: remove1 r t end.
Definition skind_eqb (a b : skind) : bool :=
  match a, b with
  | KCreate, KCreate | KWrite, KWrite | KClose, KClose | KAbort, KAbort | KTomb, KTomb | KUpdate, KUpdate => true
  | _, _ => false
  end.
Definition len {A} (l : list A) : Z := Z.of_nat (length l).

Definition lookup (s : state) (r : nat) : option (kind * chcap) := assoc r (reqs s).
Definition kind_of (s : state) (r : nat) : option kind := option_map fst (lookup s r).
Definition chan_of (s : state) (r : nat) : option chcap := option_map snd (lookup s r).

Definition is_rows_kind (k : kind) : bool :=
  match k with KBatch true (_ :: _) => true | _ => false end.
Definition is_rows (s : state) (r : nat) : bool :=
  match kind_of s r with Some k => is_rows_kind k | None => false end.

(* well-formed batch description: every partition contributes at least one row *)
Definition contrib_wf (c : contrib) : bool :=
  forallb (fun '(_, (n, b)) => (1 <=? n) && (0 <=? b)) c.
Definition kind_wf (k : kind) : bool :=
  match k with KForce => true | KBatch _ c => contrib_wf c end.

(* ---- processIngestRequest's buffer arithmetic ---- *)
Fixpoint add_part (p : nat) (n b : Z) (parts : list (nat * (Z * Z))) : list (nat * (Z * Z)) :=
  match parts with
  | [] => [(p, (n, b))]
  | (q, (qn, qb)) :: t => if Nat.eqb p q then (q, (qn + n, qb + b)) :: t else (q, (qn, qb)) :: add_part p n b t
  end.
Fixpoint add_contrib (c : contrib) (parts : list (nat * (Z * Z))) : list (nat * (Z * Z)) :=
  match c with
  | [] => parts
  | (p, (n, b)) :: t => add_contrib t (add_part p n b parts)
  end.
Fixpoint sum_rows (c : contrib) : Z := match c with [] => 0 | (_, (n, _)) :: t => n + sum_rows t end.
Fixpoint sum_bytes (c : contrib) : Z := match c with [] => 0 | (_, (_, b)) :: t => b + sum_bytes t end.

Definition buf_add (r : nat) (c : contrib) (b : buffer) : buffer :=
  {| b_w := b_w b ++ [r]; b_rows := b_rows b + sum_rows c; b_bytes := b_bytes b + sum_bytes c;
     b_parts := add_contrib c (b_parts b) |}.

Definition part_over (c : cfg) (parts : list (nat * (Z * Z))) (p : nat) : bool :=
  match assoc p parts with
  | Some (n, b) => (c_part_rows c <=? n) || (c_part_bytes c <=? b)
  | None => false
  end.
(* the limit part of shouldFlush, evaluated on the buffer after the batch was added: the
   partitions of this batch against the row-group limits, then the buffer totals *)
Definition limit_flush (c : cfg) (b' : buffer) (ct : contrib) : bool :=
  existsb (fun '(p, _) => part_over c (b_parts b') p) ct
  || (c_max_rows c <=? b_rows b') || (c_max_bytes c <=? b_bytes b').

Definition below_limits (c : cfg) (b : buffer) : Prop :=
  b_rows b < c_max_rows c /\ b_bytes b < c_max_bytes c /\
  forall p n y, assoc p (b_parts b) = Some (n, y) -> n < c_part_rows c /\ y < c_part_bytes c.

Definition mk_freq (b : buffer) : freq := mkFreq (b_w b) (length (b_parts b)).
Definition buf_nonempty (b : buffer) : bool :=
  match b_w b, b_parts b with [], [] => false | _, _ => true end.

(* ---- handleFlush as a program over store calls ---- *)
Definition allowed (ph : phase) (k : skind) : bool :=
  match ph, k with
  | PhCreate, KCreate | PhWrite, KWrite | PhWrite, KClose | PhAbort, KAbort
  | PhAbortClose, KClose | PhTomb, KTomb | PhUpdate, KUpdate => true
  | _, _ => false
  end.
Inductive wnext := NPhase (ph : phase) | NFail | NCommit.
Definition next_phase (c : cfg) (ph : phase) (k : skind) (ok : bool) : wnext :=
  match ph, k with
  | PhCreate, _ => if ok then NPhase PhWrite else NFail
  | PhWrite, KWrite => if ok then NPhase PhWrite else NPhase (if c_has_abort c then PhAbort else PhAbortClose)
  | PhWrite, _ => if ok then NPhase PhUpdate else NPhase (if c_has_abort c then PhAbort else PhTomb)
  | PhAbort, _ => NPhase PhTomb
  | PhAbortClose, _ => NPhase PhTomb
  | PhTomb, _ => NFail
  | PhUpdate, _ => if ok then NCommit else NPhase PhTomb
  end.

Definition close_ok (ph : phase) (k : skind) (ok : bool) : bool :=
  match ph, k, ok with PhWrite, KClose, true => true | _, _, _ => false end.

Definition mk_wack (x : res) (l : list nat) : workerpc := match l with [] => WIdle | _ => WAck x l end.
Definition mk_aab (l : list nat) : actorpc := match l with [] => AIdle | _ => AAbandon l end.

(* one delivery attempt (sendOptionalWithContext / sendWithContext): nil channel: nothing;
   a channel that can receive gets the value; otherwise the sender blocks until the flush
   context is cancelled and then gives up.  A buffered channel is never given up: the
   non-blocking attempt of sendWithContext runs first. *)
Definition ack_fate (s : state) (r : nat) (x : res) (o : outcome) : option fate :=
  match chan_of s r, o with
  | Some ChNil, ANil => Some (FNilChan x)
  | Some ChBuf, AOk | Some ChDrain, AOk => Some (FAnswered x)
  | Some ChDrain, AGiveUp | Some ChAbandon, AGiveUp => if fcanc s then Some (FGivenUp x) else None
  | _, _ => None
  end.
Definition add_finished (r : nat) (f : fate) (s : state) : state := set_finished (finished s ++ [(r, f)]) s.

Definition start_workers (s : state) : state := set_started true (set_apc AIdle (set_wpc WIdle s)).

Definition start_flush (s : state) : state := set_apc (AEnq (mk_freq (buf s))) (set_buf buf_empty s).

(* ---- the transition function ---- *)
Definition step (c : cfg) (s : state) (l : label) : option state :=
  match l with
  (* IngestRows / Flush: under the read lock, after the stopped test *)
  | LTry r k ch =>
      if negb (stopped s) && kind_wf k && negb (mem r (map fst (reqs s)))
      then Some (set_pending (pending s ++ [r]) (set_reqs (reqs s ++ [(r, (k, ch))]) s)) else None
  | LRefuse => if stopped s then Some s else None
  | LSent r =>
      if mem r (pending s) && (len (ich s) <? c_icap c)
      then Some (set_pending (remove1 r (pending s)) (set_ich (ich s ++ [r]) (set_accepted (accepted s ++ [r]) s)))
      else None
  | LCtxErr r => if mem r (pending s) then Some (set_pending (remove1 r (pending s)) s) else None
  (* Start *)
  | LStart => if negb (started s) && negb (stopped s) then Some (start_workers s) else None
  | LStartNoop => if started s || stopped s then Some s else None
  (* Stop: AfterFunc armed at entry; flag under the write lock (no reader inside); cancel; select *)
  | LStopBegin => match spc s with SNone => Some (set_spc SBegun (set_armed true s)) | _ => None end
  | LStopFlag =>
      match spc s, pending s with
      | SBegun, [] =>
          let s1 := set_spc SFlagged (set_stopped true s) in
          Some (if c_fixD6 c && negb (started s) then start_workers s1 else s1)
      | _, _ => None
      end
  | LCtxCancel => match spc s with SFlagged => Some (set_spc SWait (set_ctxc true s)) | _ => None end
  | LStopCtxDone => Some (set_sdone true s)
  | LFlushCancel =>
      if (armed s && sdone s) || (c_fixD5 c && match spc s with SBr RErr => true | _ => false end)
      then Some (set_fcanc true s) else None
  | LStopBr RNil =>
      match spc s, apc s, wpc s with
      | SWait, AExited, WExited | SWait, ANone, WNone => Some (set_spc (SBr RNil) s)
      | _, _, _ => None
      end
  | LStopBr RErr => match spc s with SWait => if sdone s then Some (set_spc (SBr RErr) s) else None | _ => None end
  | LStopReturn RNil =>
      match spc s with
      | SBr RNil => if c_fixD9 c && fcanc s then None else Some (set_spc (SReturned RNil) (set_armed false s))
      | _ => None
      end
  | LStopReturn RErr =>
      match spc s with
      | SBr RErr => if c_fixD5 c && negb (fcanc s) then None else Some (set_spc (SReturned RErr) s)
      | SBr RNil => if c_fixD9 c && sdone s then Some (set_spc (SReturned RErr) s) else None
      | _ => None
      end
  (* ingest actor *)
  | LActorCtxDone =>
      match apc s, amode s with AIdle, MRun => if ctxc s then Some (set_amode MDrain s) else None | _, _ => None end
  | LActorTake r =>
      match apc s, amode s, ich s with
      | AIdle, MRun, q :: t | AIdle, MDrain, q :: t => if Nat.eqb r q then Some (set_apc (AHold r) (set_ich t s)) else None
      | _, _, _ => None
      end
  | LActorForce =>
      match apc s with
      | AHold r => match kind_of s r with
                   | Some KForce => Some (start_flush (set_buf (mkBuf (b_w (buf s) ++ [r]) (b_rows (buf s)) (b_bytes (buf s)) (b_parts (buf s))) s))
                   | _ => None end
      | _ => None
      end
  | LActorAckNow =>
      match apc s with
      | AHold r => match kind_of s r with Some (KBatch _ []) => Some (set_apc (AAckNow r RNil) s) | _ => None end
      | _ => None
      end
  | LActorReject =>
      match apc s with
      | AHold r => match kind_of s r with Some (KBatch false (_ :: _)) => Some (set_apc (AAckNow r RErr) s) | _ => None end
      | _ => None
      end
  | LActorBuffer fl =>
      match apc s with
      | AHold r =>
          match kind_of s r with
          | Some (KBatch true ((p :: t) as ct)) =>
              let b' := buf_add r ct (buf s) in
              let lim := limit_flush c b' ct in
              (* flush iff a limit was reached or (only when time can elapse) the time check fired *)
              if Bool.eqb fl (lim || (fl && negb (c_timeless c)))
              then Some (if fl then start_flush (set_buf b' s) else set_apc AIdle (set_buf b' s))
              else None
          | _ => None
          end
      | _ => None
      end
  | LTickFlush =>
      match apc s, amode s with
      | AIdle, MRun => if (0 <? b_rows (buf s)) && negb (c_timeless c) then Some (start_flush s) else None
      | _, _ => None
      end
  | LFqSent =>
      match apc s with
      | AEnq f => if len (fch s) <? c_fcap c then Some (set_apc AIdle (set_fch (fch s ++ [f]) s)) else None
      | _ => None
      end
  | LFqAbandon =>
      match apc s with AEnq f => if fcanc s then Some (set_apc (mk_aab (fw f)) s) else None | _ => None end
  | LDrainEnd =>
      match apc s, amode s, ich s with
      | AIdle, MDrain, [] => if buf_nonempty (buf s) then Some (set_amode MFinal (start_flush s)) else Some (set_amode MFinal s)
      | _, _, _ => None
      end
  | LActorExit => match apc s, amode s with AIdle, MFinal => Some (set_apc AExited s) | _, _ => None end
  (* flush worker *)
  | LWorkerCtxDone =>
      match wpc s, wmode s with WIdle, MRun => if ctxc s then Some (set_wmode MDrain s) else None | _, _ => None end
  (* wlive: the flush context was live when the request was taken; a request taken after the
     cancellation is necessarily abandoned by handleFlush's ctx.Err() test *)
  | LWorkerTake =>
      match wpc s, fch s with
      | WIdle, f :: t => Some (set_wpc (WHold f) (set_fch t (set_wclosed false (set_wlive (negb (fcanc s)) s))))
      | _, _ => None
      end
  | LWorkerIngestDone =>
      match wpc s, wmode s, apc s with WIdle, MDrain, AExited => Some (set_wmode MFinal s) | _, _, _ => None end
  | LWorkerExit =>
      match wpc s, wmode s, fch s with WIdle, MFinal, [] => Some (set_wpc WExited s) | _, _, _ => None end
  | LFlAbandoned =>
      match wpc s with WHold f => if fcanc s then Some (set_wpc (mk_wack RErr (fw f)) s) else None | _ => None end
  | LFlAckOnly =>
      match wpc s with
      | WHold f => match fparts f with O => if wlive s then Some (set_wpc (mk_wack RNil (fw f)) s) else None | _ => None end
      | _ => None
      end
  | LFlBegin =>
      match wpc s with
      | WHold f => match fparts f with O => None | _ => if wlive s then Some (set_wpc (WStep f PhCreate) s) else None end
      | _ => None
      end
  | LSBegin k =>
      match wpc s with WStep f ph => if allowed ph k then Some (set_wpc (WIn f ph k) s) else None | _ => None end
  | LSEnd k ok =>
      match wpc s with
      | WIn f ph k' =>
          if skind_eqb k k' then
            match next_phase c ph k ok with
            | NPhase ph' =>
                Some (set_wpc (WStep f ph') (set_wclosed (close_ok ph k ok || wclosed s) s))
            | NFail => Some (set_wpc (mk_wack RErr (fw f)) s)
            | NCommit =>
                Some (set_wpc (mk_wack RNil (fw f))
                       (set_visible (visible s ++ filter (is_rows s) (fw f))
                         (set_commits (commits s ++ [(fw f, wclosed s)]) s)))
            end
          else None
      | _ => None
      end
  (* delivery attempts *)
  | LAck Actor o =>
      match apc s with
      | AAckNow r x => match ack_fate s r x o with Some f => Some (set_apc AIdle (add_finished r f s)) | None => None end
      | AAbandon (r :: t) => match ack_fate s r RErr o with Some f => Some (set_apc (mk_aab t) (add_finished r f s)) | None => None end
      | _ => None
      end
  | LAck Worker o =>
      match wpc s with
      | WAck x (r :: t) => match ack_fate s r x o with Some f => Some (set_wpc (mk_wack x t) (add_finished r f s)) | None => None end
      | _ => None
      end
  end.

Inductive reachable (c : cfg) : state -> Prop :=
| reach_init : reachable c init
| reach_step : forall s l s', reachable c s -> step c s l = Some s' -> reachable c s'.

Inductive steps (c : cfg) : state -> list label -> state -> Prop :=
| steps_nil : forall s, steps c s [] s
| steps_cons : forall s l s1 ls s2, step c s l = Some s1 -> steps c s1 ls s2 -> steps c s (l :: ls) s2.

Fixpoint run (c : cfg) (s : state) (ls : list label) : option state :=
  match ls with
  | [] => Some s
  | l :: t => match step c s l with Some s1 => run c s1 t | None => None end
  end.

(* ---- observables ---- *)
(* the in-flight requests, oldest first: worker's hand, flush queue, the request the actor is
   enqueueing / abandoning, the actor's buffer, the request in the actor's hand, the ingest queue *)
Definition wk_of (w : workerpc) : list nat :=
  match w with
  | WHold f | WStep f _ | WIn f _ _ => fw f
  | WAck _ l => l
  | _ => []
  end.
Definition pre_of (a : actorpc) : list nat :=
  match a with AEnq f => fw f | AAbandon l => l | _ => [] end.
Definition post_of (a : actorpc) : list nat :=
  match a with AHold r | AAckNow r _ => [r] | _ => [] end.
Definition wk_part (s : state) : list nat := wk_of (wpc s).
Definition a_pre (s : state) : list nat := pre_of (apc s).
Definition a_post (s : state) : list nat := post_of (apc s).
Definition pipeline (s : state) : list nat :=
  wk_part s ++ concat (map fw (fch s)) ++ a_pre s ++ b_w (buf s) ++ a_post s ++ ich s.
Definition unanswered (s : state) : Z := len (pipeline s).

Definition fate_eqb (a b : fate) : bool :=
  match a, b with
  | FAnswered RNil, FAnswered RNil | FAnswered RErr, FAnswered RErr
  | FGivenUp RNil, FGivenUp RNil | FGivenUp RErr, FGivenUp RErr
  | FNilChan RNil, FNilChan RNil | FNilChan RErr, FNilChan RErr => true
  | _, _ => false
  end.
Definition is_answer (f : fate) : bool := match f with FAnswered _ => true | _ => false end.
(* number of values the request's done channel has received *)
Definition answers (s : state) (r : nat) : nat :=
  length (filter (fun '(q, f) => Nat.eqb q r && is_answer f) (finished s)).
Definition ack (s : state) (r : nat) : option res :=
  match assoc r (finished s) with Some (FAnswered x) => Some x | _ => None end.
Definition stop_returned (s : state) : option res := match spc s with SReturned x => Some x | _ => None end.
Definition bound (c : cfg) : Z := c_icap c + 1 + (c_fcap c + 2) * c_max_rows c.
Definition cfg_wf (c : cfg) : Prop := 0 < c_icap c /\ 0 < c_fcap c /\ 0 < c_max_rows c /\ 0 < c_max_bytes c.

(* the code as it is now (all fixes in), and the pinned tree *)
Definition fixed (c : cfg) : Prop := c_fixD5 c = true /\ c_fixD6 c = true /\ c_fixD9 c = true.
