(* Family T — footer layout, ReadFileMetadata as a read plan, WriteFileFooter, and the
   file assembly of flush (flush.go: handleFlush) and merge (merge.go: executeMergeGroup,
   mergeDataBlocks, copyDataBlock).  JSON encoding/decoding of the metadata payload, the
   compressors, the bloom filter builder and the row walker are library / other-family
   code and enter as section variables.  Executable definitions only. *)
From BS Require Import Lib.Bytes Lib.Wrap64 Model.Framing Model.Validate Model.FilterRegion.
From Coq Require Import List ZArith NArith Bool.
Import ListNotations.
Open Scope Z_scope.

Definition magic : str := lit "BLOMSRCH".
Definition FileVersion : Z := 3.
Definition FooterTail : Z := 20.           (* HashSize + LengthPrefixSize + VersionPrefixSize + len(MagicBytes) *)

(* distinct entry counting, as bloomEntrySets does with its three maps *)
Fixpoint dedup (seen : list str) (l : list str) : list str :=
  match l with
  | [] => []
  | x :: t => if mem_str x seen then dedup seen t else x :: dedup (x :: seen) t
  end.
Definition distinct_count (l : list str) : Z := Z.of_nat (length (dedup [] l)).

Definition entry3 := (list str * list str * list str)%type.
Definition counts_from (es : list entry3) : Z * Z * Z :=
  (distinct_count (flat_map (fun e => fst (fst e)) es),
   distinct_count (flat_map (fun e => snd (fst e)) es),
   distinct_count (flat_map (fun e => snd e) es)).

Definition cnt_eqb (a b : Z * Z * Z) : bool :=
  let '(a1, a2, a3) := a in let '(b1, b2, b3) := b in (a1 =? b1) && (a2 =? b2) && (a3 =? b3).

Section Footer.
  Variable crc : str -> N.
  Variable dec_ok : str -> bool.
  Variable decompress : comp -> str -> option str.
  Variable jdec : str -> option metaJ.          (* json.Unmarshal into fileMetadataJSON *)

  (* ReadFileMetadata: the (offset, length) of every readFullAt it issues, in order, and
     the outcome: None = error, Some (metadata, file size, file-level filters) *)
  Definition read_metadata (file : str) : list (Z * Z) * option (metaJ * Z * filters) :=
    let fsz := lenZ file in
    if fsz <? FooterTail then ([], None)
    else
      let r1 := (fsz - FooterTail, FooterTail) in
      let footer := slice file (fsz - FooterTail) FooterTail in
      if negb (str_eqb (skipn 12 footer) magic) then ([r1], None)
      else
        let version := rd32 (skipn 8 footer) in
        let mlen := rd32 (skipn 4 footer) in
        let hash := rd32 footer in
        let moff := fsz - FooterTail - mlen in
        if moff <? 0 then ([r1], None)
        else
          let r2 := (moff, mlen) in
          let mbytes := slice file moff mlen in
          if negb (version =? FileVersion) then ([r1; r2], None)
          else if negb (Z.of_N (crc mbytes) =? hash) then ([r1; r2], None)
          else
            match jdec mbytes with
            | None => ([r1; r2], None)
            | Some m =>
                if (m_ffs m <? 0) || (m_ffs m >? moff) then ([r1; r2], None)
                else if negb (validate m (sub64 moff (m_ffs m))) then ([r1; r2], None)
                else if m_ffs m >? 0 then
                  let r3 := (sub64 moff (m_ffs m), m_ffs m) in
                  match parse_section crc dec_ok (slice file (sub64 moff (m_ffs m)) (m_ffs m)) with
                  | None => ([r1; r2; r3], None)
                  | Some ff => ([r1; r2; r3], Some (m, fsz, ff))
                  end
                else ([r1; r2], Some (m, fsz, (None, None, None)))
            end.

  (* ---- writer side ---- *)
  Variable jenc : metaJ -> str.                    (* json.Marshal(fileMetadataJSON{...}) *)
  Variable compress : comp -> str -> str.
  Variable filters_of : list str -> filters.       (* bloomEntrySets.buildFilters over these rows *)
  Variable entries : str -> entry3.                (* the walker's fields / tokens / field-tokens of one row *)

  Definition counts_of (rows : list str) : Z * Z * Z := counts_from (map entries rows).
  Definition section_of (rows : list str) : str :=
    match encode_section crc (filters_of rows) with Some s => s | None => [] end.

  (* WriteFileFooter *)
  Definition footer_bytes (fsec : str) (m : metaJ) : str :=
    let mb := jenc m in
    fsec ++ mb ++ le32 (Z.of_N (crc mb)) ++ le32 (lenZ mb) ++ le32 FileVersion ++ magic.

  (* what one output block contributes *)
  Record bdesc := {
    d_c : str; d_sec : str; d_rds : Z;
    d_rows : Z; d_usize : Z; d_comp : comp; d_hash : N; d_has_hash : bool; d_cnt : Z * Z * Z
  }.

  Record wstate := { ws_off : Z; ws_data : str; ws_region : str; ws_blocks : list blockJ }.
  Definition ws_init : wstate := {| ws_off := 0; ws_data := []; ws_region := []; ws_blocks := [] |}.

  (* write the row data, buffer the section (blockFilterRegionWriter.add), record the block *)
  Definition emit (st : wstate) (d : bdesc) : wstate :=
    let '(rel, sz, region') := region_add (ws_region st) (d_sec d) in
    {| ws_off := ws_off st + d_rds d;
       ws_data := ws_data st ++ d_c d;
       ws_region := region';
       ws_blocks := ws_blocks st ++
         [ {| rdo := ws_off st; rds := d_rds d; bfo := rel; bfs := sz;
              b_rows := d_rows d; b_usize := d_usize d; b_comp := d_comp d;
              b_hash := d_hash d; b_has_hash := d_has_hash d; b_cnt := d_cnt d |} ] |}.

  (* a block built from rows: a flushed partition buffer, or mergeDataBlocks' output *)
  Definition built_desc (cfg : comp) (rows : list str) : bdesc :=
    let c := compress cfg (frame rows) in
    {| d_c := c; d_sec := section_of rows; d_rds := lenZ c;
       d_rows := acc_rows rows; d_usize := acc_usize rows; d_comp := cfg;
       d_hash := crc c; d_has_hash := true; d_cnt := counts_of rows |}.

  (* copyDataBlock: bytes verbatim, metadata kept except the location *)
  Definition copied_desc (src : blockJ) (c sec : str) : bdesc :=
    {| d_c := c; d_sec := sec; d_rds := rds src;
       d_rows := b_rows src; d_usize := b_usize src; d_comp := b_comp src;
       d_hash := b_hash src; d_has_hash := b_has_hash src; d_cnt := b_cnt src |}.

  Inductive waction :=
  | WBuild (rows : list str)
  | WCopy (src : blockJ) (c sec : str) (rows : list str).   (* rows: what the copy re-streams for the file-level entries *)

  Definition desc_of (cfg : comp) (a : waction) : bdesc :=
    match a with WBuild rows => built_desc cfg rows | WCopy s c sec _ => copied_desc s c sec end.
  Definition rows_of_action (a : waction) : list str :=
    match a with WBuild rows => rows | WCopy _ _ _ rows => rows end.

  Definition final_meta (st : wstate) (fsec : str) (fcnt : Z * Z * Z) : metaJ :=
    {| m_roff := ws_off st; m_rsize := lenZ (ws_region st); m_ffs := lenZ fsec; m_cnt := fcnt;
       m_blocks := region_finish (ws_off st) (ws_blocks st) |}.

  (* the whole file: row data, block filter region, footer *)
  Definition write_file (cfg : comp) (acts : list waction) : str * metaJ :=
    let st := fold_left (fun st a => emit st (desc_of cfg a)) acts ws_init in
    let all := flat_map rows_of_action acts in
    let fsec := section_of all in
    let m := final_meta st fsec (counts_of all) in
    (ws_data st ++ ws_region st ++ footer_bytes fsec m, m).

  (* ---- what "the metadata matches the bytes" means, executable ---- *)
  (* extents laid out back to back from start: the end, or None *)
  Fixpoint contiguous (start : Z) (exts : list (Z * Z)) : option Z :=
    match exts with
    | [] => Some start
    | (o, n) :: t => if (o =? start) && (0 <=? n) then contiguous (start + n) t else None
    end.

  Definition layout_ok (fsize jlen : Z) (m : metaJ) : bool :=
    match contiguous 0 (map (fun b => (rdo b, rds b)) (m_blocks m)) with
    | None => false
    | Some e1 =>
        (e1 =? m_roff m) &&
        match contiguous (m_roff m) (map (fun b => (bfo b, bfs b)) (m_blocks m)) with
        | None => false
        | Some e2 => (e2 =? m_roff m + m_rsize m) && (e2 + m_ffs m + jlen + FooterTail =? fsize)
        end
    end.

  (* block b of file holds exactly rows, with filters fs and distinct entry counts cnt *)
  Definition describes (file : str) (b : blockJ) (rows : list str) (fs : filters) (cnt : Z * Z * Z) : bool :=
    match read_at file (rdo b) (rds b) with
    | None => false
    | Some c =>
        (negb (b_has_hash b) || (crc c =? b_hash b)%N) &&
        match decode_block crc decompress b c with
        | None => false
        | Some d =>
            str_eqb d (frame rows) && (b_rows b =? Z.of_nat (length rows)) && (b_usize b =? lenZ d)
        end &&
        cnt_eqb (b_cnt b) cnt &&
        match read_filters crc dec_ok file b, encode_section crc fs with
        | Some fs', Some s => str_eqb (section_payload fs') (section_payload fs) && (bfs b =? lenZ s)
        | _, _ => false
        end
    end.
End Footer.
