(* Family R: bloom / regex expression trees (query.go), their documented row-level
   semantics (tokenizer.go:matchesBloomExpression / matchesRegexExpression), filter-level
   pruning (query_exec.go:evaluateBloomExpression), the regex field guard
   (query.go:regexExpressionToBloomFieldExpression) and AndBloomQueries. Executable only. *)
From BS Require Export Lib.Bytes Model.Json.
Open Scope N_scope.

Inductive bcond :=
| CField (f : str)
| CToken (t : str)
| CFieldToken (f t : str)
| CUnk.                                  (* unknown BloomConditionType *)

Inductive bexpr :=
| BCond (c : option bcond)               (* ExpressionType CONDITION, Condition possibly nil *)
| BAnd (cs : list bexpr)
| BOr (cs : list bexpr)
| BUnk.                                  (* unknown ExpressionType *)

Inductive rexpr :=
| RCond (c : option (str * str))         (* field, pattern *)
| RAnd (cs : list rexpr)
| ROr (cs : list rexpr)
| RUnk.

Section Sem.
  Variable tok : str -> list str.        (* tokenizer *)
  Variable re : str -> str -> bool.      (* re pattern text: regexp.MatchString *)

  (* ---- documented row-level semantics over the emission list of a row ---- *)
  Definition sat_bcond (es : list em) (c : bcond) : bool :=
    match c with
    | CField f => existsb (fun e => str_eqb (fst e) f) es
    | CToken t => existsb (fun pt => mem_str t (tok (snd pt))) (text_leaves es)
    | CFieldToken f t => existsb (fun pt => str_eqb (fst pt) f && mem_str t (tok (snd pt))) (text_leaves es)
    | CUnk => false
    end.

  Fixpoint sat_bexpr (es : list em) (e : bexpr) : bool :=
    match e with
    | BCond None => true
    | BCond (Some c) => sat_bcond es c
    | BAnd cs => forallb (sat_bexpr es) cs
    | BOr cs => existsb (sat_bexpr es) cs
    | BUnk => false
    end.

  (* at or beneath: path = f or path starts with f ++ "." ; an empty field matches nothing *)
  Definition at_or_beneath (f path : str) : bool :=
    str_eqb path f || is_prefix (f ++ [dot]) path.

  Definition sat_rcond (es : list em) (f p : str) : bool :=
    nonempty f && existsb (fun pt => at_or_beneath f (fst pt) && re p (snd pt)) (text_leaves es).

  Fixpoint sat_rexpr (es : list em) (e : rexpr) : bool :=
    match e with
    | RCond None => true
    | RCond (Some (f, p)) => sat_rcond es f p
    | RAnd cs => forallb (sat_rexpr es) cs
    | ROr cs => existsb (sat_rexpr es) cs
    | RUnk => false
    end.

  Definition sat_bq (es : list em) (q : option bexpr) : bool :=
    match q with None => true | Some e => sat_bexpr es e end.
  Definition sat_rq (es : list em) (q : option rexpr) : bool :=
    match q with None => true | Some e => sat_rexpr es e end.

  (* a row matches a query's bloom and regex parts *)
  Definition row_sat (qb : option bexpr) (qr : option rexpr) (row : json) : bool :=
    let es := walk_row row in sat_bq es qb && sat_rq es qr.
End Sem.

(* ---- filter-level pruning: three possibly absent membership tests ---- *)
Record filters := {
  f_field : option (str -> bool);
  f_token : option (str -> bool);
  f_ft : option (str -> bool)
}.

Definition test_opt (t : option (str -> bool)) (x : str) : bool :=
  match t with None => true | Some f => f x end.

(* evaluateBloomCondition *)
Definition prune_cond (F : filters) (c : bcond) : bool :=
  match c with
  | CField f => test_opt (f_field F) f
  | CToken t => test_opt (f_token F) t
  | CFieldToken f t => test_opt (f_ft F) (ft_key f t)
  | CUnk => false
  end.

(* evaluateBloomExpression *)
Fixpoint prune_eval (F : filters) (e : bexpr) : bool :=
  match e with
  | BCond None => true
  | BCond (Some c) => prune_cond F c
  | BAnd cs => forallb (prune_eval F) cs
  | BOr cs => existsb (prune_eval F) cs
  | BUnk => false
  end.

(* evaluateBloomFilters: nil query / nil expression cannot disqualify *)
Definition prune_q (F : filters) (q : option bexpr) : bool :=
  match q with None => true | Some e => prune_eval F e end.

(* ---- flattening constructors: And(...), Or(...) ---- *)
Definition flatten_and (es : list bexpr) : list bexpr :=
  flat_map (fun e => match e with BAnd cs => cs | _ => [e] end) es.
Definition flatten_or (es : list bexpr) : list bexpr :=
  flat_map (fun e => match e with BOr cs => cs | _ => [e] end) es.
Definition mk_and (es : list bexpr) : bexpr := BAnd (flatten_and es).
Definition mk_or (es : list bexpr) : bexpr := BOr (flatten_or es).

(* ---- regex field guard ---- *)
Fixpoint somes {A} (l : list (option A)) : list A :=
  match l with
  | [] => []
  | Some x :: t => x :: somes t
  | None :: t => somes t
  end.

Definition is_none {A} (o : option A) : bool := match o with None => true | Some _ => false end.

(* regexExpressionToBloomFieldExpression. [None] = nil = no constraint.
   [or_gives_up] selects the behaviour for a child without a guard inside an Or:
   the pinned tree drops the child (false); the repaired code gives up the whole Or,
   because a child that constrains nothing makes the disjunction constrain nothing (true). *)
Fixpoint guard_gen (or_gives_up : bool) (e : rexpr) : option bexpr :=
  match e with
  | RCond None => None
  | RCond (Some (f, _)) => Some (BCond (Some (CField f)))
  | RAnd cs => Some (BAnd (somes (map (guard_gen or_gives_up) cs)))
  | ROr cs =>
      let gs := map (guard_gen or_gives_up) cs in
      if or_gives_up && existsb is_none gs then None else Some (BOr (somes gs))
  | RUnk => None
  end.

Definition guard := guard_gen true.          (* /repo now *)
Definition guard_pinned := guard_gen false.  (* before fix D4 *)

(* RegexFieldGuardBloomQuery *)
Definition guard_q (q : option rexpr) : option bexpr :=
  match q with None => None | Some e => guard e end.

(* AndBloomQueries *)
Definition and_queries (l r : option bexpr) : option bexpr :=
  match l, r with
  | None, _ => r
  | _, None => l
  | Some a, Some b => Some (mk_and [a; b])
  end.

(* the bloom query used for pruning files and blocks *)
Definition prune_query (qb : option bexpr) (qr : option rexpr) : option bexpr :=
  and_queries qb (guard_q qr).

(* ---- what compileRegexExpression (tokenizer.go) does to a regex tree before matching ----
   pinned: nil-condition children of And/Or are dropped; repaired: kept (constant true). *)
Definition is_nilcond (e : rexpr) : bool := match e with RCond None => true | _ => false end.

Fixpoint rcompile_gen (keep_nil : bool) (e : rexpr) : rexpr :=
  match e with
  | RCond c => RCond c
  | RAnd cs => RAnd (filter (fun c => keep_nil || negb (is_nilcond c)) (map (rcompile_gen keep_nil) cs))
  | ROr cs => ROr (filter (fun c => keep_nil || negb (is_nilcond c)) (map (rcompile_gen keep_nil) cs))
  | RUnk => RUnk
  end.

Definition rcompile := rcompile_gen true.
Definition rcompile_pinned := rcompile_gen false.
