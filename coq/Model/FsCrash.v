(* Crash model over Model/FsStore.v (DESIGN appendix C) and the engine discipline on top of
   the store (what handleFlush and merge do with it, as far as durability is concerned).

   The store model already carries the two layers: per inode [i_data] (page cache) and [i_dur]
   (content as of the last fsync of the file); per directory [f_dir] (volatile), [f_ddir]
   (entries as of the last fsync of the directory) and [f_pend] (entry changes since then).

   * process crash: the kernel survives; the new process sees [f_dir] and [i_data].
   * power loss: for every name independently, the durable binding or any binding the name
     went through since the last directory fsync; for every surviving inode any content between
     its durable bytes and its volatile bytes (files are append-only here).
   Recovery = a directory scan by a fresh engine.

   Executable definitions only. *)
From BS Require Import Lib.Bytes Model.FsStore.
From Coq Require Import List NArith Bool Arith.
Import ListNotations.
Open Scope nat_scope.

Definition image := list (fname * str).          (* what the new process finds: name -> bytes *)

(* every binding a name may have after power loss *)
Definition choices (f : fsys) (n : fname) : list (option nat) :=
  dlookup n (f_ddir f) :: map snd (filter (fun p => fname_eqb (fst p) n) (f_pend f)).

Definition content_okb (x : inode) (c : str) : bool := is_prefix (i_dur x) c && is_prefix c (i_data x).

Definition entry_okb (f : fsys) (e : fname * str) : bool :=
  existsb (fun v => match v with
                    | Some i => match nth_error (f_ino f) i with
                                | Some x => content_okb x (snd e)
                                | None => false
                                end
                    | None => false
                    end) (choices f (fst e)).

Definition is_none {A} (o : option A) : bool := match o with None => true | Some _ => false end.

Definition absent_okb (f : fsys) (img : image) (n : fname) : bool :=
  existsb (fun e => fname_eqb n (fst e)) img || existsb is_none (choices f n).

Fixpoint nodup_names (l : list fname) : bool :=
  match l with
  | [] => true
  | n :: t => negb (existsb (fname_eqb n) t) && nodup_names t
  end.

(* [img] is a possible outcome of a power loss in file-system state [f] *)
Definition power_okb (f : fsys) (img : image) : bool :=
  nodup_names (map fst img)
  && forallb (entry_okb f) img
  && forallb (absent_okb f img) (map fst (f_ddir f) ++ map fst (f_pend f)).

(* the outcome of a process crash *)
Definition proc_image (f : fsys) : image :=
  map (fun e => (fst e, data_of f (snd e))) (f_dir f).

(* recovery: what a fresh engine's directory scan yields on an image *)
Definition recover (c : cfg) (img : image) : list (str * str) :=
  flat_map (fun e => match e with
                     | ((b, Dat), d) => if valid c d then [(b, d)] else []
                     | _ => []
                     end) img.

(* ---------------------------------------------------------------- the engine on top of the store *)
(* handleFlush: CreateFile; Write*; Close; MetaStore.Update (nothing to do for this store); ack.
   On failure: Abort, TombstoneFile of its own pointer, error ack.
   merge: scan; per group CreateFile; Write*; Close; then Update(deletes = sources) and
   TombstoneFile of every source.
   As far as durability goes the discipline is: rows are acknowledged only for a writer whose
   Close returned nil; a file is removed only (a) by the cleanup of its own failed or
   un-acknowledged write, or (b) -- merges -- when another successfully closed file holds all its
   rows. [rows a] = the rows the engine wrote into writer a's file (ghost). *)
Inductive elabel :=
| EL (l : label)           (* one os.* call of the store *)
| EAck (a : nat).          (* the done channels of writer a's flush receive nil *)

Record estate := mkE { e_s : state; e_acked : list nat }.
Definition e0 : estate := mkE s0 [].

Definition memb (a : nat) (l : list nat) : bool := existsb (Nat.eqb a) l.

Fixpoint enumerate {A} (i : nat) (l : list A) : list (nat * A) :=
  match l with [] => [] | x :: t => (i, x) :: enumerate (S i) t end.

Definition live_file (w : writer) : bool := w_cok w && negb (w_gone w).

(* flush-only histories: no file of an acknowledged flush is ever removed *)
Definition flush_disc (es : estate) (l : label) : bool :=
  guard_ok (e_s es) l &&
  match l with
  | LRm b _ _ =>
      forallb (fun p => negb (str_eqb (w_base (snd p)) b && live_file (snd p) && memb (fst p) (e_acked es)))
              (enumerate 0 (s_ws (e_s es)))
  | _ => true
  end.

(* histories with merges: a live file may be removed once another live file holds all its rows *)
Definition covered (rows : nat -> list nat) (es : estate) (a : nat) : bool :=
  existsb (fun p => negb (fst p =? a) && live_file (snd p)
                    && forallb (fun r => memb r (rows (fst p))) (rows a))
          (enumerate 0 (s_ws (e_s es))).

Definition merge_disc (rows : nat -> list nat) (es : estate) (l : label) : bool :=
  guard_ok (e_s es) l &&
  match l with
  | LRm b Dat _ =>
      forallb (fun p => negb (str_eqb (w_base (snd p)) b && live_file (snd p)) || covered rows es (fst p))
              (enumerate 0 (s_ws (e_s es)))
  | _ => true
  end.

Definition estep (c : cfg) (disc : estate -> label -> bool) (es : estate) (el : elabel) : option estate :=
  match el with
  | EL l =>
      if disc es l then
        match step c (e_s es) l with
        | Some s' => Some (mkE s' (e_acked es))
        | None => None
        end
      else None
  | EAck a =>
      match nth_error (s_ws (e_s es)) a with
      | Some w => if live_file w then Some (mkE (e_s es) (a :: e_acked es)) else None
      | None => None
      end
  end.

Fixpoint erun (c : cfg) (disc : estate -> label -> bool) (es : estate) (els : list elabel) : option estate :=
  match els with
  | [] => Some es
  | el :: t => match estep c disc es el with Some es' => erun c disc es' t | None => None end
  end.

(* the writers whose complete file a recovered image shows *)
Definition recovered_writers (c : cfg) (s : state) (img : image) : list nat :=
  flat_map (fun p =>
    let w := snd p in
    if w_hasino w && existsb (fun e => fname_eqb (fst e) (w_base w, Dat) && str_eqb (snd e) (w_written w)
                                        && valid c (snd e)) img
    then [fst p] else []) (enumerate 0 (s_ws s)).

Definition rows_of (rows : nat -> list nat) (ws : list nat) : list nat := flat_map rows ws.
