(* Family Q — the per-query DataStore handle pool (query_handles.go: fileHandlePool
   retain / release / acquire / put / discard / closeAll).

   One step per hook event; every event sits inside p.mu where the code has a critical
   section.  A reader (worker) has at most one handle checked out at a time (evaluateBlockFilters
   and processDataBlock each hold one handle between acquire and put/discard).  OpenFile runs
   outside the lock: [PAcquireOpen] leaves the pool, [POpenOk]/[POpenFail] is the store's answer.
   Handle identities are the store's: a fresh number per successful OpenFile.
   Executable definitions only. *)
From Coq Require Import List ZArith Bool Arith.
Import ListNotations.

Definition fileid := Z.
Definition handle := nat.

(* pooledFileHandles; the idle slice is a stack: put appends, acquire takes the last *)
Record pentry := { pe_file : fileid; pe_refs : nat; pe_idle : list handle (* head = most recently put *) }.

Record pool := {
  p_files : list pentry;                      (* p.files *)
  p_closed : bool;                            (* p.closed *)
  p_held : list (nat * (fileid * handle));    (* reader -> the handle it has checked out *)
  p_opening : list (nat * fileid);            (* readers inside store.OpenFile *)
  p_next : handle;                            (* the store's next handle number *)
  p_opened : list handle;                     (* ghost: every handle OpenFile returned *)
  p_closedh : list handle                     (* ghost: every Close call, in order *)
}.

Definition pinit : pool :=
  {| p_files := []; p_closed := false; p_held := []; p_opening := []; p_next := 0; p_opened := []; p_closedh := [] |}.

Inductive plabel :=
| PRetain (f : fileid)
| PRelease (f : fileid)
| PAcquireIdle (w : nat) (f : fileid)        (* pool.acquire.idle *)
| PAcquireOpen (w : nat) (f : fileid)        (* pool.acquire.open: no idle handle, go to the store *)
| PAcquireClosed (w : nat) (f : fileid)      (* pool.acquire.closed: errHandlePoolClosed *)
| POpenOk (w : nat)                          (* the store returned a handle *)
| POpenFail (w : nat)                        (* the store returned an error *)
| PPut (w : nat) (f : fileid) (closed : bool)(* pool.put.idle (false) / pool.put.close (true) *)
| PDiscard (w : nat)
| PCloseAll.

(* ---- the file map *)
Fixpoint retain_entry (f : fileid) (l : list pentry) : list pentry :=
  match l with
  | [] => [{| pe_file := f; pe_refs := 1; pe_idle := [] |}]
  | e :: t => if Z.eqb (pe_file e) f then {| pe_file := f; pe_refs := S (pe_refs e); pe_idle := pe_idle e |} :: t
              else e :: retain_entry f t
  end.

(* release: the new map and the idle handles to close (last reference gone) *)
Fixpoint release_entry (f : fileid) (l : list pentry) : list pentry * list handle :=
  match l with
  | [] => ([], [])
  | e :: t =>
      if Z.eqb (pe_file e) f then
        if pe_refs e <=? 1 then (t, pe_idle e)
        else ({| pe_file := f; pe_refs := pe_refs e - 1; pe_idle := pe_idle e |} :: t, [])
      else let (t', c) := release_entry f t in (e :: t', c)
  end.

Fixpoint take_idle (f : fileid) (l : list pentry) : option (handle * list pentry) :=
  match l with
  | [] => None
  | e :: t =>
      if Z.eqb (pe_file e) f then
        match pe_idle e with
        | h :: r => Some (h, {| pe_file := f; pe_refs := pe_refs e; pe_idle := r |} :: t)
        | [] => None
        end
      else match take_idle f t with
           | Some (h, t') => Some (h, e :: t')
           | None => None
           end
  end.

(* put: None when the file has no entry or no reference (the handle is closed instead) *)
Fixpoint put_idle (f : fileid) (h : handle) (l : list pentry) : option (list pentry) :=
  match l with
  | [] => None
  | e :: t =>
      if Z.eqb (pe_file e) f then
        if pe_refs e =? 0 then None
        else Some ({| pe_file := f; pe_refs := pe_refs e; pe_idle := h :: pe_idle e |} :: t)
      else match put_idle f h t with
           | Some t' => Some (e :: t')
           | None => None
           end
  end.

Definition idle_all (l : list pentry) : list handle := flat_map pe_idle l.

(* ---- readers *)
Fixpoint held_of (w : nat) (l : list (nat * (fileid * handle))) : option (fileid * handle) :=
  match l with
  | [] => None
  | (w', fh) :: t => if w' =? w then Some fh else held_of w t
  end.

Fixpoint drop_held (w : nat) (l : list (nat * (fileid * handle))) : list (nat * (fileid * handle)) :=
  match l with
  | [] => []
  | (w', fh) :: t => if w' =? w then t else (w', fh) :: drop_held w t
  end.

Fixpoint opening_of (w : nat) (l : list (nat * fileid)) : option fileid :=
  match l with
  | [] => None
  | (w', f) :: t => if w' =? w then Some f else opening_of w t
  end.

Fixpoint drop_opening (w : nat) (l : list (nat * fileid)) : list (nat * fileid) :=
  match l with
  | [] => []
  | (w', f) :: t => if w' =? w then t else (w', f) :: drop_opening w t
  end.

Definition reader_free (p : pool) (w : nat) : bool :=
  match held_of w (p_held p), opening_of w (p_opening p) with None, None => true | _, _ => false end.

Definition with_files (p : pool) (l : list pentry) : pool :=
  {| p_files := l; p_closed := p_closed p; p_held := p_held p; p_opening := p_opening p; p_next := p_next p;
     p_opened := p_opened p; p_closedh := p_closedh p |}.

Definition pool_step (p : pool) (l : plabel) : option pool :=
  match l with
  | PRetain f =>
      if p_closed p then Some p else Some (with_files p (retain_entry f (p_files p)))
  | PRelease f =>
      let (l', c) := release_entry f (p_files p) in
      Some {| p_files := l'; p_closed := p_closed p; p_held := p_held p; p_opening := p_opening p; p_next := p_next p;
              p_opened := p_opened p; p_closedh := p_closedh p ++ c |}
  | PAcquireIdle w f =>
      if p_closed p || negb (reader_free p w) then None else
      match take_idle f (p_files p) with
      | Some (h, l') =>
          Some {| p_files := l'; p_closed := false; p_held := (w, (f, h)) :: p_held p; p_opening := p_opening p; p_next := p_next p;
                  p_opened := p_opened p; p_closedh := p_closedh p |}
      | None => None
      end
  | PAcquireOpen w f =>
      if p_closed p || negb (reader_free p w) then None else
      match take_idle f (p_files p) with
      | Some _ => None
      | None =>
          Some {| p_files := p_files p; p_closed := false; p_held := p_held p; p_opening := (w, f) :: p_opening p; p_next := p_next p;
                  p_opened := p_opened p; p_closedh := p_closedh p |}
      end
  | PAcquireClosed w f =>
      if p_closed p && reader_free p w then Some p else None
  | POpenOk w =>
      match opening_of w (p_opening p) with
      | Some f =>
          Some {| p_files := p_files p; p_closed := p_closed p; p_held := (w, (f, p_next p)) :: p_held p;
                  p_opening := drop_opening w (p_opening p); p_next := S (p_next p);
                  p_opened := p_next p :: p_opened p; p_closedh := p_closedh p |}
      | None => None
      end
  | POpenFail w =>
      match opening_of w (p_opening p) with
      | Some _ =>
          Some {| p_files := p_files p; p_closed := p_closed p; p_held := p_held p;
                  p_opening := drop_opening w (p_opening p); p_next := p_next p;
                  p_opened := p_opened p; p_closedh := p_closedh p |}
      | None => None
      end
  | PPut w f closed =>
      match held_of w (p_held p) with
      | Some (f', h) =>
          if negb (Z.eqb f f') then None else
          match (if p_closed p then None else put_idle f h (p_files p)) with
          | Some l' =>
              if closed then None else
              Some {| p_files := l'; p_closed := p_closed p; p_held := drop_held w (p_held p); p_opening := p_opening p;
                      p_next := p_next p; p_opened := p_opened p; p_closedh := p_closedh p |}
          | None =>
              if closed then
              Some {| p_files := p_files p; p_closed := p_closed p; p_held := drop_held w (p_held p); p_opening := p_opening p;
                      p_next := p_next p; p_opened := p_opened p; p_closedh := p_closedh p ++ [h] |}
              else None
          end
      | None => None
      end
  | PDiscard w =>
      match held_of w (p_held p) with
      | Some (_, h) =>
          Some {| p_files := p_files p; p_closed := p_closed p; p_held := drop_held w (p_held p); p_opening := p_opening p;
                  p_next := p_next p; p_opened := p_opened p; p_closedh := p_closedh p ++ [h] |}
      | None => None
      end
  | PCloseAll =>
      if p_closed p then None else
      Some {| p_files := []; p_closed := true; p_held := p_held p; p_opening := p_opening p; p_next := p_next p;
              p_opened := p_opened p; p_closedh := p_closedh p ++ idle_all (p_files p) |}
  end.

Fixpoint pool_steps (p : pool) (ls : list plabel) : option pool :=
  match ls with
  | [] => Some p
  | l :: t => match pool_step p l with Some p' => pool_steps p' t | None => None end
  end.

Definition held_handles (p : pool) : list handle := map (fun x => snd (snd x)) (p_held p).

(* observables for the correspondence *)
Definition refs_of (f : fileid) (p : pool) : nat :=
  fold_right (fun e acc => if Z.eqb (pe_file e) f then pe_refs e else acc) 0 (p_files p).
Definition idle_count (f : fileid) (p : pool) : nat :=
  fold_right (fun e acc => if Z.eqb (pe_file e) f then length (pe_idle e) else acc) 0 (p_files p).
