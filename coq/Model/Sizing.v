(* Family S — bloom filter sizing (C26). Executable definitions only.

   Mirrors ingest.go (bloomEntrySets: indexRow, unionInto, counts, buildFilters,
   buildSizedBloomFilter), flush.go (handleFlush) and merge.go (executeMergeGroup,
   copyDataBlock, mergeDataBlocks) as far as filter sizing is concerned:

   * an entry set is a Go map[string]struct{}: insertion is idempotent;
   * a block's sets collect the entries of its rows (at ingest for a flushed block, while the
     rows stream through for a merged block);
   * the file's sets are the union of the blocks' sets (flush, merged blocks) or are fed the
     copied block's rows directly (copied blocks);
   * every filter is bloom.NewWithEstimates(max(len(set), 1), rate) and then receives
     AddString for every member of the set; metadata records counts() of the same set.

   The walker/tokenizer that turns a row into entries belongs to family R; here a row is the
   three lists of entries indexRow emits for it (any order, any multiplicity). The bloom
   library (EstimateParameters, hashing) is not modelled: a filter is the triple (n it was
   created for, rate it was created with, the entries it received). *)
From BS Require Import Lib.Bytes.
From Coq Require Import List ZArith Bool.
Import ListNotations.
Open Scope Z_scope.

(* the entries one row contributes: field paths, tokens, field::token pairs *)
Record rowent := { re_fields : list str; re_tokens : list str; re_ftoks : list str }.

(* map[string]struct{} as the list of its members (most recently inserted first) *)
Definition eset := list str.

Definition add (x : str) (s : eset) : eset := if mem_str x s then s else x :: s.

Definition add_all (xs : list str) (s : eset) : eset := fold_left (fun acc x => add x acc) xs s.

Record sets := { s_fields : eset; s_tokens : eset; s_ftoks : eset }.

Definition empty_sets : sets := {| s_fields := []; s_tokens := []; s_ftoks := [] |}.

(* bloomEntrySets.indexRow *)
Definition index_row (s : sets) (r : rowent) : sets :=
  {| s_fields := add_all (re_fields r) (s_fields s);
     s_tokens := add_all (re_tokens r) (s_tokens s);
     s_ftoks := add_all (re_ftoks r) (s_ftoks s) |}.

Definition index_rows (rs : list rowent) (s : sets) : sets := fold_left index_row rs s.

(* bloomEntrySets.unionInto: every member of src is inserted into dst *)
Definition union_into (src dst : sets) : sets :=
  {| s_fields := add_all (s_fields src) (s_fields dst);
     s_tokens := add_all (s_tokens src) (s_tokens dst);
     s_ftoks := add_all (s_ftoks src) (s_ftoks dst) |}.

Definition zlen {A} (l : list A) : Z := Z.of_nat (length l).

(* BloomEntryCounts *)
Record counts3 := { c_fields : Z; c_tokens : Z; c_ftoks : Z }.

Definition counts (s : sets) : counts3 :=
  {| c_fields := zlen (s_fields s); c_tokens := zlen (s_tokens s); c_ftoks := zlen (s_ftoks s) |}.

(* the three entry classes, to state things once *)
Inductive cls := CField | CToken | CFtok.

Definition row_ents (c : cls) (r : rowent) : list str :=
  match c with CField => re_fields r | CToken => re_tokens r | CFtok => re_ftoks r end.

Definition set_of (c : cls) (s : sets) : eset :=
  match c with CField => s_fields s | CToken => s_tokens s | CFtok => s_ftoks s end.

Definition count_of (c : cls) (n : counts3) : Z :=
  match c with CField => c_fields n | CToken => c_tokens n | CFtok => c_ftoks n end.

(* a bloom filter as far as sizing goes: NewWithEstimates(f_n, f_rate), then AddString for
   every element of f_members. The rate is the float64's bit pattern, an opaque number. *)
Record bfilter := { f_n : Z; f_rate : Z; f_members : list str }.

(* buildSizedBloomFilter *)
Definition build_filter (entries : eset) (rate : Z) : bfilter :=
  {| f_n := Z.max (zlen entries) 1; f_rate := rate; f_members := entries |}.

Record bfilters := { ff_field : bfilter; ff_token : bfilter; ff_ftok : bfilter }.

(* bloomEntrySets.buildFilters *)
Definition build_filters (s : sets) (rate : Z) : bfilters :=
  {| ff_field := build_filter (s_fields s) rate;
     ff_token := build_filter (s_tokens s) rate;
     ff_ftok := build_filter (s_ftoks s) rate |}.

Definition filter_of (c : cls) (fs : bfilters) : bfilter :=
  match c with CField => ff_field fs | CToken => ff_token fs | CFtok => ff_ftok fs end.

(* a data block: the rows stored in it, its filter section, and what its metadata records *)
Record block := { b_rows : list rowent; b_filters : bfilters; b_counts : counts3; b_rate : Z }.

Record file := { fl_blocks : list block; fl_filters : bfilters; fl_counts : counts3; fl_rate : Z }.

(* one partition buffer at flush time, or one merged block: sets collected from the rows,
   filters built from the sets, counts of the sets recorded *)
Definition build_block (rate : Z) (rows : list rowent) : block * sets :=
  let es := index_rows rows empty_sets in
  ({| b_rows := rows; b_filters := build_filters es rate; b_counts := counts es; b_rate := rate |}, es).

(* handleFlush's loop over the partition buffers: fe is fileEntries *)
Fixpoint flush_blocks (rate : Z) (parts : list (list rowent)) (fe : sets) : list block * sets :=
  match parts with
  | [] => ([], fe)
  | rows :: t =>
      let '(b, es) := build_block rate rows in
      let '(bs, fe') := flush_blocks rate t (union_into es fe) in
      (b :: bs, fe')
  end.

Definition close_file (rate : Z) (bs : list block) (fe : sets) : file :=
  {| fl_blocks := bs; fl_filters := build_filters fe rate; fl_counts := counts fe; fl_rate := rate |}.

(* handleFlush with at least one partition buffer *)
Definition flush_file (rate : Z) (parts : list (list rowent)) : file :=
  let '(bs, fe) := flush_blocks rate parts empty_sets in close_file rate bs fe.

(* executeMergeGroup: an output block is either a source block copied verbatim (filter
   section, counts and rate untouched; its rows are re-streamed into fileEntries) or the
   merge of several source blocks, rebuilt from the concatenated rows at the current rate *)
Inductive ogroup := OCopy (b : block) | OMerge (bs : list block).

Definition group_sources (g : ogroup) : list block :=
  match g with OCopy b => [b] | OMerge bs => bs end.

Definition merge_group (rate : Z) (g : ogroup) (fe : sets) : block * sets :=
  match g with
  | OCopy b => (b, index_rows (b_rows b) fe)
  | OMerge bs =>
      let '(b, es) := build_block rate (concat (map b_rows bs)) in (b, union_into es fe)
  end.

Fixpoint merge_blocks (rate : Z) (gs : list ogroup) (fe : sets) : list block * sets :=
  match gs with
  | [] => ([], fe)
  | g :: t =>
      let '(b, fe1) := merge_group rate g fe in
      let '(bs, fe') := merge_blocks rate t fe1 in
      (b :: bs, fe')
  end.

Definition merge_file (rate : Z) (gs : list ogroup) : file :=
  let '(bs, fe) := merge_blocks rate gs empty_sets in close_file rate bs fe.

(* ---- histories ------------------------------------------------------------------- *)

(* The store is the list of files currently referenced. A flush of a non-empty buffer adds a
   file built at the rate configured at that moment; a merge replaces some files by one
   output whose groups draw on blocks of the current store (which blocks, in which grouping,
   is the planner's business: family G); the engine's rate may differ from op to op
   (a restarted engine with another configuration). *)
Inductive sel := SCopy (fi bi : nat) | SMerge (l : list (nat * nat)).

Inductive op :=
| OpFlush (rate : Z) (parts : list (list rowent))
| OpMerge (rate : Z) (plan : list sel) (consumed : list nat).

Definition get_block (st : list file) (fb : nat * nat) : option block :=
  match nth_error st (fst fb) with
  | Some f => nth_error (fl_blocks f) (snd fb)
  | None => None
  end.

Fixpoint get_blocks (st : list file) (l : list (nat * nat)) : option (list block) :=
  match l with
  | [] => Some []
  | fb :: t =>
      match get_block st fb, get_blocks st t with
      | Some b, Some bs => Some (b :: bs)
      | _, _ => None
      end
  end.

Fixpoint resolve (st : list file) (plan : list sel) : option (list ogroup) :=
  match plan with
  | [] => Some []
  | s :: t =>
      let g := match s with
               | SCopy fi bi => option_map OCopy (get_block st (fi, bi))
               | SMerge l => option_map OMerge (get_blocks st l)
               end in
      match g, resolve st t with
      | Some g, Some gs => Some (g :: gs)
      | _, _ => None
      end
  end.

Fixpoint drop_indices {A} (i : nat) (drop : list nat) (l : list A) : list A :=
  match l with
  | [] => []
  | x :: t => if existsb (Nat.eqb i) drop then drop_indices (S i) drop t else x :: drop_indices (S i) drop t
  end.

Definition apply_op (st : list file) (o : op) : option (list file) :=
  match o with
  | OpFlush _ [] => Some st                                   (* ack-only flush request: no file *)
  | OpFlush rate parts => Some (st ++ [flush_file rate parts])
  | OpMerge rate plan consumed =>
      match resolve st plan with
      | Some gs => Some (drop_indices 0 consumed st ++ [merge_file rate gs])
      | None => None
      end
  end.

Fixpoint run_ops (st : list file) (ops : list op) : option (list file) :=
  match ops with
  | [] => Some st
  | o :: t => match apply_op st o with Some st' => run_ops st' t | None => None end
  end.

(* ---- specification side ------------------------------------------------------------ *)

(* the entries a list of rows contributes, per class, with multiplicity, in emission order *)
Definition rows_ents (c : cls) (rs : list rowent) : list str := flat_map (row_ents c) rs.

Definition file_rows (f : file) : list rowent := flat_map b_rows (fl_blocks f).

(* number of distinct entries of a list: length of its duplicate-free version *)
Fixpoint dedup (xs : list str) : list str :=
  match xs with
  | [] => []
  | x :: t => if mem_str x t then dedup t else x :: dedup t
  end.

Definition distinct_count (xs : list str) : Z := zlen (dedup xs).

(* boolean versions used by the case runner *)
Definition incl_b (a b : list str) : bool := forallb (fun x => mem_str x b) a.
Definition same_set_b (a b : list str) : bool := incl_b a b && incl_b b a.
Fixpoint nodup_b (l : list str) : bool :=
  match l with [] => true | x :: t => negb (mem_str x t) && nodup_b t end.

(* "filter f is created with n = max(1, |distinct xs|) and rate r and receives exactly the
   distinct entries of xs" *)
Definition filter_sized_b (f : bfilter) (rate : Z) (xs : list str) : bool :=
  (f_n f =? Z.max 1 (distinct_count xs)) && (f_rate f =? rate) && nodup_b (f_members f) && same_set_b (f_members f) xs.
