(* Family G: merge.go — calculateFileStatistics, the sort key and greedy loop of
   identifyFileMergeGroups, hasMergeableBlockPair, blockMergeKey,
   blocksWithinMergeLimits, the bucket/seed loop of processPartitionBlocks and the
   data effect of mergeDataBlocks / copyDataBlock (rows, minmax, entries), plus the
   query view of a store used by C11.  Executable definitions only. *)
From BS Require Export Lib.Bytes Model.MinMax.
From Coq Require Import List ZArith NArith Bool.
Open Scope Z_scope.

(* BloomSearchEngineConfig: the four limits merge reads *)
Record cfg := {
  c_max_rows : Z;        (* MaxRowGroupRows *)
  c_max_bytes : Z;       (* MaxRowGroupBytes *)
  c_max_file_size : Z;   (* MaxFileSize *)
  c_max_files : Z        (* MaxFilesToMergePerOperation *)
}.

(* file_format.go: LengthPrefixSize *)
Definition LengthPrefixSize : Z := 4.

(* a stored row: identity, the partition it was ingested under, the minmax
   contributions [lo,hi] it made for the keys that were indexed at ingest, its
   marshalled length, the bloom entries the walker/tokenizer produces for it *)
Record mrow := {
  mr_tag : Z;
  mr_part : str;
  mr_vals : list (str * (Z * Z));
  mr_len : Z;
  mr_ents : list str
}.

(* DataBlockMetadata + content.  b_meta is MinMax.blockmeta (PartitionID, MinMaxIndexes as
   an association list).  b_disk is OnDiskSize() = RowDataSize + BloomFilterSize.
   b_ents are the entries the block's filters were built from, b_fparam the filter's
   sizing parameters (false positive rate etc.: opaque). *)
Record block := {
  b_id : Z;
  b_meta : blockmeta;
  b_nrows : Z;          (* Rows *)
  b_usize : Z;          (* UncompressedSize *)
  b_disk : Z;           (* OnDiskSize() *)
  b_fparam : Z;
  b_ents : list str;
  b_rows : list mrow
}.

Definition b_part (b : block) : str := b_partition (b_meta b).
Definition b_minmax (b : block) := b_mm (b_meta b).

Record file := {
  f_ptr : Z;
  f_blocks : list block;
  f_fparam : Z;
  f_ents : list str     (* entries of the file-level filters *)
}.

Definition zsum (l : list Z) : Z := fold_right Z.add 0 l.

Fixpoint mem_z (x : Z) (l : list Z) : bool :=
  match l with [] => false | y :: t => (x =? y) || mem_z x t end.

(* ---- blockMergeKey ---- *)

(* sort.Strings on the key set: insertion sort under bytewise <= *)
Fixpoint insert_str (x : str) (l : list str) : list str :=
  match l with
  | [] => [x]
  | y :: t => if str_leb x y then x :: l else y :: insert_str x t
  end.
Definition sort_strs (l : list str) : list str := fold_right insert_str [] l.

(* length-prefixed framing over a length code [lenc] *)
Section Framing.
  Variable lenc : N -> str.
  Definition frame1 (x : str) : str := lenc (N.of_nat (length x)) ++ x.
  Definition frame (xs : list str) : str := concat (map frame1 xs).
End Framing.

(* binary.AppendUvarint: 7 bits per byte, least significant group first, high bit =
   continuation.  Ten groups cover uint64; the fuel only makes the recursion structural. *)
Fixpoint uvarint (fuel : nat) (n : N) : str :=
  match fuel with
  | O => [n]
  | S f => if (n <? 128)%N then [n] else ((n mod 128 + 128)%N) :: uvarint f (n / 128)%N
  end.

Definition key_parts (m : blockmeta) : list str := b_partition m :: sort_strs (map fst (b_mm m)).
Definition merge_key (m : blockmeta) : str := frame (uvarint 10) (key_parts m).
Definition same_key (a b : block) : bool := str_eqb (merge_key (b_meta a)) (merge_key (b_meta b)).

(* blocksWithinMergeLimits on the two blocks' (Rows, UncompressedSize) shapes *)
Definition within (c : cfg) (a b : block) : bool :=
  (b_nrows a + b_nrows b <=? c_max_rows c) && (b_usize a + b_usize b <=? c_max_bytes c).

(* ---- calculateFileStatistics ---- *)
Fixpoint dedup_strs (seen : list str) (l : list str) : list str :=
  match l with
  | [] => []
  | x :: t => if mem_str x seen then dedup_strs seen t else x :: dedup_strs (x :: seen) t
  end.

Definition f_total_size (f : file) : Z := zsum (map b_disk (f_blocks f)).
Definition f_total_rows (f : file) : Z := zsum (map b_nrows (f_blocks f)).
Definition f_block_count (f : file) : Z := Z.of_nat (length (f_blocks f)).
Definition f_partitions (f : file) : list str := sort_strs (dedup_strs [] (map b_part (f_blocks f))).

(* ---- identifyFileMergeGroups ---- *)

(* the sort.Slice comparator: average block size (Go integer division), then total size *)
Definition f_avg (f : file) : Z := Z.quot (f_total_size f) (Z.max (f_block_count f) 1).
Definition file_less (a b : file) : bool :=
  if negb (f_avg a =? f_avg b) then f_avg a <? f_avg b else f_total_size a <? f_total_size b.

(* a stable insertion sort; sort.Slice is not stable, so the correspondence only compares
   populations whose sort keys are pairwise distinct, and every theorem about the plan holds
   for an arbitrary order of the candidates *)
Fixpoint insert_file (x : file) (l : list file) : list file :=
  match l with
  | [] => [x]
  | y :: t => if file_less x y then x :: l else y :: insert_file x t
  end.
Definition sort_files (l : list file) : list file := fold_right insert_file [] (rev l).

(* hasMergeableBlockPair: some candidate block shares a merge key with a group block and
   the pair is within limits (the code indexes both sides by key; the verdict is the same) *)
Definition has_pair (c : cfg) (gblocks cblocks : list block) : bool :=
  existsb (fun cb => existsb (fun gb => same_key cb gb && within c cb gb) gblocks) cblocks.

(* inner loop "for j := i+1 ..." over the still unassigned later candidates, in order:
   returns (files that joined, files left unassigned).
   total = totalFilesInGroups, glen = len(currentGroup), gsize = currentGroupSize *)
Fixpoint grow (c : cfg) (total glen gsize : Z) (gblocks : list block) (rest : list file)
  : list file * list file :=
  match rest with
  | [] => ([], [])
  | x :: rest' =>
      if c_max_files c <? total + glen + 1 then ([], rest)                         (* break *)
      else if c_max_file_size c <? gsize + f_total_size x then                     (* continue *)
        let '(m, r) := grow c total glen gsize gblocks rest' in (m, x :: r)
      else if has_pair c gblocks (f_blocks x) then
        let '(m, r) := grow c total (glen + 1) (gsize + f_total_size x) (gblocks ++ f_blocks x) rest' in
        (x :: m, r)
      else
        let '(m, r) := grow c total glen gsize gblocks rest' in (m, x :: r)
  end.

(* outer loop over the unassigned candidates; fuel = number of candidates.  A seed that
   attracts nobody stays assigned (it is not offered to later seeds) but forms no group. *)
Fixpoint greedy (fuel : nat) (c : cfg) (total : Z) (rest : list file) : list (list file) :=
  match fuel, rest with
  | S fu, f :: rest' =>
      if c_max_files c <=? total then []                                           (* break *)
      else
        let '(m, r) := grow c total 1 (f_total_size f) (f_blocks f) rest' in
        match m with
        | [] => greedy fu c total r
        | _ :: _ => (f :: m) :: greedy fu c (total + 1 + Z.of_nat (length m)) r
        end
  | _, _ => []
  end.

(* grouping of an already ordered candidate list *)
Definition plan_files_ord (c : cfg) (sorted : list file) : list (list file) :=
  if (length sorted <? 2)%nat then [] else greedy (length sorted) c 0 sorted.
Definition plan_files (c : cfg) (files : list file) : list (list file) :=
  plan_files_ord c (sort_files files).

(* the statistics merge() reports: files, row groups, rows, bytes of the grouped files *)
Definition merge_stats (groups : list (list file)) : Z * Z * Z * Z :=
  let fs := concat groups in
  (Z.of_nat (length fs), zsum (map f_block_count fs), zsum (map f_total_rows fs), zsum (map f_total_size fs)).

(* ---- processPartitionBlocks ---- *)

(* buckets by merge key, in order of first appearance, members in input order *)
Fixpoint add_bucket (b : block) (bks : list (str * list block)) : list (str * list block) :=
  match bks with
  | [] => [(merge_key (b_meta b), [b])]
  | (k, l) :: t => if str_eqb k (merge_key (b_meta b)) then (k, l ++ [b]) :: t else (k, l) :: add_bucket b t
  end.
Definition bucketize (bs : list block) : list (str * list block) :=
  fold_left (fun acc b => add_bucket b acc) bs [].

(* one seed's scan over the later unused blocks of its bucket: pairwise test against the
   seed, then the cumulative test.  Returns (members after the seed, blocks left). *)
Fixpoint take_group (c : cfg) (seed : block) (crows csize : Z) (rest : list block)
  : list block * list block :=
  match rest with
  | [] => ([], [])
  | o :: rest' =>
      if within c seed o && ((crows + b_nrows o <=? c_max_rows c) && (csize + b_usize o <=? c_max_bytes c))
      then let '(m, r) := take_group c seed (crows + b_nrows o) (csize + b_usize o) rest' in (o :: m, r)
      else let '(m, r) := take_group c seed crows csize rest' in (m, o :: r)
  end.

(* the seed loop with the used[] flags replaced by list removal; fuel = bucket length *)
Fixpoint plan_bucket (fuel : nat) (c : cfg) (bucket : list block) : list (list block) :=
  match fuel, bucket with
  | S fu, s :: rest =>
      let '(m, r) := take_group c s (b_nrows s) (b_usize s) rest in
      (s :: m) :: plan_bucket fu c r
  | _, _ => []
  end.

Definition plan_partition (c : cfg) (bs : list block) : list (list block) :=
  flat_map (fun kb => plan_bucket (length (snd kb)) c (snd kb)) (bucketize bs).

(* executeMergeGroup: blocks of the group's files in order, split by partition; the
   partitions are visited in Go map order, which the model takes as an input *)
Definition group_blocks (g : list file) : list block := flat_map f_blocks g.
Definition partitions_of (bs : list block) : list str := dedup_strs [] (map b_part bs).
Definition plan_blocks (c : cfg) (porder : list str) (bs : list block) : list (list block) :=
  flat_map (fun p => plan_partition c (filter (fun b => str_eqb (b_part b) p) bs)) porder.

(* ---- data effect of mergeDataBlocks / copyDataBlock ---- *)

(* what the model cannot predict about an output: the sizes the compressor and the filter
   builder produce, and the filter parameters of the merging engine *)
Record env := { e_disk : list mrow -> Z; e_fparam : Z }.

Definition merge_mms (g : list block) : list (str * (Z * Z)) :=
  match g with
  | [] => []
  | b :: t => fold_left (fun acc x => merge_mm acc (b_minmax x)) t (b_minmax b)
  end.

Definition row_usize (r : mrow) : Z := mr_len r + LengthPrefixSize.

(* mergeDataBlocks: rows re-streamed in group order, counts measured while streaming,
   minmax folded left to right, filters rebuilt from the rows' entries *)
Definition merged_block (e : env) (g : list block) : block :=
  let rows := flat_map b_rows g in
  {| b_id := match g with b :: _ => b_id b | [] => 0 end;
     b_meta := {| b_partition := match g with b :: _ => b_part b | [] => [] end; b_mm := merge_mms g |};
     b_nrows := Z.of_nat (length rows);
     b_usize := zsum (map row_usize rows);
     b_disk := e_disk e rows;
     b_fparam := e_fparam e;
     b_ents := flat_map mr_ents rows;
     b_rows := rows |}.

(* a group of one is copied verbatim (copyDataBlock keeps everything but the location) *)
Definition out_block (e : env) (g : list block) : block :=
  match g with
  | [b] => b
  | _ => merged_block e g
  end.

Definition out_file (e : env) (c : cfg) (porder : list str) (ptr : Z) (g : list file) : file :=
  let bs := group_blocks g in
  {| f_ptr := ptr;
     f_blocks := map (out_block e) (plan_blocks c porder bs);
     f_fparam := e_fparam e;
     f_ents := flat_map mr_ents (flat_map b_rows bs) |}.

Fixpoint out_files (e : env) (c : cfg) (groups : list (list file)) (porders : list (list str)) (ptrs : list Z)
  : list file :=
  match groups, porders, ptrs with
  | g :: gs, po :: pos, p :: ps => out_file e c po p g :: out_files e c gs pos ps
  | _, _, _ => []
  end.

Definition grouped_ptrs (groups : list (list file)) : list Z := map f_ptr (concat groups).

(* the store after a committed merge: MemoryMetaStore.Update(writes = outputs, deletes = grouped files) *)
Definition merge_store (e : env) (c : cfg) (sorted : list file) (porders : list (list str)) (ptrs : list Z)
  (st : list file) : list file :=
  let groups := plan_files_ord c sorted in
  filter (fun f => negb (mem_z (f_ptr f) (grouped_ptrs groups))) st ++ out_files e c groups porders ptrs.

(* ---- the query view of a store (C11) ---- *)
Definition all_blocks (st : list file) : list block := flat_map f_blocks st.
Definition all_rows (st : list file) : list mrow := flat_map b_rows (all_blocks st).

Section Query.
  Variable Q : Type.                                   (* bloom + regex part of a query *)
  Variable row_sat : Q -> mrow -> bool.                (* the row matcher's verdict *)
  Variable guard : Q -> (str -> bool) -> bool.         (* bloom pruning test against a filter's membership test *)
  Variable ftest : Z -> list str -> str -> bool.       (* a filter built with parameters p from entries E, tested on e *)

  Definition block_hit (pre : option pexpr) (q : Q) (b : block) : bool :=
    block_passes pre (b_meta b) && guard q (ftest (b_fparam b) (b_ents b)).

  Definition query_block (pre : option pexpr) (q : Q) (b : block) : list mrow :=
    if block_hit pre q b then filter (row_sat q) (b_rows b) else [].

  Definition query_file (pre : option pexpr) (q : Q) (f : file) : list mrow :=
    if guard q (ftest (f_fparam f) (f_ents f)) then flat_map (query_block pre q) (f_blocks f) else [].

  Definition run_query (pre : option pexpr) (q : Q) (st : list file) : list mrow :=
    flat_map (query_file pre q) st.
End Query.
