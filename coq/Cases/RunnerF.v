(* Case evaluation for family F (stores): C16 op sequences against Model/FsStore.v.
   (C15 and C14 runners are in RunnerFC.v / RunnerFM.v.) *)
From BS Require Import Lib.Bytes Model.FsStore.
From Coq Require Import List NArith Bool Arith.
Import ListNotations.
Open Scope nat_scope.

(* ---------------------------------------------------------------- equality on labels *)
Definition cres_eqb (a b : cres) := match a, b with COk, COk | CExists, CExists | CFail, CFail => true | _, _ => false end.
Definition rres_eqb (a b : rres) := match a, b with ROk, ROk | RNoent, RNoent | RFail, RFail => true | _, _ => false end.

Definition label_eqb (x y : label) : bool :=
  match x, y with
  | LBegin a, LBegin b => a =? b
  | LReserve a n r, LReserve b m q => (a =? b) && str_eqb n m && cres_eqb r q
  | LGiveUp a, LGiveUp b => a =? b
  | LResClose a o, LResClose b p => (a =? b) && Bool.eqb o p
  | LUnreserve a r, LUnreserve b q => (a =? b) && rres_eqb r q
  | LTmpCreate a r, LTmpCreate b q => (a =? b) && cres_eqb r q
  | LWrite a d n, LWrite b e m => (a =? b) && str_eqb d e && (n =? m)
  | LLost a o, LLost b p => (a =? b) && Bool.eqb o p
  | LSync a o, LSync b p => (a =? b) && Bool.eqb o p
  | LHClose a o, LHClose b p => (a =? b) && Bool.eqb o p
  | LRename a o, LRename b p => (a =? b) && Bool.eqb o p
  | LDirSync a o, LDirSync b p => (a =? b) && Bool.eqb o p
  | LAbortHClose a, LAbortHClose b => a =? b
  | LAbortRm a e r, LAbortRm b g q => (a =? b) && ext_eqb e g && rres_eqb r q
  | LRm n e r, LRm m g q => str_eqb n m && ext_eqb e g && rres_eqb r q
  | LOpen n o, LOpen m p => str_eqb n m && Bool.eqb o p
  | LReadDir, LReadDir => true
  | LParse k n o, LParse j m p => (k =? j) && str_eqb n m && Bool.eqb o p
  | _, _ => false
  end.

Fixpoint labels_eqb (x y : list label) : bool :=
  match x, y with
  | [], [] => true
  | a :: x', b :: y' => label_eqb a b && labels_eqb x' y'
  | _, _ => false
  end.

(* The code closes the handle in the sync-failure branch without looking at the result; the
   hook cannot report one. Observed logs print it as false; normalise the plan the same way. *)

(* the validity oracle of a case: membership in the table's valid entries. Written with [if] so
   that the (long) byte comparison only runs for valid entries: vm_compute is call by value. *)
Definition valid_in (tab : list (str * bool)) (d : str) : bool :=
  existsb (fun e : str * bool => if snd e then str_eqb d (fst e) else false) tab.

(* ---------------------------------------------------------------- set comparison *)
Definition pair_eqb (x y : str * str) := if str_eqb (fst x) (fst y) then str_eqb (snd x) (snd y) else false.
Definition subset {A} (eqb : A -> A -> bool) (x y : list A) := forallb (fun a => existsb (eqb a) y) x.
Definition same_set {A} (eqb : A -> A -> bool) (x y : list A) :=
  if length x =? length y then (if subset eqb x y then subset eqb y x else false) else false.
Definition ent_eqb (x y : fname * str) := if fname_eqb (fst x) (fst y) then str_eqb (snd x) (snd y) else false.

(* ---------------------------------------------------------------- C16 *)
Inductive opF :=
| FCreate (fault : option nat)                   (* CreateFile; draws come from the case's stream *)
| FWrite (a : nat) (bytes : str) (n : nat)       (* n = bytes the real Write accepted *)
| FClose (a : nat) (fault : option nat)
| FAbort (a : nat) (fault : option nat)
| FTomb (b : str) (fault : option nat)
| FUpdate (bs : list str)
| FOpen (b : str)
| FReadH (k : nat)                               (* read everything through the k-th handle OpenFile returned *)
| FScan.

Record obsF := mkObs {
  o_labels : list label;                 (* hook events of the call, as labels *)
  o_ok : bool;                           (* the call returned a nil error *)
  o_ptr : option str;                    (* CreateFile: base of the returned pointer *)
  o_read : option str;                   (* OpenFile: bytes read through the handle *)
  o_listing : list (fname * str);        (* directory after the call (.dat/.tmp entries with bytes) *)
  o_scan : list (str * str);             (* GetMaybeFilesForQuery pointers after the call, with the files' bytes *)
  o_scan_checked : bool                  (* false on the arbitrary-payload stream where the scan is not compared *)
}.

Inductive caseF :=
| CSeq (fixed : bool) (maxatt : nat) (tab : list (str * bool)) (draws : list str)
       (steps : (nat -> str) -> list (opF * obsF))
  (* tab: the byte strings of the case with the library's verdict (ReadFileMetadata accepts them);
     steps refer to them by index *)
| CExhaust (fixed : bool) (maxatt : nat) (names : list str) (obs_reserves : nat) (obs_ok : bool).
  (* every name taken: CreateFile must give up after maxatt draws *)

Definition cyc (ds : list str) (k : nat) : str := nth (k mod (length ds)) ds [].

Definition to_op (draw : nat -> str) (pos : nat) (o : opF) : op :=
  match o with
  | FCreate fault => OCreate draw pos fault
  | FWrite a b n => OWrite a b n
  | FClose a fault => OClose a fault
  | FAbort a fault => OAbort a fault
  | FTomb b fault => OTombstone b fault
  | FUpdate bs => OUpdate bs
  | FOpen b => OOpen b
  | FReadH _ => OUpdate []
  | FScan => OScan
  end.

Definition last_label (ls : list label) : option label := nth_error ls (pred (length ls)).

(* nil-error result of a call, read off the model's plan and final state *)
Definition model_ok (o : opF) (ls : list label) (s' : state) : bool :=
  match o with
  | FCreate _ => match last_label ls with Some (LTmpCreate _ COk) => true | _ => false end
  | FWrite a b n => (n =? length b) && match nth_error (s_ws s') a with Some w => w_hopen w | None => false end
  | FClose a _ => match last_label ls with Some (LDirSync _ true) => true | _ => false end
  | FAbort a _ => forallb (fun l => match l with LAbortRm _ _ RFail => false | _ => true end) ls
  | FTomb _ _ => forallb (fun l => match l with LRm _ _ RFail => false | _ => true end) ls
  | FUpdate _ => true
  | FOpen b => match last_label ls with Some (LOpen _ true) => true | _ => false end
  | FReadH _ => true
  | FScan => true
  end.

Definition opt_str_eqb (a b : option str) :=
  match a, b with Some x, Some y => str_eqb x y | None, None => true | _, _ => false end.

(* The specification, judged on what the implementation showed: every file whose Close succeeded
   and that was not tombstoned is there under its pointer with exactly the bytes written, and the
   directory scan lists exactly those of them that are bloom files -- plus, possibly, complete
   files whose Close got as far as the rename and then failed at the directory fsync (an injected
   os failure), until Abort or TombstoneFile removes them, as the store documents. *)
Definition spec_violated (c : cfg) (s' : state) (ob : obsF) : bool :=
  let spec := spec_files s' in
  let isvalid := fun p : str * str => valid c (snd p) in
  negb (forallb (fun p => existsb (ent_eqb ((fst p, Dat), snd p)) (o_listing ob)) spec)
  || (o_scan_checked ob
      && (negb (subset pair_eqb (filter isvalid spec) (o_scan ob))
          || negb (subset pair_eqb (o_scan ob) (filter isvalid (spec ++ window_files s')))
          || negb (length (o_scan ob) <=? length (filter isvalid (spec ++ window_files s'))))).

(* "TombstoneFile removes every artifact of its pointer": after a TombstoneFile that returned nil
   the directory the implementation showed has no entry (.dat or .tmp) under that base. *)
Definition tomb_violated (o : opF) (ob : obsF) : bool :=
  match o with
  | FTomb b _ => o_ok ob && existsb (fun e : fname * str => str_eqb (fst (fst e)) b) (o_listing ob)
  | _ => false
  end.

(* result of evaluating one sequence: (mismatch, violation) *)
Fixpoint eval_steps (c : cfg) (draw : nat -> str) (pos : nat) (s : state) (steps : list (opF * obsF)) : bool * bool :=
  match steps with
  | [] => (false, false)
  | (o, ob) :: rest =>
      let mo := to_op draw pos o in
      let ls := plan c s mo in
      match run c s ls with
      | None => (true, false)
      | Some s' =>
          let a := length (s_ws s) in
          let mism :=
            negb (labels_eqb ls (o_labels ob))
            || negb (Bool.eqb (model_ok o ls s') (o_ok ob))
            || negb (same_set ent_eqb (listing s') (o_listing ob))
            || (o_scan_checked ob && negb (same_set pair_eqb (scan c s') (o_scan ob)))
            || match o with
               | FCreate _ => negb (opt_str_eqb (if model_ok o ls s' then create_ok s' a else None) (o_ptr ob))
               | FOpen b => negb (opt_str_eqb (read_file s b) (o_read ob))
               | FReadH k => negb (opt_str_eqb (option_map (data_of (s_fs s)) (nth_error (s_rd s) k)) (o_read ob))
               | _ => false
               end in
          (* the specification, judged on what the implementation showed: the scan lists exactly
             the files whose Close succeeded and that were not tombstoned, with the bytes written *)
          let viol := spec_violated c s' ob || tomb_violated o ob in
          let '(m, v) := eval_steps c draw (pos + draws_used ls) s' rest in
          (mism || m, viol || v)
      end
  end.

Definition eval_case (cs : caseF) : bool * bool :=
  match cs with
  | CSeq fixed maxatt tab draws steps =>
      let c := mkC fixed maxatt (valid_in tab) in
      eval_steps c (cyc draws) 0 s0 (steps (fun i => fst (nth i tab ([], false))))
  | CExhaust fixed maxatt names obs_reserves obs_ok =>
      let c := mkC fixed maxatt (fun _ => false) in
      (* occupy every name with a reservation, then one more CreateFile *)
      let fill := map (fun n => OCreate (fun _ => n) 0 None) names in
      match exec_all c s0 fill with
      | None => (true, false)
      | Some s =>
          let ls := plan c s (OCreate (cyc names) 0 None) in
          match run c s ls with
          | None => (true, false)
          | Some s' =>
              (negb (draws_used ls =? obs_reserves)
               || negb (Bool.eqb (match last_label ls with Some (LTmpCreate _ COk) => true | _ => false end) obs_ok)
               || negb (same_set ent_eqb (listing s') (listing s)), false)
          end
      end
  end.

(* debugging aid: index of the first step whose comparison fails, with the failing component
   (1 labels, 2 result, 3 listing, 4 scan, 5 pointer/read, 6 model refused the plan, 7 spec, 8 tombstone left an artifact) *)
Fixpoint first_bad (c : cfg) (draw : nat -> str) (pos : nat) (s : state) (steps : list (opF * obsF)) (i : nat) : option (nat * nat) :=
  match steps with
  | [] => None
  | (o, ob) :: rest =>
      let ls := plan c s (to_op draw pos o) in
      match run c s ls with
      | None => Some (i, 6)
      | Some s' =>
          let a := length (s_ws s) in
          if negb (labels_eqb ls (o_labels ob)) then Some (i, 1)
          else if negb (Bool.eqb (model_ok o ls s') (o_ok ob)) then Some (i, 2)
          else if negb (same_set ent_eqb (listing s') (o_listing ob)) then Some (i, 3)
          else if o_scan_checked ob && negb (same_set pair_eqb (scan c s') (o_scan ob)) then Some (i, 4)
          else if match o with
                  | FCreate _ => negb (opt_str_eqb (if model_ok o ls s' then create_ok s' a else None) (o_ptr ob))
                  | FOpen b => negb (opt_str_eqb (read_file s b) (o_read ob))
                  | FReadH k => negb (opt_str_eqb (option_map (data_of (s_fs s)) (nth_error (s_rd s) k)) (o_read ob))
                  | _ => false
                  end then Some (i, 5)
          else if spec_violated c s' ob then Some (i, 7)
          else if tomb_violated o ob then Some (i, 8)
          else first_bad c draw (pos + draws_used ls) s' rest (S i)
      end
  end.

Definition diag (cs : caseF) : option (nat * nat) :=
  match cs with
  | CSeq fixed maxatt tab draws steps =>
      let c := mkC fixed maxatt (valid_in tab) in
      first_bad c (cyc draws) 0 s0 (steps (fun i => fst (nth i tab ([], false)))) 0
  | _ => None
  end.

Fixpoint indices_where {A} (f : A -> bool) (l : list A) (i : nat) : list nat :=
  match l with
  | [] => []
  | x :: t => if f x then i :: indices_where f t (S i) else indices_where f t (S i)
  end.

Definition mismatches (cs : list caseF) : list nat := indices_where (fun x => fst (eval_case x)) cs 0.
Definition violations (cs : list caseF) : list nat := indices_where (fun x => snd (eval_case x)) cs 0.
