(* Case evaluation for family S (C26): the model's flush/merge against what a real engine
   wrote, and the sizing predicate evaluated on the implementation's output with the
   specification-side distinct count as oracle. *)
From BS Require Import Lib.Bytes Model.Sizing.
From Coq Require Import List ZArith Bool.
Import ListNotations.
Open Scope Z_scope.

(* what the harness reads back: per filter (Cap, K); counts and rate from the metadata *)
Record obs_block := { ob_rate : Z; ob_counts : counts3; ob_caps : list (Z * Z) }.   (* field, token, field::token *)
Record obs_file := { of_rate : Z; of_counts : counts3; of_caps : list (Z * Z); of_blocks : list obs_block }.

(* oracle table of the bloom library: EstimateParameters(n, rate) = (m, k), keyed (rate bits, n) *)
Definition est_table := list ((Z * Z) * (Z * Z)).

Fixpoint est (t : est_table) (rate n : Z) : option (Z * Z) :=
  match t with
  | [] => None
  | ((r, n'), mk) :: t' => if (r =? rate) && (n' =? n) then Some mk else est t' rate n
  end.

(* an output group of a merge, as the harness reconstructs it from row identities: a source
   block is given by the rate it was built at and its rows *)
Inductive cgroup := KCopy (src_rate : Z) (rows : list rowent) | KMerge (srcs : list (Z * list rowent)).

Inductive caseS :=
| CFlush (rate : Z) (parts : list (list rowent)) (t : est_table) (obs : obs_file)
| CMerge (rate : Z) (groups : list cgroup) (t : est_table) (obs : obs_file)
| CDistinct (xs : list str) (n : Z).     (* the harness's own distinct count (sort + unique) *)

Definition src_block (rr : Z * list rowent) : block := fst (build_block (fst rr) (snd rr)).

Definition to_ogroup (g : cgroup) : ogroup :=
  match g with
  | KCopy r rows => OCopy (src_block (r, rows))
  | KMerge srcs => OMerge (map src_block srcs)
  end.

Definition classes : list cls := [CField; CToken; CFtok].

Definition pair_eqb (a b : Z * Z) : bool := (fst a =? fst b) && (snd a =? snd b).

Definition counts_eqb (a b : counts3) : bool :=
  (c_fields a =? c_fields b) && (c_tokens a =? c_tokens b) && (c_ftoks a =? c_ftoks b).

(* model filters against observed (Cap, K) through the oracle table *)
Definition caps_agree (t : est_table) (fs : bfilters) (caps : list (Z * Z)) : bool :=
  match caps with
  | [a; b; c] =>
      forallb (fun '(f, o) => match est t (f_rate f) (f_n f) with Some mk => pair_eqb mk o | None => false end)
              [(ff_field fs, a); (ff_token fs, b); (ff_ftok fs, c)]
  | _ => false
  end.

Definition block_agrees (t : est_table) (b : block) (o : obs_block) : bool :=
  (b_rate b =? ob_rate o) && counts_eqb (b_counts b) (ob_counts o) && caps_agree t (b_filters b) (ob_caps o).

Fixpoint blocks_agree (t : est_table) (bs : list block) (os : list obs_block) : bool :=
  match bs, os with
  | [], [] => true
  | b :: bs', o :: os' => block_agrees t b o && blocks_agree t bs' os'
  | _, _ => false
  end.

Definition file_agrees (t : est_table) (f : file) (o : obs_file) : bool :=
  (fl_rate f =? of_rate o) && counts_eqb (fl_counts f) (of_counts o) &&
  caps_agree t (fl_filters f) (of_caps o) && blocks_agree t (fl_blocks f) (of_blocks o).

Definition mismatch (c : caseS) : bool :=
  match c with
  | CFlush rate parts t obs => negb (file_agrees t (flush_file rate parts) obs)
  | CMerge rate groups t obs => negb (file_agrees t (merge_file rate (map to_ogroup groups)) obs)
  | CDistinct xs n => negb (distinct_count xs =? n)
  end.

(* the property predicate on the implementation's output: every filter has the (Cap, K) of
   EstimateParameters(max(1, distinct entries of the rows it covers), its recorded rate), and
   the recorded counts are those distinct counts. Rows only; no model function of flush or
   merge is involved. A (rate, n) the table lacks cannot be judged here (the mismatch
   list reports it). *)
Definition sized_ok (t : est_table) (rate : Z) (cnt : counts3) (caps : list (Z * Z)) (rows : list rowent) : bool :=
  match caps with
  | [a; b; c] =>
      forallb (fun '(cl, o) =>
                 let n := distinct_count (rows_ents cl rows) in
                 (count_of cl cnt =? n) &&
                 match est t rate (Z.max 1 n) with Some mk => pair_eqb mk o | None => true end)
              [(CField, a); (CToken, b); (CFtok, c)]
  | _ => false
  end.

Fixpoint blocks_ok (t : est_table) (rows : list (list rowent)) (os : list obs_block) : bool :=
  match rows, os with
  | [], [] => true
  | r :: rows', o :: os' => sized_ok t (ob_rate o) (ob_counts o) (ob_caps o) r && blocks_ok t rows' os'
  | _, _ => false
  end.

Definition group_rows (g : cgroup) : list rowent :=
  match g with KCopy _ rows => rows | KMerge srcs => concat (map snd srcs) end.

Definition file_ok (t : est_table) (rate : Z) (rows : list (list rowent)) (o : obs_file) : bool :=
  (of_rate o =? rate) && sized_ok t (of_rate o) (of_counts o) (of_caps o) (concat rows) && blocks_ok t rows (of_blocks o).

(* a flushed block is built at the flush's rate; a merged block at the merge's; a copied one
   keeps the rate it had *)
Definition block_rates_ok (rate : Z) (groups : list cgroup) (os : list obs_block) : bool :=
  (fix go (gs : list cgroup) (os : list obs_block) : bool :=
     match gs, os with
     | [], [] => true
     | KCopy r _ :: gs', o :: os' => (ob_rate o =? r) && go gs' os'
     | KMerge _ :: gs', o :: os' => (ob_rate o =? rate) && go gs' os'
     | _, _ => false
     end) groups os.

Definition violates (c : caseS) : bool :=
  match c with
  | CFlush rate parts t obs =>
      negb (file_ok t rate parts obs && forallb (fun o => ob_rate o =? rate) (of_blocks obs))
  | CMerge rate groups t obs =>
      negb (file_ok t rate (map group_rows groups) obs && block_rates_ok rate groups (of_blocks obs))
  | CDistinct _ _ => false
  end.

Fixpoint indices_where {A} (f : A -> bool) (l : list A) (i : nat) : list nat :=
  match l with
  | [] => []
  | x :: t => if f x then i :: indices_where f t (S i) else indices_where f t (S i)
  end.

Definition mismatches (cs : list caseS) : list nat := indices_where mismatch cs 0.
Definition violations (cs : list caseS) : list nat := indices_where violates cs 0.
