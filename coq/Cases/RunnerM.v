(* Case evaluation for family M: model vs implementation, and the C04 predicate
   evaluated on what the implementation did. *)
From BS Require Import Lib.Bytes Model.MinMax.
From Coq Require Import List ZArith Bool.
Open Scope Z_scope.

Inductive caseM :=
| CConv (v : gv) (obs : option (Z * Z))                      (* ConvertToMinMaxInt64 *)
| CMinMax (idx : Z * Z) (c : ncond) (obs : bool)             (* EvaluateMinMaxCondition *)
| CNum (v : Z) (c : ncond) (obs : bool)                      (* EvaluateNumericCondition *)
| CStr (v : str) (c : scond) (obs : bool)                    (* EvaluateStringCondition *)
| CTree (b : blockmeta) (e : pexpr) (obs : bool)             (* EvaluateDataBlockMetadata *)
| CRow (r : prow) (b : blockmeta) (e : pexpr) (kept : bool)  (* row r is stored in block b; kept: b survived FilterDataBlocks *)
| CIndex (keys : list str) (rs : list prow) (obs : list (str * (Z * Z))). (* a flushed block's MinMaxIndexes *)

Definition opt_pair_eqb (a b : option (Z * Z)) : bool :=
  match a, b with
  | None, None => true
  | Some (a1, a2), Some (b1, b2) => (a1 =? b1) && (a2 =? b2)
  | _, _ => false
  end.

Definition mm_sub (a b : list (str * (Z * Z))) : bool :=
  forallb (fun '(k, v) => opt_pair_eqb (Some v) (assoc k b)) a.

(* only the first binding of a key counts in an association list *)
Fixpoint dedup_keys (seen : list str) (a : list (str * (Z * Z))) : list (str * (Z * Z)) :=
  match a with
  | [] => []
  | (k, v) :: t => if mem_str k seen then dedup_keys seen t else (k, v) :: dedup_keys (k :: seen) t
  end.

Definition mm_eqb (a b : list (str * (Z * Z))) : bool :=
  mm_sub (dedup_keys [] a) b && mm_sub (dedup_keys [] b) a.

Definition bracketsb (x : exact) (lo hi : Z) : bool :=
  in64b lo && in64b hi && (lo <=? hi) &&
  match x with
  | XFin n d => (0 <? d) && ((lo =? MinInt64) || (lo * d <=? n)) && ((lo =? MaxInt64) || (n <? (lo + 1) * d))
                && ((hi =? MaxInt64) || (n <=? hi * d)) && ((hi =? MinInt64) || ((hi - 1) * d <? n))
  | XPosInf => (lo =? MaxInt64) && (hi =? MaxInt64)
  | XNegInf => (lo =? MinInt64) && (hi =? MinInt64)
  end.

Definition mismatch (c : caseM) : bool :=
  match c with
  | CConv v obs => negb (opt_pair_eqb (conv v) obs)
  | CMinMax idx nc obs => negb (eqb (eval_minmax idx nc) obs)
  | CNum v nc obs => negb (eqb (eval_numeric v nc) obs)
  | CStr v sc obs => negb (eqb (eval_string v sc) obs)
  | CTree b e obs => negb (eqb (eval_pexpr b e) obs)
  | CRow r b e kept => negb (eqb (eval_pexpr b e) kept)
  | CIndex keys rs obs => negb (mm_eqb (index_rows keys rs) obs)
  end.

(* block metadata covers every indexed numeric non-NaN value of the row *)
Definition covers_rowb (b : blockmeta) (r : prow) : bool :=
  str_eqb (b_partition b) (r_partition r) &&
  forallb (fun '(k, v) =>
    match gv_exact v with
    | None => true
    | Some x =>
        match assoc k (b_mm b) with
        | None => false
        | Some (mn, mx) =>
            in64b mn && in64b mx &&
            (* the recorded range contains the clamped floor/ceil of the exact value *)
            match x with
            | XFin n d => (mn <=? clamp (zfloor n d)) && (clamp (zceil n d) <=? mx)
            | XPosInf => mx =? MaxInt64
            | XNegInf => mn =? MinInt64
            end
        end
    end) (r_vals r).

Definition violates (c : caseM) : bool :=
  match c with
  | CConv v obs =>
      match gv_exact v, obs with
      | Some _, None => true                       (* a numeric, non-NaN value was not indexed *)
      | Some x, Some (lo, hi) => negb (bracketsb x lo hi)
      | None, _ => false
      end
  | CMinMax (mn, mx) nc obs =>
      (* the implementation excludes a range although one of its end points satisfies the condition *)
      negb obs && (val_sat (XFin mn 1) nc || val_sat (XFin mx 1) nc) && (mn <=? mx)
  | CRow r b e kept => (row_pexpr r e && negb kept) || negb (covers_rowb b r)
  | CIndex keys rs obs =>
      negb (forallb (fun r => covers_rowb {| b_partition := r_partition r; b_mm := obs |} r) rs)
  | _ => false
  end.

Fixpoint indices_where {A} (f : A -> bool) (l : list A) (i : nat) : list nat :=
  match l with
  | [] => []
  | x :: t => if f x then i :: indices_where f t (S i) else indices_where f t (S i)
  end.

Definition mismatches (cs : list caseM) : list nat := indices_where mismatch cs 0.
Definition violations (cs : list caseM) : list nat := indices_where violates cs 0.
