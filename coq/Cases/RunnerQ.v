(* Case evaluation for family Q: component op sequences and query event logs replayed through
   the step functions; the property predicates evaluated on what the implementation did. *)
From BS Require Import Lib.Bytes Model.Stats Model.Cursor Model.HandlePool Model.Slots Model.QueryLTS.
From Coq Require Import List ZArith Bool Arith.
Import ListNotations.

(* ------------------------------------------------------------------ cursor *)
(* what the harness saw when the operation a label completes returned *)
Inductive cobs :=
| ONone
| ONext (ret : bool) (r : option row)     (* Next() = ret, then Row() *)
| OErr (e : terr)                         (* Err() right after the step *)
| OStat (matched nblocks : Z).            (* Stats(): RowsMatched, len(BlockStats) *)

Definition terr_eqb (a b : terr) : bool :=
  match a, b with
  | TNil, TNil | TCancel, TCancel => true
  | TJoin x, TJoin y => (length x =? length y)%nat && forallb (fun p => Z.eqb (fst p) (snd p)) (combine x y)
  | _, _ => false
  end.

Definition orow_eqb (a b : option row) : bool :=
  match a, b with
  | None, None => true
  | Some x, Some y => Z.eqb x y
  | _, _ => false
  end.

Definition bstat_eqb (a b : bstat) : bool :=
  Z.eqb (bs_file a) (bs_file b) && Z.eqb (bs_off a) (bs_off b) && Z.eqb (bs_rows a) (bs_rows b) &&
  Z.eqb (bs_bytes a) (bs_bytes b) && Z.eqb (bs_trows a) (bs_trows b) && Z.eqb (bs_tbytes a) (bs_tbytes b) &&
  Bool.eqb (bs_skipped a) (bs_skipped b).

Fixpoint list_eqb {A} (eq : A -> A -> bool) (a b : list A) : bool :=
  match a, b with
  | [], [] => true
  | x :: a', y :: b' => eq x y && list_eqb eq a' b'
  | _, _ => false
  end.

(* observed Stats() aggregate *)
Record sobs := { so_processed : Z; so_skipped : Z; so_rows : Z; so_bytes : Z; so_matched : Z; so_blocks : list bstat }.

Definition qstats_agree (q : qstats) (o : sobs) : bool :=
  Z.eqb (qs_processed q) (so_processed o) && Z.eqb (qs_skipped q) (so_skipped o) &&
  Z.eqb (qs_rows q) (so_rows o) && Z.eqb (qs_bytes q) (so_bytes o) && Z.eqb (qs_matched q) (so_matched o) &&
  list_eqb bstat_eqb (qs_blocks q) (so_blocks o).

(* does the model agree with one observation *)
Definition obs_agrees (l : clabel) (s : cur) (o : cobs) : bool :=
  match o with
  | ONone => true
  | ONext ret r =>
      match next_result l with
      | Some b => Bool.eqb b ret && orow_eqb (cur_row s) r
      | None => false
      end
  | OErr e => terr_eqb (cur_err s) e
  | OStat m n => Z.eqb (h_matched (c_h s)) m && Z.eqb (Z.of_nat (length (m_stats (c_m s)))) n
  end.

Definition is_onext (o : cobs) : bool := match o with ONext _ _ => true | _ => false end.

(* a label that completes a Next call must carry the observed result *)
Definition obs_ok (l : clabel) (s : cur) (os : list cobs) : bool :=
  forallb (obs_agrees l s) os &&
  match next_result l with Some _ => existsb is_onext os | None => true end.

(* replay: Some final state iff the log is a run of the model and every observation agrees *)
Fixpoint creplay (fx : bool) (s : cur) (ops : list (clabel * list cobs)) : option cur :=
  match ops with
  | [] => Some s
  | (l, o) :: t =>
      match cursor_step fx s l with
      | Some s' => if obs_ok l s' o then creplay fx s' t else None
      | None => None
      end
  end.

(* index of the first op the model rejects (for diagnostics) *)
Fixpoint creplay_stuck (fx : bool) (s : cur) (ops : list (clabel * list cobs)) (i : nat) : option nat :=
  match ops with
  | [] => None
  | (l, o) :: t =>
      match cursor_step fx s l with
      | Some s' => if obs_ok l s' o then creplay_stuck fx s' t (S i) else Some i
      | None => Some i
      end
  end.

Record ccase := {
  cc_fx : bool;                       (* which code the tree under test has *)
  cc_closers : nat;
  cc_ops : list (clabel * list cobs);
  cc_err : terr;                      (* final Err() *)
  cc_err_after_close : terr;          (* Err() after one more Close() *)
  cc_stats : sobs                     (* final Stats() *)
}.

Definition ccase_mismatch (c : ccase) : bool :=
  match creplay (cc_fx c) (cinit (cc_closers c)) (cc_ops c) with
  | None => true
  | Some s =>
      negb (terr_eqb (cur_err s) (cc_err c)) ||
      negb (qstats_agree (cur_stats s) (cc_stats c))
  end.

(* --- the C20 predicate on the implementation's observations *)
Definition flat_obs (ops : list (clabel * list cobs)) : list cobs := flat_map snd ops.

(* Next = true after Next = false *)
Fixpoint sticky_broken (seen_false : bool) (os : list cobs) : bool :=
  match os with
  | [] => false
  | ONext ret _ :: t => if seen_false && ret then true else sticky_broken (seen_false || negb ret) t
  | _ :: t => sticky_broken seen_false t
  end.

(* Err() observations after the terminal state was first observed must all be equal *)
Fixpoint errs_after_false (seen_false : bool) (os : list cobs) : list terr :=
  match os with
  | [] => []
  | ONext ret _ :: t => errs_after_false (seen_false || negb ret) t
  | OErr e :: t => if seen_false then e :: errs_after_false seen_false t else errs_after_false seen_false t
  | _ :: t => errs_after_false seen_false t
  end.

Definition all_same_err (l : list terr) : bool :=
  match l with
  | [] => true
  | e :: t => forallb (terr_eqb e) t
  end.

Definition has_label (p : clabel -> bool) (ops : list (clabel * list cobs)) : bool := existsb (fun x => p (fst x)) ops.
Definition is_record_err (l : clabel) : bool := match l with LRecordErr _ => true | _ => false end.
Definition is_cancel (l : clabel) : bool := match l with LCancelBegin => true | _ => false end.

Definition count_next_true (os : list cobs) : Z :=
  fold_right (fun o acc => match o with ONext true _ => (1 + acc)%Z | _ => acc end) 0%Z os.

(* The caller's cancel call had returned before the Next call that ended the iteration began, and no Close
   call had begun when that call finished: nobody but this Next can have decided the terminal state, and its
   deciding read of the caller's context came after the cancel.  Read off the labels alone, so it does not
   depend on the model accepting the log.  [cancelled]: LCancelEnd seen; [closing]: a LCloseBegin seen;
   [after]: the Next call in progress began after LCancelEnd. *)
Fixpoint cancel_before_final_next (ls : list clabel) (cancelled closing after : bool) : bool :=
  match ls with
  | [] => false
  | l :: t =>
      match l with
      | LCancelEnd => cancel_before_final_next t true closing after
      | LCloseBegin _ => cancel_before_final_next t cancelled true after
      | LNextSticky | LNextTerm | LNextPending | LNextWait => cancel_before_final_next t cancelled closing cancelled
      | LFinish => after && negb closing
      | _ => cancel_before_final_next t cancelled closing after
      end
  end.

Definition ccase_violates (c : ccase) : bool :=
  let ops := cc_ops c in
  let os := flat_obs ops in
  (* fixed code: a cancel that returned before the final Next began is reported (whatever kind of context the caller passed) *)
  (cc_fx c && cancel_before_final_next (map fst ops) false false false && negb (terr_eqb (cc_err c) TCancel)) ||
  sticky_broken false os ||
  negb (all_same_err (errs_after_false false os ++ [cc_err c; cc_err_after_close c])) ||
  (* nil although a failure was recorded *)
  (terr_eqb (cc_err c) TNil && has_label is_record_err ops) ||
  (* the ctx error although the caller never cancelled *)
  (terr_eqb (cc_err c) TCancel && negb (has_label is_cancel ops)) ||
  match creplay (cc_fx c) (cinit (cc_closers c)) ops with
  | None => false
  | Some s =>
      (* nil although Next decided after the caller's cancel had returned (D7) *)
      (terr_eqb (cc_err c) TNil &&
       match m_finby (c_m s), m_decphase (c_m s) with ByNext, CYes => true | _, _ => false end) ||
      (* iterated to the end: RowsMatched = rows returned *)
      (complete s && negb (Z.eqb (so_matched (cc_stats c)) (count_next_true os)))
  end.

(* ------------------------------------------------------------------ handle pool *)
Inductive pobs := PONone | POHeld (w : nat) (h : handle).   (* the handle acquire returned *)

Fixpoint preplay (p : pool) (ops : list (plabel * pobs)) : option pool :=
  match ops with
  | [] => Some p
  | (l, o) :: t =>
      match pool_step p l with
      | Some p' =>
          match o with
          | PONone => preplay p' t
          | POHeld w h =>
              match held_of w (p_held p') with
              | Some (_, h') => if (h =? h')%nat then preplay p' t else None
              | None => None
              end
          end
      | None => None
      end
  end.

Fixpoint insert_nat (x : nat) (l : list nat) : list nat :=
  match l with
  | [] => [x]
  | y :: t => if (x <=? y)%nat then x :: l else y :: insert_nat x t
  end.
Definition sort_nat (l : list nat) : list nat := fold_right insert_nat [] l.

(* bottom-up merge sort on Z (row ids), for multiset comparison *)
Fixpoint merge_Z (a : list Z) : list Z -> list Z :=
  fix inner (b : list Z) : list Z :=
    match a, b with
    | [], _ => b
    | _, [] => a
    | x :: a', y :: b' => if Z.leb x y then x :: merge_Z a' b else y :: inner b'
    end.

Fixpoint merge_pairs (l : list (list Z)) : list (list Z) :=
  match l with
  | a :: b :: t => merge_Z a b :: merge_pairs t
  | _ => l
  end.

Fixpoint merge_all (fuel : nat) (l : list (list Z)) : list Z :=
  match fuel, l with
  | _, [] => []
  | _, [a] => a
  | O, a :: _ => a
  | S f, _ => merge_all f (merge_pairs l)
  end.

Definition sort_Z (l : list Z) : list Z := merge_all (length l) (map (fun x => [x]) l).

Fixpoint nodup_sorted (l : list nat) : bool :=
  match l with
  | x :: ((y :: _) as t) => negb (x =? y)%nat && nodup_sorted t
  | _ => true
  end.

Record pcase := {
  pc_ops : list (plabel * pobs);
  pc_files : list (fileid * (nat * nat));   (* observed at the end: file -> (refs, idle handles) *)
  pc_isclosed : bool;
  pc_nopened : nat;                         (* successful OpenFile calls *)
  pc_closes : list handle                   (* every Close call the store saw (ordinals of the opens) *)
}.

Definition pcase_mismatch (c : pcase) : bool :=
  match preplay pinit (pc_ops c) with
  | None => true
  | Some p =>
      negb (Bool.eqb (p_closed p) (pc_isclosed c)) ||
      negb (p_next p =? pc_nopened c)%nat ||
      negb (list_eqb Nat.eqb (sort_nat (p_closedh p)) (sort_nat (pc_closes c))) ||
      negb (forallb (fun x => (refs_of (fst x) p =? fst (snd x))%nat && (idle_count (fst x) p =? snd (snd x))%nat) (pc_files c)) ||
      negb (length (p_files p) =? length (pc_files c))%nat
  end.

(* C21 on what the store saw: no handle closed twice; when the pool is closed and no reader holds
   anything, every opened handle was closed *)
Definition pcase_violates (c : pcase) : bool :=
  negb (nodup_sorted (sort_nat (pc_closes c))) ||
  match preplay pinit (pc_ops c) with
  | Some p =>
      p_closed p && match p_held p, p_opening p with [], [] => true | _, _ => false end &&
      negb (list_eqb Nat.eqb (sort_nat (pc_closes c)) (seq 0 (pc_nopened c)))
  | None => false
  end.

(* ------------------------------------------------------------------ slots *)
Record scase := {
  sc_cap : nat; sc_workers : nat;
  sc_calls : list (scall * option nat);  (* the call and, when nothing else was running, len(sem) right after it *)
  sc_end : nat                           (* len(sem) after every worker has called release *)
}.

Fixpoint sreplay (s : sem) (cs : list (scall * option nat)) : bool :=
  match cs with
  | [] => true
  | (c, n) :: t =>
      match call_step s c with
      | Some s' => match n with Some k => (used s' =? k)%nat | None => true end && sreplay s' t
      | None => false
      end
  end.

Definition scase_mismatch (c : scase) : bool := negb (sreplay (sinit (sc_cap c) (sc_workers c)) (sc_calls c)).

(* every worker's release is among the calls (in order, after anything else that worker did) *)
Definition all_released (c : scase) : bool :=
  forallb (fun w => existsb (fun x => match fst x with CallRelease w' => (w =? w')%nat | _ => false end) (sc_calls c)) (seq 0 (sc_workers c)).

Definition scase_violates (c : scase) : bool :=
  existsb (fun x => match snd x with Some k => (sc_cap c <? k)%nat | None => false end) (sc_calls c) ||
  (* C21: once every worker has released, the whole budget is available again *)
  (all_released c && negb (sc_end c =? 0)%nat).

(* ------------------------------------------------------------------ whole queries *)
Record qobs := {
  qo_err : terr;                 (* final Err() *)
  qo_err2 : terr;                (* Err() after a further Close() *)
  qo_stats : sobs;               (* final Stats() *)
  qo_returned : list row;        (* rows Next handed out, in order *)
  qo_false_seen : bool;          (* Next returned false and stayed false when asked again *)
  qo_nopened : nat;              (* successful OpenFile calls of this query *)
  qo_closes : list handle        (* Close calls on its handles (ordinals) *)
}.

Record tcase := {
  tc_fx : bool;
  tc_cap : nat;
  tc_envs : list (qenv * nat);
  tc_labels : list qlabel;
  tc_obs : list qobs;
  tc_sem_end : nat               (* len(querySemaphore) once every query is over *)
}.

Fixpoint qsteps_stuck (fx : bool) (s : gstate) (ls : list qlabel) (i : nat) : option nat :=
  match ls with
  | [] => None
  | l :: t => match qstep fx s l with Some s' => qsteps_stuck fx s' t (S i) | None => Some i end
  end.

Definition q_agrees (q : qstate) (o : qobs) : bool :=
  terr_eqb (cur_err (q_cur q)) (qo_err o) &&
  qstats_agree (cur_stats (q_cur q)) (qo_stats o) &&
  list_eqb Z.eqb (n_returned (c_n (q_cur q))) (qo_returned o) &&
  (p_next (q_pool q) =? qo_nopened o)%nat &&
  list_eqb Nat.eqb (sort_nat (p_closedh (q_pool q))) (sort_nat (qo_closes o)).

Fixpoint all2 {A B} (f : A -> B -> bool) (a : list A) (b : list B) : bool :=
  match a, b with
  | [], [] => true
  | x :: a', y :: b' => f x y && all2 f a' b'
  | _, _ => false
  end.

Definition tcase_mismatch (c : tcase) : bool :=
  match qsteps (tc_fx c) (ginit (tc_cap c) (tc_envs c)) (tc_labels c) with
  | None => true
  | Some s => negb (all2 q_agrees (g_qs s) (tc_obs c)) || negb (g_used s =? tc_sem_end c)%nat
  end.

(* --- properties on the observations; the model's final state tells how the query ended *)
Definition env_files (e : qenv) : list fileenv :=
  flat_map (fun it => match it with IFile f => [f] | IErr _ => [] end) (e_items e).

Definition block_key (f : fileenv) (b : blockenv) : bkey := (f_id f, b_off b).

(* the block a returned row lives in must be listed as processed *)
Definition returned_listed (e : qenv) (st : list bstat) (rows : list row) : bool :=
  forallb (fun r =>
    existsb (fun f => existsb (fun b => existsb (Z.eqb r) (b_matched b) && listed_processed (block_key f b) st) (f_blocks f)) (env_files e))
    rows.

(* all or none of a file's prefilter-surviving blocks *)
Definition all_or_none (e : qenv) (st : list bstat) : bool :=
  forallb (fun f =>
    let n := count_if (fun b => has_key (block_key f b) st) (f_blocks f) in
    Z.eqb n 0 || Z.eqb n (Z.of_nat (length (f_blocks f)))) (env_files e).

(* clean completion: every processed block was read completely *)
Definition full_rows (e : qenv) (st : list bstat) : bool :=
  forallb (fun s => bs_skipped s || Z.eqb (bs_rows s) (bs_trows s)) st.

Definition totals_ok (o : sobs) : bool :=
  Z.eqb (so_processed o) (count_if (fun b => negb (bs_skipped b)) (so_blocks o)) &&
  Z.eqb (so_skipped o) (count_if bs_skipped (so_blocks o)) &&
  Z.eqb (so_rows o) (sumZ bs_rows (so_blocks o)) &&
  Z.eqb (so_bytes o) (sumZ bs_bytes (so_blocks o)).

Definition q_violates (fx : bool) (q : qstate) (o : qobs) : list bool :=
  let e := q_env q in
  let st := so_blocks (qo_stats o) in
  let c := q_cur q in
  [ (* C20 *)
    negb (qo_false_seen o);
    negb (terr_eqb (qo_err o) (qo_err2 o));
    terr_eqb (qo_err o) TNil && match m_errs (c_m c) with [] => false | _ => true end;
    terr_eqb (qo_err o) TNil && match m_finby (c_m c), m_decphase (c_m c) with ByNext, CYes => true | _, _ => false end;
    terr_eqb (qo_err o) TCancel && match x_caller (c_x c) with CNo => true | _ => false end;
    (* C21 *)
    negb (nodup_sorted (sort_nat (qo_closes o)));
    negb (list_eqb Nat.eqb (sort_nat (qo_closes o)) (seq 0 (qo_nopened o)));
    (* C23 *)
    negb (keys_nodup st);
    negb (forallb skipped_zero st);
    negb (returned_listed e st (qo_returned o));
    negb (totals_ok (qo_stats o));
    negb (m_int_at_done (c_m c)) && negb (all_or_none e st);
    (* an uncancelled query that is over left no job behind in a channel *)
    m_finished (c_m c) && negb (m_int_at_done (c_m c)) &&
      negb (forallb (fun en => st_eqb (snd en) ETaken) (q_fjobs q) && forallb (fun en => st_eqb (snd en) ETaken) (q_bjobs q));
    clean_completion q && negb (full_rows e st);
    (* C02 delivery: on clean completion exactly the matched rows of the scanned blocks *)
    clean_completion q && negb (list_eqb Z.eqb (sort_Z (qo_returned o)) (sort_Z (survived_rows q)));
    complete c && negb (Z.eqb (so_matched (qo_stats o)) (Z.of_nat (length (qo_returned o))))
  ].

(* the labels of the world outside query q's pipeline, in log order *)
Definition ext_labels (q : nat) (ls : list qlabel) : list clabel :=
  flat_map (fun l => match l with LExt q' cl => if (q =? q')%nat then [cl] else [] | LAct _ _ _ => [] end) ls.

(* per query, off the labels and the observed Err alone (see cancel_before_final_next) *)
Definition late_cancel_missed (c : tcase) : bool :=
  tc_fx c &&
  existsb (fun io => cancel_before_final_next (ext_labels (fst io) (tc_labels c)) false false false &&
                     negb (terr_eqb (qo_err (snd io)) TCancel))
          (combine (seq 0 (length (tc_obs c))) (tc_obs c)).

(* what can be judged on a query's observations alone, whether or not the model accepts the log *)
Definition obs_violates (o : qobs) : bool :=
  let st := so_blocks (qo_stats o) in
  negb (qo_false_seen o) ||
  negb (terr_eqb (qo_err o) (qo_err2 o)) ||
  negb (nodup_sorted (sort_nat (qo_closes o))) ||
  negb (list_eqb Nat.eqb (sort_nat (qo_closes o)) (seq 0 (qo_nopened o))) ||
  negb (keys_nodup st) ||
  negb (forallb skipped_zero st) ||
  negb (totals_ok (qo_stats o)).

Definition tcase_violates (c : tcase) : bool :=
  late_cancel_missed c ||
  existsb obs_violates (tc_obs c) ||
  (* the budget is whole again once every query is over: decided on the observation, whatever the replay says *)
  negb (tc_sem_end c =? 0)%nat ||
  match qsteps (tc_fx c) (ginit (tc_cap c) (tc_envs c)) (tc_labels c) with
  | None => false
  | Some s =>
      negb (tc_sem_end c =? 0)%nat ||
      existsb (fun x => x) (flat_map (fun qo => q_violates (tc_fx c) (fst qo) (snd qo)) (combine (g_qs s) (tc_obs c)))
  end.

(* ------------------------------------------------------------------ case type *)
Inductive caseQ :=
| QCursor (c : ccase)
| QPool (c : pcase)
| QSlot (c : scase)
| QTrace (c : tcase).

Definition mismatch (c : caseQ) : bool :=
  match c with
  | QCursor cc => ccase_mismatch cc
  | QPool pc => pcase_mismatch pc
  | QSlot sc => scase_mismatch sc
  | QTrace tc => tcase_mismatch tc
  end.

Definition violates (c : caseQ) : bool :=
  match c with
  | QCursor cc => ccase_violates cc
  | QPool pc => pcase_violates pc
  | QSlot sc => scase_violates sc
  | QTrace tc => tcase_violates tc
  end.

Fixpoint indices_where {A} (f : A -> bool) (l : list A) (i : nat) : list nat :=
  match l with
  | [] => []
  | x :: t => if f x then i :: indices_where f t (S i) else indices_where f t (S i)
  end.

Definition mismatches (cs : list caseQ) : list nat := indices_where mismatch cs 0.
Definition violations (cs : list caseQ) : list nat := indices_where violates cs 0.
