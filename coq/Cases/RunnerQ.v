(* Case evaluation for family Q: component op sequences and query event logs replayed through
   the step functions; the property predicates evaluated on what the implementation did. *)
From BS Require Import Lib.Bytes Model.Stats Model.Cursor.
From Coq Require Import List ZArith Bool Arith.
Import ListNotations.

(* ------------------------------------------------------------------ cursor *)
(* what the harness saw when the operation a label completes returned *)
Inductive cobs :=
| ONone
| ONext (ret : bool) (r : option row)     (* Next() = ret, then Row() *)
| OErr (e : terr)                         (* Err() right after the step *)
| OStat (matched nblocks : Z).            (* Stats(): RowsMatched, len(BlockStats) *)

Definition terr_eqb (a b : terr) : bool :=
  match a, b with
  | TNil, TNil | TCancel, TCancel => true
  | TJoin x, TJoin y => (length x =? length y)%nat && forallb (fun p => Z.eqb (fst p) (snd p)) (combine x y)
  | _, _ => false
  end.

Definition orow_eqb (a b : option row) : bool :=
  match a, b with
  | None, None => true
  | Some x, Some y => Z.eqb x y
  | _, _ => false
  end.

Definition bstat_eqb (a b : bstat) : bool :=
  Z.eqb (bs_file a) (bs_file b) && Z.eqb (bs_off a) (bs_off b) && Z.eqb (bs_rows a) (bs_rows b) &&
  Z.eqb (bs_bytes a) (bs_bytes b) && Z.eqb (bs_trows a) (bs_trows b) && Z.eqb (bs_tbytes a) (bs_tbytes b) &&
  Bool.eqb (bs_skipped a) (bs_skipped b).

Fixpoint list_eqb {A} (eq : A -> A -> bool) (a b : list A) : bool :=
  match a, b with
  | [], [] => true
  | x :: a', y :: b' => eq x y && list_eqb eq a' b'
  | _, _ => false
  end.

(* observed Stats() aggregate *)
Record sobs := { so_processed : Z; so_skipped : Z; so_rows : Z; so_bytes : Z; so_matched : Z; so_blocks : list bstat }.

Definition qstats_agree (q : qstats) (o : sobs) : bool :=
  Z.eqb (qs_processed q) (so_processed o) && Z.eqb (qs_skipped q) (so_skipped o) &&
  Z.eqb (qs_rows q) (so_rows o) && Z.eqb (qs_bytes q) (so_bytes o) && Z.eqb (qs_matched q) (so_matched o) &&
  list_eqb bstat_eqb (qs_blocks q) (so_blocks o).

(* does the model agree with one observation *)
Definition obs_agrees (l : clabel) (s : cur) (o : cobs) : bool :=
  match o with
  | ONone => true
  | ONext ret r =>
      match next_result l with
      | Some b => Bool.eqb b ret && orow_eqb (cur_row s) r
      | None => false
      end
  | OErr e => terr_eqb (cur_err s) e
  | OStat m n => Z.eqb (h_matched (c_h s)) m && Z.eqb (Z.of_nat (length (m_stats (c_m s)))) n
  end.

Definition is_onext (o : cobs) : bool := match o with ONext _ _ => true | _ => false end.

(* a label that completes a Next call must carry the observed result *)
Definition obs_ok (l : clabel) (s : cur) (os : list cobs) : bool :=
  forallb (obs_agrees l s) os &&
  match next_result l with Some _ => existsb is_onext os | None => true end.

(* replay: Some final state iff the log is a run of the model and every observation agrees *)
Fixpoint creplay (fx : bool) (s : cur) (ops : list (clabel * list cobs)) : option cur :=
  match ops with
  | [] => Some s
  | (l, o) :: t =>
      match cursor_step fx s l with
      | Some s' => if obs_ok l s' o then creplay fx s' t else None
      | None => None
      end
  end.

(* index of the first op the model rejects (for diagnostics) *)
Fixpoint creplay_stuck (fx : bool) (s : cur) (ops : list (clabel * list cobs)) (i : nat) : option nat :=
  match ops with
  | [] => None
  | (l, o) :: t =>
      match cursor_step fx s l with
      | Some s' => if obs_ok l s' o then creplay_stuck fx s' t (S i) else Some i
      | None => Some i
      end
  end.

Record ccase := {
  cc_fx : bool;                       (* which code the tree under test has *)
  cc_closers : nat;
  cc_ops : list (clabel * list cobs);
  cc_err : terr;                      (* final Err() *)
  cc_err_after_close : terr;          (* Err() after one more Close() *)
  cc_stats : sobs                     (* final Stats() *)
}.

Definition ccase_mismatch (c : ccase) : bool :=
  match creplay (cc_fx c) (cinit (cc_closers c)) (cc_ops c) with
  | None => true
  | Some s =>
      negb (terr_eqb (cur_err s) (cc_err c)) ||
      negb (qstats_agree (cur_stats s) (cc_stats c))
  end.

(* --- the C20 predicate on the implementation's observations *)
Definition flat_obs (ops : list (clabel * list cobs)) : list cobs := flat_map snd ops.

(* Next = true after Next = false *)
Fixpoint sticky_broken (seen_false : bool) (os : list cobs) : bool :=
  match os with
  | [] => false
  | ONext ret _ :: t => if seen_false && ret then true else sticky_broken (seen_false || negb ret) t
  | _ :: t => sticky_broken seen_false t
  end.

(* Err() observations after the terminal state was first observed must all be equal *)
Fixpoint errs_after_false (seen_false : bool) (os : list cobs) : list terr :=
  match os with
  | [] => []
  | ONext ret _ :: t => errs_after_false (seen_false || negb ret) t
  | OErr e :: t => if seen_false then e :: errs_after_false seen_false t else errs_after_false seen_false t
  | _ :: t => errs_after_false seen_false t
  end.

Definition all_same_err (l : list terr) : bool :=
  match l with
  | [] => true
  | e :: t => forallb (terr_eqb e) t
  end.

Definition has_label (p : clabel -> bool) (ops : list (clabel * list cobs)) : bool := existsb (fun x => p (fst x)) ops.
Definition is_record_err (l : clabel) : bool := match l with LRecordErr _ => true | _ => false end.
Definition is_cancel (l : clabel) : bool := match l with LCancelBegin => true | _ => false end.

Definition count_next_true (os : list cobs) : Z :=
  fold_right (fun o acc => match o with ONext true _ => (1 + acc)%Z | _ => acc end) 0%Z os.

Definition ccase_violates (c : ccase) : bool :=
  let ops := cc_ops c in
  let os := flat_obs ops in
  sticky_broken false os ||
  negb (all_same_err (errs_after_false false os ++ [cc_err c; cc_err_after_close c])) ||
  (* nil although a failure was recorded *)
  (terr_eqb (cc_err c) TNil && has_label is_record_err ops) ||
  (* the ctx error although the caller never cancelled *)
  (terr_eqb (cc_err c) TCancel && negb (has_label is_cancel ops)) ||
  match creplay (cc_fx c) (cinit (cc_closers c)) ops with
  | None => false
  | Some s =>
      (* nil although Next decided after the caller's cancel had returned (D7) *)
      (terr_eqb (cc_err c) TNil &&
       match m_finby (c_m s), m_decphase (c_m s) with ByNext, CYes => true | _, _ => false end) ||
      (* iterated to the end: RowsMatched = rows returned *)
      (complete s && negb (Z.eqb (so_matched (cc_stats c)) (count_next_true os)))
  end.

(* ------------------------------------------------------------------ case type *)
Inductive caseQ :=
| QCursor (c : ccase).

Definition mismatch (c : caseQ) : bool :=
  match c with
  | QCursor cc => ccase_mismatch cc
  end.

Definition violates (c : caseQ) : bool :=
  match c with
  | QCursor cc => ccase_violates cc
  end.

Fixpoint indices_where {A} (f : A -> bool) (l : list A) (i : nat) : list nat :=
  match l with
  | [] => []
  | x :: t => if f x then i :: indices_where f t (S i) else indices_where f t (S i)
  end.

Definition mismatches (cs : list caseQ) : list nat := indices_where mismatch cs 0.
Definition violations (cs : list caseQ) : list nat := indices_where violates cs 0.
