(* Case evaluation for C14: the totally ordered log of store-level actions of a concurrent run
   (queries x flushes x merges on one of the two MetaStores) is replayed through Model/MetaStores.v;
   what every query delivered is compared with the model's query, and the property is evaluated on
   what the implementation delivered. *)
From BS Require Import Model.MetaStores.
From Coq Require Import List Bool Arith.
Import ListNotations.
Open Scope nat_scope.

Record qobs := mkQobs {
  o_q : nat;                      (* query id *)
  o_rows : list nat;              (* rows the cursor returned *)
  o_err : bool;                   (* Err() was non-nil *)
  o_files : list nat              (* files the MetaStore iterator yielded to this query *)
}.

Inductive caseM :=
| CMeta (k : mkind) (log : list mlabel) (obs : list qobs).

Definition same_nats (a b : list nat) : bool :=
  (length a =? length b) && incln a b && incln b a.

Definition eval_caseM (c : caseM) : bool * bool :=
  match c with
  | CMeta k log obs =>
      match mrun k m0 log with
      | None => (true, false)
      | Some s =>
          fold_left (fun acc o =>
            match nth_error (s_queries s) (o_q o) with
            | None => (true, snd acc)
            | Some q =>
                let mism := negb (q_done q) || negb (Bool.eqb (q_err q) (o_err o))
                            || negb (same_nats (q_got q) (o_rows o))
                            || match q_snap q with Some sn => negb (same_nats sn (o_files o)) | None => true end in
                (* the property on what the implementation returned: a nil error means every row acknowledged
                   before the start exactly once and nothing that was not ingested *)
                let viol := negb (o_err o) &&
                            negb (nodupn (o_rows o) && incln (q_acked0 q) (o_rows o) && incln (o_rows o) (s_ingested s)) in
                (fst acc || mism, snd acc || viol)
            end) obs (false, false)
      end
  end.

Fixpoint indices_whereM {A} (f : A -> bool) (l : list A) (i : nat) : list nat :=
  match l with
  | [] => []
  | x :: t => if f x then i :: indices_whereM f t (S i) else indices_whereM f t (S i)
  end.

Definition mismatchesM (cs : list caseM) : list nat := indices_whereM (fun x => fst (eval_caseM x)) cs 0.
Definition violationsM (cs : list caseM) : list nat := indices_whereM (fun x => snd (eval_caseM x)) cs 0.

(* debugging aid: length of the longest prefix of the log the model accepts *)
Fixpoint accepted (k : mkind) (s : mstate) (ls : list mlabel) (n : nat) : nat :=
  match ls with
  | [] => n
  | l :: t => match mstep k s l with Some s' => accepted k s' t (S n) | None => n end
  end.
Definition diagM (c : caseM) : nat * nat := match c with CMeta k log _ => (accepted k m0 log 0, length log) end.
