(* Case evaluation for family T (file format): model vs implementation, and the
   C03 / C17 / C19 predicates evaluated on what the implementation did.
   The checksum is the executable CRC32C of Lib/Crc32c.v; the bloom decoder, the
   decompressors and the JSON decoder are oracle tables holding library answers. *)
From BS Require Import Lib.Bytes Lib.Wrap64 Lib.Crc32c Model.Framing Model.Validate Model.FilterRegion Model.Footer Model.ScanPool.
From Coq Require Import List ZArith NArith Bool Arith.
Import ListNotations.
Open Scope Z_scope.

(* ---- oracle tables ---- *)
Fixpoint assoc_str {A} (k : str) (l : list (str * A)) : option A :=
  match l with [] => None | (x, v) :: t => if str_eqb x k then Some v else assoc_str k t end.

Definition dec_of (tab : list (str * bool)) : str -> bool :=
  fun x => match assoc_str x tab with Some b => b | None => false end.
Definition unz_of (tab : list (str * option str)) : comp -> str -> option str :=
  fun _ c => match assoc_str c tab with Some r => r | None => None end.

(* ---- equality of observables ---- *)
Definition ostr_eqb (a b : option str) : bool :=
  match a, b with None, None => true | Some x, Some y => str_eqb x y | _, _ => false end.
Definition filters_eqb (a b : filters) : bool :=
  let '(a1, a2, a3) := a in let '(b1, b2, b3) := b in ostr_eqb a1 b1 && ostr_eqb a2 b2 && ostr_eqb a3 b3.
Definition ofilters_eqb (a b : option filters) : bool :=
  match a, b with None, None => true | Some x, Some y => filters_eqb x y | _, _ => false end.

Definition block_eqb (a b : blockJ) : bool :=
  (rdo a =? rdo b) && (rds a =? rds b) && (bfo a =? bfo b) && (bfs a =? bfs b) &&
  (b_rows a =? b_rows b) && (b_usize a =? b_usize b) && comp_eqb (b_comp a) (b_comp b) &&
  (b_hash a =? b_hash b)%N && eqb (b_has_hash a) (b_has_hash b) && cnt_eqb (b_cnt a) (b_cnt b).

Fixpoint list_eqb {A} (f : A -> A -> bool) (a b : list A) : bool :=
  match a, b with
  | [], [] => true
  | x :: a', y :: b' => f x y && list_eqb f a' b'
  | _, _ => false
  end.

Definition meta_eqb (a b : metaJ) : bool :=
  (m_roff a =? m_roff b) && (m_rsize a =? m_rsize b) && (m_ffs a =? m_ffs b) && cnt_eqb (m_cnt a) (m_cnt b) &&
  list_eqb block_eqb (m_blocks a) (m_blocks b).

Definition zz_eqb (a b : Z * Z) : bool := (fst a =? fst b) && (snd a =? snd b).
Definition ozz_eqb (a b : option (Z * Z)) : bool :=
  match a, b with None, None => true | Some x, Some y => zz_eqb x y | _, _ => false end.

(* ---- cases ---- *)
Record cobs := {           (* what one filtersFor call showed *)
  co_err : bool; co_readfail : bool;
  co_read : option (Z * Z);
  co_chunk : option (Z * Z);          (* chunkStart, len(buf) afterwards *)
  co_held : option Z;                 (* size of the slice heldSection returned *)
  co_bytes_ok : bool                  (* that slice equals file[bfo : bfo+bfs] (compared by the harness) *)
}.

Record fblock := {         (* what the harness knows about one block of an engine-written file *)
  fb_rows : list str;                 (* the marshaled rows it ingested, in stored order *)
  fb_entries : list (str * str * str);(* independent walker output per row: fields, tokens, field-tokens, each a
                                         packed list of 2-byte big-endian indexes into the case's dictionary *)
  fb_filters : filters                (* filters rebuilt independently from those entries *)
}.

(* dictionary decoding of packed entry lists *)
Fixpoint unpack (dict : list str) (p : str) : list str :=
  match p with
  | a :: b :: t => nth (N.to_nat (a * 256 + b)) dict [] :: unpack dict t
  | _ => []
  end.
Definition unpack3 (dict : list str) (e : str * str * str) : entry3 :=
  let '(f, t, ft) := e in (unpack dict f, unpack dict t, unpack dict ft).
Definition fb_entries3 (dict : list str) (fb : fblock) : list entry3 := map (unpack3 dict) (fb_entries fb).

Inductive caseT :=
| TScan (data : str) (obs_rows : list str) (obs_ok : bool)
| TFrame (rows : list str) (obs : str) (obs_usize obs_nrows : Z)
| TEncode (fs : filters) (obs : option str)
| TParse (s : str) (dtab : list (str * bool)) (obs : option filters)
| TDecode (b : blockJ) (c : str) (ztab : list (str * option str)) (obs : option str)
| TValidate (m : metaJ) (limit : Z) (obs : bool)
| TValidFs (b : blockJ) (rs re : Z) (obs : bool)
| TPlan (blocks : list blockJ) (roff rsize : Z) (obs : option (Z * Z * bool))
| TCursor (blocks : list blockJ) (rs re target fsize : Z) (order : list nat) (parse_ok : list bool) (obs : list cobs)
| TReadMeta (file : str) (jd : option metaJ) (dtab : list (str * bool)) (obs_reads : list (Z * Z)) (obs : option (metaJ * Z * filters))
| TFile (file : str) (jd : option metaJ) (dtab : list (str * bool)) (ztab : list (str * option str))
        (obs : metaJ) (ffilters : filters) (dict : list str) (blocks : list fblock)
| TPoolGet (size cap : Z)
| TOwn (next : N) (evs : list oev)
| TPooled (k : comp) (read_evs release_evs : list oev).   (* what one readPooledBlockRowData call and its release did to the pool *)

Definition scan_res_eqb (a b : list str * bool) : bool := list_eqb str_eqb (fst a) (fst b) && eqb (snd a) (snd b).

Definition chunk_obs (c : option chunk) : option (Z * Z) :=
  match c with None => None | Some k => Some (ck_start k, ck_len k) end.

(* what the model expects a filtersFor call to show *)
Definition step_matches (parse_ok : list bool) (order_i : nat) (st : fstep) (o : cobs) : bool :=
  let pok := nth order_i parse_ok false in
  let '(err, rf) :=
    match fs_kind st with
    | KInvalid => (true, false) | KEmpty => (false, false)
    | KSection => (negb pok, false) | KMiss => (true, false) | KReadFail => (true, true)
    end in
  eqb err (co_err o) && eqb rf (co_readfail o) && ozz_eqb (fs_read st) (co_read o) &&
  ozz_eqb (chunk_obs (fs_chunk st)) (co_chunk o) &&
  match fs_held st, co_held o with
  | None, None => true
  | Some (_, n), Some n' => n =? n'
  | _, _ => false
  end.

Fixpoint steps_match (parse_ok : list bool) (order : list nat) (sts : list fstep) (obs : list cobs) : bool :=
  match order, sts, obs with
  | _, [], [] => true
  | i :: order', st :: sts', o :: obs' => step_matches parse_ok i st o && steps_match parse_ok order' sts' obs'
  | _, _, _ => false
  end.

Definition pool_get_ok (size cap : Z) : bool :=
  match get_class size with
  | GNil => cap =? 0
  | GUnpooled c => cap =? c
  | GClass k => (2 ^ k <=? cap) && (cap <? 2 ^ (k + 1))
  end.

(* descriptors of a file's blocks as the write-side model builds them from what the harness knows *)
(* the file cut by cumulative observed sizes: row data pieces, then section pieces, then the file-level section *)
Fixpoint cut (file : str) (off : Z) (sizes : list Z) : list str * Z :=
  match sizes with
  | [] => ([], off)
  | n :: t => let '(r, e) := cut file (off + n) t in (slice file off n :: r, e)
  end.

Definition fb_desc (dict : list str) (x : blockJ * fblock * (str * str)) : bdesc :=
  let '(ob, fb, (c, sec)) := x in
  {| d_c := c; d_sec := sec; d_rds := lenZ c;
     d_rows := acc_rows (fb_rows fb); d_usize := acc_usize (fb_rows fb); d_comp := b_comp ob;
     d_hash := crc32c c; d_has_hash := true; d_cnt := counts_from (fb_entries3 dict fb) |}.

Definition all_entries (dict : list str) (blocks : list fblock) : list entry3 := flat_map (fb_entries3 dict) blocks.

Definition predicted_meta (file : str) (obs : metaJ) (dict : list str) (blocks : list fblock) : wstate * metaJ * str :=
  let '(cs, e1) := cut file 0 (map rds (m_blocks obs)) in
  let '(secs, e2) := cut file e1 (map bfs (m_blocks obs)) in
  let fsec := slice file e2 (m_ffs obs) in
  let descs := map (fb_desc dict) (combine (combine (m_blocks obs) blocks) (combine cs secs)) in
  let st := fold_left emit descs ws_init in
  (st, final_meta st fsec (counts_from (all_entries dict blocks)), fsec).

(* the pool events of a read and of its release against the program of Model/ScanPool.v, region
   numbers and sizes taken from the observation *)
Definition oev_eqb (a b : oev) : bool :=
  match a, b with
  | OGet r s c, OGet r' s' c' => (r =? r')%N && (s =? s') && (c =? c')
  | OPut r c, OPut r' c' => (r =? r')%N && (c =? c')
  | _, _ => false
  end.

Definition pooled_matches (k : comp) (read_evs release_evs : list oev) : bool :=
  match read_evs with
  | OGet c csize ccap :: rest =>
      let '(d, dsize, dcap) := match rest with OGet d dsize dcap :: _ => (d, dsize, dcap) | _ => (c, csize, ccap) end in
      let '(evs, r) := pooled_read k c d csize ccap dsize dcap in
      list_eqb oev_eqb evs read_evs && list_eqb oev_eqb (pooled_release k ccap dcap r) release_evs
  | _ => false
  end.

Definition mismatch (c : caseT) : bool :=
  match c with
  | TScan data rows ok => negb (scan_res_eqb (scan data) (rows, ok))
  | TFrame rows obs us nr => negb (str_eqb (frame rows) obs && (acc_usize rows =? us) && (acc_rows rows =? nr))
  | TEncode fs obs => negb (ostr_eqb (encode_section crc32c fs) obs)
  | TParse s dtab obs => negb (ofilters_eqb (parse_section crc32c (dec_of dtab) s) obs)
  | TDecode b c ztab obs => negb (ostr_eqb (decode_block crc32c (unz_of ztab) b c) obs)
  | TValidate m limit obs => negb (eqb (validate m limit) obs)
  | TValidFs b rs re obs => negb (eqb (validate_fs b rs re) obs)
  | TPlan blocks roff rsize obs =>
      match plan_reads blocks roff rsize, obs with
      | None, None => false
      | Some (a, b, h), Some (a', b', h') => negb ((a =? a') && (b =? b') && eqb h h')
      | _, _ => true
      end
  | TCursor blocks rs re target fsize order pok obs =>
      negb (steps_match pok order (cursor_pass blocks rs re target fsize None order) obs)
  | TReadMeta file jd dtab reads obs =>
      let '(mreads, mres) := read_metadata crc32c (dec_of dtab) (fun _ => jd) file in
      negb (list_eqb zz_eqb mreads reads &&
            match mres, obs with
            | None, None => true
            | Some (m, sz, ff), Some (m', sz', ff') => meta_eqb m m' && (sz =? sz') && filters_eqb ff ff'
            | _, _ => false
            end)
  | TFile file jd dtab ztab obs ffilt dict blocks =>
      let '(_, mres) := read_metadata crc32c (dec_of dtab) (fun _ => jd) file in
      let '(st, pm, fsec) := predicted_meta file obs dict blocks in
      negb (match mres with Some (m, sz, _) => meta_eqb m obs && (sz =? lenZ file) | None => false end &&
            meta_eqb pm obs &&
            is_prefix (ws_data st ++ ws_region st ++ fsec) file &&
            (length (m_blocks obs) =? length blocks)%nat)
  | TPoolGet size cap => negb (pool_get_ok size cap)
  | TOwn _ evs =>
      existsb (fun e => match e with OGet _ size cap => negb (pool_get_ok size cap) | _ => false end) evs
  | TPooled k rd rl => negb (pooled_matches k rd rl)
  end.

(* ---- property predicates on the implementation's output ---- *)
Definition ext_in (lo hi : Z) (e : Z * Z) : bool :=
  let '(o, n) := e in (lo <=? o) && (0 <=? n) && (o + n <=? hi).

(* every extent the metadata names lies where the format says, in plain integers *)
Definition meta_in_bounds (m : metaJ) (limit : Z) : bool :=
  (0 <=? m_roff m) && (0 <=? m_rsize m) && (m_roff m + m_rsize m <=? limit) &&
  forallb (fun b =>
    ext_in 0 (m_roff m) (rdo b, rds b) && (0 <=? bfs b) &&
    ((bfs b =? 0) || ext_in (m_roff m) (m_roff m + m_rsize m) (bfo b, bfs b))) (m_blocks m).

Definition violates (c : caseT) : bool :=
  match c with
  | TScan data rows ok =>
      (* rows handed out are exactly a framed prefix of the data: nothing invented, nothing beyond the end *)
      negb (is_prefix (frame rows) data) || (ok && negb (lenZ (frame rows) =? lenZ data))
  | TFrame rows obs _ _ => negb (scan_res_eqb (scan obs) (rows, true))
  | TParse s dtab obs =>
      (* an accepted section is the canonical encoding of what was returned, checksum included *)
      match obs with
      | None => false
      | Some fs => negb (ostr_eqb (encode_section crc32c fs) (Some s))
      end
  | TDecode b c _ obs =>
      match obs with Some _ => b_has_hash b && negb (crc32c c =? b_hash b)%N | None => false end
  | TValidate m limit obs => obs && negb (meta_in_bounds m limit)
  | TPlan blocks roff rsize obs =>
      match obs with
      | None => false
      | Some (rs, re, _) =>
          negb ((0 <=? rs) && (rs <=? re) && (rs =? roff) && (re =? roff + rsize) &&
                forallb (fun b => (0 <=? bfs b) && ((bfs b =? 0) || ext_in rs re (bfo b, bfs b))) blocks)
      end
  | TCursor blocks rs re target fsize order pok obs =>
      (* every chunk read stays inside the region, no chunk exceeds max(cap, one section),
         and a section served from a chunk is the file's bytes at the recorded offset *)
      let maxsec := fold_left (fun a b => Z.max a (bfs b)) blocks target in
      existsb (fun o =>
        match co_read o with None => false | Some e => negb (ext_in rs re e) || (snd e >? maxsec) end ||
        match co_held o with Some _ => negb (co_err o) && negb (co_bytes_ok o) | None => false end) obs
  | TReadMeta file jd dtab reads obs =>
      let fsz := lenZ file in
      existsb (fun e => negb (ext_in 0 fsz e)) reads ||
      match obs with
      | None => false
      | Some (m, sz, _) =>
          let mlen := rd32 (slice file (fsz - 16) 4) in
          negb (sz =? fsz) || negb ((0 <=? m_ffs m) && meta_in_bounds m (fsz - FooterTail - mlen - m_ffs m))
      end
  | TFile file jd dtab ztab obs ffilt dict blocks =>
      let fsz := lenZ file in
      let mlen := rd32 (slice file (fsz - 16) 4) in
      let fsec := slice file (m_roff obs + m_rsize obs) (m_ffs obs) in
      negb (layout_ok fsz mlen obs &&
            cnt_eqb (m_cnt obs) (counts_from (all_entries dict blocks)) &&
            ostr_eqb (encode_section crc32c ffilt) (Some fsec) &&
            forallb (fun p => let '(b, fb) := p in
                       b_has_hash b &&
                       describes crc32c (dec_of dtab) (unz_of ztab) file b (fb_rows fb) (fb_filters fb) (counts_from (fb_entries3 dict fb)))
                    (combine (m_blocks obs) blocks))
  | TPoolGet size cap => cap <? size
  | TOwn next evs =>
      match ofirst_bad (o_init next) evs 0 with
      | None => false
      | Some _ => negb (existsb (fun e => match e with OGet _ size cap => negb (pool_get_ok size cap) | _ => false end) evs)
      end
  | TPooled k rd rl =>
      (* on its own the call must respect the discipline: nothing put that is not held, the scanned
         buffer put exactly once and only by release *)
      match ofirst_bad (o_init 0) (rd ++ rl) 0 with None => false | Some _ => true end
  | _ => false
  end.

Fixpoint indices_where {A} (f : A -> bool) (l : list A) (i : nat) : list nat :=
  match l with
  | [] => []
  | x :: t => if f x then i :: indices_where f t (S i) else indices_where f t (S i)
  end.

Definition mismatches (cs : list caseT) : list nat := indices_where mismatch cs 0.
Definition violations (cs : list caseT) : list nat := indices_where violates cs 0.
