(* Case evaluation for C15 (crash consistency of the filesystem store): the label log of a whole
   history of a real engine on a real directory is replayed through the model; for every probed
   crash point the image the harness recovered from is checked against the model's crash relation,
   the model's recovery against the real scan, and the property on what the fresh engine saw. *)
From BS Require Import Lib.Bytes Model.FsStore Model.FsCrash Cases.RunnerF.
From Coq Require Import List NArith Bool Arith.
Import ListNotations.
Open Scope nat_scope.

Inductive ckind := KProc | KPower.

Record probe := mkProbe {
  p_k : nat;                       (* crash after the first k entries of the log *)
  p_kind : ckind;
  p_img : list (fname * str);      (* the directory image the fresh engine was started on *)
  p_rec : list (str * str)         (* what its directory scan yielded: (base, bytes) *)
}.

Inductive caseC :=
| CCrash (fixed : bool) (maxatt : nat) (tab : list (str * bool)) (merges : bool)
         (rows : list (nat * list nat))                      (* writer id -> row ids in its file *)
         (log : (nat -> str) -> list elabel)
         (probes : (nat -> str) -> list probe).

Definition rows_fn (rows : list (nat * list nat)) (a : nat) : list nat :=
  match find (fun p => fst p =? a) rows with Some p => snd p | None => [] end.

Definition nodup_nat (l : list nat) : bool :=
  (fix go (l : list nat) := match l with [] => true | x :: t => negb (memb x t) && go t end) l.

(* the property, judged on what the fresh engine's scan showed (p_rec), with the model state at the
   crash point as the oracle for "acknowledged", "written by a writer", "rows of a file" *)
(* lazy conjunction: vm_compute evaluates the arguments of [andb] eagerly *)
Notation "a &&& b" := (if a then b else false) (at level 40, left associativity).

Definition crash_violated (c : cfg) (merges : bool) (rows : nat -> list nat) (es : estate) (p : probe) : bool :=
  let s := e_s es in
  let ws := enumerate 0 (s_ws s) in
  let shown (w : writer) := existsb (pair_eqb (w_base w, w_written w)) (p_rec p) in
  (* the writers whose complete file the scan showed, and the live ones among them *)
  let shown_ws := filter (fun q => w_hasino (snd q) &&& negb (w_hopen (snd q)) &&& shown (snd q)) ws in
  let shown_live := filter (fun q => live_file (snd q)) shown_ws in
  let live_valid := forallb (fun q => if live_file (snd q) then valid c (w_written (snd q)) else true) ws in
  (* only complete files written by a writer: nothing partial, nothing invented *)
  negb (forallb (fun e => existsb (fun q => pair_eqb (w_base (snd q), w_written (snd q)) e) shown_ws) (p_rec p))
  (* one entry per name *)
  || negb (nodup_names (map (fun e => (fst e, Dat)) (p_rec p)))
  (* every acknowledged row is there *)
  || (live_valid &&&
      negb (forallb (fun a => forallb (fun r => existsb (fun q => memb r (rows (fst q))) shown_live) (rows a)) (e_acked es)))
  (* no row more often than it was ingested *)
  || negb (nodup_nat (rows_of rows (map fst (filter (fun q => valid c (w_written (snd q))) shown_ws)))).

Definition eval_probe (c : cfg) (merges : bool) (rows : nat -> list nat) (log : list elabel) (p : probe) : bool * bool :=
  let disc := if merges then merge_disc rows else flush_disc in
  match erun c disc e0 (firstn (p_k p) log) with
  | None => (true, false)            (* the log is not a run of the model under the engine's discipline *)
  | Some es =>
      let f := s_fs (e_s es) in
      let img_ok := match p_kind p with
                    | KProc => same_set ent_eqb (proc_image f) (p_img p)
                    | KPower => power_okb f (p_img p)
                    end in
      (negb img_ok || negb (same_set pair_eqb (recover c (p_img p)) (p_rec p)),
       crash_violated c merges rows es p)
  end.

Definition eval_caseC (cs : caseC) : bool * bool :=
  match cs with
  | CCrash fixed maxatt tab merges rows log probes =>
      let c := mkC fixed maxatt (valid_in tab) in
      let t := fun i => fst (nth i tab ([], false)) in
      let lg := log t in
      (* the whole log must be a run *)
      let whole := match erun c (if merges then merge_disc (rows_fn rows) else flush_disc) e0 lg with
                   | Some _ => false | None => true end in
      fold_left (fun acc p => let '(m, v) := eval_probe c merges (rows_fn rows) lg p in (fst acc || m, snd acc || v))
                (probes t) (whole, false)
  end.

Definition mismatchesC (cs : list caseC) : list nat := indices_where (fun x => fst (eval_caseC x)) cs 0.
Definition violationsC (cs : list caseC) : list nat := indices_where (fun x => snd (eval_caseC x)) cs 0.

(* debugging aid: first probe that fails, with (mismatch, violation) *)
Definition diagC (cs : caseC) : option (nat * (bool * bool)) :=
  match cs with
  | CCrash fixed maxatt tab merges rows log probes =>
      let c := mkC fixed maxatt (valid_in tab) in
      let t := fun i => fst (nth i tab ([], false)) in
      let lg := log t in
      (fix go (ps : list probe) (i : nat) :=
         match ps with
         | [] => None
         | p :: r => let x := eval_probe c merges (rows_fn rows) lg p in
                     if fst x || snd x then Some (i, x) else go r (S i)
         end) (probes t) 0
  end.
