(* Case evaluation for family G (merge): model vs implementation, and the C11/C12/C13
   predicates evaluated on what the implementation did. *)
From BS Require Import Lib.Bytes Model.MinMax Model.MergePlan Model.MergeCommit.
From Coq Require Import List ZArith NArith Bool Arith.
Open Scope Z_scope.

(* an output block as read back from the output file *)
Record oblock := {
  ob_part : str;
  ob_mm : list (str * (Z * Z));
  ob_nrows : Z;                 (* metadata Rows *)
  ob_usize : Z;                 (* metadata UncompressedSize *)
  ob_tags : list Z;             (* tags of the rows actually stored, in order *)
  ob_bytes : Z;                 (* length of the decoded row data *)
  ob_srcs : list Z              (* ids of the source blocks its rows came from *)
}.

(* one merge group as reconstructed from the Update call and the output file *)
Record ogroup := { og_files : list Z; og_out : Z; og_blocks : list oblock }.

Inductive caseG :=
(* blockMergeKey on two block metadata values: the bytes of both keys *)
| GKey (m1 m2 : blockmeta) (k1 k2 : str)
(* one committed Merge: limits, the files the iterator yielded (in that order, with rows),
   whether two candidates share a sort key, the reconstructed groups, the returned stats
   (files, row groups, rows, bytes), the pointers in the MetaStore afterwards *)
| GMerge (c : cfg) (files : list file) (tie : bool) (obs : list ogroup) (stats : Z * Z * Z * Z) (after : list Z)
(* one Merge under faults: the files yielded, writer has Abort, MetaStore kind, CreateFile
   pointers per group, partition visiting orders per group, failing call indices, the observed
   (collapsed) call trace, return class, MetaStore pointers before / after *)
| GCommit (c : cfg) (files : list file) (has_abort : bool) (k : mskind) (outs : list Z) (porders : list (list str))
          (faults : list nat) (obs_tr : list ev) (obs_ret : ret) (before after : list Z)
(* visible pointers at some point of a run that has not (yet) committed, against the pointers
   before the merge *)
| GVis (before seen : list Z)
(* event log of concurrent Merge calls *)
| GSingle (evs : list sfev).

(* ---- helpers ---- *)
Fixpoint insert_z (x : Z) (l : list Z) : list Z :=
  match l with [] => [x] | y :: t => if x <=? y then x :: l else y :: insert_z x t end.
Definition sort_z (l : list Z) : list Z := fold_right insert_z [] l.
Fixpoint list_z_eqb (a b : list Z) : bool :=
  match a, b with
  | [], [] => true
  | x :: a', y :: b' => (x =? y) && list_z_eqb a' b'
  | _, _ => false
  end.
Definition set_z_eqb (a b : list Z) : bool := list_z_eqb (sort_z a) (sort_z b).
Definition mem_zl (x : list Z) (l : list (list Z)) : bool := existsb (list_z_eqb x) l.
(* set of sets: inner lists compared as multisets, outer as sets of the same size *)
Definition sets_eqb (a b : list (list Z)) : bool :=
  let a' := map sort_z a in let b' := map sort_z b in
  (length a' =? length b')%nat && forallb (fun x => mem_zl x b') a' && forallb (fun x => mem_zl x a') b'.
Fixpoint nodup_z (l : list Z) : bool :=
  match l with [] => true | x :: t => negb (mem_z x t) && nodup_z t end.

Definition find_file (files : list file) (p : Z) : list file :=
  match find (fun f => f_ptr f =? p) files with Some f => [f] | None => [] end.
Definition files_of (files : list file) (ps : list Z) : list file := flat_map (find_file files) ps.
Definition find_block (bs : list block) (id : Z) : list block :=
  match find (fun b => b_id b =? id) bs with Some b => [b] | None => [] end.
Definition find_row (rs : list mrow) (t : Z) : list mrow :=
  match find (fun r => mr_tag r =? t) rs with Some r => [r] | None => [] end.

Definition opt_pair_eqb (a b : option (Z * Z)) : bool :=
  match a, b with
  | None, None => true
  | Some (a1, a2), Some (b1, b2) => (a1 =? b1) && (a2 =? b2)
  | _, _ => false
  end.
Fixpoint dedup_keys (seen : list str) (a : list (str * (Z * Z))) : list (str * (Z * Z)) :=
  match a with
  | [] => []
  | (k, v) :: t => if mem_str k seen then dedup_keys seen t else (k, v) :: dedup_keys (k :: seen) t
  end.
Definition mm_sub (a b : list (str * (Z * Z))) : bool :=
  forallb (fun '(k, v) => opt_pair_eqb (Some v) (assoc k b)) a.
Definition mm_eqb (a b : list (str * (Z * Z))) : bool :=
  mm_sub (dedup_keys [] a) b && mm_sub (dedup_keys [] b) a.
Definition keys_sub (a b : list (str * (Z * Z))) : bool :=
  forallb (fun kv => mem_str (fst kv) (map fst b)) a.
Definition keys_eqb (a b : list (str * (Z * Z))) : bool := keys_sub a b && keys_sub b a.

(* sizes of outputs are whatever the compressor produced: not compared *)
Definition env0 : env := {| e_disk := fun _ => 0; e_fparam := 0 |}.

(* ---- GMerge: model vs implementation ---- *)
Definition model_block_plan (c : cfg) (g : list file) : list (list block) :=
  plan_blocks c (partitions_of (group_blocks g)) (group_blocks g).

(* an observed output block against the model's output for the plan group with the same sources *)
Definition oblock_agrees (plan : list (list block)) (ob : oblock) : bool :=
  match find (fun pg => set_z_eqb (map b_id pg) (ob_srcs ob)) plan with
  | None => false
  | Some pg =>
      let mb := out_block env0 pg in
      str_eqb (b_part mb) (ob_part ob) && mm_eqb (b_minmax mb) (ob_mm ob)
      && (b_nrows mb =? ob_nrows ob) && (b_usize mb =? ob_usize ob)
      && set_z_eqb (map mr_tag (b_rows mb)) (ob_tags ob)
  end.

Definition ogroup_agrees (c : cfg) (files : list file) (og : ogroup) : bool :=
  let g := files_of files (og_files og) in
  let plan := model_block_plan c g in
  sets_eqb (map (map b_id) plan) (map ob_srcs (og_blocks og))
  && forallb (oblock_agrees plan) (og_blocks og).

Definition stats_eqb (a b : Z * Z * Z * Z) : bool :=
  let '(a1, a2, a3, a4) := a in let '(b1, b2, b3, b4) := b in
  (a1 =? b1) && (a2 =? b2) && (a3 =? b3) && (a4 =? b4).

Definition merge_agrees (c : cfg) (files : list file) (tie : bool) (obs : list ogroup) (stats : Z * Z * Z * Z)
  (after : list Z) : bool :=
  (tie || sets_eqb (map (map f_ptr) (plan_files c files)) (map og_files obs))
  && forallb (ogroup_agrees c files) obs
  && stats_eqb (merge_stats (map (fun og => files_of files (og_files og)) obs)) stats
  && set_z_eqb after
       (filter (fun p => negb (mem_z p (flat_map og_files obs))) (map f_ptr files) ++ map og_out obs).

(* ---- GMerge: C11 on the implementation's output ---- *)
Definition covers_valb (mm : list (str * (Z * Z))) (kv : str * (Z * Z)) : bool :=
  let '(k, (lo, hi)) := kv in
  match assoc k mm with
  | Some (mn, mx) => (mn <=? lo) && (hi <=? mx)
  | None => false
  end.

Definition row_in_placeb (ob : oblock) (r : mrow) : bool :=
  str_eqb (ob_part ob) (mr_part r) && forallb (covers_valb (ob_mm ob)) (mr_vals r).

Definition c11_ok (files : list file) (obs : list ogroup) : bool :=
  let in_rows := all_rows files in
  let kept := filter (fun f => negb (mem_z (f_ptr f) (flat_map og_files obs))) files in
  let oblocks := flat_map og_blocks obs in
  (* the multiset of stored rows is unchanged *)
  set_z_eqb (map mr_tag in_rows) (map mr_tag (all_rows kept) ++ flat_map ob_tags oblocks)
  (* every row of an output block is in place: partition and ranges *)
  && forallb (fun ob => forallb (fun t => match find_row in_rows t with
                                           | [r] => row_in_placeb ob r
                                           | _ => false
                                           end) (ob_tags ob)) oblocks
  (* a combined block has the key set of each source *)
  && forallb (fun ob => forallb (fun id => match find_block (all_blocks files) id with
                                            | [b] => keys_eqb (b_minmax b) (ob_mm ob) || (length (ob_srcs ob) <=? 1)%nat
                                            | _ => false
                                            end) (ob_srcs ob)) oblocks.

(* ---- GMerge: C12 on the implementation's output ---- *)
Definition c12_ok (c : cfg) (files : list file) (obs : list ogroup) : bool :=
  let oblocks := flat_map og_blocks obs in
  forallb (fun ob =>
             (length (ob_srcs ob) <=? 1)%nat
             || ((Z.of_nat (length (ob_tags ob)) <=? c_max_rows c) && (ob_bytes ob <=? c_max_bytes c)
                 && (ob_nrows ob <=? c_max_rows c) && (ob_usize ob <=? c_max_bytes c)
                 && match flat_map (find_block (all_blocks files)) (ob_srcs ob) with
                    | [] => false
                    | b :: t => forallb (fun x => str_eqb (b_part x) (b_part b) && keys_eqb (b_minmax x) (b_minmax b)) t
                                && (length (b :: t) =? length (ob_srcs ob))%nat
                    end)) oblocks
  && (Z.of_nat (length (flat_map og_files obs)) <=? Z.max 0 (c_max_files c))
  && forallb (fun og => (2 <=? length (og_files og))%nat
                        && (zsum (map f_total_size (files_of files (og_files og))) <=? c_max_file_size c)
                        && (length (files_of files (og_files og)) =? length (og_files og))%nat) obs
  && nodup_z (flat_map og_files obs).

(* ---- GCommit ---- *)
Definition call_eqb (a b : call) : bool :=
  match a, b with
  | KIter, KIter => true
  | KCreate x, KCreate y | KOpen x, KOpen y | KRead x, KRead y | KWrite x, KWrite y
  | KClose x, KClose y | KAbort x, KAbort y | KTomb x, KTomb y => x =? y
  | KUpdate w d, KUpdate w' d' => set_z_eqb w w' && set_z_eqb d d'
  | _, _ => false
  end.
Definition ev_eqb (a b : ev) : bool := call_eqb (e_call a) (e_call b) && eqb (e_ok a) (e_ok b).
Fixpoint trace_eqb (a b : list ev) : bool :=
  match a, b with
  | [], [] => true
  | x :: a', y :: b' => ev_eqb x y && trace_eqb a' b'
  | _, _ => false
  end.
Definition ret_eqb (a b : ret) : bool :=
  match a, b with
  | RetStats, RetStats | RetStatsCleanup, RetStatsCleanup | RetErr, RetErr | RetInProgress, RetInProgress => true
  | _, _ => false
  end.
Definition fo_of (faults : list nat) : oracle := fun n => existsb (Nat.eqb n) faults.
Definition outp_of (outs : list Z) : nat -> Z := fun i => nth i outs (1000000 + Z.of_nat i).
Definition pfile (p : Z) : file := {| f_ptr := p; f_blocks := []; f_fparam := 0; f_ents := [] |}.

Definition commit_agrees (c : cfg) (files : list file) (ha : bool) (k : mskind) (outs : list Z)
  (porders : list (list str)) (faults : list nat) (obs_tr : list ev) (obs_ret : ret) (before after : list Z) : bool :=
  let '(tr, r) := merge_engine c (fo_of faults) ha (outp_of outs) porders files in
  trace_eqb tr obs_tr && ret_eqb r obs_ret
  && set_z_eqb (map f_ptr (vis_after k pfile (map pfile before) tr)) after.

(* the C13 predicates on the observed trace *)
Definition commit_ok (obs_tr : list ev) (obs_ret : ret) (before after : list Z) : bool :=
  ret_okb obs_tr obs_ret
  && match split_update obs_tr with
     | Some (_, (ws, ds), _) =>
         (* committed: sources unreferenced, outputs referenced *)
         negb (committedb obs_tr) || set_z_eqb after (filter (fun p => negb (mem_z p ds)) before ++ ws)
     | None => true
     end.

(* ---- GSingle: direct check, independent of the LTS ---- *)
(* holders: callers between a successful TryLock and their return *)
Fixpoint sf_check (holder : option nat) (refused : list nat) (evs : list sfev) : bool :=
  match evs with
  | [] => true
  | SfTry c :: t =>
      match holder with
      | None => sf_check (Some c) refused t
      | Some _ => sf_check holder (c :: refused) t
      end
  | SfCall c :: t =>
      negb (existsb (Nat.eqb c) refused) && match holder with Some h => Nat.eqb h c | None => false end
      && sf_check holder refused t
  | SfRet c ip :: t =>
      if existsb (Nat.eqb c) refused
      then ip && sf_check holder (filter (fun x => negb (Nat.eqb x c)) refused) t
      else negb ip && sf_check None refused t
  end.

(* ---- verdicts ---- *)
Definition mismatch (x : caseG) : bool :=
  match x with
  | GKey m1 m2 k1 k2 =>
      negb (str_eqb (merge_key m1) k1) || negb (str_eqb (merge_key m2) k2)
  | GMerge c files tie obs stats after => negb (merge_agrees c files tie obs stats after)
  | GCommit c files ha k outs porders faults obs_tr obs_ret before after =>
      negb (commit_agrees c files ha k outs porders faults obs_tr obs_ret before after)
  | GVis _ _ => false
  | GSingle evs => match sf_replay sf_init evs with Some _ => false | None => true end
  end.

(* injectivity of the key on the implementation's bytes: equal bytes iff same partition and
   same key set *)
Definition key_violates (m1 m2 : blockmeta) (k1 k2 : str) : bool :=
  negb (eqb (str_eqb k1 k2)
            (str_eqb (b_partition m1) (b_partition m2) && keys_eqb (b_mm m1) (b_mm m2))).

Definition violates11 (x : caseG) : bool :=
  match x with
  | GMerge c files tie obs stats after => negb (c11_ok files obs)
  | _ => false
  end.

Definition violates12 (x : caseG) : bool :=
  match x with
  | GKey m1 m2 k1 k2 => key_violates m1 m2 k1 k2
  | GMerge c files tie obs stats after => negb (c12_ok c files obs)
  | _ => false
  end.

Definition violates13 (x : caseG) : bool :=
  match x with
  | GCommit c files ha k outs porders faults obs_tr obs_ret before after =>
      negb (commit_ok obs_tr obs_ret before after)
  | GVis before seen => negb (set_z_eqb before seen)
  | GSingle evs => negb (sf_check None [] evs)
  | _ => false
  end.

Fixpoint indices_where {A} (f : A -> bool) (l : list A) (i : nat) : list nat :=
  match l with
  | [] => []
  | x :: t => if f x then i :: indices_where f t (S i) else indices_where f t (S i)
  end.

Definition mismatches (cs : list caseG) : list nat := indices_where mismatch cs 0.
Definition violations11 (cs : list caseG) : list nat := indices_where violates11 cs 0.
Definition violations12 (cs : list caseG) : list nat := indices_where violates12 cs 0.
Definition violations13 (cs : list caseG) : list nat := indices_where violates13 cs 0.
