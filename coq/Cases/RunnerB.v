(* Case evaluation for C25: constructors, builder, JSON shapes. *)
From BS Require Import Lib.Bytes Model.Json Model.Expr Model.MinMax Model.QueryFn Model.Builder Cases.RunnerR.
From Coq Require Import List ZArith Bool String.
Import ListNotations.

Fixpoint rexpr_eqb (a b : rexpr) : bool :=
  match a, b with
  | RCond None, RCond None => true
  | RCond (Some (f, p)), RCond (Some (g, q)) => str_eqb f g && str_eqb p q
  | RAnd xs, RAnd ys | ROr xs, ROr ys =>
      (fix go (l m : list rexpr) : bool :=
         match l, m with
         | [], [] => true
         | x :: l', y :: m' => rexpr_eqb x y && go l' m'
         | _, _ => false
         end) xs ys
  | RUnk, RUnk => true
  | _, _ => false
  end.

Definition op_eqb (a b : op) : bool :=
  match a, b with
  | OpEQ, OpEQ | OpNE, OpNE | OpGT, OpGT | OpGTE, OpGTE | OpLT, OpLT | OpLTE, OpLTE
  | OpIN, OpIN | OpNOTIN, OpNOTIN | OpBETWEEN, OpBETWEEN | OpNOTBETWEEN, OpNOTBETWEEN | OpUnknown, OpUnknown => true
  | _, _ => false
  end.

Definition scond_eqb (a b : scond) : bool :=
  op_eqb (s_op a) (s_op b) && str_eqb (s_val a) (s_val b) && list_eqb str_eqb (s_vals a) (s_vals b)
  && str_eqb (s_min a) (s_min b) && str_eqb (s_max a) (s_max b).
Definition ncond_eqb (a b : ncond) : bool :=
  op_eqb (n_op a) (n_op b) && Z.eqb (n_val a) (n_val b) && list_eqb Z.eqb (n_vals a) (n_vals b)
  && Z.eqb (n_min a) (n_min b) && Z.eqb (n_max a) (n_max b).

Definition pcond_eqb (a b : pcond) : bool :=
  match a, b with
  | PPartition None, PPartition None => true
  | PPartition (Some x), PPartition (Some y) => scond_eqb x y
  | PMinMax f None, PMinMax g None => str_eqb f g
  | PMinMax f (Some x), PMinMax g (Some y) => str_eqb f g && ncond_eqb x y
  | PUnknownCond, PUnknownCond => true
  | _, _ => false
  end.

Fixpoint pexpr_eqb (a b : pexpr) : bool :=
  match a, b with
  | PCond None, PCond None => true
  | PCond (Some x), PCond (Some y) => pcond_eqb x y
  | PAnd xs, PAnd ys | POr xs, POr ys =>
      (fix go (l m : list pexpr) : bool :=
         match l, m with
         | [], [] => true
         | x :: l', y :: m' => pexpr_eqb x y && go l' m'
         | _, _ => false
         end) xs ys
  | PUnknown, PUnknown => true
  | _, _ => false
  end.

Definition opt_eqb {A} (eqb : A -> A -> bool) (a b : option A) : bool :=
  match a, b with None, None => true | Some x, Some y => eqb x y | _, _ => false end.

Definition query_eqb (a b : query) : bool :=
  opt_eqb pexpr_eqb (q_pre a) (q_pre b) && opt_eqb bexpr_eqb (q_bloom a) (q_bloom b) && opt_eqb rexpr_eqb (q_regex a) (q_regex b).

Fixpoint gj_eqb (a b : gj) : bool :=
  match a, b with
  | GNull, GNull => true
  | GStr x, GStr y => str_eqb x y
  | GInt x, GInt y => Z.eqb x y
  | GArr xs, GArr ys =>
      (fix go (l m : list gj) : bool :=
         match l, m with
         | [], [] => true
         | x :: l', y :: m' => gj_eqb x y && go l' m'
         | _, _ => false
         end) xs ys
  | GObj xs, GObj ys =>
      (fix go (l m : list (string * gj)) : bool :=
         match l, m with
         | [], [] => true
         | (k, x) :: l', (k', y) :: m' => String.eqb k k' && gj_eqb x y && go l' m'
         | _, _ => false
         end) xs ys
  | _, _ => false
  end.

Inductive caseB :=
| CCtorB (is_and : bool) (kids : list bexpr) (obs : bexpr)       (* And(...) / Or(...) *)
| CCtorR (is_and : bool) (kids : list rexpr) (obs : rexpr)       (* RegexAnd / RegexOr *)
| CCtorP (is_and : bool) (kids : list pexpr) (obs : pexpr)       (* PrefilterAnd / PrefilterOr *)
| CBuild (calls : list bcall) (obs : query)                      (* QueryBuilder chain + Build *)
| CJsonB (e : bexpr) (enc : gj) (back : bexpr)                   (* json.Marshal shape, json.Unmarshal result *)
| CJsonR (e : rexpr) (enc : gj) (back : rexpr)
| CJsonP (e : pexpr) (enc : gj) (back : pexpr).

Definition mismatchB (c : caseB) : bool :=
  match c with
  | CCtorB a kids obs => negb (bexpr_eqb (if a then mk_and kids else mk_or kids) obs)
  | CCtorR a kids obs => negb (rexpr_eqb (if a then mk_rand kids else mk_ror kids) obs)
  | CCtorP a kids obs => negb (pexpr_eqb (if a then mk_pand kids else mk_por kids) obs)
  | CBuild calls obs => negb (query_eqb (build calls) obs)
  | CJsonB e enc back => negb (gj_eqb (bexpr_json e) enc && bexpr_eqb (bexpr_of_json (bexpr_depth e) enc) back)
  | CJsonR e enc back => negb (gj_eqb (rexpr_json e) enc && rexpr_eqb (rexpr_of_json (rexpr_depth e) enc) back)
  | CJsonP e enc back => negb (gj_eqb (pexpr_json e) enc && pexpr_eqb (pexpr_of_json (pexpr_depth e) enc) back)
  end.

(* the property itself, structurally: what came back from JSON is the tree that went in *)
Definition violatesB (c : caseB) : bool :=
  match c with
  | CJsonB e _ back => negb (bexpr_eqb e back)
  | CJsonR e _ back => negb (rexpr_eqb e back)
  | CJsonP e _ back => negb (pexpr_eqb e back)
  | _ => false
  end.

Definition mismatchesB (cs : list caseB) : list nat := indices_where mismatchB cs 0.
Definition violationsB (cs : list caseB) : list nat := indices_where violatesB cs 0.
