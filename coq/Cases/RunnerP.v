(* Case evaluation for family P.  A case is one run of the implementation: the merged,
   totally ordered log of hook events, store calls and harness observations, plus what
   queries saw.  [replay] pushes the log through [Pipeline.step] (trace inclusion, checked
   step by step; a label whose guard fails stops the replay = mismatch, never a violation),
   checks the observation events against the model state, and the final state against what
   the harness saw from outside.  The property predicates are evaluated on the
   implementation's own observations (acks received, rows seen, calls logged). *)
From BS Require Import Model.Pipeline.
From Coq Require Import List ZArith Bool Arith.
Import ListNotations.
Open Scope Z_scope.

Inductive ev :=
| EL (l : label)                       (* a step of the LTS *)
| OFqTry (nw np : nat)                 (* triggerFlush entered with nw waiters and np partition buffers *)
| OBufTotals (rows bytes : Z)          (* bufferedRowCount / bufferedBytes after a batch was added *)
| OCall (r : nat)                      (* harness: about to call IngestRows / Flush *)
| ORet (r : nat) (acc : bool)          (* harness: the call returned; acc: it was accepted *)
| ORecv (r : nat) (x : res)            (* harness: a value arrived on r's done channel (Flush: its result) *)
| OStoreCtx (k : skind) (live : bool). (* store wrapper: the ctx passed to the next store call was live *)

Record caseP := mkCase {
  cp_cfg : cfg;
  cp_log : list ev;
  cp_once_same : list nat;     (* requests all of whose rows a final query on this engine saw exactly once *)
  cp_once_fresh : list nat;    (* the same on a fresh engine over the same stores *)
  cp_any : list nat;           (* requests of which at least one row was seen by any query, at any time *)
  cp_bad : list nat;           (* requests seen partially or with a duplicated row in some query *)
  cp_final_exact : bool }.     (* nothing was in flight when the final queries ran *)

(* annotations collected while replaying *)
Record ackrec := mkAck { ak_pos : nat; ak_r : nat; ak_x : res; ak_o : outcome; ak_fc : bool; ak_ch : option chcap }.
Record ann := mkAnn {
  an_acks : list ackrec;
  an_bufs : list (nat * (bool * bool));   (* request, limit reached (model), flushed (implementation) *)
  an_maxun : Z;                            (* peak of accepted-but-unattempted, counted on the log *)
  an_un : Z;
  an_obs_ok : bool }.                      (* every observation event agreed with the model state *)

Definition ack_target (s : state) (w : who) : option (nat * res) :=
  match w with
  | Actor => match apc s with AAckNow r x => Some (r, x) | AAbandon (r :: _) => Some (r, RErr) | _ => None end
  | Worker => match wpc s with WAck x (r :: _) => Some (r, x) | _ => None end
  end.

Definition obs_check (c : cfg) (s : state) (e : ev) : bool :=
  match e with
  | OFqTry nw np =>
      match apc s with AEnq f => Nat.eqb (length (fw f)) nw && Nat.eqb (fparts f) np | _ => false end
  | OBufTotals rows bytes =>
      match apc s with
      | AHold r => match kind_of s r with
                   | Some (KBatch true ct) =>
                       let b' := buf_add r ct (buf s) in (b_rows b' =? rows) && (b_bytes b' =? bytes)
                   | _ => false end
      | _ => false
      end
  | _ => true
  end.

Definition annotate (c : cfg) (s : state) (pos : nat) (e : ev) (a : ann) : ann :=
  match e with
  | EL (LAck w o) =>
      match ack_target s w with
      | Some (r, x) =>
          mkAnn (an_acks a ++ [mkAck pos r x o (fcanc s) (chan_of s r)]) (an_bufs a) (an_maxun a) (an_un a - 1) (an_obs_ok a)
      | None => a
      end
  | EL (LSent _) =>
      let u := an_un a + 1 in mkAnn (an_acks a) (an_bufs a) (Z.max (an_maxun a) u) u (an_obs_ok a)
  | EL (LActorBuffer fl) =>
      match apc s with
      | AHold r => match kind_of s r with
                   | Some (KBatch true ct) =>
                       mkAnn (an_acks a) (an_bufs a ++ [(r, (limit_flush c (buf_add r ct (buf s)) ct, fl))]) (an_maxun a) (an_un a) (an_obs_ok a)
                   | _ => a end
      | _ => a
      end
  | EL _ => a
  | _ => mkAnn (an_acks a) (an_bufs a) (an_maxun a) (an_un a) (an_obs_ok a && obs_check c s e)
  end.

(* replay: None = some label was not enabled (position lost on purpose: the driver reports the case) *)
Fixpoint replay (c : cfg) (s : state) (pos : nat) (a : ann) (log : list ev) : option state * ann :=
  match log with
  | [] => (Some s, a)
  | e :: t =>
      let a' := annotate c s pos e a in
      match e with
      | EL l => match step c s l with
                | Some s' => replay c s' (S pos) a' t
                | None => (None, a')
                end
      | _ => replay c s (S pos) a' t
      end
  end.

Definition ann0 : ann := mkAnn [] [] 0 0 true.
Definition run_case (cs : caseP) : option state * ann := replay (cp_cfg cs) init 0 ann0 (cp_log cs).

(* ---- reading the log ---- *)
Fixpoint find_pos (p : ev -> bool) (l : list ev) (i : nat) : option nat :=
  match l with [] => None | e :: t => if p e then Some i else find_pos p t (S i) end.
Definition pos_ret (log : list ev) (r : nat) : option nat :=
  find_pos (fun e => match e with ORet q true => Nat.eqb q r | _ => false end) log 0.
Definition pos_call (log : list ev) (r : nat) : option nat :=
  find_pos (fun e => match e with OCall q => Nat.eqb q r | _ => false end) log 0.
Definition pos_label (log : list ev) (p : label -> bool) : option nat :=
  find_pos (fun e => match e with EL l => p l | _ => false end) log 0.
Definition tried (log : list ev) : list (nat * (kind * chcap)) :=
  flat_map (fun e => match e with EL (LTry r k ch) => [(r, (k, ch))] | _ => [] end) log.
Definition accepted_obs (log : list ev) : list nat :=
  flat_map (fun e => match e with ORet r true => [r] | _ => [] end) log.
Definition recvs (log : list ev) : list (nat * res) :=
  flat_map (fun e => match e with ORecv r x => [(r, x)] | _ => [] end) log.
Definition count_recv (log : list ev) (r : nat) : nat :=
  length (filter (fun '(q, _) => Nat.eqb q r) (recvs log)).
Definition res_eqb (a b : res) : bool := match a, b with RNil, RNil | RErr, RErr => true | _, _ => false end.
Definition recv_of (log : list ev) (r : nat) : option res := assoc r (recvs log).
Definition stop_result (log : list ev) : option res :=
  match flat_map (fun e => match e with EL (LStopReturn x) => [x] | _ => [] end) log with x :: _ => Some x | [] => None end.
Definition lt_opt (a b : option nat) : bool :=
  match a, b with Some x, Some y => Nat.ltb x y | _, _ => false end.
Definition nonempty_kind (k : kind) : bool := match k with KBatch _ (_ :: _) => true | _ => false end.
Definition durable_kind (k : kind) : bool := match k with KForce => true | KBatch true (_ :: _) => true | _ => false end.
Definition same_set (a b : list nat) : bool := forallb (fun x => mem x b) a && forallb (fun x => mem x a) b.

(* ---- model vs implementation ---- *)
Definition final_agrees (cs : caseP) (s : state) : bool :=
  let log := cp_log cs in
  (* values received from outside = deliveries the model performed *)
  forallb (fun '(r, _) =>
     match recv_of log r, ack s r with
     | Some x, Some y => res_eqb x y && Nat.eqb (count_recv log r) 1
     | None, None => true
     | _, _ => false
     end) (tried log)
  (* accepted as seen by the callers = accepted by the model *)
  && same_set (accepted_obs log) (accepted s)
  (* rows visible at the end = rows the model committed *)
  && (negb (cp_final_exact cs)
      || same_set (cp_once_same cs) (filter (is_rows s) (visible s))).

Definition mismatch (cs : caseP) : bool :=
  match run_case cs with
  | (None, _) => true
  | (Some s, a) => negb (an_obs_ok a) || negb (final_agrees cs s)
  end.

(* ---- the properties, evaluated on what the implementation did ---- *)
Definition with_chan (log : list ev) (r : nat) : bool :=
  match assoc r (tried log) with Some (_, ChNil) | None => false | _ => true end.

(* C05: no batch answered twice; after a graceful Stop every accepted batch with a channel
   was answered exactly once *)
Definition v05 (cs : caseP) : bool :=
  let log := cp_log cs in
  existsb (fun '(r, _) => Nat.ltb 1 (count_recv log r)) (tried log)
  || match stop_result log with
     | Some RNil => existsb (fun r => with_chan log r && negb (Nat.eqb (count_recv log r) 1)) (accepted_obs log)
     | _ => false
     end.

(* C06: nil => every row visible exactly once here and on a fresh engine; error or invalid => never visible *)
Definition v06 (cs : caseP) : bool :=
  let log := cp_log cs in
  existsb (fun '(r, (k, _)) =>
    match k with
    | KBatch true (_ :: _) =>
        match recv_of log r with
        | Some RNil => negb (mem r (cp_once_same cs) && mem r (cp_once_fresh cs)) || mem r (cp_bad cs)
        | Some RErr => mem r (cp_any cs)
        | None => mem r (cp_bad cs)
        end
    | KBatch false _ => mem r (cp_any cs)
    | _ => false
    end) (tried log).

(* C07: when a durable subject (non-empty batch, Flush) is answered nil and flush cancellation has
   not fired, every non-empty batch whose call returned before the subject's call began has
   already been attempted *)
Definition v07 (cs : caseP) (a : ann) : bool :=
  let log := cp_log cs in
  let tr := tried log in
  existsb (fun k =>
    match ak_x k, ak_o k, ak_fc k, assoc (ak_r k) tr with
    | RNil, AOk, false, Some (kd, _) =>
        durable_kind kd &&
        existsb (fun '(q, (kq, _)) =>
           nonempty_kind kq && negb (Nat.eqb q (ak_r k)) && lt_opt (pos_ret log q) (pos_call log (ak_r k))
           && negb (existsb (fun k2 => Nat.eqb (ak_r k2) q && Nat.ltb (ak_pos k2) (ak_pos k)) (an_acks a))) tr
    | _, _, _, _ => false
    end) (an_acks a).

(* a flush request taken (after the point the list starts at) and then begun *)
Fixpoint take_then_begin (taken : bool) (l : list ev) : bool :=
  match l with
  | [] => false
  | EL LWorkerTake :: t => take_then_begin true t
  | EL LFlBegin :: t => taken || take_then_begin taken t
  | _ :: t => take_then_begin taken t
  end.

(* C08: nothing accepted once the stopped flag is set; nil => drained (v05); after a deadline
   return no CreateFile / Update is started under a live context and no flush request taken after the
   return is begun; a buffered channel is never given up *)
Definition v08 (cs : caseP) (a : ann) : bool :=
  let log := cp_log cs in
  let pflag := pos_label log (fun l => match l with LStopFlag => true | _ => false end) in
  let pret := pos_label log (fun l => match l with LStopReturn RErr => true | _ => false end) in
  existsb (fun r => lt_opt pflag (pos_call log r)) (accepted_obs log)
  || match pflag with
     | Some p => match find_pos (fun e => match e with EL (LSent _) => true | _ => false end) (skipn (S p) log) 0 with Some _ => true | None => false end
     | None => false
     end
  || match pret with
     | Some p => existsb (fun e => match e with OStoreCtx KCreate true | OStoreCtx KUpdate true => true | _ => false end) (skipn (S p) log)
     | None => false
     end
  || match pret with
     | Some p => take_then_begin false (skipn (S p) log)
     | None => false
     end
  || existsb (fun k => match ak_o k, ak_ch k with AGiveUp, Some ChBuf => true | _, _ => false end) (an_acks a)
  (* no silence: once the flush worker has exited, every accepted batch with a buffered channel got its value *)
  || match pos_label log (fun l => match l with LWorkerExit => true | _ => false end) with
     | Some _ => existsb (fun r => match assoc r (tried log) with
                                   | Some (_, ChBuf) => negb (Nat.eqb (count_recv log r) 1)
                                   | _ => false end) (accepted_obs log)
     | None => false
     end
  || v05 cs.

(* C09: accepted-but-unattempted never exceeds the bound of the configuration *)
Definition v09 (cs : caseP) (a : ann) : bool := bound (cp_cfg cs) <? an_maxun a.

(* C10: a batch that brought the buffer to a limit was flushed at once *)
Definition v10 (cs : caseP) (a : ann) : bool :=
  existsb (fun '(_, (lim, fl)) => lim && negb fl) (an_bufs a).

Definition viol (sel : caseP -> ann -> bool) (cs : caseP) : bool := sel cs (snd (run_case cs)).

Fixpoint indices_where {A} (f : A -> bool) (l : list A) (i : nat) : list nat :=
  match l with
  | [] => []
  | x :: t => if f x then i :: indices_where f t (S i) else indices_where f t (S i)
  end.

Definition mismatches (cs : list caseP) : list nat := indices_where mismatch cs 0.
Definition violations_C05 (cs : list caseP) : list nat := indices_where (viol (fun c _ => v05 c)) cs 0.
Definition violations_C06 (cs : list caseP) : list nat := indices_where (viol (fun c _ => v06 c)) cs 0.
Definition violations_C07 (cs : list caseP) : list nat := indices_where (viol v07) cs 0.
Definition violations_C08 (cs : list caseP) : list nat := indices_where (viol v08) cs 0.
Definition violations_C09 (cs : list caseP) : list nat := indices_where (viol v09) cs 0.
Definition violations_C10 (cs : list caseP) : list nat := indices_where (viol v10) cs 0.
Definition violations_all (cs : list caseP) : list nat :=
  indices_where (viol (fun c a => v05 c || v06 c || v07 c a || v08 c a || v09 c a || v10 c a)) cs 0.

(* ---- diagnosis (used by the driver's replay files and while developing) ---- *)
Fixpoint fail_pos (c : cfg) (s : state) (pos : nat) (log : list ev) : option nat :=
  match log with
  | [] => None
  | EL l :: t => match step c s l with Some s' => fail_pos c s' (S pos) t | None => Some pos end
  | e :: t => if obs_check c s e then fail_pos c s (S pos) t else Some pos
  end.
(* (position of the first label or observation the model rejects, final comparison ok) *)
Definition diagnose (cs : caseP) : option nat * bool :=
  (fail_pos (cp_cfg cs) init 0 (cp_log cs),
   match run_case cs with (Some s, _) => final_agrees cs s | _ => false end).
