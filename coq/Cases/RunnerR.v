(* Case evaluation for family R (C01, C02, C18, C24, C25). *)
From BS Require Import Lib.Bytes Model.Json Model.Expr Model.MinMax Model.QueryFn Model.Matcher.
From Coq Require Import List ZArith NArith Bool.
Import ListNotations.

(* oracle tables: what the external libraries answered on exactly the arguments of the case *)
Definition toktab := list (str * list str).
Definition retab := list (str * str * bool).                 (* pattern, text, regexp.MatchString *)
Definition ftab1 := option (list (str * bool)).              (* nil filter, or TestString per entry *)
Record ftab := { t_field : ftab1; t_token : ftab1; t_ft : ftab1 }.

Definition tok_of (tab : toktab) (t : str) : list str :=
  match assoc t tab with Some l => l | None => [] end.

Definition re_of (tab : retab) (p t : str) : bool :=
  existsb (fun x => let '(p', t', b) := x in str_eqb p p' && str_eqb t t' && b) tab.

(* an entry that is missing from a table answers false, so a gap in the oracle shows up as a
   mismatch instead of silently agreeing *)
Definition test_of (t : ftab1) : option (str -> bool) :=
  match t with
  | None => None
  | Some tab => Some (fun x => match assoc x tab with Some b => b | None => false end)
  end.

Definition filters_of (t : ftab) : filters :=
  {| f_field := test_of (t_field t); f_token := test_of (t_token t); f_ft := test_of (t_ft t) |}.

Record cblock := { cb_meta : blockmeta; cb_filters : ftab; cb_section : bool; cb_rows : list srow }.
Record cfile := { cf_filters : ftab; cf_blocks : list cblock }.

Definition block_of (b : cblock) : block :=
  {| bk_meta := cb_meta b; bk_filters := filters_of (cb_filters b); bk_section := cb_section b; bk_rows := cb_rows b |}.
Definition file_of (f : cfile) : file :=
  {| fl_filters := filters_of (cf_filters f); fl_blocks := map block_of (cf_blocks f) |}.

(* what the instrumented DataStore saw during one query: files opened, (file, block) pairs whose
   row-data extent was read, files whose block filter region was read; indexes into [files] *)
Record readobs := { ro_opened : list Z; ro_rows : list (Z * Z); ro_region : list Z }.

Inductive caseR :=
| CWalk (row : json) (obs : list em)                                           (* pathWalker emissions, in order *)
| CEntries (row : json) (tok : toktab) (fields tokens fts : list str)          (* indexRow entry sets *)
| CMatch (row : json) (tok : toktab) (re : retab) (qb : option bexpr) (qr : option rexpr)
         (obs refobs : bool)                                                    (* matchRowBytes, set-based reference *)
| CGuard (qb : option bexpr) (qr : option rexpr) (obs : option bexpr)          (* the pruning query Query builds *)
| CPrune (F : ftab) (q : option bexpr) (obs : bool)                            (* evaluateBloomFilters on real filters *)
| CQuery (tok : toktab) (re : retab) (files : list cfile) (q : query) (obs : list Z)  (* ids Query returned *)
         (reads : option readobs).                                              (* DataStore activity of the query *)

(* ---- equality tests ---- *)
Definition leaf_eqb (a b : leaf) : bool :=
  match a, b with
  | LContainer, LContainer => true
  | LNull, LNull => true
  | LText x, LText y => str_eqb x y
  | _, _ => false
  end.

Fixpoint list_eqb {A} (eqb : A -> A -> bool) (a b : list A) : bool :=
  match a, b with
  | [], [] => true
  | x :: a', y :: b' => eqb x y && list_eqb eqb a' b'
  | _, _ => false
  end.

Definition em_eqb (a b : em) : bool := str_eqb (fst a) (fst b) && leaf_eqb (snd a) (snd b).

Definition set_eqb (a b : list str) : bool :=
  forallb (fun x => mem_str x b) a && forallb (fun x => mem_str x a) b.

Definition bcond_eqb (a b : bcond) : bool :=
  match a, b with
  | CField f, CField g => str_eqb f g
  | CToken t, CToken u => str_eqb t u
  | CFieldToken f t, CFieldToken g u => str_eqb f g && str_eqb t u
  | CUnk, CUnk => true
  | _, _ => false
  end.

Fixpoint bexpr_eqb (a b : bexpr) : bool :=
  match a, b with
  | BCond None, BCond None => true
  | BCond (Some x), BCond (Some y) => bcond_eqb x y
  | BAnd xs, BAnd ys =>
      (fix go (l : list bexpr) (m : list bexpr) : bool :=
         match l, m with
         | [], [] => true
         | x :: l', y :: m' => bexpr_eqb x y && go l' m'
         | _, _ => false
         end) xs ys
  | BOr xs, BOr ys =>
      (fix go (l : list bexpr) (m : list bexpr) : bool :=
         match l, m with
         | [], [] => true
         | x :: l', y :: m' => bexpr_eqb x y && go l' m'
         | _, _ => false
         end) xs ys
  | BUnk, BUnk => true
  | _, _ => false
  end.

Definition obexpr_eqb (a b : option bexpr) : bool :=
  match a, b with
  | None, None => true
  | Some x, Some y => bexpr_eqb x y
  | _, _ => false
  end.

Definition zcount (x : Z) (l : list Z) : nat := length (filter (Z.eqb x) l).
Definition zperm_eqb (a b : list Z) : bool :=
  Nat.eqb (length a) (length b) && forallb (fun x => Nat.eqb (zcount x a) (zcount x b)) a.

Fixpoint enum_from {A} (i : Z) (l : list A) : list (Z * A) :=
  match l with [] => [] | x :: t => (i, x) :: enum_from (i + 1)%Z t end.
Definition enum {A} (l : list A) : list (Z * A) := enum_from 0%Z l.
Definition idx_where {A} (p : A -> bool) (l : list A) : list Z := map fst (filter (fun ix => p (snd ix)) (enum l)).
Definition zmem (x : Z) (l : list Z) : bool := existsb (Z.eqb x) l.
Definition zset_eqb (a b : list Z) : bool := forallb (fun x => zmem x b) a && forallb (fun x => zmem x a) b.
Definition pair_eqb (a b : Z * Z) : bool := Z.eqb (fst a) (fst b) && Z.eqb (snd a) (snd b).
Definition pmem (x : Z * Z) (l : list (Z * Z)) : bool := existsb (pair_eqb x) l.
Definition pairset_eqb (a b : list (Z * Z)) : bool := forallb (fun x => pmem x b) a && forallb (fun x => pmem x a) b.
Definition nthZ {A} (l : list A) (i : Z) : option A := nth_error l (Z.to_nat i).

(* ---- model side ---- *)
Definition model_match (row : json) tok re qb qr : bool := row_sat (tok_of tok) (re_of re) qb qr row.

Definition model_ids tok re (files : list cfile) (q : query) : list Z :=
  map sr_id (run_query (tok_of tok) (re_of re) q (map file_of files)).

Definition stored_rows (files : list cfile) : list srow :=
  flat_map (fun f => flat_map cb_rows (cf_blocks f)) files.

Definition mismatch (c : caseR) : bool :=
  match c with
  | CWalk row obs => negb (list_eqb em_eqb (walk_row row) obs)
  | CEntries row tok fs ts fts =>
      let es := walk_row row in
      negb (set_eqb (e_fields es) fs && set_eqb (e_tokens (tok_of tok) es) ts
            && set_eqb (e_fieldtokens (tok_of tok) es) fts)
  | CMatch row tok re qb qr obs refobs =>
      let m := model_match row tok re qb qr in
      negb (eqb m obs) || negb (eqb m refobs)
      || negb (eqb (compiled_match (tok_of tok) (re_of re) qb qr (walk_row row)) obs)   (* the algorithmic model *)
  | CGuard qb qr obs => negb (obexpr_eqb (prune_query qb qr) obs)
  | CPrune F q obs => negb (eqb (prune_q (filters_of F) q) obs)
  | CQuery tok re files q obs reads =>
      negb (zperm_eqb (model_ids tok re files q) obs)
      || match reads with
         | None => false
         | Some ro =>
             let fs := map file_of files in
             negb (zset_eqb (idx_where (opens_file q) fs) (ro_opened ro)
                   && zset_eqb (idx_where (reads_region q) fs) (ro_region ro)
                   && pairset_eqb (flat_map (fun jf => map (fun i => (fst jf, i)) (idx_where (reads_rows q (snd jf)) (fl_blocks (snd jf)))) (enum fs))
                                  (ro_rows ro))
         end
  end.

(* C01: a stored row that matches (and whose own partition / indexed values satisfy the
   prefilter) is missing; at row level: the matcher rejects a row the documented semantics accept *)
Definition violates_c01 (c : caseR) : bool :=
  match c with
  | CMatch row tok re qb qr obs _ => model_match row tok re qb qr && negb obs
  | CQuery tok re files q obs _ =>
      existsb (fun r => row_matches (tok_of tok) (re_of re) q r && row_pre q r
                        && Nat.ltb (zcount (sr_id r) obs) (zcount (sr_id r) (map sr_id (stored_rows files))))
              (stored_rows files)
  | _ => false
  end.

(* C02: a returned row is not stored, does not match, or is returned more often than stored;
   without a prefilter the multiset differs from the matching stored rows *)
Definition violates_c02 (c : caseR) : bool :=
  match c with
  | CMatch row tok re qb qr obs _ => negb (model_match row tok re qb qr) && obs
  | CQuery tok re files q obs _ =>
      let stored := stored_rows files in
      existsb (fun id =>
        negb (existsb (fun r => Z.eqb (sr_id r) id && row_matches (tok_of tok) (re_of re) q r) stored)
        || Nat.ltb (zcount id (map sr_id stored)) (zcount id obs)) obs
      || match q_pre q with
         | None => negb (zperm_eqb (map sr_id (filter (row_matches (tok_of tok) (re_of re) q) stored)) obs)
         | Some _ =>
             (* block-granular: exactly the matching rows of the blocks whose metadata passes the prefilter;
                in particular nothing from a block lacking the metadata a condition references *)
             negb (zperm_eqb (map sr_id (flat_map (fun b => if block_passes (q_pre q) (cb_meta b)
                                                             then filter (row_matches (tok_of tok) (re_of re) q) (cb_rows b) else [])
                                                  (flat_map cf_blocks files))) obs)
         end
  | _ => false
  end.

(* C18 (bloom part): a real filter answers false for an entry of a row it covers.
   CPrune cases carry no rows; coverage is checked through CQuery tables: every entry of every
   stored row that appears in a table must be answered true *)
Definition table_covers (t : ftab1) (entries : list str) : bool :=
  match t with
  | None => true
  | Some tab => forallb (fun kv => let '(k, b) := kv in b || negb (mem_str k entries)) tab
  end.

Definition ftab_covers (tok : toktab) (t : ftab) (rows : list srow) : bool :=
  forallb (fun r =>
    let es := walk_row (sr_json r) in
    table_covers (t_field t) (e_fields es) && table_covers (t_token t) (e_tokens (tok_of tok) es)
    && table_covers (t_ft t) (e_fieldtokens (tok_of tok) es)) rows.

Definition violates_c18 (c : caseR) : bool :=
  match c with
  | CQuery tok _ files _ _ _ =>
      negb (forallb (fun f =>
        ftab_covers tok (cf_filters f) (flat_map cb_rows (cf_blocks f))
        && forallb (fun b => ftab_covers tok (cb_filters b) (cb_rows b)) (cf_blocks f)) files)
  | _ => false
  end.

(* C24: a file was opened although its file-level filters rule the query out; row data of a block
   was read although its prefilter or its block filters rule it out; a block filter region was read
   although the query has no bloom or regex conditions *)
Definition violates_c24 (c : caseR) : bool :=
  match c with
  | CQuery _ _ files q _ (Some ro) =>
      let fs := map file_of files in
      existsb (fun i => match nthZ fs i with
                        | Some f => negb (prune_q (fl_filters f) (pq q))
                        | None => true end) (ro_opened ro)
      || existsb (fun ib => match nthZ fs (fst ib) with
                            | Some f => match nthZ (fl_blocks f) (snd ib) with
                                        | Some b => negb (block_passes (q_pre q) (bk_meta b)) || negb (prune_q (bk_filters b) (pq q))
                                        | None => true end
                            | None => true end) (ro_rows ro)
      || (match pq q with None => true | Some _ => false end && negb (match ro_region ro with [] => true | _ => false end))
  | _ => false
  end.

Fixpoint indices_where {A} (f : A -> bool) (l : list A) (i : nat) : list nat :=
  match l with
  | [] => []
  | x :: t => if f x then i :: indices_where f t (S i) else indices_where f t (S i)
  end.

Definition mismatches (cs : list caseR) : list nat := indices_where mismatch cs 0.
Definition violations_c01 (cs : list caseR) : list nat := indices_where violates_c01 cs 0.
Definition violations_c02 (cs : list caseR) : list nat := indices_where violates_c02 cs 0.
Definition violations_c18 (cs : list caseR) : list nat := indices_where violates_c18 cs 0.
Definition violations_c24 (cs : list caseR) : list nat := indices_where violates_c24 cs 0.
Definition violations_none (cs : list caseR) : list nat := [].
