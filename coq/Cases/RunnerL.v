(* Case evaluation for family L (C27): the harness scans the Go sources on its own (a second,
   independent reading of the same files) and its view is compared with the graph the
   translator generated; a function that references an output sink falsifies the property. *)
From BS Require Import Model.Silent Generated.SilentGraph.
From Coq Require Import List String Bool Arith.
Import ListNotations.
Open Scope string_scope.

Inductive caseL :=
| LFn (file name : string) (refs : list ref)     (* one function or method, as the harness read it *)
| LCount (n : nat)                                (* how many functions and methods the harness found *)
| LNilLogger (e : gexpr).                         (* what the harness reads as the nil-logger branch *)

Definition mismatch (c : caseL) : bool :=
  match c with
  | LFn file name refs => negb (existsb (fun f => refs_eqb (fn_refs f) refs) (find_fn graph file name))
  | LCount n => negb (Nat.eqb (count_real_fns graph) n)
  | LNilLogger e => negb (existsb (fun '(g, e') => String.eqb g "ifnil" && gexpr_eqb e e') logger_var_writes)
  end.

Definition violates (c : caseL) : bool :=
  match c with
  | LFn _ _ refs => existsb is_sink refs
  | LCount _ => false
  | LNilLogger e => negb (gexpr_eqb e discard_ctor)
  end.

Fixpoint indices_where {A} (f : A -> bool) (l : list A) (i : nat) : list nat :=
  match l with
  | [] => []
  | x :: t => if f x then i :: indices_where f t (S i) else indices_where f t (S i)
  end.

Definition mismatches (cs : list caseL) : list nat := indices_where mismatch cs 0.
Definition violations (cs : list caseL) : list nat := indices_where violates cs 0.
