(* Case evaluation for family L (C27): the harness scans the Go sources on its own (a second,
   independent reading of the same files) and its view is compared with the graph the
   translator generated; a function that references an output sink falsifies the property. *)
From BS Require Import Lib.Bytes Model.Silent Generated.SilentGraph Generated.Consts.
From Coq Require Import List String Bool Arith ZArith.
Import ListNotations.
Open Scope string_scope.

Inductive caseL :=
| LFn (file name : string) (refs : list ref)     (* one function or method, as the harness read it *)
| LCount (n : nat)                                (* how many functions and methods the harness found *)
| LNilLogger (e : gexpr)                          (* what the harness reads as the nil-logger branch *)
| LConst (name : string) (v : Z)                  (* a constant as the compiled package reports it at run time *)
| LMagic (s : str).                               (* bloomsearch.MagicBytes at run time *)

(* the translator's reading of the constants (Generated/Consts.v), by Go name *)
Definition const_table : list (string * Z) :=
  [("LengthPrefixSize", Consts.LengthPrefixSize); ("HashSize", Consts.HashSize);
   ("VersionPrefixSize", Consts.VersionPrefixSize); ("FileVersion", Consts.FileVersion);
   ("blockFilterChunkTarget", Consts.blockFilterChunkTarget);
   ("queryRowBatchSize", Consts.queryRowBatchSize); ("queryRowBatchBuffer", Consts.queryRowBatchBuffer);
   ("queryJobBuffer", Consts.queryJobBuffer); ("queryFileJobBuffer", Consts.queryFileJobBuffer);
   ("maxCreateFileAttempts", Consts.maxCreateFileAttempts);
   ("filterSectionFlagField", Consts.filterSectionFlagField); ("filterSectionFlagToken", Consts.filterSectionFlagToken);
   ("filterSectionFlagFieldToken", Consts.filterSectionFlagFieldToken); ("filterSectionFlagsAll", Consts.filterSectionFlagsAll);
   ("scanBufferMinShift", Consts.scanBufferMinShift); ("scanBufferMaxShift", Consts.scanBufferMaxShift);
   ("flush_chan_cap", Consts.flush_chan_cap)].

Fixpoint lookup_const (t : list (string * Z)) (name : string) : option Z :=
  match t with
  | [] => None
  | (n, v) :: t' => if String.eqb n name then Some v else lookup_const t' name
  end.

Definition mismatch (c : caseL) : bool :=
  match c with
  | LFn file name refs => negb (existsb (fun f => refs_eqb (fn_refs f) refs) (find_fn graph file name))
  | LCount n => negb (Nat.eqb (count_real_fns graph) n)
  | LNilLogger e => negb (existsb (fun '(g, e') => String.eqb g "ifnil" && gexpr_eqb e e') logger_var_writes)
  | LConst name v => match lookup_const const_table name with Some v' => negb (Z.eqb v v') | None => true end
  | LMagic s => negb (str_eqb s Consts.MagicBytes)
  end.

Definition violates (c : caseL) : bool :=
  match c with
  | LFn _ _ refs => existsb is_sink refs
  | LCount _ => false
  | LNilLogger e => negb (gexpr_eqb e discard_ctor)
  | LConst _ _ => false
  | LMagic _ => false
  end.

Fixpoint indices_where {A} (f : A -> bool) (l : list A) (i : nat) : list nat :=
  match l with
  | [] => []
  | x :: t => if f x then i :: indices_where f t (S i) else indices_where f t (S i)
  end.

Definition mismatches (cs : list caseL) : list nat := indices_where mismatch cs 0.
Definition violations (cs : list caseL) : list nat := indices_where violates cs 0.
