#!/bin/bash
# Independent re-check (coqchk -o) of every property module; prints the axiom summary per module.
cd "$(dirname "$0")/coq" || exit 2
for f in Properties/C*.v; do
  m="BS.Properties.$(basename "$f" .v)"
  out=$(timeout 3000 coqchk -silent -o -Q . BS "$m" 2>&1)
  ax=$(echo "$out" | awk '/\* Axioms:/{f=1;next} /\* Constants/{f=0} f' | tr -s ' \n' ' ')
  ok=$(echo "$out" | grep -c "type-in-type: <none>")
  echo "$m rc=$? typeintype_none=$ok axioms:[$ax]"
done
