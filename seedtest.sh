#!/bin/bash
# usage: seedtest.sh <patch.diff> <ID> [<ID> ...]
# Applies a seeded change to a scratch worktree of /repo and runs the named quick checks from a
# scratch worktree of /verif (so /repo, /verif/evidence and /verif/replays stay untouched).
# SEEDSLOT=<n> selects an independent pair of scratch worktrees (parallel runs).
set -u
patch=$(realpath "$1"); shift
SLOT=${SEEDSLOT:-}
SV=/work/seedtest/verif$SLOT
SR=/work/seedtest/repo$SLOT
git -C /verif worktree list | grep -q "$SV " || git -C /verif worktree add -q --detach "$SV" HEAD
git -C "$SV" reset -q --hard; git -C "$SV" checkout -q -f --detach "$(git -C /verif rev-parse HEAD)"
rm -rf "$SR"; git -C /repo worktree prune; git -C /repo worktree add -q --detach "$SR" HEAD
if ! git -C "$SR" apply "$patch"; then echo "PATCH DOES NOT APPLY"; exit 3; fi
export VERIF_REPO="$SR"
cd "$SV"
[ -f coq/Makefile ] || ./check setup >/dev/null 2>&1
for id in "$@"; do
  ./check "$id" quick 2>&1 | grep -E "VIOLATION|KNOWN-FINDING|^check |CHECK-ERROR" | sed "s/^/[$id] /"
done
git -C /repo worktree remove --force "$SR"
