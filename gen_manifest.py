#!/usr/bin/env python3
"""Regenerates MANIFEST.json from props.py (run after editing props.py)."""
import json, os, subprocess
from proptable import PROPS, PROOF_NOTE
HERE = os.path.dirname(os.path.abspath(__file__))
NOT_APPLICABLE = json.load(open(os.path.join(HERE, "not_applicable.json")))
hooks = subprocess.run(["git", "-C", os.environ.get("VERIF_REPO", "/repo"), "log", "--format=%H %s"], capture_output=True, text=True).stdout.splitlines()
hook_commits = [l.split()[0] for l in hooks if " verif:" in l or l.split(" ", 1)[1].startswith("verif")]
all_ids = [json.loads(l)["id"] for l in open(os.path.join(HERE, "properties.jsonl"))]
checks = []
for pid in all_ids:
    if pid not in PROPS:
        continue
    P = PROPS[pid]
    checks.append({
        "property_id": pid,
        "quick_cmd": f"./check {pid} quick",
        "thorough_cmd": f"./check {pid} thorough",
        "evidence_file": f"evidence/{pid}.json",
        "replay_cmd_template": f"./check {pid} --replay {{path}}",
        "engine": "coq-models+bsverif",
        "level_claimed": {"category": "proof", "text": P["text"], "design_ref": P["design_ref"]},
        "level_note": PROOF_NOTE + (" " + P["note"] if P.get("note") else ""),
        "technique": P["technique"],
    })
na = [x for x in NOT_APPLICABLE if x["property_id"] not in PROPS]
missing = [p for p in all_ids if p not in PROPS and p not in {x["property_id"] for x in na}]
for p in missing:
    na.append({"property_id": p, "reason": "not yet built in this round: the model family for this property is planned in DESIGN.md section 5 but its check is not registered yet"})
manifest = {
    "version": 1,
    "setup_cmd": "./check setup",
    "hooks": {
        "guard": "verif",
        "enable": "go build -tags verif (the harness module replaces github.com/danthegoodman1/bloomsearch => /repo, so hooks compile in from the working tree)",
        "baseline_off_cmd": "cd /repo && GOFLAGS=-mod=mod go test -vet=off -count=1 ./...",
        "source_commits": hook_commits,
        "add_only": True,
    },
    "engines": [
        {"name": "coq-models", "path": "coq", "serves_properties": [c["property_id"] for c in checks],
         "kind_free_text": "Coq 8.16.1 theorems over hand-written executable models (coq/Model, coq/Proofs, coq/Properties)"},
        {"name": "bsverif", "path": "harness", "serves_properties": [c["property_id"] for c in checks],
         "kind_free_text": "Go correspondence harness; cases evaluated inside Coq by vm_compute (coq/Cases)"},
    ],
    "checks": checks,
    "notes": "Exit codes: 0 held, 1 VIOLATION line printed, 2 the machinery itself failed. Known findings: known_findings.json.",
    "not_applicable": na,
}
json.dump(manifest, open(os.path.join(HERE, "MANIFEST.json"), "w"), indent=1)
print("checks:", len(checks), "not_applicable:", len(na))
