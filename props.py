"""Property table used by ./check and by gen_manifest.py."""

PROOF_NOTE = ("Trusted base: Coq 8.16.1 kernel + vm_compute (no native_compute, no extraction); theorems are about the "
              "hand-written executable model in coq/Model; the tie to /repo is the correspondence check run on every "
              "invocation (Go harness built with -tags verif against the working tree, cases evaluated by coqc). "
              "Go mutations cannot break a proof; they are detected by the correspondence and by the property predicate "
              "evaluated on sampled runs. External libraries (gjson, regexp, bloom hash, snappy/zstd, CRC32C, encoding/json, "
              "Go scheduler, OS) are modelled as oracles, not verified. See DESIGN.md section 3.")

PROPS = {
    "C04": {
        "cmd": "c04",
        "theorems": "Properties/C04.v",
        "design_ref": "DESIGN.md section 5 C04",
        "text": ("Coq theorems over Model/MinMax.v: ConvertToMinMaxInt64 brackets every Go numeric value (named kinds, "
                 "uint64 above MaxInt64, floats beyond int64) by clamped floor/ceil; EvaluateMinMaxCondition never excludes "
                 "a covering range for any of the ten operators, any int64 operand, any saturation state; every AND/OR "
                 "prefilter tree inherits it; ingest and merge index maintenance preserve coverage. Unbounded (all inputs). "
                 "Model tied to the code by an exhaustive boundary product and random differential cases evaluated in Coq, "
                 "plus typed rows pushed through a real engine (flush and merge)."),
        "technique": "Coq proof (case analysis + lia/nia over Z with explicit clamping, tree induction) + checked correspondence",
        "trusted_base": ["math.Floor/math.Ceil/float64->int64 conversion are library code, exercised by the correspondence only"],
        "assumptions": ["float values are decoded to exact mantissa/exponent by the harness (math.Frexp)"],
    },
}
