package main

// In-memory DataStore with a call log, per-call fault injection and delays.
// Used wherever the real filesystem is not the subject.

import (
	"bytes"
	"context"
	"errors"
	"fmt"
	"io"
	"sync"
)

type storeCall struct {
	Seq     int
	Kind    string // CreateFile Write Close Abort Tombstone OpenFile Read Seek CloseRead Update Iter
	Pointer string
	Handle  int
	Off     int64
	Len     int
	Err     string
	Gid     int64
}

// faultFn decides the outcome of the n-th call of a kind: nil error = proceed.
type faultFn func(kind string, nth int, pointer string) error

type memDataStore struct {
	mu        sync.Mutex
	files     map[string][]byte // published files
	pending   map[string]*memWriter
	next      int
	nextH     int
	calls     []storeCall
	kindCount map[string]int
	fault     faultFn
	onCall    func(kind string, pointer string) // invoked outside the lock before the call proceeds (delays, pauses)
	withAbort bool
	tomb      map[string]int
}

var errInjected = errors.New("injected fault")

func newMemDataStore() *memDataStore {
	return &memDataStore{files: map[string][]byte{}, pending: map[string]*memWriter{}, kindCount: map[string]int{}, withAbort: true, tomb: map[string]int{}}
}

func (s *memDataStore) begin(kind, pointer string) error {
	if s.onCall != nil {
		s.onCall(kind, pointer)
	}
	s.mu.Lock()
	n := s.kindCount[kind]
	s.kindCount[kind] = n + 1
	f := s.fault
	s.mu.Unlock()
	if f != nil {
		return f(kind, n, pointer)
	}
	return nil
}

func (s *memDataStore) log(c storeCall) {
	s.mu.Lock()
	c.Seq = len(s.calls)
	s.calls = append(s.calls, c)
	s.mu.Unlock()
}

type memWriter struct {
	s       *memDataStore
	pointer string
	buf     bytes.Buffer
	closed  bool
	aborted bool
}

type memWriterNoAbort struct{ w *memWriter }

func (w memWriterNoAbort) Write(p []byte) (int, error) { return w.w.Write(p) }
func (w memWriterNoAbort) Close() error                { return w.w.Close() }

func (s *memDataStore) CreateFile(ctx context.Context) (io.WriteCloser, []byte, error) {
	if err := s.begin("CreateFile", ""); err != nil {
		s.log(storeCall{Kind: "CreateFile", Err: err.Error()})
		return nil, nil, err
	}
	s.mu.Lock()
	p := fmt.Sprintf("mem-%d", s.next)
	s.next++
	w := &memWriter{s: s, pointer: p}
	s.pending[p] = w
	withAbort := s.withAbort
	s.mu.Unlock()
	s.log(storeCall{Kind: "CreateFile", Pointer: p})
	if withAbort {
		return w, []byte(p), nil
	}
	return memWriterNoAbort{w}, []byte(p), nil
}

func (w *memWriter) Write(p []byte) (int, error) {
	if err := w.s.begin("Write", w.pointer); err != nil {
		w.s.log(storeCall{Kind: "Write", Pointer: w.pointer, Len: len(p), Err: err.Error()})
		return 0, err
	}
	w.buf.Write(p)
	w.s.log(storeCall{Kind: "Write", Pointer: w.pointer, Len: len(p)})
	return len(p), nil
}

func (w *memWriter) Close() error {
	if err := w.s.begin("Close", w.pointer); err != nil {
		w.s.log(storeCall{Kind: "Close", Pointer: w.pointer, Err: err.Error()})
		return err
	}
	w.s.mu.Lock()
	w.closed = true
	w.s.files[w.pointer] = append([]byte(nil), w.buf.Bytes()...)
	delete(w.s.pending, w.pointer)
	w.s.mu.Unlock()
	w.s.log(storeCall{Kind: "Close", Pointer: w.pointer})
	return nil
}

func (w *memWriter) Abort() error {
	err := w.s.begin("Abort", w.pointer)
	w.s.mu.Lock()
	w.aborted = true
	delete(w.s.pending, w.pointer)
	w.s.mu.Unlock()
	if err != nil {
		w.s.log(storeCall{Kind: "Abort", Pointer: w.pointer, Err: err.Error()})
		return err
	}
	w.s.log(storeCall{Kind: "Abort", Pointer: w.pointer})
	return nil
}

func (s *memDataStore) TombstoneFile(ctx context.Context, pointer []byte) error {
	p := string(pointer)
	if err := s.begin("Tombstone", p); err != nil {
		s.log(storeCall{Kind: "Tombstone", Pointer: p, Err: err.Error()})
		return err
	}
	s.mu.Lock()
	delete(s.files, p)
	delete(s.pending, p)
	s.tomb[p]++
	s.mu.Unlock()
	s.log(storeCall{Kind: "Tombstone", Pointer: p})
	return nil
}

type memReader struct {
	s       *memDataStore
	pointer string
	id      int
	r       *bytes.Reader
	closed  bool
}

func (s *memDataStore) OpenFile(ctx context.Context, pointer []byte) (io.ReadSeekCloser, error) {
	p := string(pointer)
	if err := s.begin("OpenFile", p); err != nil {
		s.log(storeCall{Kind: "OpenFile", Pointer: p, Err: err.Error()})
		return nil, err
	}
	s.mu.Lock()
	data, ok := s.files[p]
	s.nextH++
	id := s.nextH
	s.mu.Unlock()
	if !ok {
		s.log(storeCall{Kind: "OpenFile", Pointer: p, Err: "not found"})
		return nil, fmt.Errorf("file %s not found", p)
	}
	s.log(storeCall{Kind: "OpenFile", Pointer: p, Handle: id, Gid: curGoroutineID()})
	return &memReader{s: s, pointer: p, id: id, r: bytes.NewReader(data)}, nil
}

func (r *memReader) Read(p []byte) (int, error) {
	pos, _ := r.r.Seek(0, io.SeekCurrent)
	if err := r.s.begin("Read", r.pointer); err != nil {
		r.s.log(storeCall{Kind: "Read", Pointer: r.pointer, Handle: r.id, Off: pos, Len: len(p), Err: err.Error(), Gid: curGoroutineID()})
		return 0, err
	}
	n, err := r.r.Read(p)
	c := storeCall{Kind: "Read", Pointer: r.pointer, Handle: r.id, Off: pos, Len: n, Gid: curGoroutineID()}
	if r.closed {
		c.Err = "use after close"
	}
	r.s.log(c)
	return n, err
}

func (r *memReader) Seek(off int64, whence int) (int64, error) {
	n, err := r.r.Seek(off, whence)
	c := storeCall{Kind: "Seek", Pointer: r.pointer, Handle: r.id, Off: n, Gid: curGoroutineID()}
	if r.closed {
		c.Err = "use after close"
	}
	r.s.log(c)
	return n, err
}

func (r *memReader) Close() error {
	c := storeCall{Kind: "CloseRead", Pointer: r.pointer, Handle: r.id, Gid: curGoroutineID()}
	if r.closed {
		c.Err = "double close"
	}
	r.closed = true
	r.s.log(c)
	return nil
}

func (s *memDataStore) snapshotFiles() map[string][]byte {
	s.mu.Lock()
	defer s.mu.Unlock()
	out := make(map[string][]byte, len(s.files))
	for k, v := range s.files {
		out[k] = v
	}
	return out
}
