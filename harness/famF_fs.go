package main

// Family F (stores): a rig around the real FileSystemDataStore on a scratch
// directory. It installs the verif hook sink, turns the hook events of every
// API call into the labels of Model/FsStore.v, injects real operating-system
// failures at chosen os.* calls (EMFILE through RLIMIT_NOFILE for opens, an
// immutable directory for rename/remove where the platform allows it, an early
// close of the temp handle for Sync) and lets a callback observe every
// mutation boundary (C15 crash points).

import (
	"bytes"
	"context"
	"fmt"
	"io"
	"os"
	"path/filepath"
	"runtime"
	"sort"
	"strings"
	"sync"
	"syscall"
	"unsafe"

	bs "github.com/danthegoodman1/bloomsearch"
)

// ---------------------------------------------------------------- labels

type fsLabel struct {
	K     string // Begin Reserve GiveUp ResClose Unreserve TmpCreate Write Lost Sync HClose Rename DirSync AbortHClose AbortRm Rm Open ReadDir
	A     int
	Base  string
	Ext   string // Dat | Tmp
	R     string // COk CExists CFail | ROk RNoent RFail
	Ok    bool
	N     int
	Bytes []byte
}

func (l fsLabel) coq(in *interner) string {
	switch l.K {
	case "Begin":
		return fmt.Sprintf("LBegin %d", l.A)
	case "Reserve":
		return fmt.Sprintf("LReserve %d %s %s", l.A, coqS(l.Base), l.R)
	case "GiveUp":
		return fmt.Sprintf("LGiveUp %d", l.A)
	case "ResClose":
		return fmt.Sprintf("LResClose %d %s", l.A, coqBool(l.Ok))
	case "Unreserve":
		return fmt.Sprintf("LUnreserve %d %s", l.A, l.R)
	case "TmpCreate":
		return fmt.Sprintf("LTmpCreate %d %s", l.A, l.R)
	case "Write":
		return fmt.Sprintf("LWrite %d %s %d", l.A, in.ref(l.Bytes), l.N)
	case "Lost":
		return fmt.Sprintf("LLost %d %s", l.A, coqBool(l.Ok))
	case "Sync":
		return fmt.Sprintf("LSync %d %s", l.A, coqBool(l.Ok))
	case "HClose":
		return fmt.Sprintf("LHClose %d %s", l.A, coqBool(l.Ok))
	case "Rename":
		return fmt.Sprintf("LRename %d %s", l.A, coqBool(l.Ok))
	case "DirSync":
		return fmt.Sprintf("LDirSync %d %s", l.A, coqBool(l.Ok))
	case "AbortHClose":
		return fmt.Sprintf("LAbortHClose %d", l.A)
	case "AbortRm":
		return fmt.Sprintf("LAbortRm %d %s %s", l.A, l.Ext, l.R)
	case "Rm":
		return fmt.Sprintf("LRm %s %s %s", coqS(l.Base), l.Ext, l.R)
	case "Open":
		return fmt.Sprintf("LOpen %s %s", coqS(l.Base), coqBool(l.Ok))
	case "ReadDir":
		return "LReadDir"
	}
	panic("unknown label " + l.K)
}

func (l fsLabel) String() string {
	return fmt.Sprintf("%s a=%d %s.%s r=%s ok=%v n=%d", l.K, l.A, l.Base, l.Ext, l.R, l.Ok, l.N)
}

func coqLabels(ls []fsLabel, in *interner) string {
	items := make([]string, len(ls))
	for i, l := range ls {
		items[i] = l.coq(in)
	}
	return coqList(items)
}

// interner: byte strings of a case are printed once, as a table, and referred to by index.
type interner struct {
	idx   map[string]int
	items [][]byte
}

func newInterner() *interner { return &interner{idx: map[string]int{}} }

func (in *interner) id(b []byte) int {
	if i, ok := in.idx[string(b)]; ok {
		return i
	}
	i := len(in.items)
	in.idx[string(b)] = i
	in.items = append(in.items, append([]byte(nil), b...))
	return i
}

func (in *interner) ref(b []byte) string { return fmt.Sprintf("(t %d)", in.id(b)) }

// table prints the byte-string table with the validity oracle (ReadFileMetadata accepts the bytes).
func (in *interner) table(valid func([]byte) bool) string {
	items := make([]string, len(in.items))
	for i, b := range in.items {
		items[i] = coqPair(coqStr(b), coqBool(valid(b)))
	}
	return coqList(items)
}

// validBloom is the library oracle: the public footer parser accepts these bytes.
func validBloom(b []byte) bool {
	if len(b) == 0 {
		return false
	}
	_, _, err := bs.ReadFileMetadata(bytes.NewReader(b))
	return err == nil
}

// ---------------------------------------------------------------- fault injection primitives

const (
	fsIocGetFlags = 0x80086601
	fsIocSetFlags = 0x40086602
	fsImmutableFl = 0x10
)

func setImmutable(dir *os.File, on bool) error {
	var flags int64
	if _, _, e := syscall.Syscall(syscall.SYS_IOCTL, dir.Fd(), fsIocGetFlags, uintptr(unsafe.Pointer(&flags))); e != 0 {
		return e
	}
	if on {
		flags |= fsImmutableFl
	} else {
		flags &^= fsImmutableFl
	}
	if _, _, e := syscall.Syscall(syscall.SYS_IOCTL, dir.Fd(), fsIocSetFlags, uintptr(unsafe.Pointer(&flags))); e != 0 {
		return e
	}
	return nil
}

// clearImmutableTree removes a leftover immutable flag under root (a harness that died mid-fault).
func clearImmutableTree(root string) {
	filepath.Walk(root, func(p string, info os.FileInfo, err error) error {
		if err == nil && info.IsDir() {
			if d, err := os.Open(p); err == nil {
				setImmutable(d, false)
				d.Close()
			}
		}
		return nil
	})
}

var immutableProbe struct {
	once sync.Once
	ok   bool
}

func immutableSupported(scratch string) bool {
	immutableProbe.once.Do(func() {
		dir := filepath.Join(scratch, "immprobe")
		os.MkdirAll(dir, 0o755)
		defer os.RemoveAll(dir)
		d, err := os.Open(dir)
		if err != nil {
			return
		}
		defer d.Close()
		if setImmutable(d, true) != nil {
			return
		}
		_, err = os.Create(filepath.Join(dir, "x"))
		setImmutable(d, false)
		immutableProbe.ok = err != nil
	})
	return immutableProbe.ok
}

var savedRlimit syscall.Rlimit

func emfileOn() {
	syscall.Getrlimit(syscall.RLIMIT_NOFILE, &savedRlimit)
	syscall.Setrlimit(syscall.RLIMIT_NOFILE, &syscall.Rlimit{Cur: 0, Max: savedRlimit.Max})
}

func emfileOff() { syscall.Setrlimit(syscall.RLIMIT_NOFILE, &savedRlimit) }

// A failing fsync(2): a seccomp filter that makes every fsync of the calling thread return EIO.
// A filter cannot be removed, so the call that is to see the failure runs on a fresh OS thread that
// is destroyed with it (a goroutine that ends while locked to its thread takes the thread with
// it; the Go runtime never clones a new thread from a locked one), and the filter is installed
// from the hook sink -- which runs on that same thread, inside the store -- right before the os
// call that is to fail, so that the earlier fsyncs of the same call (the data file's) succeed.
type bpfInsn struct {
	Code uint16
	Jt   uint8
	Jf   uint8
	K    uint32
}

type bpfProg struct {
	Len    uint16
	_      [6]byte
	Filter *bpfInsn
}

func installFsyncFilter() error {
	const (
		prSetNoNewPrivs = 38
		prSetSeccomp    = 22
		modeFilter      = 2
		retAllow        = 0x7fff0000
		retErrno        = 0x00050000
	)
	prog := []bpfInsn{
		{0x20, 0, 0, 0},                              // A := syscall number
		{0x15, 0, 1, uint32(syscall.SYS_FSYNC)},      // not fsync: allow
		{0x06, 0, 0, retErrno | uint32(syscall.EIO)}, // fsync: EIO
		{0x06, 0, 0, retAllow},
	}
	fp := bpfProg{Len: uint16(len(prog)), Filter: &prog[0]}
	if _, _, e := syscall.RawSyscall6(syscall.SYS_PRCTL, prSetNoNewPrivs, 1, 0, 0, 0, 0); e != 0 {
		return e
	}
	if _, _, e := syscall.RawSyscall6(syscall.SYS_PRCTL, prSetSeccomp, modeFilter, uintptr(unsafe.Pointer(&fp)), 0, 0, 0); e != 0 {
		return e
	}
	runtime.KeepAlive(prog)
	return nil
}

// onDoomedThread runs f on an OS thread of its own that ends with it. probeFd is fsynced on that
// thread after f: true = a failing-fsync filter was installed during f and is in force.
func onDoomedThread(probeFd int, f func()) (filtered bool) {
	done := make(chan bool)
	go func() {
		runtime.LockOSThread() // never unlocked: the thread ends with this goroutine
		f()
		done <- syscall.Fsync(probeFd) == syscall.EIO
	}()
	return <-done
}

var fsyncFailProbe struct {
	once sync.Once
	ok   bool
}

// fsyncFailSupported: the filter can be installed here, bites on the thread it is installed on
// (from the moment it is installed) and on no other.
func fsyncFailSupported(scratch string) bool {
	fsyncFailProbe.once.Do(func() {
		if runtime.GOOS != "linux" {
			return
		}
		dir := filepath.Join(scratch, "fsyncprobe")
		os.MkdirAll(dir, 0o755)
		defer os.RemoveAll(dir)
		d, err := os.Open(dir)
		if err != nil {
			return
		}
		defer d.Close()
		var before, install, after error
		in := onDoomedThread(int(d.Fd()), func() {
			before = d.Sync()
			install = installFsyncFilter()
			after = d.Sync()
		})
		fsyncFailProbe.ok = in && before == nil && install == nil && after != nil && d.Sync() == nil
	})
	return fsyncFailProbe.ok
}

// ---------------------------------------------------------------- the rig

type statInfo struct {
	exists bool
	size   int64
}

type fsFault struct {
	kind  string // hook kind to fail: fs.reserve fs.tmpcreate fs.rename fs.dirsync fs.remove
	nth   int    // which occurrence of that kind within the call (0-based)
	fsync bool   // fs.dirsync: the directory opens, its fsync(2) fails (the call runs under onDoomedThread)
}

type fsWriter struct {
	id      int
	w       io.WriteCloser
	base    string
	written []byte
	done    bool // Close returned nil or Abort was called
}

type fsRig struct {
	dir    string
	store  *bs.FileSystemDataStore
	draws  []string
	pos    int
	immOK  bool
	dirfd  *os.File
	active bool

	// current call
	curWriter int
	curBytes  []byte
	labels    []fsLabel
	pre       statInfo
	fault     *fsFault
	seen      map[string]int
	faultable int // faultable os calls seen in this call (CreateFile numbering of the model)
	faultIdx  int // model fault index of the injected failure, -1 if none fired
	armed     string

	boundary func(r *fsRig, kind string, phase int64, path string) // every hook event, before it is processed

	// strict: the rig is the only user of the store package while a call runs; a store event that
	// names a path outside the root directory is recorded (the store reached outside its root)
	strict  bool
	inCall  bool
	foreign []string

	fsyncOK     bool     // a failing fsync(2) can be injected on this platform
	doomed      bool     // the current call runs on a thread that ends with it
	fsyncHit    bool     // this call reached its directory fsync with the failing fsync in force
	misreported []string // calls whose hook events reported an os call as successful that was made to fail

	writers []*fsWriter
	nextID  int
}

func newFsRig(dir string, draws []string) *fsRig {
	clearImmutableTree(dir)
	os.RemoveAll(dir)
	r := &fsRig{dir: dir, draws: draws, faultIdx: -1, seen: map[string]int{}}
	r.store = bs.NewFileSystemDataStore(dir)
	if draws != nil {
		r.store.VerifSetFileNameDraw(func() string {
			n := r.draws[r.pos%len(r.draws)]
			r.pos++
			return n
		})
	}
	d, err := os.Open(dir)
	must(err)
	r.dirfd = d
	r.immOK = immutableSupported(filepath.Dir(dir))
	r.fsyncOK = fsyncFailSupported(filepath.Dir(dir))
	bs.VerifSetSink(r.sink)
	r.active = true
	return r
}

func (r *fsRig) close() {
	bs.VerifSetSink(nil)
	r.active = false
	setImmutable(r.dirfd, false)
	r.dirfd.Close()
}

func (r *fsRig) lstat(path string) statInfo {
	fi, err := os.Lstat(path)
	if err != nil {
		return statInfo{}
	}
	return statInfo{exists: true, size: fi.Size()}
}

func splitName(path string) (base, ext string, ok bool) {
	name := filepath.Base(path)
	switch {
	case strings.HasSuffix(name, ".dat"):
		return strings.TrimSuffix(name, ".dat"), "Dat", true
	case strings.HasSuffix(name, ".tmp"):
		return strings.TrimSuffix(name, ".tmp"), "Tmp", true
	}
	return name, "", false
}

func (r *fsRig) rmResult(path string) string {
	after := r.lstat(path)
	switch {
	case !r.pre.exists:
		return "RNoent"
	case !after.exists:
		return "ROk"
	}
	return "RFail"
}

// arm/disarm a real failure for the os call that follows a pre event
func (r *fsRig) maybeArm(kind string) {
	n := r.seen[kind]
	r.seen[kind] = n + 1
	if r.fault == nil || r.fault.kind != kind || r.fault.nth != n {
		return
	}
	if kind == "fs.dirsync" && r.fault.fsync {
		// the sink runs on the thread that is about to open and fsync the directory; that thread
		// is the doomed one (closeWriter)
		if !r.doomed {
			panic("a failing fsync is only armed on a thread that ends with the call")
		}
		if err := installFsyncFilter(); err != nil {
			panic("failing-fsync filter: " + err.Error())
		}
		r.fsyncHit = true
		return
	}
	switch kind {
	case "fs.reserve", "fs.tmpcreate", "fs.dirsync":
		emfileOn()
		r.armed = "emfile"
	case "fs.rename", "fs.remove":
		if r.immOK && setImmutable(r.dirfd, true) == nil {
			r.armed = "immutable"
		}
	}
}

func (r *fsRig) disarm() {
	switch r.armed {
	case "emfile":
		emfileOff()
	case "immutable":
		setImmutable(r.dirfd, false)
	}
	r.armed = ""
}

// sink runs synchronously on the goroutine inside the store, under the hook mutex.
func (r *fsRig) sink(e bs.VerifEvent) {
	if !r.active || !strings.HasPrefix(e.Kind, "fs.") {
		return
	}
	if e.S != r.dir && filepath.Dir(e.S) != r.dir {
		if r.strict && r.inCall && e.S != "" && e.A == 0 {
			r.foreign = append(r.foreign, e.Kind+" "+e.S)
		}
		return
	}
	if e.A != 0 {
		r.disarm()
	}
	if r.boundary != nil {
		r.boundary(r, e.Kind, e.A, e.S)
	}
	a := r.curWriter
	base, ext, _ := splitName(e.S)
	add := func(l fsLabel) { r.labels = append(r.labels, l) }
	switch e.Kind {
	case "fs.reserve", "fs.tmpcreate":
		k := "Reserve"
		if e.Kind == "fs.tmpcreate" {
			k = "TmpCreate"
		}
		switch e.A {
		case 0:
			if r.fault != nil && r.fault.kind == e.Kind && r.fault.nth == r.seen[e.Kind] {
				r.faultIdx = r.faultable
			}
			r.faultable++
			r.maybeArm(e.Kind)
		case 1:
			add(fsLabel{K: k, A: a, Base: base, R: "COk"})
		case 2:
			res := "CFail"
			if e.B == 1 {
				res = "CExists"
			}
			add(fsLabel{K: k, A: a, Base: base, R: res})
		}
	case "fs.resclose":
		switch e.A {
		case 0:
			r.faultable++
		case 1:
			add(fsLabel{K: "ResClose", A: a, Ok: true})
		case 2:
			add(fsLabel{K: "ResClose", A: a, Ok: false})
		}
	case "fs.remove":
		switch e.A {
		case 0:
			r.pre = r.lstat(e.S)
			r.maybeArm(e.Kind)
		case 3:
			res := r.rmResult(e.S)
			switch e.B {
			case 0:
				add(fsLabel{K: "Unreserve", A: a, R: res})
			case 1:
				add(fsLabel{K: "AbortRm", A: a, Ext: ext, R: res})
			default:
				add(fsLabel{K: "Rm", Base: base, Ext: ext, R: res})
			}
		}
	case "fs.write":
		switch e.A {
		case 0:
			r.pre = r.lstat(e.S)
		case 3:
			after := r.lstat(e.S)
			n := int(after.size - r.pre.size)
			if !after.exists || !r.pre.exists {
				n = 0 // the temp name is gone (tombstoned); what the handle accepted is not visible by name
				if r.curBytes != nil {
					n = -1 // decided by the caller from Write's return value
				}
			}
			b := r.curBytes
			if b == nil && n > 0 {
				data, _ := os.ReadFile(e.S)
				b = data[r.pre.size:after.size]
			}
			add(fsLabel{K: "Write", A: a, Bytes: b, N: n})
		}
	case "fs.lost":
		add(fsLabel{K: "Lost", A: a, Ok: e.A == 1})
	case "fs.sync":
		switch e.A {
		case 1:
			add(fsLabel{K: "Sync", A: a, Ok: true})
		case 2:
			add(fsLabel{K: "Sync", A: a, Ok: false})
		}
	case "fs.hclose":
		if e.B == 1 {
			if e.A == 3 {
				add(fsLabel{K: "AbortHClose", A: a})
			}
			break
		}
		switch e.A {
		case 1:
			add(fsLabel{K: "HClose", A: a, Ok: true})
		case 2, 3:
			add(fsLabel{K: "HClose", A: a, Ok: false})
		}
	case "fs.rename":
		switch e.A {
		case 0:
			r.maybeArm(e.Kind)
		case 1:
			add(fsLabel{K: "Rename", A: a, Ok: true})
		case 2:
			add(fsLabel{K: "Rename", A: a, Ok: false})
		}
	case "fs.dirsync":
		switch e.A {
		case 0:
			r.maybeArm(e.Kind)
		case 1:
			if r.fsyncHit {
				// what happened to the directory is what the os did, not what the store reports:
				// fsync(2) failed, the entry changes are not durable
				r.misreported = append(r.misreported, fmt.Sprintf("writer %d: fsync(2) on the directory failed with EIO, the store went on as if it had succeeded", a))
				add(fsLabel{K: "DirSync", A: a, Ok: false})
				break
			}
			add(fsLabel{K: "DirSync", A: a, Ok: true})
		case 2:
			add(fsLabel{K: "DirSync", A: a, Ok: false})
		}
	}
}

// begin/end bracket one API call.
func (r *fsRig) begin(writer int, payload []byte, fault *fsFault) {
	r.curWriter, r.curBytes, r.fault = writer, payload, fault
	r.labels = nil
	r.seen = map[string]int{}
	r.faultable, r.faultIdx = 0, -1
	r.inCall = true
	r.fsyncHit = false
}

func (r *fsRig) end() []fsLabel {
	r.disarm()
	r.inCall = false
	ls := r.labels
	r.labels, r.fault, r.curBytes = nil, nil, nil
	return ls
}

// ---------------------------------------------------------------- API calls through the rig

type fsCallResult struct {
	labels   []fsLabel
	err      error
	faultIdx int // model numbering, -1 none
}

// createFile: fault may name fs.reserve / fs.tmpcreate and an occurrence.
func (r *fsRig) createFile(ctx context.Context, fault *fsFault) (*fsWriter, fsCallResult) {
	id := r.nextID
	r.nextID++
	r.begin(id, nil, fault)
	r.labels = append(r.labels, fsLabel{K: "Begin", A: id})
	w, ptr, err := r.store.CreateFile(ctx)
	fi := r.faultIdx
	ls := r.end()
	if err != nil && len(ls) > 0 {
		last := ls[len(ls)-1]
		if last.K == "Reserve" && last.R == "CExists" {
			ls = append(ls, fsLabel{K: "GiveUp", A: id})
		}
	}
	res := fsCallResult{labels: ls, err: err, faultIdx: fi}
	if err != nil {
		r.writers = append(r.writers, nil)
		return nil, res
	}
	base, _, _ := splitName(string(ptr))
	fw := &fsWriter{id: id, w: w, base: base}
	r.writers = append(r.writers, fw)
	return fw, res
}

func (r *fsRig) write(fw *fsWriter, p []byte) (int, fsCallResult) {
	r.begin(fw.id, p, nil)
	n, err := fw.w.Write(p)
	ls := r.end()
	for i := range ls {
		if ls[i].K == "Write" {
			ls[i].N = n
		}
	}
	fw.written = append(fw.written, p[:n]...)
	return n, fsCallResult{labels: ls, err: err, faultIdx: -1}
}

// closeWriter: fault index 0 = sync (early close of the handle), 2 = rename, 3 = dirsync (the open
// of the directory fails), 4 = dirsync (the directory opens, fsync(2) on it fails); -1 none.
// The model has one failure point for the directory fsync: 4 is reported as 3.
func (r *fsRig) closeWriter(fw *fsWriter, fault int) fsCallResult {
	var f *fsFault
	switch fault {
	case 0:
		if h := bs.VerifWriterFile(fw.w); h != nil {
			h.Close()
		}
	case 2:
		f = &fsFault{kind: "fs.rename"}
	case 3:
		f = &fsFault{kind: "fs.dirsync"}
	case 4:
		f = &fsFault{kind: "fs.dirsync", fsync: true}
	}
	r.begin(fw.id, nil, f)
	var err error
	if fault == 4 {
		r.doomed = true
		filtered := onDoomedThread(int(r.dirfd.Fd()), func() { err = fw.w.Close() })
		r.doomed = false
		if filtered != r.fsyncHit {
			panic("the failing fsync was not in force when the call reached its directory fsync")
		}
		fault = 3
	} else {
		err = fw.w.Close()
	}
	ls := r.end()
	if err == nil {
		fw.done = true
	}
	return fsCallResult{labels: ls, err: err, faultIdx: fault}
}

// abortWriter: fault 0 = remove tmp, 1 = remove final.
func (r *fsRig) abortWriter(fw *fsWriter, fault int) fsCallResult {
	var f *fsFault
	if fault >= 0 {
		f = &fsFault{kind: "fs.remove", nth: fault}
	}
	r.begin(fw.id, nil, f)
	err := fw.w.(interface{ Abort() error }).Abort()
	ls := r.end()
	fw.done = true
	return fsCallResult{labels: ls, err: err, faultIdx: fault}
}

func (r *fsRig) pointer(base string) []byte { return []byte(filepath.Join(r.dir, base+".dat")) }

func (r *fsRig) tombstone(ctx context.Context, base string, fault int) fsCallResult {
	var f *fsFault
	if fault >= 0 {
		f = &fsFault{kind: "fs.remove", nth: fault}
	}
	r.begin(-1, nil, f)
	err := r.store.TombstoneFile(ctx, r.pointer(base))
	ls := r.end()
	return fsCallResult{labels: ls, err: err, faultIdx: fault}
}

func (r *fsRig) update(ctx context.Context, bases []string) fsCallResult {
	dels := make([]bs.DeleteOperation, len(bases))
	for i, b := range bases {
		dels[i] = bs.DeleteOperation{FilePointerBytes: r.pointer(b)}
	}
	r.begin(-1, nil, nil)
	err := r.store.Update(ctx, nil, dels)
	ls := r.end()
	return fsCallResult{labels: ls, err: err, faultIdx: -1}
}

// famFRoot picks the store's root directory below scratch. The store derives every path it touches
// from the root and the pointer by string surgery on ".dat"/".tmp", so the root itself comes in
// layouts whose own components contain those extensions (plain about half of the time).
func famFRoot(c *Ctx, scratch, stem string, i int) (string, string) {
	layouts := []string{"%s%d", "%s%d", "%s%d", "%s%d.dat", "%s%d.tmp", "%s%d.data", "vol.dat.d/%s%d", "a.tmp.b.dat/%s%d.dat", ".dat%s%d", "%s%d.dat.tmp"}
	l := layouts[c.intn(len(layouts))]
	return filepath.Join(scratch, fmt.Sprintf(l, stem, i)), fmt.Sprintf(l, stem, 0)
}

// ---------------------------------------------------------------- observations

type dirEntry struct {
	Base, Ext string
	Data      []byte
}

// snapshotDir reads every .dat/.tmp entry with its bytes, sorted by name.
func snapshotDir(dir string) []dirEntry {
	ents, err := os.ReadDir(dir)
	must(err)
	var out []dirEntry
	for _, e := range ents {
		base, ext, ok := splitName(e.Name())
		if !ok || e.IsDir() {
			continue
		}
		data, err := os.ReadFile(filepath.Join(dir, e.Name()))
		if err != nil {
			continue
		}
		out = append(out, dirEntry{Base: base, Ext: ext, Data: data})
	}
	sort.Slice(out, func(i, j int) bool {
		if out[i].Base != out[j].Base {
			return out[i].Base < out[j].Base
		}
		return out[i].Ext < out[j].Ext
	})
	return out
}

func coqListing(es []dirEntry, in *interner) string {
	items := make([]string, len(es))
	for i, e := range es {
		items[i] = fmt.Sprintf("((%s, %s), %s)", coqS(e.Base), e.Ext, in.ref(e.Data))
	}
	return coqList(items)
}

// scanPointers runs the store's own directory scan and returns the bases it yields.
func scanPointers(ctx context.Context, st *bs.FileSystemDataStore) ([]string, error) {
	var out []string
	for f, err := range st.GetMaybeFilesForQuery(ctx, nil) {
		if err != nil {
			return nil, err
		}
		base, ext, ok := splitName(string(f.PointerBytes))
		if !ok || ext != "Dat" {
			return nil, fmt.Errorf("scan yielded a pointer that is not a .dat path: %s", f.PointerBytes)
		}
		out = append(out, base)
	}
	sort.Strings(out)
	return out, nil
}
