package main

import (
	"bytes"
	"fmt"
	"go/ast"
	"go/printer"
	"go/token"
	"sort"
	"strconv"
	"strings"
)

type ref struct{ pkg, name string }

type fnRec struct {
	file, name string
	refs       []ref
}

// collectRefs lists the external identifiers referenced under n: `q.Sel` with q
// an import of the file (or an unknown qualifier), and the builtins print and
// println.
func collectRefs(p *pkgInfo, f *srcFile, n ast.Node) []ref {
	set := map[ref]bool{}
	var visit func(n ast.Node) bool
	visit = func(n ast.Node) bool {
		switch x := n.(type) {
		case *ast.SelectorExpr:
			if id, ok := x.X.(*ast.Ident); ok {
				if path, ok := p.resolveQualifier(f, id); ok {
					set[ref{path, x.Sel.Name}] = true
				}
				return false // neither q nor Sel is a free identifier
			}
			ast.Inspect(x.X, visit)
			return false
		case *ast.BasicLit:
			// a path literal that names the process's standard streams
			if x.Kind == token.STRING {
				if v, err := strconv.Unquote(x.Value); err == nil {
					for _, dev := range devicePaths {
						if strings.Contains(v, dev) {
							set[ref{"string", v}] = true
						}
					}
				}
			}
		case *ast.Ident:
			if (x.Name == "print" || x.Name == "println") && x.Obj == nil && !p.names[x.Name] {
				if _, imported := f.imports[x.Name]; !imported {
					set[ref{"builtin", x.Name}] = true
				}
			}
		}
		return true
	}
	ast.Inspect(n, visit)
	out := make([]ref, 0, len(set))
	for r := range set {
		out = append(out, r)
	}
	sortRefs(out)
	return out
}

var devicePaths = []string{"/dev/std", "/dev/fd", "/dev/tty", "/dev/console", "/dev/pts", "/proc/self/fd", "/proc/thread-self/fd"}

func sortRefs(rs []ref) {
	sort.Slice(rs, func(i, j int) bool {
		if rs[i].pkg != rs[j].pkg {
			return rs[i].pkg < rs[j].pkg
		}
		return rs[i].name < rs[j].name
	})
}

func recvName(fd *ast.FuncDecl) string {
	if fd.Recv == nil || len(fd.Recv.List) == 0 {
		return ""
	}
	t := fd.Recv.List[0].Type
	for {
		switch x := t.(type) {
		case *ast.StarExpr:
			t = x.X
		case *ast.ParenExpr:
			t = x.X
		case *ast.IndexExpr:
			t = x.X
		case *ast.IndexListExpr:
			t = x.X
		case *ast.Ident:
			return x.Name
		default:
			return "?"
		}
	}
}

func funcName(fd *ast.FuncDecl) string {
	if r := recvName(fd); r != "" {
		return r + "." + fd.Name.Name
	}
	return fd.Name.Name
}

func buildGraph(p *pkgInfo) []fnRec {
	var out []fnRec
	for _, f := range p.files {
		// imports of the file: dot and blank imports bring identifiers or side
		// effects without a qualifier, so they are facts of their own
		imp := fnRec{file: f.name, name: "import"}
		for _, path := range f.allPaths {
			kind := "import"
			for _, d := range f.dots {
				if d == path {
					kind = "."
				}
			}
			for _, b := range f.blanks {
				if b == path {
					kind = "_"
				}
			}
			imp.refs = append(imp.refs, ref{path, kind})
		}
		for _, l := range f.linknames {
			imp.refs = append(imp.refs, ref{"go:linkname", l})
		}
		sortRefs(imp.refs)
		out = append(out, imp)
		for _, d := range f.ast.Decls {
			switch x := d.(type) {
			case *ast.FuncDecl:
				out = append(out, fnRec{file: f.name, name: funcName(x), refs: collectRefs(p, f, x)})
			case *ast.GenDecl:
				if x.Tok == token.IMPORT {
					continue
				}
				for _, s := range x.Specs {
					switch sp := s.(type) {
					case *ast.TypeSpec:
						out = append(out, fnRec{file: f.name, name: "type:" + sp.Name.Name, refs: collectRefs(p, f, sp)})
					case *ast.ValueSpec:
						names := make([]string, len(sp.Names))
						for i, id := range sp.Names {
							names[i] = id.Name
						}
						kind := "var:"
						if x.Tok == token.CONST {
							kind = "const:"
						}
						out = append(out, fnRec{file: f.name, name: kind + strings.Join(names, ","), refs: collectRefs(p, f, sp)})
					}
				}
			}
		}
	}
	for _, n := range p.nonGo {
		out = append(out, fnRec{file: n, name: "nongo", refs: []ref{{"nongo", n}}})
	}
	sort.SliceStable(out, func(i, j int) bool {
		if out[i].file != out[j].file {
			return out[i].file < out[j].file
		}
		return out[i].name < out[j].name
	})
	return out
}

// ---------------------------------------------------------------- logger facts

type gexpr struct {
	kind string // ref local sel call other
	a, b string
	sub  []gexpr
}

func (p *pkgInfo) toGexpr(f *srcFile, e ast.Expr) gexpr {
	switch x := e.(type) {
	case *ast.ParenExpr:
		return p.toGexpr(f, x.X)
	case *ast.Ident:
		return gexpr{kind: "local", a: x.Name}
	case *ast.SelectorExpr:
		if id, ok := x.X.(*ast.Ident); ok {
			if path, ok := p.resolveQualifier(f, id); ok {
				return gexpr{kind: "ref", a: path, b: x.Sel.Name}
			}
		}
		return gexpr{kind: "sel", a: x.Sel.Name, sub: []gexpr{p.toGexpr(f, x.X)}}
	case *ast.CallExpr:
		g := gexpr{kind: "call", sub: []gexpr{p.toGexpr(f, x.Fun)}}
		for _, a := range x.Args {
			g.sub = append(g.sub, p.toGexpr(f, a))
		}
		return g
	}
	var b bytes.Buffer
	printer.Fprint(&b, p.fset, e)
	return gexpr{kind: "other", a: strings.Join(strings.Fields(b.String()), " ")}
}

func (g gexpr) coq() string {
	switch g.kind {
	case "ref":
		return fmt.Sprintf("GRef %s %s", coqString(g.a), coqString(g.b))
	case "local":
		return "GLocal " + coqString(g.a)
	case "sel":
		return fmt.Sprintf("GSel (%s) %s", g.sub[0].coq(), coqString(g.a))
	case "call":
		args := make([]string, 0, len(g.sub)-1)
		for _, a := range g.sub[1:] {
			args = append(args, a.coq())
		}
		return fmt.Sprintf("GCall (%s) [%s]", g.sub[0].coq(), strings.Join(args, "; "))
	}
	return "GOther " + coqString(g.a)
}

type loggerWrite struct {
	where string // function (field writes) or guard (variable writes)
	e     gexpr
}

func isNil(e ast.Expr) bool {
	id, ok := e.(*ast.Ident)
	return ok && id.Name == "nil" && id.Obj == nil
}

func isIdentObj(e ast.Expr, obj *ast.Object) bool {
	id, ok := e.(*ast.Ident)
	return ok && obj != nil && id.Obj == obj
}

// loggerFacts extracts
//   - every write of a struct field named `logger` in the package (composite
//     literal keys and assignments), with the writing function;
//   - for the constructor, every binding of the local variable that feeds the
//     field, with its guard: "top" (statement of the function body), "ifnil"
//     (directly in the then-branch of `if v == nil`, no init, no else) or "other".
func loggerFacts(p *pkgInfo, ctor string) (fieldWrites, varWrites []loggerWrite, ctorVar string) {
	var ctorDecl *ast.FuncDecl
	var ctorFile *srcFile
	var ctorObj *ast.Object
	for _, f := range p.files {
		for _, d := range f.ast.Decls {
			fd, ok := d.(*ast.FuncDecl)
			if !ok {
				continue
			}
			name := funcName(fd)
			ast.Inspect(fd, func(n ast.Node) bool {
				switch x := n.(type) {
				case *ast.CompositeLit:
					for _, el := range x.Elts {
						kv, ok := el.(*ast.KeyValueExpr)
						if !ok {
							continue
						}
						if k, ok := kv.Key.(*ast.Ident); ok && k.Name == "logger" {
							fieldWrites = append(fieldWrites, loggerWrite{name, p.toGexpr(f, kv.Value)})
							if name == ctor {
								if v, ok := kv.Value.(*ast.Ident); ok && v.Obj != nil {
									ctorDecl, ctorFile, ctorObj, ctorVar = fd, f, v.Obj, v.Name
								}
							}
						}
					}
				case *ast.AssignStmt:
					for i, l := range x.Lhs {
						if s, ok := l.(*ast.SelectorExpr); ok && s.Sel.Name == "logger" {
							rhs := gexpr{kind: "other", a: "multi-value assignment"}
							if len(x.Rhs) == len(x.Lhs) {
								rhs = p.toGexpr(f, x.Rhs[i])
							}
							fieldWrites = append(fieldWrites, loggerWrite{name, rhs})
						}
					}
				}
				return true
			})
		}
	}
	if ctorDecl != nil && ctorDecl.Body != nil {
		var walk func(stmts []ast.Stmt, guard string)
		record := func(s ast.Stmt, guard string) {
			switch x := s.(type) {
			case *ast.AssignStmt:
				for i, l := range x.Lhs {
					if isIdentObj(l, ctorObj) {
						rhs := gexpr{kind: "other", a: "multi-value assignment"}
						if len(x.Rhs) == len(x.Lhs) {
							rhs = p.toGexpr(ctorFile, x.Rhs[i])
						}
						varWrites = append(varWrites, loggerWrite{guard, rhs})
					}
				}
			case *ast.DeclStmt:
				if gd, ok := x.Decl.(*ast.GenDecl); ok {
					for _, sp := range gd.Specs {
						if vs, ok := sp.(*ast.ValueSpec); ok {
							for i, id := range vs.Names {
								if id.Obj == ctorObj {
									rhs := gexpr{kind: "other", a: "zero value"}
									if i < len(vs.Values) {
										rhs = p.toGexpr(ctorFile, vs.Values[i])
									}
									varWrites = append(varWrites, loggerWrite{guard, rhs})
								}
							}
						}
					}
				}
			}
		}
		walk = func(stmts []ast.Stmt, guard string) {
			for _, s := range stmts {
				record(s, guard)
				switch x := s.(type) {
				case *ast.IfStmt:
					g := "other"
					if be, ok := x.Cond.(*ast.BinaryExpr); ok && be.Op == token.EQL && x.Init == nil && x.Else == nil && guard == "top" &&
						((isIdentObj(be.X, ctorObj) && isNil(be.Y)) || (isIdentObj(be.Y, ctorObj) && isNil(be.X))) {
						g = "ifnil"
					}
					if x.Init != nil {
						record(x.Init, "other")
					}
					walk(x.Body.List, g)
					if x.Else != nil {
						walk([]ast.Stmt{x.Else}, "other")
					}
				default:
					// any other statement that contains statements: everything below is "other"
					ast.Inspect(s, func(n ast.Node) bool {
						if n == s {
							return true
						}
						if st, ok := n.(ast.Stmt); ok {
							record(st, "other")
						}
						// &v or a closure capturing v could rebind it out of sight
						if u, ok := n.(*ast.UnaryExpr); ok && u.Op == token.AND && isIdentObj(u.X, ctorObj) {
							varWrites = append(varWrites, loggerWrite{"other", gexpr{kind: "other", a: "address taken"}})
						}
						return true
					})
				}
			}
		}
		walk(ctorDecl.Body.List, "top")
	}
	return fieldWrites, varWrites, ctorVar
}

// ---------------------------------------------------------------- emission

func coqString(s string) string {
	var b strings.Builder
	b.WriteByte('"')
	for i := 0; i < len(s); i++ {
		c := s[i]
		switch {
		case c == '"':
			b.WriteString(`""`)
		case c >= 32 && c < 127:
			b.WriteByte(c)
		default:
			fmt.Fprintf(&b, "\\x%02x", c)
		}
	}
	b.WriteByte('"')
	return b.String()
}

func emitGraph(p *pkgInfo) string {
	g := buildGraph(p)
	var b strings.Builder
	b.WriteString("(* GENERATED by harness/translate (bstranslate) from the Go sources of package bloomsearch.\n")
	b.WriteString("   Do not edit: rewritten on every ./check run when the sources change.\n")
	b.WriteString("   graph: for every function, method and package-level declaration of every non-test\n")
	b.WriteString("   file (both build-tag settings) the external identifiers it references. *)\n")
	b.WriteString("From BS Require Import Model.Silent.\nFrom Coq Require Import List String.\nImport ListNotations.\nOpen Scope string_scope.\n\n")
	files := make([]string, 0, len(p.files))
	for _, f := range p.files {
		files = append(files, coqString(f.name))
	}
	fmt.Fprintf(&b, "Definition scanned_files : list string := [%s].\n\n", strings.Join(files, "; "))
	b.WriteString("Definition graph : list fnrec := [\n")
	for i, fn := range g {
		refs := make([]string, len(fn.refs))
		for j, r := range fn.refs {
			refs[j] = fmt.Sprintf("(%s, %s)", coqString(r.pkg), coqString(r.name))
		}
		sep := ";"
		if i == len(g)-1 {
			sep = ""
		}
		fmt.Fprintf(&b, "  {| fn_file := %s; fn_name := %s; fn_refs := [%s] |}%s\n", coqString(fn.file), coqString(fn.name), strings.Join(refs, "; "), sep)
	}
	b.WriteString("].\n\n")
	fw, vw, v := loggerFacts(p, "NewBloomSearchEngine")
	b.WriteString("(* every write of a struct field named logger: (function, value) *)\n")
	b.WriteString("Definition logger_field_writes : list (string * gexpr) := [")
	for i, w := range fw {
		if i > 0 {
			b.WriteString("; ")
		}
		fmt.Fprintf(&b, "(%s, %s)", coqString(w.where), w.e.coq())
	}
	b.WriteString("].\n\n")
	b.WriteString("(* the local variable of NewBloomSearchEngine that feeds the field, and every binding of it: (guard, value) *)\n")
	fmt.Fprintf(&b, "Definition logger_var : string := %s.\n", coqString(v))
	b.WriteString("Definition logger_var_writes : list (string * gexpr) := [")
	for i, w := range vw {
		if i > 0 {
			b.WriteString("; ")
		}
		fmt.Fprintf(&b, "(%s, %s)", coqString(w.where), w.e.coq())
	}
	b.WriteString("].\n")
	return b.String()
}
