package main

import (
	"fmt"
	"go/ast"
	"go/parser"
	"go/token"
	"os"
	"path/filepath"
	"regexp"
	"sort"
	"strconv"
	"strings"
)

type srcFile struct {
	name      string // base name
	ast       *ast.File
	imports   map[string]string // local name -> import path (regular and aliased imports)
	dots      []string          // dot-imported paths
	blanks    []string          // blank-imported paths
	allPaths  []string          // every import path of the file
	linknames []string          // targets of //go:linkname directives
}

type pkgInfo struct {
	dir   string
	fset  *token.FileSet
	files []*srcFile
	names map[string]bool // package-level declared names across all files
	nonGo []string        // non-Go sources the go tool would compile into the package (.s, .c, .syso, ...)
}

var versionElem = regexp.MustCompile(`^v[0-9]+$`)

// defaultImportName guesses the package name an import path binds when the
// import has no alias: the last path element, skipping a major-version suffix.
// When the guess is wrong the qualifier stays unresolved and is reported as an
// unknown package ("?name"), which the Coq side treats as a sink, so a wrong
// guess can only make the check fail, never pass.
func defaultImportName(path string) string {
	elems := strings.Split(path, "/")
	last := elems[len(elems)-1]
	if versionElem.MatchString(last) && len(elems) > 1 {
		last = elems[len(elems)-2]
	}
	if i := strings.Index(last, ".v"); i > 0 && versionElem.MatchString(last[i+1:]) { // gopkg.in/yaml.v3
		last = last[:i]
	}
	return last
}

func loadPackage(dir, pkgName string) (*pkgInfo, error) {
	entries, err := os.ReadDir(dir)
	if err != nil {
		return nil, err
	}
	p := &pkgInfo{dir: dir, fset: token.NewFileSet(), names: map[string]bool{}}
	var goFiles []string
	for _, e := range entries {
		if e.IsDir() {
			continue
		}
		n := e.Name()
		switch {
		case strings.HasSuffix(n, "_test.go"):
		case strings.HasSuffix(n, ".go"):
			goFiles = append(goFiles, n)
		default:
			switch filepath.Ext(n) {
			case ".s", ".S", ".c", ".cc", ".cpp", ".cxx", ".m", ".h", ".hh", ".hpp", ".f", ".F", ".f90", ".syso", ".swig", ".swigcxx":
				p.nonGo = append(p.nonGo, n)
			}
		}
	}
	sort.Strings(goFiles)
	sort.Strings(p.nonGo)
	for _, n := range goFiles {
		f, err := parser.ParseFile(p.fset, filepath.Join(dir, n), nil, parser.ParseComments)
		if err != nil {
			return nil, fmt.Errorf("parse %s: %w", n, err)
		}
		if f.Name.Name != pkgName {
			continue // e.g. a `package main` tool kept next to the library with a build-ignore tag
		}
		sf := &srcFile{name: n, ast: f, imports: map[string]string{}}
		for _, imp := range f.Imports {
			path, err := strconv.Unquote(imp.Path.Value)
			if err != nil {
				return nil, fmt.Errorf("%s: bad import path %s", n, imp.Path.Value)
			}
			sf.allPaths = append(sf.allPaths, path)
			switch {
			case imp.Name == nil:
				sf.imports[defaultImportName(path)] = path
			case imp.Name.Name == ".":
				sf.dots = append(sf.dots, path)
			case imp.Name.Name == "_":
				sf.blanks = append(sf.blanks, path)
			default:
				sf.imports[imp.Name.Name] = path
			}
		}
		for _, cg := range f.Comments {
			for _, c := range cg.List {
				if strings.HasPrefix(c.Text, "//go:linkname ") {
					sf.linknames = append(sf.linknames, strings.TrimSpace(strings.TrimPrefix(c.Text, "//go:linkname ")))
				}
			}
		}
		for _, d := range f.Decls {
			switch x := d.(type) {
			case *ast.FuncDecl:
				if x.Recv == nil {
					p.names[x.Name.Name] = true
				}
			case *ast.GenDecl:
				for _, s := range x.Specs {
					switch sp := s.(type) {
					case *ast.TypeSpec:
						p.names[sp.Name.Name] = true
					case *ast.ValueSpec:
						for _, id := range sp.Names {
							p.names[id.Name] = true
						}
					}
				}
			}
		}
		p.files = append(p.files, sf)
	}
	if len(p.files) == 0 {
		return nil, fmt.Errorf("no non-test Go file of package %s in %s", pkgName, dir)
	}
	return p, nil
}

// resolveQualifier maps an identifier used as `q.Sel` to an import path, when q
// is not bound by any declaration the parser can see.
func (p *pkgInfo) resolveQualifier(f *srcFile, id *ast.Ident) (string, bool) {
	if id.Obj != nil || p.names[id.Name] {
		return "", false // a local, a parameter, or a package-level name of bloomsearch
	}
	if path, ok := f.imports[id.Name]; ok {
		return path, true
	}
	// the default-name guess may be off (package name differs from the path element)
	for _, path := range f.allPaths {
		for _, el := range strings.Split(path, "/") {
			t := strings.TrimSuffix(strings.TrimSuffix(strings.TrimPrefix(el, "go-"), "-go"), ".go")
			if el == id.Name || t == id.Name {
				return path, true
			}
		}
	}
	if isUniverse[id.Name] {
		return "", false
	}
	return "?" + id.Name, true // unknown qualifier: reported, and a sink on the Coq side
}

var isUniverse = map[string]bool{
	"nil": true, "true": true, "false": true, "iota": true,
	"error": true, "string": true, "any": true, "bool": true, "byte": true, "rune": true,
	"int": true, "int8": true, "int16": true, "int32": true, "int64": true,
	"uint": true, "uint8": true, "uint16": true, "uint32": true, "uint64": true, "uintptr": true,
	"float32": true, "float64": true, "complex64": true, "complex128": true, "comparable": true,
}
