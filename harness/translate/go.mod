module bstranslate

go 1.26.0
