package main

// Kernel translator, part 2: variables and expressions.

import (
	"fmt"
	"go/ast"
	"go/constant"
	"go/token"
	"math/big"
	"strings"
)

// vinfo is a Go variable on the Coq side. A struct-typed variable is kept
// destructured: one Coq variable per view field (recursively), so that a field
// read is a variable and a field assignment is a re-binding.
type vinfo struct {
	typ      *gtype
	coq      string   // scalars, lists
	fields   []*vinfo // tStruct, in view order
	fnames   []string
	readonly bool // reached through a pointer: fields cannot be assigned in the subset
	index    *loopIndex
}

type loopIndex struct {
	used      bool
	rangeText string // text of the ranged expression
	elem      *vinfo
}

func (v *vinfo) leaves(out []*vinfo) []*vinfo {
	if v.typ.k != tStruct {
		return append(out, v)
	}
	for _, f := range v.fields {
		out = f.leaves(out)
	}
	return out
}

// pattern is the binder that destructures a value of v's type into v's variables.
func (v *vinfo) pattern() string {
	if v.typ.k != tStruct {
		return v.coq
	}
	switch len(v.fields) {
	case 0:
		return "_"
	case 1:
		return v.fields[0].pattern()
	}
	parts := make([]string, len(v.fields))
	for i, f := range v.fields {
		parts[i] = f.pattern()
	}
	return "(" + strings.Join(parts, ", ") + ")"
}

// term rebuilds the value from the variables.
func (v *vinfo) term() string {
	if v.typ.k != tStruct {
		return v.coq
	}
	switch len(v.fields) {
	case 0:
		return "tt"
	case 1:
		return v.fields[0].term()
	}
	parts := make([]string, len(v.fields))
	for i, f := range v.fields {
		parts[i] = f.term()
	}
	return "(" + strings.Join(parts, ", ") + ")"
}

func letPattern(pat, rhs string) string {
	if strings.HasPrefix(pat, "(") {
		return "let '" + pat + " := " + rhs + " in\n"
	}
	return "let " + pat + " := " + rhs + " in\n"
}

func tuplePattern(vs []*vinfo) string {
	switch len(vs) {
	case 0:
		return "_"
	case 1:
		return vs[0].coq
	}
	parts := make([]string, len(vs))
	for i, v := range vs {
		parts[i] = v.coq
	}
	return "(" + strings.Join(parts, ", ") + ")"
}

func tupleTerm(vs []*vinfo) string {
	if len(vs) == 0 {
		return "tt"
	}
	return tuplePattern(vs)
}

// val is a translated expression.
type val struct {
	typ  *gtype
	coq  string   // the Coq term (for structs: the tuple), always set
	sv   *vinfo   // set when the expression denotes a variable (or a field of one)
	ptr  bool     // the Go expression is a pointer to the value
	cst  *big.Int // exact value of an integer constant expression
	isEn bool     // an enum constant (only these may be compared with enum values)
}

var coqReserved = map[string]bool{}

func init() {
	for _, w := range strings.Fields(`as at cofix else end exists exists2 fix for forall fun if IF in let match mod Prop return Set then Type using where with
		by Definition Lemma Theorem Proof Qed
		true false negb andb orb xorb Some None nil cons tt pair fst snd map length list option bool unit Z nat
		add64 sub64 mul64 neg64 wrap64 addu64 subu64 mulu64 wrapu64 i64 u64 gstring gstr_eqb gstr_ltb gstr_leb gstr_gtb gstr_geb
		range_loop range_loop_i LNext LBreak LRet LDone LReturn lstep lend Forall
		Admitted admit Axiom Axioms Parameter Parameters Conjecture Conjectures`) {
		coqReserved[w] = true
	}
}

// fctx is the translation of one function.
type fctx struct {
	k      *ktrans
	fn     *kfunc
	file   *srcFile
	env    map[*ast.Object]*vinfo
	used   map[string]bool     // Coq names taken in this function
	named  []*vinfo            // named results
	consts map[*ast.Object]val // local constants
}

func (c *fctx) fresh(base string) string {
	name := sanitize(base)
	if !c.used[name] && !coqReserved[name] && !c.k.isGlobalName(name) {
		c.used[name] = true
		return name
	}
	for i := 2; ; i++ {
		n := fmt.Sprintf("%s_%d", name, i)
		if !c.used[n] && !c.k.isGlobalName(n) {
			c.used[n] = true
			return n
		}
	}
}

func sanitize(s string) string {
	var b strings.Builder
	for _, r := range s {
		if r == '_' || r >= '0' && r <= '9' || r >= 'a' && r <= 'z' || r >= 'A' && r <= 'Z' {
			b.WriteRune(r)
		} else {
			b.WriteString("_u")
		}
	}
	out := b.String()
	if out == "" || out == "_" || out[0] >= '0' && out[0] <= '9' {
		out = "v" + out
	}
	return out
}

// newVar creates the Coq variables of a Go variable of type t.
func (c *fctx) newVar(base string, t *gtype) (*vinfo, error) {
	if t.k != tStruct {
		return &vinfo{typ: t, coq: c.fresh(base)}, nil
	}
	s, err := c.k.tt.structOf(t.name)
	if err != nil {
		return nil, err
	}
	c.k.needStruct(t.name)
	v := &vinfo{typ: t}
	for _, f := range s.fields {
		fv, err := c.newVar(base+"_"+f.name, f.typ)
		if err != nil {
			return nil, err
		}
		v.fields = append(v.fields, fv)
		v.fnames = append(v.fnames, f.name)
	}
	return v, nil
}

func setReadonly(v *vinfo, ro bool) {
	v.readonly = ro
	for _, f := range v.fields {
		setReadonly(f, ro)
	}
}

func unsupported(c *fctx, n ast.Node, what string) error {
	pos := c.k.tt.p.fset.Position(n.Pos())
	return fmt.Errorf("%s:%d: %s", pos.Filename[strings.LastIndex(pos.Filename, "/")+1:], pos.Line, what)
}

func coqInt(z *big.Int) string {
	if z.Sign() < 0 {
		return "(" + z.String() + ")"
	}
	return z.String()
}

var mathConsts = map[string]string{
	"MaxInt64": "9223372036854775807", "MinInt64": "-9223372036854775808", "MaxInt": "9223372036854775807", "MinInt": "-9223372036854775808",
	"MaxUint64": "18446744073709551615", "MaxUint": "18446744073709551615",
	"MaxInt32": "2147483647", "MinInt32": "-2147483648", "MaxUint32": "4294967295",
	"MaxInt16": "32767", "MinInt16": "-32768", "MaxUint16": "65535", "MaxInt8": "127", "MinInt8": "-128", "MaxUint8": "255",
}

func fitsType(z *big.Int, t *gtype) bool {
	switch t.k {
	case tInt:
		return z.IsInt64()
	case tUint:
		return z.IsUint64()
	}
	return true
}

func constVal(z *big.Int, t *gtype) val {
	return val{typ: t, coq: coqInt(z), cst: z}
}

// expr translates an expression.
func (c *fctx) expr(e ast.Expr) (val, error) {
	switch x := e.(type) {
	case *ast.ParenExpr:
		return c.expr(x.X)
	case *ast.BasicLit:
		if x.Kind == token.INT || x.Kind == token.CHAR {
			cv := constant.ToInt(constant.MakeFromLiteral(x.Value, x.Kind, 0))
			if z, ok := constant.Val(cv).(*big.Int); ok {
				return constVal(z, typUConst), nil
			}
			if i, ok := constant.Int64Val(cv); ok {
				return constVal(big.NewInt(i), typUConst), nil
			}
		}
		if x.Kind == token.STRING {
			cv := constant.MakeFromLiteral(x.Value, x.Kind, 0)
			if cv.Kind() == constant.String {
				return val{typ: typString, coq: coqBytes(constant.StringVal(cv))}, nil
			}
		}
		return val{}, unsupported(c, e, "literal "+x.Value)
	case *ast.Ident:
		return c.ident(x)
	case *ast.SelectorExpr:
		return c.selector(x)
	case *ast.StarExpr:
		v, err := c.expr(x.X)
		if err != nil {
			return val{}, err
		}
		if !v.ptr {
			return val{}, unsupported(c, e, "dereference of a non-pointer")
		}
		v.ptr = false
		return v, nil
	case *ast.UnaryExpr:
		return c.unary(x)
	case *ast.BinaryExpr:
		return c.binary(x)
	case *ast.CallExpr:
		return c.call(x)
	case *ast.IndexExpr:
		return c.indexExpr(x)
	case *ast.CompositeLit:
		return c.composite(x)
	}
	return val{}, unsupported(c, e, fmt.Sprintf("expression %s", exprText(c.k.tt.p, e)))
}

func coqBytes(s string) string {
	if s == "" {
		return "[]"
	}
	parts := make([]string, len(s))
	for i := 0; i < len(s); i++ {
		parts[i] = fmt.Sprint(int(s[i]))
	}
	return "[" + strings.Join(parts, "; ") + "]"
}

func (c *fctx) ident(x *ast.Ident) (val, error) {
	if x.Obj != nil {
		if v, ok := c.env[x.Obj]; ok {
			if v.index != nil {
				v.index.used = true
			}
			return val{typ: v.typ, coq: v.term(), sv: v, ptr: v.readonly && v.typ.k == tStruct}, nil
		}
	}
	if x.Obj != nil {
		if v, ok := c.consts[x.Obj]; ok {
			return v, nil
		}
	}
	switch x.Name {
	case "true", "false":
		if x.Obj == nil && !c.k.tt.p.names[x.Name] {
			return val{typ: typUBool, coq: x.Name}, nil
		}
	case "nil":
		return val{}, unsupported(c, x, "nil outside a comparison with an error")
	}
	// package-level constant
	if ci, ok := c.k.tt.consts[x.Name]; ok && (x.Obj == nil || x.Obj.Kind == ast.Con) {
		cv, err := c.k.tt.cenv.lookup(x.Name)
		if err != nil {
			return val{}, unsupported(c, x, err.Error())
		}
		var t *gtype
		if ci.typ != nil {
			rt, _, err := c.k.tt.resolve(ci.typ)
			if err != nil {
				return val{}, unsupported(c, x, "constant "+x.Name+": "+err.Error())
			}
			t = rt
		}
		switch cv.Kind() {
		case constant.Int:
			z, ok := constant.Val(cv).(*big.Int)
			if !ok {
				i, _ := constant.Int64Val(cv)
				z = big.NewInt(i)
			}
			if t == nil {
				t = typUConst
			}
			if t.k != tInt && t.k != tUint && t.k != tUntyped {
				return val{}, unsupported(c, x, "integer constant "+x.Name+" of type "+t.String())
			}
			return constVal(z, t), nil
		case constant.Bool:
			if t == nil {
				t = typUBool
			}
			return val{typ: t, coq: fmt.Sprint(constant.BoolVal(cv))}, nil
		case constant.String:
			if t != nil && t.k == tEnum {
				c.k.needEnum(t.name)
				return val{typ: t, coq: t.name + "_" + x.Name, isEn: true}, nil
			}
			if t == nil || t.k == tString {
				return val{typ: typString, coq: coqBytes(constant.StringVal(cv))}, nil
			}
		}
		return val{}, unsupported(c, x, "constant "+x.Name)
	}
	return val{}, unsupported(c, x, "identifier "+x.Name+" is not a local variable or a constant of the package")
}

func (c *fctx) selector(x *ast.SelectorExpr) (val, error) {
	if id, ok := x.X.(*ast.Ident); ok {
		if path, ok := c.k.tt.p.resolveQualifier(c.file, id); ok {
			if path == "math" {
				if s, ok := mathConsts[x.Sel.Name]; ok {
					z, _ := new(big.Int).SetString(s, 10)
					return constVal(z, typUConst), nil
				}
			}
			return val{}, unsupported(c, x, "reference to "+path+"."+x.Sel.Name)
		}
	}
	base, err := c.expr(x.X)
	if err != nil {
		return val{}, err
	}
	if base.typ.k != tStruct {
		return val{}, unsupported(c, x, "selector on a value of type "+base.typ.String())
	}
	if base.sv == nil {
		return val{}, unsupported(c, x, "field of a struct value that is not a variable")
	}
	for i, n := range base.sv.fnames {
		if n == x.Sel.Name {
			f := base.sv.fields[i]
			return val{typ: f.typ, coq: f.term(), sv: f}, nil
		}
	}
	s, _ := c.k.tt.structOf(base.typ.name)
	if s != nil {
		if why, ok := s.omitted[x.Sel.Name]; ok {
			return val{}, unsupported(c, x, fmt.Sprintf("field %s.%s is not in the translated view (%s)", base.typ.name, x.Sel.Name, why))
		}
	}
	return val{}, unsupported(c, x, fmt.Sprintf("%s has no field %s (method values are outside the subset)", base.typ.name, x.Sel.Name))
}

func (c *fctx) unary(x *ast.UnaryExpr) (val, error) {
	if x.Op == token.AND {
		v, err := c.expr(x.X)
		if err != nil {
			return val{}, err
		}
		if v.typ.k != tStruct || v.ptr {
			return val{}, unsupported(c, x, "address of a non-struct value")
		}
		v.ptr = true
		return v, nil
	}
	v, err := c.expr(x.X)
	if err != nil {
		return val{}, err
	}
	switch x.Op {
	case token.NOT:
		if v.typ.k == tBool || v.typ.k == tUntypedBool {
			return val{typ: v.typ, coq: "negb " + paren(v.coq)}, nil
		}
	case token.ADD:
		if isInt(v.typ) {
			return v, nil
		}
	case token.SUB:
		switch {
		case v.cst != nil && v.typ.k == tUntyped:
			return constVal(new(big.Int).Neg(v.cst), typUConst), nil
		case v.cst != nil && fitsType(new(big.Int).Neg(v.cst), v.typ):
			return constVal(new(big.Int).Neg(v.cst), v.typ), nil
		case v.typ.k == tInt:
			return val{typ: typInt, coq: "neg64 " + paren(v.coq)}, nil
		case v.typ.k == tUint:
			return val{typ: typUint, coq: "subu64 0 " + paren(v.coq)}, nil
		}
	}
	return val{}, unsupported(c, x, "operator "+x.Op.String()+" on "+v.typ.String())
}

func isInt(t *gtype) bool { return t.k == tInt || t.k == tUint || t.k == tUntyped }

// unify gives the common type of the operands of a binary operator.
func unify(a, b val) (*gtype, bool) {
	switch {
	case a.typ.k == tUntyped && isInt(b.typ):
		return b.typ, true
	case b.typ.k == tUntyped && isInt(a.typ):
		return a.typ, true
	case a.typ.k == tUntypedBool && (b.typ.k == tBool || b.typ.k == tUntypedBool):
		return b.typ, true
	case b.typ.k == tUntypedBool && a.typ.k == tBool:
		return a.typ, true
	case sameType(a.typ, b.typ):
		return a.typ, true
	}
	return nil, false
}

func isNilIdent(e ast.Expr) bool {
	for {
		p, ok := e.(*ast.ParenExpr)
		if !ok {
			break
		}
		e = p.X
	}
	id, ok := e.(*ast.Ident)
	return ok && id.Name == "nil" && id.Obj == nil
}

func (c *fctx) binary(x *ast.BinaryExpr) (val, error) {
	// error compared with nil
	if (x.Op == token.EQL || x.Op == token.NEQ) && (isNilIdent(x.X) || isNilIdent(x.Y)) {
		other := x.X
		if isNilIdent(x.X) {
			other = x.Y
		}
		v, err := c.expr(other)
		if err != nil {
			return val{}, err
		}
		if v.typ.k != tError {
			return val{}, unsupported(c, x, "comparison of a "+v.typ.String()+" with nil")
		}
		if x.Op == token.EQL {
			return val{typ: typBool, coq: v.coq}, nil
		}
		return val{typ: typBool, coq: "negb " + paren(v.coq)}, nil
	}
	a, err := c.expr(x.X)
	if err != nil {
		return val{}, err
	}
	b, err := c.expr(x.Y)
	if err != nil {
		return val{}, err
	}
	t, ok := unify(a, b)
	if !ok {
		return val{}, unsupported(c, x, fmt.Sprintf("operands of %s have types %s and %s", x.Op, a.typ, b.typ))
	}
	A, B := paren(a.coq), paren(b.coq)
	switch x.Op {
	case token.LAND, token.LOR:
		if t.k != tBool && t.k != tUntypedBool {
			break
		}
		op := " && "
		if x.Op == token.LOR {
			op = " || "
		}
		return val{typ: t, coq: A + op + B}, nil
	case token.ADD, token.SUB, token.MUL:
		if !isInt(t) {
			break
		}
		if a.cst != nil && b.cst != nil {
			z := new(big.Int)
			switch x.Op {
			case token.ADD:
				z.Add(a.cst, b.cst)
			case token.SUB:
				z.Sub(a.cst, b.cst)
			case token.MUL:
				z.Mul(a.cst, b.cst)
			}
			if !fitsType(z, t) {
				return val{}, unsupported(c, x, "constant expression overflows "+t.String())
			}
			return constVal(z, t), nil
		}
		fn := map[token.Token]string{token.ADD: "add", token.SUB: "sub", token.MUL: "mul"}[x.Op]
		if t.k == tUint {
			fn += "u64"
		} else {
			fn += "64"
		}
		return val{typ: t, coq: fn + " " + A + " " + B}, nil
	case token.SHL:
		if a.cst != nil && b.cst != nil && b.cst.IsUint64() && b.cst.Uint64() < 256 {
			z := new(big.Int).Lsh(a.cst, uint(b.cst.Uint64()))
			if !fitsType(z, a.typ) {
				return val{}, unsupported(c, x, "constant shift overflows")
			}
			return constVal(z, a.typ), nil
		}
	case token.EQL, token.NEQ, token.LSS, token.LEQ, token.GTR, token.GEQ:
		return c.compare(x, t, a, b)
	}
	return val{}, unsupported(c, x, fmt.Sprintf("operator %s on %s", x.Op, t))
}

func (c *fctx) compare(x *ast.BinaryExpr, t *gtype, a, b val) (val, error) {
	A, B := paren(a.coq), paren(b.coq)
	neg := func(s string) string { return "negb (" + s + ")" }
	switch t.k {
	case tInt, tUint, tUntyped:
		op := map[token.Token]string{token.EQL: "=?", token.NEQ: "=?", token.LSS: "<?", token.LEQ: "<=?", token.GTR: ">?", token.GEQ: ">=?"}[x.Op]
		s := A + " " + op + " " + B
		if x.Op == token.NEQ {
			s = neg(s)
		}
		return val{typ: typBool, coq: s}, nil
	case tEnum:
		if x.Op != token.EQL && x.Op != token.NEQ {
			return val{}, unsupported(c, x, "ordering of values of the string type "+t.name)
		}
		if !a.isEn && !b.isEn {
			return val{}, unsupported(c, x, "comparison of two non-constant values of the string type "+t.name+" (their codes only tell declared constants apart)")
		}
		s := A + " =? " + B
		if x.Op == token.NEQ {
			s = neg(s)
		}
		return val{typ: typBool, coq: s}, nil
	case tBool, tUntypedBool:
		switch x.Op {
		case token.EQL:
			return val{typ: typBool, coq: "Bool.eqb " + A + " " + B}, nil
		case token.NEQ:
			return val{typ: typBool, coq: "xorb " + A + " " + B}, nil
		}
	case tString:
		switch x.Op {
		case token.EQL:
			return val{typ: typBool, coq: "gstr_eqb " + A + " " + B}, nil
		case token.NEQ:
			return val{typ: typBool, coq: neg("gstr_eqb " + A + " " + B)}, nil
		case token.LSS:
			return val{typ: typBool, coq: "gstr_ltb " + A + " " + B}, nil
		case token.LEQ:
			return val{typ: typBool, coq: "gstr_leb " + A + " " + B}, nil
		case token.GTR:
			return val{typ: typBool, coq: "gstr_gtb " + A + " " + B}, nil
		case token.GEQ:
			return val{typ: typBool, coq: "gstr_geb " + A + " " + B}, nil
		}
	}
	return val{}, unsupported(c, x, fmt.Sprintf("comparison %s on %s", x.Op, t))
}

// convert is T(x) for a numeric T.
func (c *fctx) convert(x *ast.CallExpr, t *gtype) (val, error) {
	v, err := c.expr(x.Args[0])
	if err != nil {
		return val{}, err
	}
	if !isInt(v.typ) || !(t.k == tInt || t.k == tUint) {
		return val{}, unsupported(c, x, fmt.Sprintf("conversion from %s to %s", v.typ, t))
	}
	if v.cst != nil {
		if !fitsType(v.cst, t) {
			return val{}, unsupported(c, x, "constant conversion overflows")
		}
		return constVal(v.cst, t), nil
	}
	switch {
	case v.typ.k == t.k:
		return val{typ: t, coq: v.coq}, nil
	case t.k == tInt:
		return val{typ: t, coq: "wrap64 " + paren(v.coq)}, nil
	default:
		return val{typ: t, coq: "wrapu64 " + paren(v.coq)}, nil
	}
}

func (c *fctx) indexExpr(x *ast.IndexExpr) (val, error) {
	// xs[i] where i is the index variable of an enclosing loop over xs
	if id, ok := x.Index.(*ast.Ident); ok && id.Obj != nil {
		if v, ok := c.env[id.Obj]; ok && v.index != nil && v.index.rangeText == exprText(c.k.tt.p, x.X) {
			el := v.index.elem
			return val{typ: el.typ, coq: el.term(), sv: el}, nil
		}
	}
	return val{}, unsupported(c, x, "index expression "+exprText(c.k.tt.p, x)+" (only xs[i] with i the index of the enclosing loop over xs)")
}

func (c *fctx) composite(x *ast.CompositeLit) (val, error) {
	if x.Type == nil {
		return val{}, unsupported(c, x, "composite literal without a type")
	}
	t, ptr, err := c.k.tt.resolve(x.Type)
	if err != nil || ptr || t.k != tStruct {
		return val{}, unsupported(c, x, "composite literal of type "+exprText(c.k.tt.p, x.Type))
	}
	s, err := c.k.tt.structOf(t.name)
	if err != nil {
		return val{}, unsupported(c, x, err.Error())
	}
	c.k.needStruct(t.name)
	vals := make([]string, len(s.fields))
	set := make([]bool, len(s.fields))
	put := func(i int, e ast.Expr) error {
		v, err := c.expr(e)
		if err != nil {
			return err
		}
		if _, ok := unify(v, val{typ: s.fields[i].typ}); !ok {
			return unsupported(c, e, fmt.Sprintf("field %s: value of type %s", s.fields[i].name, v.typ))
		}
		vals[i], set[i] = v.coq, true
		return nil
	}
	for i, el := range x.Elts {
		if kv, ok := el.(*ast.KeyValueExpr); ok {
			id, ok := kv.Key.(*ast.Ident)
			if !ok {
				return val{}, unsupported(c, el, "composite literal key")
			}
			j := -1
			for k := range s.fields {
				if s.fields[k].name == id.Name {
					j = k
				}
			}
			if j < 0 {
				return val{}, unsupported(c, el, "field "+id.Name+" is not in the translated view of "+t.name)
			}
			if err := put(j, kv.Value); err != nil {
				return val{}, err
			}
			continue
		}
		if len(s.omitted) > 0 || i >= len(s.fields) {
			return val{}, unsupported(c, el, "positional composite literal of a struct with fields outside the view")
		}
		if err := put(i, el); err != nil {
			return val{}, err
		}
	}
	for i := range vals {
		if !set[i] {
			z, err := c.k.tt.zero(s.fields[i].typ)
			if err != nil {
				return val{}, unsupported(c, x, err.Error())
			}
			vals[i] = z
		}
	}
	switch len(vals) {
	case 0:
		return val{typ: t, coq: "tt"}, nil
	case 1:
		return val{typ: t, coq: vals[0]}, nil
	}
	return val{typ: t, coq: "(" + strings.Join(vals, ", ") + ")"}, nil
}
