#!/bin/bash
# Translator self-test: translate the corpus selftest/kt, evaluate the generated definitions in Coq
# against what Go computes on a grid of inputs. Usage: harness/translate/selftest.sh  (from anywhere)
set -eu
export GOFLAGS=-mod=mod GOPROXY=off GOSUMDB=off GOTOOLCHAIN=local
HERE=$(cd "$(dirname "$0")" && pwd)
V=$(cd "$HERE/../.." && pwd)
T=$V/run/selftest
rm -rf $T; mkdir -p $T/Generated
ln -s $V/coq/Lib $T/Lib
cd $HERE
go1.26 build -o $T/bstranslate .
$T/bstranslate -repo $HERE/selftest/kt -package kt -out $T/Generated -kernels F1,F2,F3,F4,F5,F6,F7,F8,F9,F10,Rec.Grow,Pair.Width
go1.26 run ./selftest/gen > $T/Cases.v
cd $T
timeout 600 coqc -Q . BS Generated/Kernels.v
timeout 1200 coqc -Q . BS Cases.v
echo "selftest ok: $(grep -c '^Example' Cases.v) cases"
