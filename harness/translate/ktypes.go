package main

// Kernel translator, part 1: the Go types the supported subset knows, resolved
// syntactically from the package's declarations, and the constants.

import (
	"fmt"
	"go/ast"
	"go/constant"
	"go/token"
	"sort"
	"strings"
)

type tkind int

const (
	tInt     tkind = iota // int, int64 (and defined types over them): Z, operations wrap at 64 bits signed
	tUint                 // uint, uint64: Z in [0, 2^64), operations wrap
	tBool                 // bool
	tEnum                 // defined string type with declared constants: Z code (see enumInfo)
	tString               // string: list of bytes (GoPrim.gstring)
	tStruct               // struct declared in the package: tuple of its view fields
	tSlice                // []T: list
	tError                // error: bool, true = nil
	tUntyped              // untyped integer constant
	tUntypedBool
)

type gtype struct {
	k    tkind
	name string // tEnum, tStruct: the Go type name
	elem *gtype // tSlice
}

func (t *gtype) String() string {
	switch t.k {
	case tInt:
		return "int64"
	case tUint:
		return "uint64"
	case tBool, tUntypedBool:
		return "bool"
	case tEnum, tStruct:
		return t.name
	case tString:
		return "string"
	case tSlice:
		return "[]" + t.elem.String()
	case tError:
		return "error"
	case tUntyped:
		return "untyped int"
	}
	return "?"
}

func sameType(a, b *gtype) bool {
	if a.k != b.k {
		return false
	}
	switch a.k {
	case tEnum, tStruct:
		return a.name == b.name
	case tSlice:
		return sameType(a.elem, b.elem)
	}
	return true
}

var (
	typInt    = &gtype{k: tInt}
	typUint   = &gtype{k: tUint}
	typBool   = &gtype{k: tBool}
	typString = &gtype{k: tString}
	typError  = &gtype{k: tError}
	typUConst = &gtype{k: tUntyped}
	typUBool  = &gtype{k: tUntypedBool}
)

type fieldInfo struct {
	name string
	typ  *gtype
}

type structInfo struct {
	name    string
	fields  []fieldInfo       // the view: fields of supported type, declaration order
	omitted map[string]string // field name -> why it is not in the view
}

func (s *structInfo) field(name string) *fieldInfo {
	for i := range s.fields {
		if s.fields[i].name == name {
			return &s.fields[i]
		}
	}
	return nil
}

type enumInfo struct {
	name   string
	consts []string          // constant names, sorted
	code   map[string]int    // constant name -> code (1 + rank of its string value among the distinct values)
	value  map[string]string // constant name -> string value
}

type constInfo struct {
	file *srcFile
	typ  ast.Expr // declared type, nil when untyped
}

type typeTable struct {
	p       *pkgInfo
	cenv    *constEnv
	decls   map[string]*ast.TypeSpec
	declIn  map[string]*srcFile
	structs map[string]*structInfo
	busy    map[string]bool
	enums   map[string]*enumInfo
	consts  map[string]constInfo
}

func newTypeTable(p *pkgInfo) *typeTable {
	tt := &typeTable{p: p, cenv: newConstEnv(p), decls: map[string]*ast.TypeSpec{}, declIn: map[string]*srcFile{},
		structs: map[string]*structInfo{}, busy: map[string]bool{}, enums: map[string]*enumInfo{}, consts: map[string]constInfo{}}
	for _, f := range p.files {
		for _, d := range f.ast.Decls {
			gd, ok := d.(*ast.GenDecl)
			if !ok {
				continue
			}
			switch gd.Tok {
			case token.TYPE:
				for _, s := range gd.Specs {
					ts := s.(*ast.TypeSpec)
					if _, dup := tt.decls[ts.Name.Name]; !dup {
						tt.decls[ts.Name.Name] = ts
						tt.declIn[ts.Name.Name] = f
					}
				}
			case token.CONST:
				var lastType ast.Expr
				for _, s := range gd.Specs {
					vs := s.(*ast.ValueSpec)
					if len(vs.Values) > 0 {
						lastType = vs.Type
					}
					for _, id := range vs.Names {
						if _, dup := tt.consts[id.Name]; !dup {
							tt.consts[id.Name] = constInfo{file: f, typ: lastType}
						}
					}
				}
			}
		}
	}
	return tt
}

// resolve maps a type expression to a supported type; ptr reports a pointer to it.
func (tt *typeTable) resolve(e ast.Expr) (t *gtype, ptr bool, err error) {
	switch x := e.(type) {
	case *ast.ParenExpr:
		return tt.resolve(x.X)
	case *ast.StarExpr:
		t, p, err := tt.resolve(x.X)
		if err != nil {
			return nil, false, err
		}
		if p {
			return nil, false, fmt.Errorf("pointer to pointer %s", exprText(tt.p, e))
		}
		if t.k != tStruct {
			return nil, false, fmt.Errorf("pointer to non-struct type %s", exprText(tt.p, e))
		}
		return t, true, nil
	case *ast.ArrayType:
		if x.Len != nil {
			return nil, false, fmt.Errorf("array type %s", exprText(tt.p, e))
		}
		el, p, err := tt.resolve(x.Elt)
		if err != nil {
			return nil, false, err
		}
		if p {
			return nil, false, fmt.Errorf("slice of pointers %s", exprText(tt.p, e))
		}
		return &gtype{k: tSlice, elem: el}, false, nil
	case *ast.Ident:
		if ts, ok := tt.decls[x.Name]; ok {
			return tt.resolveNamed(x.Name, ts)
		}
		switch x.Name {
		case "int", "int64":
			return typInt, false, nil
		case "uint", "uint64":
			return typUint, false, nil
		case "bool":
			return typBool, false, nil
		case "string":
			return typString, false, nil
		case "error":
			return typError, false, nil
		}
		return nil, false, fmt.Errorf("type %s is outside the supported subset", x.Name)
	}
	return nil, false, fmt.Errorf("type %s is outside the supported subset", exprText(tt.p, e))
}

func (tt *typeTable) resolveNamed(name string, ts *ast.TypeSpec) (*gtype, bool, error) {
	if ts.TypeParams != nil {
		return nil, false, fmt.Errorf("generic type %s", name)
	}
	switch u := ts.Type.(type) {
	case *ast.StructType:
		if _, err := tt.structOf(name); err != nil {
			return nil, false, err
		}
		return &gtype{k: tStruct, name: name}, false, nil
	case *ast.Ident:
		if _, declared := tt.decls[u.Name]; !declared {
			switch u.Name {
			case "string":
				if en := tt.enumOf(name); en != nil {
					return &gtype{k: tEnum, name: name}, false, nil
				}
				return nil, false, fmt.Errorf("defined string type %s has no constants", name)
			case "int", "int64":
				return typInt, false, nil
			case "uint", "uint64":
				return typUint, false, nil
			case "bool":
				return typBool, false, nil
			}
		}
	}
	return nil, false, fmt.Errorf("type %s (%s) is outside the supported subset", name, exprText(tt.p, ts.Type))
}

func (tt *typeTable) structOf(name string) (*structInfo, error) {
	if s, ok := tt.structs[name]; ok {
		return s, nil
	}
	ts, ok := tt.decls[name]
	if !ok {
		return nil, fmt.Errorf("no declaration of type %s", name)
	}
	st, ok := ts.Type.(*ast.StructType)
	if !ok {
		return nil, fmt.Errorf("%s is not a struct", name)
	}
	if tt.busy[name] {
		return nil, fmt.Errorf("recursive struct type %s", name)
	}
	tt.busy[name] = true
	defer func() { tt.busy[name] = false }()
	s := &structInfo{name: name, omitted: map[string]string{}}
	for _, fl := range st.Fields.List {
		if len(fl.Names) == 0 {
			continue // embedded field: not in the view
		}
		t, ptr, err := tt.resolve(fl.Type)
		for _, id := range fl.Names {
			switch {
			case err != nil:
				s.omitted[id.Name] = err.Error()
			case ptr:
				s.omitted[id.Name] = "pointer field"
			default:
				s.fields = append(s.fields, fieldInfo{id.Name, t})
			}
		}
	}
	tt.structs[name] = s
	return s, nil
}

// enumOf collects the constants declared with the defined string type `name`.
func (tt *typeTable) enumOf(name string) *enumInfo {
	if en, ok := tt.enums[name]; ok {
		return en
	}
	en := &enumInfo{name: name, code: map[string]int{}, value: map[string]string{}}
	for cname, ci := range tt.consts {
		id, ok := ci.typ.(*ast.Ident)
		if !ok || id.Name != name {
			continue
		}
		v, err := tt.cenv.lookup(cname)
		if err != nil || v.Kind() != constant.String {
			continue
		}
		en.consts = append(en.consts, cname)
		en.value[cname] = constant.StringVal(v)
	}
	if len(en.consts) == 0 {
		tt.enums[name] = nil
		return nil
	}
	sort.Strings(en.consts)
	var vals []string
	seen := map[string]bool{}
	for _, c := range en.consts {
		if !seen[en.value[c]] {
			seen[en.value[c]] = true
			vals = append(vals, en.value[c])
		}
	}
	sort.Strings(vals)
	for _, c := range en.consts {
		en.code[c] = 1 + sort.SearchStrings(vals, en.value[c])
	}
	tt.enums[name] = en
	return en
}

// ---- Coq side of a type ----

func (tt *typeTable) coqType(t *gtype) string {
	switch t.k {
	case tInt, tUint, tEnum, tUntyped:
		return "Z"
	case tBool, tError, tUntypedBool:
		return "bool"
	case tString:
		return "gstring"
	case tStruct:
		return t.name + "_t"
	case tSlice:
		return "list " + paren(tt.coqType(t.elem))
	}
	return "?"
}

func paren(s string) string {
	if strings.ContainsAny(s, " ") && !(strings.HasPrefix(s, "(") && strings.HasSuffix(s, ")") && balancedOuter(s)) {
		return "(" + s + ")"
	}
	return s
}

// balancedOuter reports whether the first '(' of s closes at its last character.
func balancedOuter(s string) bool {
	depth := 0
	for i, ch := range s {
		switch ch {
		case '(':
			depth++
		case ')':
			depth--
			if depth == 0 && i != len(s)-1 {
				return false
			}
		}
	}
	return depth == 0
}

func (tt *typeTable) zero(t *gtype) (string, error) {
	switch t.k {
	case tInt, tUint, tUntyped:
		return "0", nil
	case tBool, tUntypedBool:
		return "false", nil
	case tError:
		return "true", nil
	case tString, tSlice:
		return "[]", nil
	case tEnum:
		return "", fmt.Errorf("zero value of the string type %s", t.name)
	case tStruct:
		s, err := tt.structOf(t.name)
		if err != nil {
			return "", err
		}
		if len(s.fields) == 0 {
			return "tt", nil
		}
		parts := make([]string, len(s.fields))
		for i, f := range s.fields {
			z, err := tt.zero(f.typ)
			if err != nil {
				return "", err
			}
			parts[i] = z
		}
		if len(parts) == 1 {
			return parts[0], nil
		}
		return "(" + strings.Join(parts, ", ") + ")", nil
	}
	return "", fmt.Errorf("no zero value for %s", t)
}

// okPred is the range predicate of a value of type t applied to the Coq term x ("" when there is none).
func (tt *typeTable) okPred(t *gtype, x string) string {
	switch t.k {
	case tInt:
		return "i64 " + x
	case tUint:
		return "u64 " + x
	case tStruct:
		return t.name + "_ok " + x
	case tSlice:
		if p := tt.okPred(t.elem, "x"); p != "" {
			if strings.HasSuffix(p, " x") && !strings.Contains(strings.TrimSuffix(p, " x"), " ") {
				return "Forall " + strings.TrimSuffix(p, " x") + " " + x
			}
			return "Forall (fun x => " + p + ") " + x
		}
	}
	return ""
}
