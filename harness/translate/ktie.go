package main

// Kernel translator, part 4: the table of kernels and Generated/KernelTie.v.
//
// This table is the hand-written part of the tie: which Go function is meant to
// be which model function, how a Go struct (its generated tuple) is read as the
// model's record, and under which range premises the two are claimed equal.
// Everything named here is checked against the sources: a kernel whose statement
// mentions something that is not available is reported as not translated.

import (
	"fmt"
	"regexp"
	"strings"
)

type kernelSpec struct {
	name   string   // tie_<name>, k_<name>_tie
	goFunc string   // "Func" or "Recv.Method"
	needs  []string // struct / enum mappings the statement uses
	stmt   string   // the statement; @GO@ is the generated function
	props  []string // the properties whose file states this tie
}

// structMap reads the generated tuple of a Go struct as a value of the model.
type structMap struct {
	goType string
	model  string // Coq type of the model value
	expr   string // over the Go field names
	needs  []string
}

type enumMap struct {
	goType string
	model  string
	consts [][2]string // Go constant -> model constructor
	other  string
}

var enumMaps = []enumMap{
	{"QueryOperator", "op", [][2]string{
		{"OpEqual", "OpEQ"}, {"OpNotEqual", "OpNE"}, {"OpGreaterThan", "OpGT"}, {"OpGreaterThanEqual", "OpGTE"},
		{"OpLessThan", "OpLT"}, {"OpLessThanEqual", "OpLTE"}, {"OpIn", "OpIN"}, {"OpNotIn", "OpNOTIN"},
		{"OpBetween", "OpBETWEEN"}, {"OpNotBetween", "OpNOTBETWEEN"}}, "OpUnknown"},
}

var structMaps = []structMap{
	{"MinMaxIndex", "(Z * Z)%type", "(Min, Max)", nil},
	{"NumericCondition", "ncond",
		"{| n_op := QueryOperator_to_model Operator; n_val := Value; n_vals := Values; n_min := Min; n_max := Max |}", []string{"QueryOperator"}},
	{"StringCondition", "scond",
		"{| s_op := QueryOperator_to_model Operator; s_val := gstr_to_model Value; s_vals := map gstr_to_model Values; s_min := gstr_to_model Min; s_max := gstr_to_model Max |}", []string{"QueryOperator"}},
	{"DataBlockMetadata", "blockJ",
		"{| rdo := RowDataOffset; rds := RowDataSize; bfo := BloomFilterOffset; bfs := BloomFilterSize; Validate.b_rows := Rows; Validate.b_usize := UncompressedSize; b_comp := CNone; b_hash := 0%N; b_has_hash := HasRowDataHash; b_cnt := (0, 0, 0) |}", nil},
	{"FileMetadata", "metaJ",
		"{| m_roff := BlockFilterRegionOffset; m_rsize := BlockFilterRegionSize; m_ffs := 0; m_cnt := (0, 0, 0); m_blocks := map DataBlockMetadata_to_model DataBlocks |}", []string{"DataBlockMetadata"}},
	{"BloomSearchEngineConfig", "cfg",
		"{| c_max_rows := MaxRowGroupRows; c_max_bytes := MaxRowGroupBytes; c_max_file_size := MaxFileSize; c_max_files := MaxFilesToMergePerOperation |}", nil},
	{"BloomSearchEngine", "cfg", "BloomSearchEngineConfig_to_model config", []string{"BloomSearchEngineConfig"}},
	{"blockMergeShape", "block",
		"{| b_id := 0; b_meta := {| b_partition := []; b_mm := [] |}; b_nrows := rows; MergePlan.b_usize := uncompressedSize; b_disk := 0; b_fparam := 0; b_ents := []; MergePlan.b_rows := [] |}", nil},
}

var kernelSpecs = []kernelSpec{
	{"clamp_u", "clampUint64ToInt64", nil,
		"forall v : Z, u64 v -> @GO@ v = clamp_u v", []string{"C04"}},
	{"update_mm", "UpdateMinMaxIndex", []string{"MinMaxIndex"},
		"forall (existing : MinMaxIndex_t) (newMin newMax : Z), MinMaxIndex_ok existing -> i64 newMin -> i64 newMax ->\n" +
			"  MinMaxIndex_to_model (@GO@ existing newMin newMax) = update_mm (MinMaxIndex_to_model existing) newMin newMax", []string{"C04", "C18"}},
	{"eval_minmax", "EvaluateMinMaxCondition", []string{"MinMaxIndex", "NumericCondition"},
		"forall (idx : MinMaxIndex_t) (c : NumericCondition_t), MinMaxIndex_ok idx -> NumericCondition_ok c ->\n" +
			"  @GO@ idx c = eval_minmax (MinMaxIndex_to_model idx) (NumericCondition_to_model c)", []string{"C04", "C24", "C01"}},
	{"eval_numeric", "EvaluateNumericCondition", []string{"NumericCondition"},
		"forall (value : Z) (c : NumericCondition_t), i64 value -> NumericCondition_ok c ->\n" +
			"  @GO@ value c = eval_numeric value (NumericCondition_to_model c)", []string{"C04"}},
	{"eval_string", "EvaluateStringCondition", []string{"StringCondition"},
		"forall (value : gstring) (c : StringCondition_t), gstr_ok value -> StringCondition_bytes c ->\n" +
			"  @GO@ value c = eval_string (gstr_to_model value) (StringCondition_to_model c)", []string{"C04"}},
	{"validate_fs", "DataBlockMetadata.validateFilterSection", []string{"DataBlockMetadata"},
		"forall (b : DataBlockMetadata_t) (regionOffset regionEnd : Z), DataBlockMetadata_ok b -> i64 regionOffset -> i64 regionEnd ->\n" +
			"  @GO@ b regionOffset regionEnd = validate_fs (DataBlockMetadata_to_model b) regionOffset regionEnd", []string{"C19"}},
	{"validate", "FileMetadata.validate", []string{"FileMetadata"},
		"forall (m : FileMetadata_t) (dataLimit : Z), FileMetadata_ok m -> i64 dataLimit ->\n" +
			"  @GO@ m dataLimit = validate (FileMetadata_to_model m) dataLimit", []string{"C19"}},
	{"plan_reads", "planBlockFilterReads", []string{"DataBlockMetadata"},
		"forall (blocks : list DataBlockMetadata_t) (regionOffset regionSize : Z), Forall DataBlockMetadata_ok blocks -> i64 regionOffset -> i64 regionSize ->\n" +
			"  @GO@ blocks regionOffset regionSize = plan_reads (map DataBlockMetadata_to_model blocks) regionOffset regionSize", []string{"C19"}},
	{"on_disk_size", "DataBlockMetadata.OnDiskSize", []string{"DataBlockMetadata"},
		"forall (b : DataBlockMetadata_t), DataBlockMetadata_ok b ->\n" +
			"  i64 (rds (DataBlockMetadata_to_model b) + bfs (DataBlockMetadata_to_model b)) ->\n" +
			"  @GO@ b = rds (DataBlockMetadata_to_model b) + bfs (DataBlockMetadata_to_model b)", []string{"C12"}},
	{"within", "BloomSearchEngine.blocksWithinMergeLimits", []string{"BloomSearchEngine", "blockMergeShape"},
		"forall (b : BloomSearchEngine_t) (shape1 shape2 : blockMergeShape_t), BloomSearchEngine_ok b -> blockMergeShape_ok shape1 -> blockMergeShape_ok shape2 ->\n" +
			"  i64 (b_nrows (blockMergeShape_to_model shape1) + b_nrows (blockMergeShape_to_model shape2)) ->\n" +
			"  i64 (MergePlan.b_usize (blockMergeShape_to_model shape1) + MergePlan.b_usize (blockMergeShape_to_model shape2)) ->\n" +
			"  @GO@ b shape1 shape2 = within (BloomSearchEngine_to_model b) (blockMergeShape_to_model shape1) (blockMergeShape_to_model shape2)", []string{"C12"}},
}

var identRe = regexp.MustCompile(`[A-Za-z_][A-Za-z0-9_.']*`)

func (k *ktrans) emitTie(specs []kernelSpec, notes map[string]error) string {
	var b strings.Builder
	b.WriteString("(* GENERATED by harness/translate (bstranslate, ktie.go). Do not edit.\n")
	b.WriteString("   For every kernel of the translator's table: the statement that the generated definition\n")
	b.WriteString("   (Generated/Kernels.v) equals the hand-written model, over the whole range of the Go types.\n")
	b.WriteString("   A kernel that could not be translated has the statement True (tie by correspondence only). *)\n")
	b.WriteString("From BS Require Import Lib.Bytes Lib.Wrap64 Lib.GoPrim Generated.Kernels Model.MinMax Model.Validate Model.MergePlan.\n")
	b.WriteString("From Coq Require Import ZArith NArith List Bool.\nImport ListNotations.\nLocal Open Scope Z_scope.\n\nCreate HintDb go_ties.\n\n")
	b.WriteString("(* Go strings are byte lists over Z here, over N in the models *)\n")
	b.WriteString("Definition gstr_ok (s : gstring) : Prop := Forall (fun x => 0 <= x < 256) s.\n")
	b.WriteString("Definition gstr_to_model (s : gstring) : str := map Z.to_N s.\n\n")

	avail := map[string]string{} // mapping name -> "" when available, else the reason
	for _, em := range enumMaps {
		en := k.tt.enumOf(em.goType)
		if en == nil || !k.eseen[em.goType] {
			avail[em.goType] = "no translated kernel uses the type " + em.goType
			continue
		}
		avail[em.goType] = ""
		fmt.Fprintf(&b, "Definition %s_to_model (z : Z) : %s :=\n", em.goType, em.model)
		for _, c := range em.consts {
			if _, ok := en.code[c[0]]; ok {
				fmt.Fprintf(&b, "  if z =? %s_%s then %s else\n", em.goType, c[0], c[1])
			} else {
				fmt.Fprintf(&b, "  (* no constant %s in the package *)\n", c[0])
			}
		}
		fmt.Fprintf(&b, "  %s.\n#[global] Hint Unfold %s_to_model : go_ties.\n\n", em.other, em.goType)
	}
	for _, sm := range structMaps {
		s, err := k.tt.structOf(sm.goType)
		reason := ""
		switch {
		case err != nil:
			reason = err.Error()
		case !k.sseen[sm.goType]:
			reason = "struct not used"
		}
		for _, n := range sm.needs {
			if r, ok := avail[n]; !ok || r != "" {
				reason = "needs the mapping of " + n + ": " + r
			}
		}
		if reason == "" {
			// every capitalised-or-not identifier of the expression that is a field name must be in the view;
			// identifiers that are neither view fields nor omitted fields are model names
			for _, id := range identRe.FindAllString(sm.expr, -1) {
				if why, om := s.omitted[id]; om {
					reason = fmt.Sprintf("field %s.%s is not in the view (%s)", sm.goType, id, why)
				}
			}
			for _, want := range mapFields[sm.goType] {
				if s.field(want) == nil {
					reason = fmt.Sprintf("struct %s has no field %s of a supported type", sm.goType, want)
				}
			}
		}
		avail[sm.goType] = reason
		if reason != "" {
			fmt.Fprintf(&b, "(* no reading of %s as %s: %s *)\n\n", sm.goType, sm.model, reason)
			continue
		}
		fmt.Fprintf(&b, "Definition %s_to_model (x : %s_t) : %s :=\n  let %s := x in\n  %s.\n#[global] Hint Unfold %s_to_model : go_ties.\n\n",
			sm.goType, sm.goType, sm.model, fieldPattern(s), sm.expr, sm.goType)
	}
	if avail["StringCondition"] == "" {
		b.WriteString("Definition StringCondition_bytes (c : StringCondition_t) : Prop :=\n  let " + fieldPattern(k.tt.structs["StringCondition"]) +
			" := c in gstr_ok Value /\\ Forall gstr_ok Values /\\ gstr_ok Min /\\ gstr_ok Max.\n#[global] Hint Unfold StringCondition_bytes : go_ties.\n\n")
	}
	for _, sp := range specs {
		reason := ""
		if err, bad := notes[sp.name]; bad {
			reason = err.Error()
		}
		for _, n := range sp.needs {
			if r, ok := avail[n]; reason == "" && (!ok || r != "") {
				reason = "the statement needs the reading of " + n + ": " + r
				notes[sp.name] = fmt.Errorf("%s", reason)
			}
		}
		if reason != "" {
			fmt.Fprintf(&b, "(* kernel %s (%s): not translated: %s *)\nDefinition tie_%s : Prop := True.\n\n", sp.name, sp.goFunc,
				strings.ReplaceAll(reason, "*)", "* )"), sp.name)
			continue
		}
		f := k.done[sp.goFunc]
		fmt.Fprintf(&b, "Definition tie_%s : Prop :=\n  %s.\n\n", sp.name, strings.ReplaceAll(sp.stmt, "@GO@", f.coqName))
	}
	return b.String()
}

// the Go fields each model reading relies on (checked against the struct's view)
var mapFields = map[string][]string{
	"MinMaxIndex":             {"Min", "Max"},
	"NumericCondition":        {"Operator", "Value", "Values", "Min", "Max"},
	"StringCondition":         {"Operator", "Value", "Values", "Min", "Max"},
	"DataBlockMetadata":       {"RowDataOffset", "RowDataSize", "BloomFilterOffset", "BloomFilterSize", "Rows", "UncompressedSize", "HasRowDataHash"},
	"FileMetadata":            {"BlockFilterRegionOffset", "BlockFilterRegionSize", "DataBlocks"},
	"BloomSearchEngineConfig": {"MaxRowGroupRows", "MaxRowGroupBytes", "MaxFileSize", "MaxFilesToMergePerOperation"},
	"BloomSearchEngine":       {"config"},
	"blockMergeShape":         {"rows", "uncompressedSize"},
}
