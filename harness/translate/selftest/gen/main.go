// gen prints Coq examples: the generated definition of every corpus function, evaluated by
// vm_compute, must give what Go gives on a grid of inputs.
package main

import (
	"fmt"
	"math"
	"strings"

	"bstranslate/selftest/kt"
)

func z(v int64) string {
	if v < 0 {
		return fmt.Sprintf("(%d)", v)
	}
	return fmt.Sprint(v)
}
func zu(v uint64) string { return fmt.Sprint(v) }
func zi(v int) string    { return z(int64(v)) }
func b(v bool) string    { return fmt.Sprint(v) }
func zl(vs []int64) string {
	p := make([]string, len(vs))
	for i, v := range vs {
		p[i] = z(v)
	}
	return "[" + strings.Join(p, "; ") + "]"
}
func str(s string) string {
	p := make([]string, len(s))
	for i := 0; i < len(s); i++ {
		p[i] = fmt.Sprint(int(s[i]))
	}
	return "[" + strings.Join(p, "; ") + "]"
}

var kindCode = map[kt.Kind]string{kt.KA: "Kind_KA", kt.KB: "Kind_KB", kt.KC: "Kind_KC", "zz": "99"}

func pair(p kt.Pair) string { return "(" + z(p.Lo) + ", " + z(p.Hi) + ")" }
func rec(r kt.Rec) string {
	return "(" + kindCode[r.K] + ", " + zi(r.N) + ", " + zl(r.Items) + ", " + pair(r.P) + ", " + str(r.Name) + ")"
}

var n = 0

func ex(lhs, rhs string) {
	n++
	fmt.Printf("Example t%d : %s = %s. Proof. vm_compute. reflexivity. Qed.\n", n, lhs, rhs)
}

func main() {
	fmt.Println("From BS Require Import Lib.Wrap64 Lib.GoPrim Generated.Kernels.\nFrom Coq Require Import ZArith List Bool.\nImport ListNotations.\nLocal Open Scope Z_scope.")
	ints := []int64{0, 1, -1, 5, 49, 51, 77, -100, 1000, math.MaxInt64, math.MinInt64, math.MaxInt64 - 1, 1 << 40, -(1 << 33)}
	for _, a := range ints {
		for _, c := range ints {
			ex(fmt.Sprintf("go_F1 %s %s", z(a), z(c)), z(kt.F1(a, c)))
			ex(fmt.Sprintf("go_F2 %s %s", z(a), z(c)), z(kt.F2(a, c)))
			u, d := kt.F3(uint64(a), c)
			ex(fmt.Sprintf("go_F3 %s %s", zu(uint64(a)), z(c)), "("+zu(u)+", "+z(d)+")")
		}
	}
	for _, k := range []kt.Kind{kt.KA, kt.KB, kt.KC, "zz"} {
		for _, v := range []int{0, 3, 6, -9} {
			ex(fmt.Sprintf("go_F4 %s %s", kindCode[k], zi(v)), zi(kt.F4(k, v)))
		}
	}
	lists := [][]int64{nil, {1}, {-1, 2, 3}, {5, 77, 9}, {-3, -4}, {10, 20, 30, 40}, {0, 0, 7, -2, 0, 3}, {math.MaxInt64, 2}, {1, 77}}
	for _, l := range lists {
		for _, lim := range []int64{0, 15, 1000} {
			s, ok := kt.F5(l, lim)
			ex(fmt.Sprintf("go_F5 %s %s", zl(l), z(lim)), "("+z(s)+", "+b(ok)+")")
		}
		ex(fmt.Sprintf("go_F10 %s", zl(l)), z(kt.F10(l)))
	}
	recs := []kt.Rec{
		{K: kt.KA, N: 3, Items: []int64{1, 2, 3}, P: kt.Pair{Lo: 0, Hi: 2}, Name: "x"},
		{K: kt.KB, N: 7, Items: []int64{9, 1}, P: kt.Pair{Lo: -5, Hi: 20}, Name: ""},
		{K: "zz", N: -1, Items: nil, P: kt.Pair{Lo: 8, Hi: 1}, Name: "yy"},
	}
	for i := 0; i <= len(recs); i++ {
		rs := recs[:i]
		p := make([]string, len(rs))
		for j := range rs {
			p[j] = rec(rs[j])
		}
		ex("go_F6 ["+strings.Join(p, "; ")+"]", z(kt.F6(rs)))
	}
	for i := range recs {
		for _, by := range []int64{0, 4, -30} {
			ex(fmt.Sprintf("go_Rec_Grow %s %s", rec(recs[i]), z(by)), pair(recs[i].Grow(by)))
		}
	}
	for _, a := range []int{0, 5, -2, 2000} {
		for _, c := range []int{0, 3, 9} {
			q, ok, err := kt.F7(a, c)
			want := "None"
			if err == nil {
				want = "Some (" + zi(q) + ", " + b(ok) + ")"
			}
			ex(fmt.Sprintf("go_F7 %s %s", zi(a), zi(c)), want)
			v, err := kt.F8(a, c)
			want = "None"
			if err == nil {
				want = "Some " + zi(v)
			}
			ex(fmt.Sprintf("go_F8 %s %s", zi(a), zi(c)), want)
		}
	}
	strs := []string{"", "a", "m", "mz", "b", "zebra", "ab"}
	for _, a := range strs {
		for _, c := range strs {
			s, k := kt.F9(a, c)
			ex(fmt.Sprintf("go_F9 %s %s", str(a), str(c)), "("+str(s)+", "+zi(k)+")")
		}
	}
}
