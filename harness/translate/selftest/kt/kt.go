// Package kt is the translator's self-test corpus: functions inside the supported
// subset whose generated Gallina definitions are evaluated in Coq against what Go
// computes (selftest.sh). Not part of any check.
package kt

import (
	"errors"
	"fmt"
	"math"
)

type Kind string

const (
	KA Kind = "a"
	KB Kind = "b"
	KC Kind = "c"
)

type Pair struct {
	Lo, Hi int64
}

type Rec struct {
	K     Kind
	N     int
	Items []int64
	P     Pair
	Name  string
	skip  map[string]int
}

// joins, duplication, nested ifs
func F1(a, b int64) int64 {
	x := a
	if a < b {
		x = b
	} else if a == b {
		x = x + 1
	}
	y := x * 2
	if y > 100 {
		return y - a
	}
	if b < 0 {
		y -= b
		if y < 0 {
			return -y
		}
	}
	return y + x
}

// overflow behaviour
func F2(a, b int64) int64 {
	return a*b + (a - b)
}

func F3(a uint64, b int64) (uint64, int64) {
	c := a + uint64(b)
	d := int64(a) - b
	if c > math.MaxInt64 {
		return c - 1, d
	}
	return c * 3, -d
}

// switch with default in the middle, break, multiple values per case
func F4(k Kind, n int) int {
	r := 0
	switch k {
	case KA, KC:
		r = n + 1
		if n > 5 {
			break
		}
		r = r * 2
	default:
		r = -1
	case KB:
		r = n - 1
	}
	return r + 1
}

// loop with accumulator, continue, break, early return; index used as a value
func F5(xs []int64, limit int64) (int64, bool) {
	var sum int64
	count := 0
	for i, v := range xs {
		if v < 0 {
			continue
		}
		if v == 77 {
			return sum + int64(i), false
		}
		sum += v
		count++
		if sum > limit {
			break
		}
	}
	return sum * int64(count), true
}

// counting loop, xs[i], nested loop over struct slices, field assignment on a copy
func F6(rs []Rec) int64 {
	var total int64
	for i := 0; i < len(rs); i++ {
		r := rs[i]
		r.P.Lo = r.P.Lo + 1
		for _, it := range r.Items {
			if it > r.P.Hi {
				break
			}
			total += it - r.P.Lo
		}
		if rs[i].K == KB {
			total += int64(rs[i].N)
		}
	}
	return total
}

// named results, bare return, error results
func F7(a, b int) (q int, ok bool, err error) {
	if b == 0 {
		err = errors.New("zero")
		return
	}
	if a < 0 {
		return 0, false, fmt.Errorf("negative %d", a)
	}
	q = a - b
	ok = q > 0
	return
}

func F8(a, b int) (int, error) {
	q, ok := 0, false
	_ = ok
	_ = q
	if e := check(a); e != nil {
		return 1, fmt.Errorf("wrapped: %w", e)
	}
	return min(a, b) + max(a, b), nil
}

func check(a int) error {
	if a > 1000 {
		return errors.New("too big")
	}
	return nil
}

// struct parameters by value and by pointer, struct results, composite literals, method calls
func (p Pair) Width() int64 { return p.Hi - p.Lo }

func (r *Rec) Grow(by int64) Pair {
	w := r.P.Width()
	q := r.P
	q.Hi += by
	if w < 0 {
		return Pair{Hi: q.Lo, Lo: q.Hi}
	}
	return q
}

// strings and parallel assignment
func F9(a, b string) (string, int) {
	if a > b {
		a, b = b, a
	}
	n := len(a)
	if a == b {
		n = -n
	}
	switch {
	case a < "m" && b >= "m":
		return b, n
	}
	return a, n
}

// switch without tag inside a loop, with continue and break of the switch
func F10(xs []int64) int64 {
	var acc int64
	for _, v := range xs {
		switch {
		case v == 0:
			continue
		case v < 0:
			acc -= v
			break
		default:
			acc += 2 * v
		}
		acc++
	}
	return acc
}
