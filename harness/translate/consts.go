package main

import (
	"bytes"
	"fmt"
	"go/ast"
	"go/constant"
	"go/printer"
	"go/token"
	"math/big"
	"strconv"
	"strings"
)

// constEnv evaluates package-level constant declarations syntactically
// (go/constant), including iota, references to other constants of the package,
// conversions to predeclared numeric types and the time.Duration unit constants.
type constEnv struct {
	p     *pkgInfo
	specs map[string]constDecl
	memo  map[string]constant.Value
	busy  map[string]bool
}

type constDecl struct {
	file *srcFile
	expr ast.Expr
	iota int64
}

var timeUnits = map[string]int64{
	"Nanosecond": 1, "Microsecond": 1e3, "Millisecond": 1e6, "Second": 1e9, "Minute": 60e9, "Hour": 3600e9,
}

var numericTypes = map[string]int{ // bits; negative = signed
	"int": -64, "int8": -8, "int16": -16, "int32": -32, "int64": -64,
	"uint": 64, "uint8": 8, "uint16": 16, "uint32": 32, "uint64": 64, "uintptr": 64, "byte": 8, "rune": -32,
}

func newConstEnv(p *pkgInfo) *constEnv {
	env := &constEnv{p: p, specs: map[string]constDecl{}, memo: map[string]constant.Value{}, busy: map[string]bool{}}
	for _, f := range p.files {
		for _, d := range f.ast.Decls {
			gd, ok := d.(*ast.GenDecl)
			if !ok || gd.Tok != token.CONST {
				continue
			}
			var last []ast.Expr // implicit repetition of the previous expression list
			for i, s := range gd.Specs {
				vs := s.(*ast.ValueSpec)
				if len(vs.Values) > 0 {
					last = vs.Values
				}
				for j, id := range vs.Names {
					if j < len(last) {
						if _, dup := env.specs[id.Name]; !dup { // verif_on/verif_off may both declare a name: first file wins (sorted)
							env.specs[id.Name] = constDecl{file: f, expr: last[j], iota: int64(i)}
						}
					}
				}
			}
		}
	}
	return env
}

func (env *constEnv) lookup(name string) (constant.Value, error) {
	if v, ok := env.memo[name]; ok {
		return v, nil
	}
	d, ok := env.specs[name]
	if !ok {
		return nil, fmt.Errorf("constant %s is not declared in the package", name)
	}
	if env.busy[name] {
		return nil, fmt.Errorf("constant %s: cyclic definition", name)
	}
	env.busy[name] = true
	v, err := env.eval(d.file, d.expr, d.iota)
	env.busy[name] = false
	if err != nil {
		return nil, fmt.Errorf("constant %s: %w", name, err)
	}
	env.memo[name] = v
	return v, nil
}

func (env *constEnv) eval(f *srcFile, e ast.Expr, iota int64) (constant.Value, error) {
	switch x := e.(type) {
	case *ast.BasicLit:
		v := constant.MakeFromLiteral(x.Value, x.Kind, 0)
		if v.Kind() == constant.Unknown {
			return nil, fmt.Errorf("bad literal %s", x.Value)
		}
		return v, nil
	case *ast.ParenExpr:
		return env.eval(f, x.X, iota)
	case *ast.Ident:
		switch x.Name {
		case "iota":
			return constant.MakeInt64(iota), nil
		case "true":
			return constant.MakeBool(true), nil
		case "false":
			return constant.MakeBool(false), nil
		}
		return env.lookup(x.Name)
	case *ast.SelectorExpr:
		if id, ok := x.X.(*ast.Ident); ok {
			if path, ok := env.p.resolveQualifier(f, id); ok && path == "time" {
				if u, ok := timeUnits[x.Sel.Name]; ok {
					return constant.MakeInt64(u), nil
				}
			}
		}
		return nil, fmt.Errorf("%s is not a constant this translator can evaluate", exprText(env.p, e))
	case *ast.UnaryExpr:
		v, err := env.eval(f, x.X, iota)
		if err != nil {
			return nil, err
		}
		return constant.UnaryOp(x.Op, v, 0), nil
	case *ast.BinaryExpr:
		a, err := env.eval(f, x.X, iota)
		if err != nil {
			return nil, err
		}
		b, err := env.eval(f, x.Y, iota)
		if err != nil {
			return nil, err
		}
		switch x.Op {
		case token.SHL, token.SHR:
			s, ok := constant.Uint64Val(constant.ToInt(b))
			if !ok || s > 4096 {
				return nil, fmt.Errorf("bad shift count in %s", exprText(env.p, e))
			}
			return constant.Shift(constant.ToInt(a), x.Op, uint(s)), nil
		case token.QUO:
			if a.Kind() == constant.Int && b.Kind() == constant.Int {
				if constant.Sign(b) == 0 {
					return nil, fmt.Errorf("division by zero in %s", exprText(env.p, e))
				}
				return constant.BinaryOp(a, token.QUO_ASSIGN, b), nil // integer division
			}
			return constant.BinaryOp(a, token.QUO, b), nil
		case token.EQL, token.NEQ, token.LSS, token.LEQ, token.GTR, token.GEQ:
			return constant.MakeBool(constant.Compare(a, x.Op, b)), nil
		}
		return constant.BinaryOp(a, x.Op, b), nil
	case *ast.CallExpr:
		// conversion T(x) to a predeclared numeric type, or to time.Duration
		if len(x.Args) == 1 {
			if id, ok := x.Fun.(*ast.Ident); ok && id.Obj == nil && !env.p.names[id.Name] {
				if bits, ok := numericTypes[id.Name]; ok {
					v, err := env.eval(f, x.Args[0], iota)
					if err != nil {
						return nil, err
					}
					iv := constant.ToInt(v)
					if iv.Kind() != constant.Int {
						return nil, fmt.Errorf("%s: not an integer constant", exprText(env.p, e))
					}
					if !fitsBits(iv, bits) {
						return nil, fmt.Errorf("%s overflows %s", exprText(env.p, e), id.Name)
					}
					return iv, nil
				}
				if id.Name == "string" {
					return env.eval(f, x.Args[0], iota)
				}
			}
			if s, ok := x.Fun.(*ast.SelectorExpr); ok {
				if id, ok := s.X.(*ast.Ident); ok {
					if path, ok := env.p.resolveQualifier(f, id); ok && path == "time" && s.Sel.Name == "Duration" {
						return env.eval(f, x.Args[0], iota)
					}
				}
			}
			// conversion to a named type of the package whose underlying type we cannot see: keep the value
			if id, ok := x.Fun.(*ast.Ident); ok && env.p.names[id.Name] {
				return env.eval(f, x.Args[0], iota)
			}
		}
		if id, ok := x.Fun.(*ast.Ident); ok && id.Name == "len" && len(x.Args) == 1 {
			v, err := env.eval(f, x.Args[0], iota)
			if err == nil && v.Kind() == constant.String {
				return constant.MakeInt64(int64(len(constant.StringVal(v)))), nil
			}
		}
	}
	return nil, fmt.Errorf("%s is not a constant this translator can evaluate", exprText(env.p, e))
}

func fitsBits(v constant.Value, bits int) bool {
	z, ok := constant.Val(v).(*big.Int)
	if !ok {
		i, _ := constant.Int64Val(v)
		z = big.NewInt(i)
	}
	if bits < 0 {
		lim := new(big.Int).Lsh(big.NewInt(1), uint(-bits-1))
		return z.Cmp(new(big.Int).Neg(lim)) >= 0 && z.Cmp(lim) < 0
	}
	return z.Sign() >= 0 && z.Cmp(new(big.Int).Lsh(big.NewInt(1), uint(bits))) < 0
}

func exprText(p *pkgInfo, e ast.Expr) string {
	var b bytes.Buffer
	printer.Fprint(&b, p.fset, e)
	return strings.Join(strings.Fields(b.String()), " ")
}

func (env *constEnv) intConst(name string) (string, error) {
	v, err := env.lookup(name)
	if err != nil {
		return "", err
	}
	iv := constant.ToInt(v)
	if iv.Kind() != constant.Int {
		return "", fmt.Errorf("constant %s is not an integer (%s)", name, v.String())
	}
	return coqZ(iv.ExactString()), nil
}

func coqZ(s string) string {
	if strings.HasPrefix(s, "-") {
		return "(" + s + ")"
	}
	return s
}

// coqStr prints a Go string as a Coq `str` (list of bytes): through `lit` when
// it is printable ASCII, as an explicit byte list otherwise.
func coqStr(s string) string {
	printable := true
	for i := 0; i < len(s); i++ {
		if s[i] < 32 || s[i] >= 127 {
			printable = false
		}
	}
	if printable {
		return "lit " + `"` + strings.ReplaceAll(s, `"`, `""`) + `"`
	}
	items := make([]string, len(s))
	for i := 0; i < len(s); i++ {
		items[i] = strconv.Itoa(int(s[i]))
	}
	return "[" + strings.Join(items, "; ") + "]%N"
}

// findFunc returns the declaration of a function or method ("Recv.Name") and its file.
func findFunc(p *pkgInfo, name string) (*ast.FuncDecl, *srcFile) {
	for _, f := range p.files {
		for _, d := range f.ast.Decls {
			if fd, ok := d.(*ast.FuncDecl); ok && funcName(fd) == name {
				return fd, f
			}
		}
	}
	return nil, nil
}

// evalLocal evaluates an expression found inside a function body; identifiers
// bound locally are not constants.
func (env *constEnv) evalLocal(f *srcFile, e ast.Expr) (constant.Value, error) {
	var localErr error
	ast.Inspect(e, func(n ast.Node) bool {
		if id, ok := n.(*ast.Ident); ok && id.Obj != nil && id.Obj.Kind != ast.Con {
			localErr = fmt.Errorf("%s depends on the run-time value %s", exprText(env.p, e), id.Name)
		}
		return true
	})
	if localErr != nil {
		return nil, localErr
	}
	return env.eval(f, e, 0)
}

func emitConsts(p *pkgInfo) (string, error) {
	env := newConstEnv(p)
	var b strings.Builder
	b.WriteString("(* GENERATED by harness/translate (bstranslate) from the Go sources of package bloomsearch.\n")
	b.WriteString("   Do not edit: rewritten on every ./check run when the sources change.\n")
	b.WriteString("   Names are stable: other model families refer to Consts.LengthPrefixSize, Consts.flush_chan_cap, ... *)\n")
	b.WriteString("From BS Require Import Lib.Bytes.\nFrom Coq Require Import ZArith List String.\nImport ListNotations.\nOpen Scope Z_scope.\n\n")

	ints := []string{
		"LengthPrefixSize", "HashSize", "VersionPrefixSize", "FileVersion",
		"blockFilterChunkTarget", "queryRowBatchSize", "queryRowBatchBuffer", "queryJobBuffer", "queryFileJobBuffer",
		"maxCreateFileAttempts",
		"filterSectionFlagField", "filterSectionFlagToken", "filterSectionFlagFieldToken", "filterSectionFlagsAll",
		"scanBufferMinShift", "scanBufferMaxShift",
	}
	var problems []string
	for _, name := range ints {
		v, err := env.intConst(name)
		if err != nil {
			// keep the name defined so that dependants still compile; consts_ok fails and names the reason
			problems = append(problems, err.Error())
			v = "(-1)"
			fmt.Fprintf(&b, "(* %s *)\n", strings.ReplaceAll(err.Error(), "*)", "* )"))
		}
		fmt.Fprintf(&b, "Definition %s : Z := %s.\n", name, v)
	}

	// MagicBytes
	magic := ""
	if v, err := env.lookup("MagicBytes"); err == nil && v.Kind() == constant.String {
		magic = constant.StringVal(v)
	} else {
		problems = append(problems, "MagicBytes is not a string constant")
	}
	fmt.Fprintf(&b, "Definition MagicBytes : str := %s.\n", coqStr(magic))

	// capacity of flushChan: the make(chan flushRequest, N) stored in the flushChan field by NewBloomSearchEngine
	flushCap, flushExpr := "(-1)", ""
	if fd, f := findFunc(p, "NewBloomSearchEngine"); fd != nil {
		ast.Inspect(fd, func(n ast.Node) bool {
			kv, ok := n.(*ast.KeyValueExpr)
			if !ok {
				return true
			}
			if k, ok := kv.Key.(*ast.Ident); !ok || k.Name != "flushChan" {
				return true
			}
			flushExpr = exprText(p, kv.Value)
			if call, ok := kv.Value.(*ast.CallExpr); ok {
				if id, ok := call.Fun.(*ast.Ident); ok && id.Name == "make" {
					switch len(call.Args) {
					case 1:
						flushCap = "0" // unbuffered
					case 2:
						if v, err := env.evalLocal(f, call.Args[1]); err == nil && constant.ToInt(v).Kind() == constant.Int {
							flushCap = coqZ(constant.ToInt(v).ExactString())
						} else if err != nil {
							problems = append(problems, "flushChan capacity: "+err.Error())
						}
					}
				}
			}
			return false
		})
	}
	if flushExpr == "" {
		problems = append(problems, "no flushChan field initialiser found in NewBloomSearchEngine")
	}
	fmt.Fprintf(&b, "Definition flush_chan_cap : Z := %s.\n", flushCap)
	fmt.Fprintf(&b, "Definition flush_chan_expr : str := %s.\n", coqStr(flushExpr))

	// ingest ticker period: the argument of time.NewTicker in ingestWorker
	tickNs, tickExpr := "(-1)", ""
	if fd, f := findFunc(p, "BloomSearchEngine.ingestWorker"); fd != nil {
		ast.Inspect(fd, func(n ast.Node) bool {
			call, ok := n.(*ast.CallExpr)
			if !ok || tickExpr != "" {
				return true
			}
			s, ok := call.Fun.(*ast.SelectorExpr)
			if !ok || s.Sel.Name != "NewTicker" || len(call.Args) != 1 {
				return true
			}
			id, ok := s.X.(*ast.Ident)
			if !ok {
				return true
			}
			if path, ok := p.resolveQualifier(f, id); !ok || path != "time" {
				return true
			}
			tickExpr = exprText(p, call.Args[0])
			if v, err := env.evalLocal(f, call.Args[0]); err == nil && constant.ToInt(v).Kind() == constant.Int {
				tickNs = coqZ(constant.ToInt(v).ExactString())
			} else if err != nil {
				problems = append(problems, "ingest ticker period: "+err.Error())
			}
			return true
		})
	}
	if tickExpr == "" {
		problems = append(problems, "no time.NewTicker call found in ingestWorker")
	}
	fmt.Fprintf(&b, "Definition ingest_tick_ns : Z := %s.\n", tickNs)
	b.WriteString("Definition ingest_tick_ms : Z := ingest_tick_ns / 1000000.\n")
	fmt.Fprintf(&b, "Definition ingest_tick_expr : str := %s.\n", coqStr(tickExpr))

	b.WriteString("\n(* what the translator could not evaluate (empty when everything was found) *)\n")
	probs := make([]string, len(problems))
	for i, s := range problems {
		probs[i] = coqStr(s)
	}
	fmt.Fprintf(&b, "Definition translator_problems : list str := [%s].\n", strings.Join(probs, "; "))

	b.WriteString(`
(* Side conditions the model families rely on. A changed constant either still
   satisfies them (nothing to report) or breaks this Example, and with it the build. *)
Example consts_ok :
  translator_problems = [] /\
  LengthPrefixSize = 4 /\ HashSize = 4 /\ VersionPrefixSize = 4 /\
  0 < FileVersion /\ FileVersion < 2 ^ 32 /\
  Z.of_nat (List.length MagicBytes) = 8 /\
  0 < blockFilterChunkTarget /\
  0 < queryRowBatchSize /\ 0 < queryRowBatchBuffer /\ 0 < queryJobBuffer /\ 0 < queryFileJobBuffer /\
  0 < maxCreateFileAttempts /\
  0 < flush_chan_cap /\
  0 < ingest_tick_ms /\ ingest_tick_ns = ingest_tick_ms * 1000000 /\
  filterSectionFlagField = 1 /\ filterSectionFlagToken = 2 /\ filterSectionFlagFieldToken = 4 /\
  filterSectionFlagsAll = 7 /\
  0 < scanBufferMinShift /\ scanBufferMinShift < scanBufferMaxShift + 1 /\ scanBufferMaxShift < 63.
Proof. repeat split; vm_compute; reflexivity. Qed.
`)
	return b.String(), nil
}
