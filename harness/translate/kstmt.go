package main

// Kernel translator, part 3: calls, statements, functions.
//
// A statement list is translated in continuation style: `k` produces the Coq
// term for "control falls off the end of this list". A branching statement none
// of whose branches can leave it by return/break/continue is joined (its
// assigned variables are re-bound by one `let`), otherwise the continuation is
// copied into every branch that can fall through.

import (
	"fmt"
	"go/ast"
	"go/token"
	"strings"
)

type cont func() (string, error)

// sctx is the control context of a statement: how to return, break, continue.
type sctx struct {
	ret  func(term string) string
	brk  cont
	cnt  cont
	loop bool
}

const maxTerm = 400000

func (c *fctx) call(x *ast.CallExpr) (val, error) {
	tt := c.k.tt
	switch fun := x.Fun.(type) {
	case *ast.Ident:
		if fun.Obj == nil || fun.Obj.Kind == ast.Typ {
			// conversion to a numeric type
			if _, isLocal := c.env[fun.Obj]; !isLocal && len(x.Args) == 1 {
				_, declared := tt.decls[fun.Name]
				switch {
				case declared, fun.Name == "int", fun.Name == "int64", fun.Name == "uint", fun.Name == "uint64":
					if _, isFunc := c.k.funcs[fun.Name]; !isFunc {
						t, ptr, err := tt.resolve(fun)
						if err != nil || ptr {
							return val{}, unsupported(c, x, "conversion to "+fun.Name)
						}
						return c.convert(x, t)
					}
				}
			}
		}
		if fun.Obj == nil && !tt.p.names[fun.Name] {
			switch fun.Name {
			case "len":
				if len(x.Args) == 1 {
					v, err := c.expr(x.Args[0])
					if err != nil {
						return val{}, err
					}
					if v.typ.k == tSlice || v.typ.k == tString {
						return val{typ: typInt, coq: "Z.of_nat (length " + paren(v.coq) + ")"}, nil
					}
					return val{}, unsupported(c, x, "len of a "+v.typ.String())
				}
			case "min", "max":
				if len(x.Args) == 2 {
					a, err := c.expr(x.Args[0])
					if err != nil {
						return val{}, err
					}
					b, err := c.expr(x.Args[1])
					if err != nil {
						return val{}, err
					}
					if t, ok := unify(a, b); ok && (t.k == tInt || t.k == tUint) {
						return val{typ: t, coq: "Z." + fun.Name + " " + paren(a.coq) + " " + paren(b.coq)}, nil
					}
				}
			}
			return val{}, unsupported(c, x, "call of builtin or unknown function "+fun.Name)
		}
		if _, ok := c.k.funcs[fun.Name]; ok && fun.Obj != nil && fun.Obj.Kind != ast.Fun {
			return val{}, unsupported(c, x, "call through the variable "+fun.Name)
		}
		return c.callKernel(x, fun.Name, nil)
	case *ast.SelectorExpr:
		if id, ok := fun.X.(*ast.Ident); ok {
			if path, ok := tt.p.resolveQualifier(c.file, id); ok {
				if path == "fmt" && fun.Sel.Name == "Errorf" || path == "errors" && fun.Sel.Name == "New" {
					// a fresh non-nil error; its text is not observable in the translation
					return val{typ: typError, coq: "false"}, nil
				}
				return val{}, unsupported(c, x, "call of "+path+"."+fun.Sel.Name)
			}
		}
		recv, err := c.expr(fun.X)
		if err != nil {
			return val{}, err
		}
		if recv.typ.k != tStruct {
			return val{}, unsupported(c, x, "method call on a "+recv.typ.String())
		}
		return c.callKernel(x, recv.typ.name+"."+fun.Sel.Name, &recv)
	}
	return val{}, unsupported(c, x, "call "+exprText(tt.p, x.Fun))
}

func (c *fctx) callKernel(x *ast.CallExpr, key string, recv *val) (val, error) {
	callee, err := c.k.translate(key)
	if err != nil {
		return val{}, unsupported(c, x, fmt.Sprintf("calls %s, which is not translated (%v)", key, err))
	}
	if x.Ellipsis.IsValid() || callee.variadic {
		return val{}, unsupported(c, x, "variadic call")
	}
	var args []string
	params := callee.params
	if recv != nil {
		args = append(args, paren(recv.coq))
		params = params[1:]
	}
	if len(x.Args) != len(params) {
		return val{}, unsupported(c, x, "argument count")
	}
	for i, a := range x.Args {
		v, err := c.expr(a)
		if err != nil {
			return val{}, err
		}
		if _, ok := unify(v, val{typ: params[i].typ}); !ok {
			return val{}, unsupported(c, a, fmt.Sprintf("argument of type %s for a parameter of type %s", v.typ, params[i].typ))
		}
		args = append(args, paren(v.coq))
	}
	term := callee.coqName
	if len(args) > 0 {
		term += " " + strings.Join(args, " ")
	}
	if len(callee.results) != 1 {
		return val{typ: nil, coq: term, sv: nil, cst: nil, isEn: false, ptr: false}, errMulti{callee, term}
	}
	return val{typ: callee.results[0], coq: term}, nil
}

// errMulti carries a call of a function with several results to the statements that can use it.
type errMulti struct {
	callee *kfunc
	term   string
}

func (e errMulti) Error() string {
	return "call of " + e.callee.key + " (several results) in a single-value context"
}

// ---- assigned variables ----

// assigned lists the variables of the environment (leaves) that n assigns, in source order.
func (c *fctx) assigned(n ast.Node) []*vinfo {
	var out []*vinfo
	seen := map[*vinfo]bool{}
	add := func(v *vinfo) {
		for _, l := range v.leaves(nil) {
			if !seen[l] {
				seen[l] = true
				out = append(out, l)
			}
		}
	}
	var lhs func(e ast.Expr) *vinfo
	lhs = func(e ast.Expr) *vinfo {
		switch x := e.(type) {
		case *ast.ParenExpr:
			return lhs(x.X)
		case *ast.Ident:
			if x.Obj != nil {
				return c.env[x.Obj]
			}
		case *ast.SelectorExpr:
			if b := lhs(x.X); b != nil {
				for i, n := range b.fnames {
					if n == x.Sel.Name {
						return b.fields[i]
					}
				}
			}
		}
		return nil
	}
	ast.Inspect(n, func(n ast.Node) bool {
		switch s := n.(type) {
		case *ast.AssignStmt:
			for _, l := range s.Lhs {
				if v := lhs(l); v != nil {
					add(v)
				}
			}
		case *ast.IncDecStmt:
			if v := lhs(s.X); v != nil {
				add(v)
			}
		case *ast.RangeStmt:
			if s.Tok == token.ASSIGN {
				for _, e := range []ast.Expr{s.Key, s.Value} {
					if e != nil {
						if v := lhs(e); v != nil {
							add(v)
						}
					}
				}
			}
		}
		return true
	})
	return out
}

func hasJump(n ast.Node) bool {
	found := false
	ast.Inspect(n, func(n ast.Node) bool {
		switch n.(type) {
		case *ast.ReturnStmt, *ast.BranchStmt:
			found = true
		}
		return !found
	})
	return found
}

// ---- statements ----

func (c *fctx) stmts(list []ast.Stmt, sc *sctx, k cont) (string, error) {
	if len(list) == 0 {
		return k()
	}
	rest := func() (string, error) { return c.stmts(list[1:], sc, k) }
	out, err := c.stmt(list[0], sc, rest)
	if err == nil && len(out) > maxTerm {
		return "", fmt.Errorf("the translated term is too large")
	}
	return out, err
}

func (c *fctx) stmt(s ast.Stmt, sc *sctx, rest cont) (string, error) {
	switch x := s.(type) {
	case *ast.EmptyStmt:
		return rest()
	case *ast.BlockStmt:
		return c.stmts(x.List, sc, rest)
	case *ast.ReturnStmt:
		t, err := c.returnTerm(x)
		if err != nil {
			return "", err
		}
		return sc.ret(t), nil
	case *ast.BranchStmt:
		if x.Label != nil {
			return "", unsupported(c, s, "labelled "+x.Tok.String())
		}
		switch x.Tok {
		case token.BREAK:
			if sc.brk != nil {
				return sc.brk()
			}
		case token.CONTINUE:
			if sc.cnt != nil {
				return sc.cnt()
			}
		}
		return "", unsupported(c, s, x.Tok.String()+" statement")
	case *ast.AssignStmt:
		pre, err := c.assign(x)
		if err != nil {
			return "", err
		}
		r, err := rest()
		return pre + r, err
	case *ast.IncDecStmt:
		op := token.ADD_ASSIGN
		if x.Tok == token.DEC {
			op = token.SUB_ASSIGN
		}
		pre, err := c.assign(&ast.AssignStmt{Lhs: []ast.Expr{x.X}, TokPos: x.TokPos, Tok: op, Rhs: []ast.Expr{&ast.BasicLit{ValuePos: x.TokPos, Kind: token.INT, Value: "1"}}})
		if err != nil {
			return "", err
		}
		r, err := rest()
		return pre + r, err
	case *ast.DeclStmt:
		pre, err := c.declStmt(x)
		if err != nil {
			return "", err
		}
		r, err := rest()
		return pre + r, err
	case *ast.IfStmt:
		return c.ifStmt(x, sc, rest)
	case *ast.SwitchStmt:
		return c.switchStmt(x, sc, rest)
	case *ast.RangeStmt:
		return c.rangeStmt(x, sc, rest)
	case *ast.ForStmt:
		return c.forStmt(x, sc, rest)
	}
	return "", unsupported(c, s, fmt.Sprintf("statement %T", s))
}

func (c *fctx) returnTerm(x *ast.ReturnStmt) (string, error) {
	fn := c.fn
	var vals []val
	switch {
	case len(x.Results) == 0 && len(fn.results) > 0:
		if len(c.named) == 0 {
			return "", unsupported(c, x, "bare return without named results")
		}
		for _, v := range c.named {
			vals = append(vals, val{typ: v.typ, coq: v.term(), sv: v})
		}
	case len(x.Results) == 1 && len(fn.results) > 1:
		_, err := c.expr(x.Results[0])
		if m, ok := err.(errMulti); ok && sameResults(m.callee, fn) {
			return m.term, nil
		}
		if err == nil {
			err = unsupported(c, x, "result count")
		}
		return "", err
	default:
		if len(x.Results) != len(fn.results) {
			return "", unsupported(c, x, "result count")
		}
		for i, e := range x.Results {
			if fn.results[i].k == tError && isNilIdent(e) {
				vals = append(vals, val{typ: typError, coq: "true"})
				continue
			}
			v, err := c.expr(e)
			if err != nil {
				return "", err
			}
			if _, ok := unify(v, val{typ: fn.results[i]}); !ok {
				return "", unsupported(c, e, fmt.Sprintf("returns a %s where the result is a %s", v.typ, fn.results[i]))
			}
			if v.ptr {
				return "", unsupported(c, e, "returns a pointer")
			}
			vals = append(vals, v)
		}
	}
	n := len(vals)
	if fn.hasErr {
		if n == 1 {
			return vals[0].coq, nil
		}
		parts := make([]string, n-1)
		for i := range parts {
			parts[i] = vals[i].coq
		}
		tup := parts[0]
		if len(parts) > 1 {
			tup = "(" + strings.Join(parts, ", ") + ")"
		}
		switch vals[n-1].coq {
		case "true":
			return "Some " + paren(tup), nil
		case "false":
			return "None", nil
		}
		return "if " + vals[n-1].coq + " then Some " + paren(tup) + " else None", nil
	}
	if n == 1 {
		return vals[0].coq, nil
	}
	parts := make([]string, n)
	for i := range parts {
		parts[i] = vals[i].coq
	}
	return "(" + strings.Join(parts, ", ") + ")", nil
}

func sameResults(a, b *kfunc) bool {
	if len(a.results) != len(b.results) || a.hasErr != b.hasErr {
		return false
	}
	for i := range a.results {
		if !sameType(a.results[i], b.results[i]) {
			return false
		}
	}
	return true
}

// bindNew declares a new Go variable bound to v.
func (c *fctx) bindNew(id *ast.Ident, v val) (string, error) {
	if id.Name == "_" {
		return "", nil
	}
	t := v.typ
	switch t.k {
	case tUntyped:
		t = typInt
	case tUntypedBool:
		t = typBool
	}
	nv, err := c.newVar(id.Name, t)
	if err != nil {
		return "", unsupported(c, id, err.Error())
	}
	if v.ptr {
		if v.sv != nil && !v.sv.readonly {
			// p := &x with x assignable: later assignments to x would have to show through p
			return "", unsupported(c, id, "pointer to the assignable variable "+exprText(c.k.tt.p, id)+" kept in a variable")
		}
		setReadonly(nv, true)
	}
	if id.Obj == nil {
		return "", unsupported(c, id, "unresolved identifier "+id.Name)
	}
	c.env[id.Obj] = nv
	return letPattern(nv.pattern(), v.coq), nil
}

func (c *fctx) lvalue(e ast.Expr) (*vinfo, error) {
	v, err := c.expr(e)
	if err != nil {
		return nil, err
	}
	if v.sv == nil {
		return nil, unsupported(c, e, "assignment target "+exprText(c.k.tt.p, e))
	}
	if v.sv.index != nil {
		return nil, unsupported(c, e, "assignment to a loop index")
	}
	// a field of a pointer-bound struct, or the pointer variable itself
	if v.sv.readonly {
		return nil, unsupported(c, e, "assignment through a pointer ("+exprText(c.k.tt.p, e)+")")
	}
	return v.sv, nil
}

func (c *fctx) assign(x *ast.AssignStmt) (string, error) {
	p := c.k.tt.p
	switch x.Tok {
	case token.DEFINE, token.ASSIGN:
		if len(x.Rhs) == 1 && len(x.Lhs) > 1 {
			// a, b := f(...)
			_, err := c.expr(x.Rhs[0])
			m, ok := err.(errMulti)
			if !ok {
				if err == nil {
					err = unsupported(c, x, "assignment count")
				}
				return "", err
			}
			if m.callee.hasErr || len(m.callee.results) != len(x.Lhs) {
				return "", unsupported(c, x, "destructuring a call that also returns an error")
			}
			var pats []string
			for i, l := range x.Lhs {
				id, isId := l.(*ast.Ident)
				switch {
				case isId && id.Name == "_":
					pats = append(pats, "_")
				case x.Tok == token.DEFINE && isId && (id.Obj == nil || c.env[id.Obj] == nil):
					nv, err := c.newVar(id.Name, m.callee.results[i])
					if err != nil || id.Obj == nil {
						return "", unsupported(c, l, "new variable "+id.Name)
					}
					c.env[id.Obj] = nv
					pats = append(pats, nv.pattern())
				default:
					lv, err := c.lvalue(l)
					if err != nil {
						return "", err
					}
					if !sameType(lv.typ, m.callee.results[i]) {
						return "", unsupported(c, l, "type of assignment target")
					}
					pats = append(pats, lv.pattern())
				}
			}
			return "let '(" + strings.Join(pats, ", ") + ") := " + m.term + " in\n", nil
		}
		if len(x.Lhs) != len(x.Rhs) {
			return "", unsupported(c, x, "assignment count")
		}
		// evaluate every right-hand side before any binding (parallel assignment)
		vals := make([]val, len(x.Rhs))
		for i, r := range x.Rhs {
			var err error
			if isNilIdent(r) {
				// only an error variable can take nil in the subset
				if lv, lerr := c.expr(x.Lhs[i]); lerr != nil || lv.typ.k != tError || x.Tok != token.ASSIGN {
					return "", unsupported(c, r, "assignment of nil")
				}
				vals[i] = val{typ: typError, coq: "true"}
				continue
			}
			vals[i], err = c.expr(r)
			if err != nil {
				return "", err
			}
		}
		var b strings.Builder
		if len(x.Lhs) > 1 {
			// bind the values to temporaries first
			for i := range vals {
				if vals[i].typ.k == tStruct {
					return "", unsupported(c, x, "parallel assignment of struct values")
				}
				tmp := c.fresh("tmp")
				b.WriteString(letPattern(tmp, vals[i].coq))
				vals[i].coq = tmp
			}
		}
		for i, l := range x.Lhs {
			id, isId := l.(*ast.Ident)
			if isId && id.Name == "_" {
				continue
			}
			if x.Tok == token.DEFINE && isId && (id.Obj == nil || c.env[id.Obj] == nil) {
				s, err := c.bindNew(id, vals[i])
				if err != nil {
					return "", err
				}
				b.WriteString(s)
				continue
			}
			lv, err := c.lvalue(l)
			if err != nil {
				return "", err
			}
			if _, ok := unify(vals[i], val{typ: lv.typ}); !ok {
				return "", unsupported(c, l, fmt.Sprintf("assignment of a %s to %s", vals[i].typ, exprText(p, l)))
			}
			if vals[i].ptr {
				return "", unsupported(c, l, "assignment of a pointer")
			}
			b.WriteString(letPattern(lv.pattern(), vals[i].coq))
		}
		return b.String(), nil
	case token.ADD_ASSIGN, token.SUB_ASSIGN, token.MUL_ASSIGN:
		if len(x.Lhs) != 1 || len(x.Rhs) != 1 {
			return "", unsupported(c, x, "assignment count")
		}
		op := map[token.Token]token.Token{token.ADD_ASSIGN: token.ADD, token.SUB_ASSIGN: token.SUB, token.MUL_ASSIGN: token.MUL}[x.Tok]
		lv, err := c.lvalue(x.Lhs[0])
		if err != nil {
			return "", err
		}
		v, err := c.binary(&ast.BinaryExpr{X: x.Lhs[0], OpPos: x.TokPos, Op: op, Y: x.Rhs[0]})
		if err != nil {
			return "", err
		}
		return letPattern(lv.pattern(), v.coq), nil
	}
	return "", unsupported(c, x, "assignment operator "+x.Tok.String())
}

func (c *fctx) declStmt(x *ast.DeclStmt) (string, error) {
	gd, ok := x.Decl.(*ast.GenDecl)
	if ok && gd.Tok == token.CONST {
		// local constants: the name stands for the (constant) value of its expression
		for _, sp := range gd.Specs {
			vs := sp.(*ast.ValueSpec)
			if len(vs.Values) != len(vs.Names) {
				return "", unsupported(c, vs, "constant declaration without explicit values")
			}
			for i, id := range vs.Names {
				v, err := c.expr(vs.Values[i])
				if err != nil {
					return "", err
				}
				if v.cst == nil && v.typ.k != tUntypedBool && !v.isEn {
					return "", unsupported(c, vs, "local constant "+id.Name)
				}
				if vs.Type != nil {
					t, ptr, err := c.k.tt.resolve(vs.Type)
					if err != nil || ptr {
						return "", unsupported(c, vs, "type of the local constant "+id.Name)
					}
					if _, ok := unify(v, val{typ: t}); !ok || (v.cst != nil && !fitsType(v.cst, t)) {
						return "", unsupported(c, vs, "local constant "+id.Name+" does not fit its type")
					}
					v.typ = t
				}
				if id.Obj != nil {
					c.consts[id.Obj] = v
				}
			}
		}
		return "", nil
	}
	if !ok || gd.Tok != token.VAR {
		return "", unsupported(c, x, "local declaration")
	}
	var b strings.Builder
	for _, sp := range gd.Specs {
		vs := sp.(*ast.ValueSpec)
		var t *gtype
		if vs.Type != nil {
			rt, ptr, err := c.k.tt.resolve(vs.Type)
			if err != nil || ptr {
				return "", unsupported(c, vs, "variable of type "+exprText(c.k.tt.p, vs.Type))
			}
			t = rt
		}
		if len(vs.Values) != 0 && len(vs.Values) != len(vs.Names) {
			return "", unsupported(c, vs, "declaration count")
		}
		for i, id := range vs.Names {
			var v val
			if len(vs.Values) > 0 {
				var err error
				v, err = c.expr(vs.Values[i])
				if err != nil {
					return "", err
				}
				if t != nil {
					if _, ok := unify(v, val{typ: t}); !ok {
						return "", unsupported(c, vs, "initialiser type")
					}
					v.typ = t
				}
			} else {
				z, err := c.k.tt.zero(t)
				if err != nil {
					return "", unsupported(c, vs, err.Error())
				}
				v = val{typ: t, coq: z}
			}
			s, err := c.bindNew(id, v)
			if err != nil {
				return "", err
			}
			b.WriteString(s)
		}
	}
	return b.String(), nil
}

func (c *fctx) boolExpr(e ast.Expr) (string, error) {
	v, err := c.expr(e)
	if err != nil {
		return "", err
	}
	if v.typ.k != tBool && v.typ.k != tUntypedBool {
		return "", unsupported(c, e, "condition of type "+v.typ.String())
	}
	return v.coq, nil
}

func indent(s string) string {
	return "  " + strings.ReplaceAll(strings.TrimRight(s, "\n"), "\n", "\n  ")
}

func (c *fctx) ifStmt(x *ast.IfStmt, sc *sctx, rest cont) (string, error) {
	pre := ""
	if x.Init != nil {
		var err error
		switch in := x.Init.(type) {
		case *ast.AssignStmt:
			pre, err = c.assign(in)
		default:
			err = unsupported(c, x.Init, "if-statement initialiser")
		}
		if err != nil {
			return "", err
		}
	}
	cond, err := c.boolExpr(x.Cond)
	if err != nil {
		return "", err
	}
	elseList := func(k cont) (string, error) {
		switch e := x.Else.(type) {
		case nil:
			return k()
		case *ast.BlockStmt:
			return c.stmts(e.List, sc, k)
		case *ast.IfStmt:
			return c.ifStmt(e, sc, k)
		}
		return "", unsupported(c, x.Else, "else branch")
	}
	if !hasJump(x.Body) && (x.Else == nil || !hasJump(x.Else)) {
		w := c.assigned(&ast.IfStmt{Body: x.Body, Else: x.Else, Cond: &ast.Ident{Name: "_"}})
		if len(w) == 0 {
			// nothing observable happens in either branch; they must still be inside the subset
			nop := func() (string, error) { return "tt", nil }
			if _, err := c.stmts(x.Body.List, sc, nop); err != nil {
				return "", err
			}
			if _, err := elseList(nop); err != nil {
				return "", err
			}
			r, err := rest()
			return pre + r, err
		}
		join := func() (string, error) { return tupleTerm(w), nil }
		th, err := c.stmts(x.Body.List, sc, join)
		if err != nil {
			return "", err
		}
		el, err := elseList(join)
		if err != nil {
			return "", err
		}
		r, err := rest()
		if err != nil {
			return "", err
		}
		return pre + letPattern(tuplePattern(w), "(if "+cond+"\n"+indent("then "+th)+"\n"+indent("else "+el)+")") + r, nil
	}
	th, err := c.stmts(x.Body.List, sc, rest)
	if err != nil {
		return "", err
	}
	el, err := elseList(rest)
	if err != nil {
		return "", err
	}
	return pre + "if " + cond + "\nthen\n" + indent(th) + "\nelse\n" + indent(el), nil
}

func (c *fctx) switchStmt(x *ast.SwitchStmt, sc *sctx, rest cont) (string, error) {
	pre := ""
	if x.Init != nil {
		in, ok := x.Init.(*ast.AssignStmt)
		if !ok {
			return "", unsupported(c, x.Init, "switch initialiser")
		}
		s, err := c.assign(in)
		if err != nil {
			return "", err
		}
		pre = s
	}
	var tag *val
	if x.Tag != nil {
		v, err := c.expr(x.Tag)
		if err != nil {
			return "", err
		}
		switch v.typ.k {
		case tInt, tUint, tEnum, tBool, tString:
		default:
			return "", unsupported(c, x.Tag, "switch on a "+v.typ.String())
		}
		name := c.fresh("tag")
		pre += letPattern(name, v.coq)
		v.coq = name
		tag = &v
	}
	type clause struct {
		cond string
		body []ast.Stmt
	}
	var clauses []clause
	var deflt *ast.CaseClause
	for _, st := range x.Body.List {
		cc := st.(*ast.CaseClause)
		for _, b := range cc.Body {
			if br, ok := b.(*ast.BranchStmt); ok && br.Tok == token.FALLTHROUGH {
				return "", unsupported(c, br, "fallthrough")
			}
		}
		if cc.List == nil {
			deflt = cc
			continue
		}
		var alts []string
		for _, e := range cc.List {
			if tag == nil {
				s, err := c.boolExpr(e)
				if err != nil {
					return "", err
				}
				alts = append(alts, paren(s))
				continue
			}
			v, err := c.expr(e)
			if err != nil {
				return "", err
			}
			t, ok := unify(*tag, v)
			if !ok {
				return "", unsupported(c, e, fmt.Sprintf("case of type %s in a switch on %s", v.typ, tag.typ))
			}
			r, err := c.compare(&ast.BinaryExpr{X: x.Tag, OpPos: e.Pos(), Op: token.EQL, Y: e}, t, *tag, v)
			if err != nil {
				return "", err
			}
			alts = append(alts, paren(r.coq))
		}
		clauses = append(clauses, clause{strings.Join(alts, " || "), cc.Body})
	}
	build := func(k cont) (string, error) {
		inner := &sctx{ret: sc.ret, cnt: sc.cnt, brk: k, loop: sc.loop}
		var b strings.Builder
		for _, cl := range clauses {
			body, err := c.stmts(cl.body, inner, k)
			if err != nil {
				return "", err
			}
			b.WriteString("if " + cl.cond + " then\n" + indent(body) + "\nelse ")
		}
		var last string
		var err error
		if deflt != nil {
			last, err = c.stmts(deflt.Body, inner, k)
		} else {
			last, err = k()
		}
		if err != nil {
			return "", err
		}
		if len(clauses) == 0 {
			return last, nil
		}
		return b.String() + "\n" + indent(last), nil
	}
	if !hasJump(x.Body) {
		w := c.assigned(x.Body)
		if len(w) == 0 {
			if _, err := build(func() (string, error) { return "tt", nil }); err != nil {
				return "", err
			}
			r, err := rest()
			return pre + r, err
		}
		sw, err := build(func() (string, error) { return tupleTerm(w), nil })
		if err != nil {
			return "", err
		}
		r, err := rest()
		if err != nil {
			return "", err
		}
		return pre + letPattern(tuplePattern(w), "("+sw+")") + r, nil
	}
	sw, err := build(rest)
	if err != nil {
		return "", err
	}
	return pre + sw, nil
}

// forStmt accepts the canonical counting loop over a slice, `for i := 0; i < len(xs); i++`,
// which is `for i := range xs` when the body assigns neither i nor xs.
func (c *fctx) forStmt(x *ast.ForStmt, sc *sctx, rest cont) (string, error) {
	bad := func() (string, error) {
		return "", unsupported(c, x, "for statement other than `for i := 0; i < len(xs); i++` and range loops")
	}
	init, ok := x.Init.(*ast.AssignStmt)
	if !ok || init.Tok != token.DEFINE || len(init.Lhs) != 1 || len(init.Rhs) != 1 {
		return bad()
	}
	iv, ok := init.Lhs[0].(*ast.Ident)
	if lit, ok2 := init.Rhs[0].(*ast.BasicLit); !ok || !ok2 || lit.Value != "0" {
		return bad()
	}
	cond, ok := x.Cond.(*ast.BinaryExpr)
	if !ok || cond.Op != token.LSS || !isIdentObj(cond.X, iv.Obj) {
		return bad()
	}
	ln, ok := cond.Y.(*ast.CallExpr)
	if !ok || len(ln.Args) != 1 {
		return bad()
	}
	if id, ok := ln.Fun.(*ast.Ident); !ok || id.Name != "len" || id.Obj != nil || c.k.tt.p.names["len"] {
		return bad()
	}
	post, ok := x.Post.(*ast.IncDecStmt)
	if !ok || post.Tok != token.INC || !isIdentObj(post.X, iv.Obj) {
		return bad()
	}
	return c.loop(x, iv, nil, token.DEFINE, ln.Args[0], x.Body, sc, rest)
}

func (c *fctx) rangeStmt(x *ast.RangeStmt, sc *sctx, rest cont) (string, error) {
	var key, value *ast.Ident
	if x.Key != nil {
		id, ok := x.Key.(*ast.Ident)
		if !ok {
			return "", unsupported(c, x, "range key")
		}
		key = id
	}
	if x.Value != nil {
		id, ok := x.Value.(*ast.Ident)
		if !ok {
			return "", unsupported(c, x, "range value")
		}
		value = id
	}
	if x.Tok == token.ASSIGN {
		return "", unsupported(c, x, "range loop assigning to existing variables")
	}
	return c.loop(x, key, value, x.Tok, x.X, x.Body, sc, rest)
}

func rootIdent(e ast.Expr) *ast.Ident {
	for {
		switch x := e.(type) {
		case *ast.ParenExpr:
			e = x.X
		case *ast.SelectorExpr:
			e = x.X
		case *ast.StarExpr:
			e = x.X
		case *ast.Ident:
			return x
		default:
			return nil
		}
	}
}

func (c *fctx) loop(node ast.Node, key, value *ast.Ident, tok token.Token, xs ast.Expr, body *ast.BlockStmt, sc *sctx, rest cont) (string, error) {
	p := c.k.tt.p
	rv, err := c.expr(xs)
	if err != nil {
		return "", err
	}
	if rv.typ.k != tSlice {
		return "", unsupported(c, xs, "range over a "+rv.typ.String())
	}
	hasValue := value != nil && value.Name != "_"
	base := "x"
	if hasValue {
		base = value.Name
	}
	elem, err := c.newVar(base, rv.typ.elem)
	if err != nil {
		return "", unsupported(c, xs, err.Error())
	}
	if hasValue {
		// the range value is a copy: assignable, local to the body
		if value.Obj == nil {
			return "", unsupported(c, value, "unresolved identifier")
		}
		c.env[value.Obj] = elem
	} else {
		setReadonly(elem, true) // reached through xs[i] / &xs[i]
	}
	var idx *vinfo
	if key != nil && key.Name != "_" {
		idx = &vinfo{typ: typInt, coq: c.fresh(key.Name), index: &loopIndex{rangeText: exprText(p, xs), elem: elem}}
		if key.Obj == nil {
			return "", unsupported(c, key, "unresolved identifier")
		}
		c.env[key.Obj] = idx
	}
	w := c.assigned(body)
	// the loop may not assign the slice it ranges over, nor (with xs[i]) the index
	if r := rootIdent(xs); r != nil && r.Obj != nil {
		if rvv := c.env[r.Obj]; rvv != nil {
			for _, l := range rvv.leaves(nil) {
				for _, a := range w {
					if a == l {
						return "", unsupported(c, node, "the loop body assigns the slice it ranges over")
					}
				}
			}
		}
	}
	for _, a := range w {
		if a == idx {
			return "", unsupported(c, node, "the loop body assigns the loop index")
		}
		for _, l := range elem.leaves(nil) {
			if a == l && !hasValue {
				return "", unsupported(c, node, "the loop body assigns through xs[i]")
			}
		}
	}
	// the element variables of a `range` value are local to the body
	var state []*vinfo
	for _, a := range w {
		local := false
		for _, l := range elem.leaves(nil) {
			if a == l {
				local = true
			}
		}
		if !local {
			state = append(state, a)
		}
	}
	next := func() (string, error) { return "LNext " + paren(tupleTerm(state)), nil }
	inner := &sctx{
		ret:  func(t string) string { return "LRet " + paren(t) },
		brk:  func() (string, error) { return "LBreak " + paren(tupleTerm(state)), nil },
		cnt:  next,
		loop: true,
	}
	bodyTerm, err := c.stmts(body.List, inner, next)
	if err != nil {
		return "", err
	}
	r, err := rest()
	if err != nil {
		return "", err
	}
	retVar := c.fresh("r")
	resT := c.fn.coqResult(c.k.tt)
	stateT := make([]string, len(state))
	for i, s := range state {
		stateT[i] = c.k.tt.coqType(s.typ)
	}
	st := "unit"
	if len(stateT) > 0 {
		st = strings.Join(stateT, " * ")
	}
	elemPat := elem.pattern()
	binder := elemPat
	if strings.HasPrefix(elemPat, "(") {
		binder = "'" + elemPat
	}
	statePat := tuplePattern(state)
	sbinder := statePat
	if strings.HasPrefix(statePat, "(") {
		sbinder = "'" + statePat
	}
	var head string
	if idx != nil && idx.index.used {
		head = fmt.Sprintf("@range_loop_i %s (%s) %s\n  (fun %s %s %s =>\n%s)\n  0 %s %s",
			paren(c.k.tt.coqType(rv.typ.elem)), st, paren(resT), idx.coq, binder, sbinder, indent(indent(bodyTerm)), paren(rv.coq), paren(tupleTerm(state)))
	} else {
		head = fmt.Sprintf("@range_loop %s (%s) %s\n  (fun %s %s =>\n%s)\n  %s %s",
			paren(c.k.tt.coqType(rv.typ.elem)), st, paren(resT), binder, sbinder, indent(indent(bodyTerm)), paren(rv.coq), paren(tupleTerm(state)))
	}
	return "match " + head + " with\n| LDone " + paren(statePat) + " =>\n" + indent(r) + "\n| LReturn " + retVar + " => " + sc.ret(retVar) + "\nend", nil
}
