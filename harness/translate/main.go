// bstranslate: the small Go-to-Gallina translator of DESIGN.md section 1.4 / 2.2.
//
// It reads every non-test .go file of package bloomsearch in the repo directory
// (build constraints are ignored on purpose: files tagged `verif` and `!verif`
// are both scanned) and emits two Coq files:
//
//	Generated/Consts.v      the Go constants the models are parametric in
//	Generated/SilentGraph.v for every function, method and package-level
//	                        declaration the external identifiers it references,
//	                        plus the logger-construction facts of C27
//	Generated/Kernels.v     the small pure functions of kernels.go's table,
//	                        translated statement by statement into Gallina
//	Generated/KernelTie.v   the statements that each of them equals its model
//
// Only syntactic facts are extracted (go/parser + go/ast, identifiers resolved
// through each file's import table and the parser's own scope resolution).
// Output is deterministic (sorted) and a file is rewritten only when its
// content changed, so `make` does not rebuild needlessly.
package main

import (
	"encoding/json"
	"flag"
	"fmt"
	"os"
	"path/filepath"
	"strings"
)

func main() {
	repo := flag.String("repo", "/repo", "directory of package bloomsearch")
	out := flag.String("out", "", "coq/Generated directory")
	pkgName := flag.String("package", "bloomsearch", "package name to scan")
	only := flag.String("kernels", "", "self-test: translate only these functions (comma separated) and write Kernels.v alone")
	flag.Parse()
	if *out == "" {
		fmt.Fprintln(os.Stderr, "usage: bstranslate -repo DIR -out GENERATED_DIR")
		os.Exit(2)
	}
	pkg, err := loadPackage(*repo, *pkgName)
	if err != nil {
		fmt.Fprintln(os.Stderr, "bstranslate:", err)
		os.Exit(1)
	}
	if err := os.MkdirAll(*out, 0o755); err != nil {
		fmt.Fprintln(os.Stderr, "bstranslate:", err)
		os.Exit(1)
	}
	if *only != "" {
		kt := newKtrans(pkg)
		var specs []kernelSpec
		for _, f := range strings.Split(*only, ",") {
			specs = append(specs, kernelSpec{name: strings.ReplaceAll(f, ".", "_"), goFunc: f})
		}
		text, notes := kt.emitKernels(specs)
		for _, sp := range specs {
			if err, bad := notes[sp.name]; bad {
				fmt.Printf("kernel %s: not translated: %v\n", sp.name, err)
			}
		}
		if _, err := writeIfChanged(filepath.Join(*out, "Kernels.v"), text); err != nil {
			fmt.Fprintln(os.Stderr, "bstranslate:", err)
			os.Exit(1)
		}
		return
	}
	consts, err := emitConsts(pkg)
	if err != nil {
		fmt.Fprintln(os.Stderr, "bstranslate: consts:", err)
		os.Exit(1)
	}
	graph := emitGraph(pkg)
	kt := newKtrans(pkg)
	kernels, notes := kt.emitKernels(kernelSpecs)
	tie := kt.emitTie(kernelSpecs, notes)
	type kernelReport struct {
		Kernel     string   `json:"kernel"`
		GoFunc     string   `json:"go_func"`
		Properties []string `json:"properties"`
		Translated bool     `json:"translated"`
		Reason     string   `json:"reason,omitempty"`
	}
	var reports []kernelReport
	for _, sp := range kernelSpecs {
		r := kernelReport{Kernel: sp.name, GoFunc: sp.goFunc, Properties: sp.props, Translated: true}
		if err, bad := notes[sp.name]; bad {
			fmt.Printf("kernel %s: not translated: %v\n", sp.name, err)
			r.Translated, r.Reason = false, err.Error()
		}
		reports = append(reports, r)
	}
	if js, err := json.MarshalIndent(reports, "", " "); err == nil {
		if _, err := writeIfChanged(filepath.Join(*out, "kernels.json"), string(js)+"\n"); err != nil {
			fmt.Fprintln(os.Stderr, "bstranslate:", err)
			os.Exit(1)
		}
	}
	for _, name := range []string{"Consts.v", "SilentGraph.v", "Kernels.v", "KernelTie.v"} {
		text := map[string]string{"Consts.v": consts, "SilentGraph.v": graph, "Kernels.v": kernels, "KernelTie.v": tie}[name]
		changed, err := writeIfChanged(filepath.Join(*out, name), text)
		if err != nil {
			fmt.Fprintln(os.Stderr, "bstranslate:", err)
			os.Exit(1)
		}
		if changed {
			fmt.Println("rewrote", name)
		}
	}
}

func writeIfChanged(path, text string) (bool, error) {
	old, err := os.ReadFile(path)
	if err == nil && string(old) == text {
		return false, nil
	}
	tmp := path + ".tmp"
	if err := os.WriteFile(tmp, []byte(text), 0o644); err != nil {
		return false, err
	}
	return true, os.Rename(tmp, path)
}
