package main

// Kernel translator (DESIGN.md section 10.7): small pure Go functions of package
// bloomsearch are translated, statement by statement, into Gallina definitions
// over Z / bool / list / tuples / option (Generated/Kernels.v), and the statement
// that each of them equals the hand-written model it is meant to be
// (Generated/KernelTie.v). Proofs/KernelEquiv*.v proves those statements.
//
// The translator never guesses: a function that uses anything outside the
// subset (see ktypes.go, kexpr.go, kstmt.go) is reported as
// `kernel <name>: not translated: <reason>`, gets `<name>_translated := false`
// and a tie statement `True`.

import (
	"bytes"
	"fmt"
	"go/ast"
	"go/printer"
	"sort"
	"strings"
)

type kparam struct {
	name string
	typ  *gtype
	ptr  bool
}

type kfunc struct {
	key      string // "Name" or "Recv.Name"
	coqName  string
	decl     *ast.FuncDecl
	file     *srcFile
	params   []kparam
	results  []*gtype
	hasErr   bool
	variadic bool
	def      string // the Coq definition
}

func (f *kfunc) coqResult(tt *typeTable) string {
	n := len(f.results)
	if f.hasErr {
		if n == 1 {
			return "bool"
		}
		parts := make([]string, n-1)
		for i := range parts {
			parts[i] = paren(tt.coqType(f.results[i]))
		}
		return "option (" + strings.Join(parts, " * ") + ")"
	}
	if n == 1 {
		return tt.coqType(f.results[0])
	}
	parts := make([]string, n)
	for i := range parts {
		parts[i] = paren(tt.coqType(f.results[i]))
	}
	return strings.Join(parts, " * ")
}

type funcDecl struct {
	decl *ast.FuncDecl
	file *srcFile
}

type ktrans struct {
	tt      *typeTable
	funcs   map[string]funcDecl
	done    map[string]*kfunc
	failed  map[string]error
	busy    map[string]bool
	order   []*kfunc
	structs []string // struct types used, dependency order
	sseen   map[string]bool
	enums   []string
	eseen   map[string]bool
}

func newKtrans(p *pkgInfo) *ktrans {
	k := &ktrans{tt: newTypeTable(p), funcs: map[string]funcDecl{}, done: map[string]*kfunc{}, failed: map[string]error{},
		busy: map[string]bool{}, sseen: map[string]bool{}, eseen: map[string]bool{}}
	for _, f := range p.files {
		for _, d := range f.ast.Decls {
			if fd, ok := d.(*ast.FuncDecl); ok {
				name := funcName(fd)
				if _, dup := k.funcs[name]; !dup {
					k.funcs[name] = funcDecl{fd, f}
				} else {
					k.funcs[name] = funcDecl{nil, nil} // declared twice (build-tagged variants): not a kernel
				}
			}
		}
	}
	return k
}

func (k *ktrans) isGlobalName(n string) bool {
	if strings.HasPrefix(n, "go_") || strings.HasSuffix(n, "_t") || strings.HasSuffix(n, "_ok") || strings.HasSuffix(n, "_translated") {
		return true
	}
	for _, e := range k.enums {
		if strings.HasPrefix(n, e+"_") {
			return true
		}
	}
	return false
}

func (k *ktrans) needStruct(name string) {
	if k.sseen[name] {
		return
	}
	k.sseen[name] = true
	s, err := k.tt.structOf(name)
	if err == nil {
		for _, f := range s.fields {
			t := f.typ
			for t.k == tSlice {
				t = t.elem
			}
			switch t.k {
			case tStruct:
				k.needStruct(t.name)
			case tEnum:
				k.needEnum(t.name)
			}
		}
	}
	k.structs = append(k.structs, name)
}

func (k *ktrans) needEnum(name string) {
	if !k.eseen[name] {
		k.eseen[name] = true
		k.enums = append(k.enums, name)
	}
}

func (k *ktrans) needType(t *gtype) {
	for t.k == tSlice {
		t = t.elem
	}
	switch t.k {
	case tStruct:
		k.needStruct(t.name)
	case tEnum:
		k.needEnum(t.name)
	}
}

// translate returns the translation of the function or method `key`, translating it on first use.
func (k *ktrans) translate(key string) (*kfunc, error) {
	if f, ok := k.done[key]; ok {
		return f, nil
	}
	if err, ok := k.failed[key]; ok {
		return nil, err
	}
	if k.busy[key] {
		return nil, fmt.Errorf("%s is recursive", key)
	}
	k.busy[key] = true
	f, err := k.translate1(key)
	k.busy[key] = false
	if err != nil {
		k.failed[key] = err
		return nil, err
	}
	k.done[key] = f
	k.order = append(k.order, f)
	return f, nil
}

func (k *ktrans) translate1(key string) (*kfunc, error) {
	fd, ok := k.funcs[key]
	if !ok {
		return nil, fmt.Errorf("no function %s in the package", key)
	}
	if fd.decl == nil {
		return nil, fmt.Errorf("%s is declared more than once (build-tagged variants)", key)
	}
	d := fd.decl
	if d.Body == nil {
		return nil, fmt.Errorf("%s has no body", key)
	}
	if d.Type.TypeParams != nil {
		return nil, fmt.Errorf("%s is generic", key)
	}
	f := &kfunc{key: key, coqName: "go_" + strings.ReplaceAll(key, ".", "_"), decl: d, file: fd.file}
	c := &fctx{k: k, fn: f, file: fd.file, env: map[*ast.Object]*vinfo{}, used: map[string]bool{}, consts: map[*ast.Object]val{}}
	var binders []string
	var pre strings.Builder
	addParam := func(id *ast.Ident, te ast.Expr) error {
		if _, isEll := te.(*ast.Ellipsis); isEll {
			f.variadic = true
			return fmt.Errorf("variadic parameter")
		}
		t, ptr, err := k.tt.resolve(te)
		if err != nil {
			return fmt.Errorf("parameter %s: %v", id.Name, err)
		}
		if t.k == tError {
			return fmt.Errorf("parameter %s of type error", id.Name)
		}
		k.needType(t)
		f.params = append(f.params, kparam{id.Name, t, ptr})
		if id.Name == "_" || id.Obj == nil {
			binders = append(binders, "(_ : "+k.tt.coqType(t)+")")
			return nil
		}
		if t.k == tStruct {
			whole := c.fresh(id.Name)
			v, err := c.newVar(id.Name, t)
			if err != nil {
				return err
			}
			setReadonly(v, ptr)
			c.env[id.Obj] = v
			binders = append(binders, "("+whole+" : "+k.tt.coqType(t)+")")
			pre.WriteString(letPattern(v.pattern(), whole))
			return nil
		}
		v, err := c.newVar(id.Name, t)
		if err != nil {
			return err
		}
		c.env[id.Obj] = v
		binders = append(binders, "("+v.coq+" : "+k.tt.coqType(t)+")")
		return nil
	}
	if d.Recv != nil {
		for _, fl := range d.Recv.List {
			if len(fl.Names) == 0 {
				if err := addParam(&ast.Ident{Name: "_"}, fl.Type); err != nil {
					return nil, err
				}
			}
			for _, id := range fl.Names {
				if err := addParam(id, fl.Type); err != nil {
					return nil, err
				}
			}
		}
	}
	for _, fl := range d.Type.Params.List {
		if len(fl.Names) == 0 {
			if err := addParam(&ast.Ident{Name: "_"}, fl.Type); err != nil {
				return nil, err
			}
		}
		for _, id := range fl.Names {
			if err := addParam(id, fl.Type); err != nil {
				return nil, err
			}
		}
	}
	if d.Type.Results == nil || len(d.Type.Results.List) == 0 {
		return nil, fmt.Errorf("%s has no result", key)
	}
	for _, fl := range d.Type.Results.List {
		t, ptr, err := k.tt.resolve(fl.Type)
		if err != nil || ptr {
			if err == nil {
				err = fmt.Errorf("pointer result")
			}
			return nil, fmt.Errorf("result: %v", err)
		}
		k.needType(t)
		n := len(fl.Names)
		if n == 0 {
			n = 1
		}
		for i := 0; i < n; i++ {
			f.results = append(f.results, t)
			if len(fl.Names) > 0 {
				id := fl.Names[i]
				if t.k == tEnum {
					return nil, fmt.Errorf("named result of the string type %s", t.name)
				}
				v, err := c.newVar(id.Name, t)
				if err != nil {
					return nil, err
				}
				if id.Obj != nil {
					c.env[id.Obj] = v
				}
				c.named = append(c.named, v)
				z, err := k.tt.zero(t)
				if err != nil {
					return nil, err
				}
				pre.WriteString(letPattern(v.pattern(), z))
			}
		}
	}
	for i, t := range f.results {
		if t.k == tError {
			if i != len(f.results)-1 {
				return nil, fmt.Errorf("error result that is not the last result")
			}
			f.hasErr = true
		}
	}
	top := &sctx{ret: func(t string) string { return t }}
	body, err := c.stmts(d.Body.List, top, func() (string, error) {
		return "", fmt.Errorf("control reaches the end of %s without a return", key)
	})
	if err != nil {
		return nil, err
	}
	pos := k.tt.p.fset.Position(d.Pos())
	file := pos.Filename[strings.LastIndex(pos.Filename, "/")+1:]
	var sb bytes.Buffer
	printer.Fprint(&sb, k.tt.p.fset, &ast.FuncDecl{Recv: d.Recv, Name: d.Name, Type: d.Type})
	sig := strings.Join(strings.Fields(sb.String()), " ")
	f.def = fmt.Sprintf("(* %s: %s *)\nDefinition %s %s : %s :=\n%s.\n", file, strings.ReplaceAll(sig, "*)", "* )"), f.coqName,
		strings.Join(binders, " "), f.coqResult(k.tt), indent(pre.String()+body))
	return f, nil
}

// ---- emission of Generated/Kernels.v ----

func (k *ktrans) structTuple(s *structInfo) string {
	if len(s.fields) == 0 {
		return "unit"
	}
	parts := make([]string, len(s.fields))
	for i, f := range s.fields {
		parts[i] = paren(k.tt.coqType(f.typ))
	}
	return strings.Join(parts, " * ")
}

func fieldPattern(s *structInfo) string {
	switch len(s.fields) {
	case 0:
		return "_"
	case 1:
		return s.fields[0].name
	}
	names := make([]string, len(s.fields))
	for i, f := range s.fields {
		names[i] = f.name
	}
	return "'(" + strings.Join(names, ", ") + ")"
}

func (k *ktrans) emitKernels(specs []kernelSpec) (string, map[string]error) {
	notes := map[string]error{}
	for _, sp := range specs {
		if _, err := k.translate(sp.goFunc); err != nil {
			notes[sp.name] = err
		}
	}
	// struct types named by the model mappings of the tie file
	for _, m := range structMaps {
		if _, err := k.tt.structOf(m.goType); err == nil {
			k.needStruct(m.goType)
		}
	}
	var b strings.Builder
	b.WriteString("(* GENERATED by harness/translate (bstranslate, kernels.go) from the Go sources of package bloomsearch.\n")
	b.WriteString("   Do not edit: rewritten on every ./check run when the sources change.\n")
	b.WriteString("   Go int/int64 -> Z with explicit 64-bit wrap-around (add64, sub64, ...); uint64 -> Z with addu64, ...;\n")
	b.WriteString("   a struct -> the tuple of its fields of supported type (declaration order); []T -> list;\n")
	b.WriteString("   error -> bool (true = nil), (T..., error) -> option; a defined string type with constants -> Z codes. *)\n")
	b.WriteString("From BS Require Import Lib.Wrap64 Lib.GoPrim.\nFrom Coq Require Import ZArith List Bool.\nImport ListNotations.\n")
	b.WriteString("Local Open Scope Z_scope.\nLocal Open Scope bool_scope.\n\nCreate HintDb go_kernels.\n\n")

	enums := append([]string(nil), k.enums...)
	sort.Strings(enums)
	for _, name := range enums {
		en := k.tt.enumOf(name)
		fmt.Fprintf(&b, "(* type %s string: one code per distinct constant value; every other string is some other Z *)\n", name)
		for _, cn := range en.consts {
			fmt.Fprintf(&b, "Definition %s_%s : Z := %d. (* %q *)\n#[global] Hint Unfold %s_%s : go_kernels.\n", name, cn, en.code[cn], en.value[cn], name, cn)
		}
		b.WriteString("\n")
	}
	for _, name := range k.structs {
		s, _ := k.tt.structOf(name)
		var names []string
		for _, f := range s.fields {
			names = append(names, f.name+" "+f.typ.String())
		}
		var om []string
		for n := range s.omitted {
			om = append(om, n)
		}
		sort.Strings(om)
		fmt.Fprintf(&b, "(* type %s struct: %s", name, strings.Join(names, "; "))
		if len(om) > 0 {
			fmt.Fprintf(&b, "\n   not in the view: %s", strings.Join(om, ", "))
		}
		fmt.Fprintf(&b, " *)\nDefinition %s_t : Type := (%s)%%type.\n", name, k.structTuple(s))
		var conj []string
		for _, f := range s.fields {
			if p := k.tt.okPred(f.typ, f.name); p != "" {
				conj = append(conj, p)
			}
		}
		if len(conj) == 0 {
			conj = []string{"True"}
		}
		fmt.Fprintf(&b, "Definition %s_ok (x : %s_t) : Prop :=\n  let %s := x in %s.\n#[global] Hint Unfold %s_t %s_ok : go_kernels.\n\n", name, name, fieldPattern(s), strings.Join(conj, " /\\ "), name, name)
	}
	for _, f := range k.order {
		b.WriteString(f.def)
		fmt.Fprintf(&b, "#[global] Hint Unfold %s : go_kernels.\n\n", f.coqName)
	}
	b.WriteString("(* which kernels of the table were translated *)\n")
	for _, sp := range specs {
		if err, bad := notes[sp.name]; bad {
			fmt.Fprintf(&b, "(* kernel %s (%s): not translated: %s *)\n", sp.name, sp.goFunc, strings.ReplaceAll(err.Error(), "*)", "* )"))
			fmt.Fprintf(&b, "Definition %s_translated := false.\n", sp.name)
		} else {
			fmt.Fprintf(&b, "Definition %s_translated := true.\n", sp.name)
		}
	}
	return b.String(), notes
}
