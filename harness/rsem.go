package main

// Family R correspondence (C01, C02, C18 bloom part): walker, entry sets, row
// matcher, pruning query, and end-to-end queries over engine-produced layouts.

import (
	"context"
	"encoding/json"
	"fmt"
	"math"
	"os"
	"path/filepath"
	"sort"
	"strconv"
	"strings"
	"time"

	"github.com/bits-and-blooms/bloom/v3"
	bs "github.com/danthegoodman1/bloomsearch"
)

func init() { register("rsem", []string{"C01", "C02", "C18", "C24"}, runRsem) }

const runnerR = "Model.Json Model.Expr Model.MinMax Model.QueryFn Model.Matcher Cases.RunnerR"

func violFor(c *Ctx) string {
	switch {
	case c.Props["C02"]:
		return "violations_c02"
	case c.Props["C18"]:
		return "violations_c18"
	case c.Props["C24"]:
		return "violations_c24"
	case c.Props["C01"]:
		return "violations_c01"
	}
	return "violations_c01"
}

func coqEms(ems []bs.VerifEmission) string {
	items := make([]string, len(ems))
	for i, e := range ems {
		switch e.Kind {
		case 0:
			items[i] = coqPair(coqS(e.Path), "LContainer")
		case 1:
			items[i] = coqPair(coqS(e.Path), "LNull")
		default:
			items[i] = coqPair(coqS(e.Path), "(LText "+coqS(e.Text)+")")
		}
	}
	return coqList(items)
}

func hitsOf(ems []bs.VerifEmission, oracle func(string) []string) *hitSet {
	h := &hitSet{}
	seenP, seenT := map[string]bool{}, map[string]bool{}
	for _, e := range ems {
		if !seenP[e.Path] {
			seenP[e.Path] = true
			h.paths = append(h.paths, e.Path)
		}
		if e.Kind == 2 {
			for _, t := range oracle(e.Text) {
				if !seenT[t] {
					seenT[t] = true
					h.tokens = append(h.tokens, t)
				}
				if len(h.pairs) < 40 {
					h.pairs = append(h.pairs, [2]string{e.Path, t})
				}
			}
		}
	}
	return h
}

func sameStrings(a, b []string) bool {
	if len(a) != len(b) {
		return false
	}
	for i := range a {
		if a[i] != b[i] {
			return false
		}
	}
	return true
}

func runRsem(c *Ctx) {
	c.rep.Rule = "row level: random nested rows (dotted/metachar/unicode/empty keys, every scalar kind, raw JSON with duplicate keys and invalid UTF-8) x 4 tokenizers; " +
		"walker emissions, entry sets, matcher verdict (compiled and reference) and pruning query compared with the model; " +
		"queries: AND/OR bloom and regex trees with nil/empty/unknown nodes, 65% of conditions drawn from the row's own paths/tokens. " +
		"end to end: engines (3 compressions, fpr in {0.5,0.1,0.001}, small row-group/buffer limits, partition func, minmax key, both MetaStores, flush and merge), " +
		"real filter answers as oracle tables; returned id multiset compared with run_query. Non-trivial: a match case whose query has >= 1 real condition; " +
		"an end-to-end case where >= 1 stored row matches and >= 1 does not. Distinct by case text."
	props := []string{"C01", "C02"}
	sh := c.newShard("r", runnerR, "caseR", "mismatches", violFor(c))
	sh.limit = 700

	nRows := c.pick(450, 12000)
	if len(c.Props) == 1 && c.Props["C24"] {
		nRows = 0 // C24 is about the read plan: end-to-end scenarios only
	}
	for i := 0; i < nRows; i++ {
		rsemRowCase(c, sh, props)
	}
	she := c.newShard("e", runnerR, "caseR", "mismatches", violFor(c))
	she.limit = 12
	nScen := c.pick(40, 600)
	if len(c.Props) == 1 && c.Props["C24"] {
		nScen = c.pick(70, 900)
	}
	for s := 0; s < nScen; s++ {
		rsemScenario(c, she, s)
	}
	if len(c.Props) == 0 || c.Props["C02"] || c.Props["C01"] {
		for s := 0; s < c.pick(3, 12); s++ {
			rsemSlowConsumer(c, s)
		}
	}
}

// recent rows per tokenizer, for scan-like sequences through one matcher scratch
var rsemRecent = map[string][][]byte{}

func seqStrings(seq [][]byte) []string {
	out := make([]string, len(seq))
	for i, b := range seq {
		out[i] = string(b)
	}
	return out
}

func mtermKey(q *bs.Query, row []byte) string {
	b, _ := json.Marshal(q)
	return string(b) + string(row)
}

func rsemRowCase(c *Ctx, sh *shard, props []string) {
	row := c.genRow()
	rowBytes, err := json.Marshal(row)
	must(err)
	tree, err := parseJSON(rowBytes)
	if err != nil {
		panic(fmt.Sprintf("independent parser rejects marshaled row %q: %v", rowBytes, err))
	}
	tk := c.genTokenizer()
	c.dist("tokenizer", tk.name)
	ems := bs.VerifWalk(rowBytes)
	wterm := fmt.Sprintf("CWalk %s %s", tree.coq(), coqEms(ems))
	sh.add(c, wterm, map[string]any{"kind": "walk", "row": string(rowBytes)})
	c.count(props, wterm, len(ems) > 0, map[string]any{"kind": "walk", "row": string(rowBytes), "emissions": len(ems)})

	texts := map[string]bool{}
	tree.leafTexts(texts)
	fields, tokens, fts := bs.VerifIndexRow(rowBytes, tk.fn)
	eterm := fmt.Sprintf("CEntries %s %s %s %s %s", tree.coq(), coqTokTab(texts, tk.oracle), coqStrList(fields), coqStrList(tokens), coqStrList(fts))
	sh.add(c, eterm, map[string]any{"kind": "entries", "row": string(rowBytes), "tokenizer": tk.name})
	c.count([]string{"C01", "C18"}, eterm, len(tokens) > 0, nil)

	if tk.name == "default" {
		for t := range texts {
			fast := bs.VerifFastTokens(t)
			if !sameStrings(fast, tk.oracle(t)) || !sameStrings(bs.BasicWhitespaceLowerTokenizer(t), tk.oracle(t)) {
				c.mismatch("fast-token-path", fmt.Sprintf("fast token path %q / BasicWhitespaceLowerTokenizer %q differ from strings.Fields(strings.ToLower(%q)) = %q",
					fast, bs.BasicWhitespaceLowerTokenizer(t), t, tk.oracle(t)), map[string]any{"text": t})
			}
			c.count([]string{"C01"}, "fast:"+t, len(fast) > 0, nil)
		}
	}

	defer func() {
		r := append(rsemRecent[tk.name], rowBytes)
		if len(r) > 5 {
			r = r[len(r)-5:]
		}
		rsemRecent[tk.name] = r
	}()
	h := hitsOf(ems, tk.oracle)
	nq := 3
	for qi := 0; qi < nq; qi++ {
		q := &bs.Query{}
		hasB, hasR := c.chance(0.8), c.chance(0.5)
		if hasB {
			e := c.genBExpr(3, h)
			q.Bloom = &bs.BloomQuery{Expression: &e}
		} else if c.chance(0.5) {
			q.Bloom = &bs.BloomQuery{}
		}
		if hasR {
			e := c.genRExpr(2, h)
			if qi == 0 && len(ems) > 0 {
				// an Or whose legs are all satisfied by this very row (each leg names one of its text leaves)
				var legs []bs.RegexExpression
				for _, em := range ems {
					if em.Kind == 2 && len(legs) < 3 && c.chance(0.7) {
						legs = append(legs, bs.FieldRegex(em.Path, []string{".", "^", "(?s).*"}[c.intn(3)]))
					}
				}
				if len(legs) >= 2 {
					e = bs.RegexExpression{ExpressionType: bs.RegexExpressionOr, Children: legs}
					c.dist("rexpr_nodes", "all-legs-hit-or")
				}
			}
			q.Regex = &bs.RegexQuery{Expression: &e}
		} else if c.chance(0.5) {
			q.Regex = &bs.RegexQuery{}
		}
		acceptable := q.Regex == nil || q.Regex.Expression == nil || regexAcceptable(q.Regex.Expression)
		obs, err := bs.VerifMatchRow(q, rowBytes, tk.fn)
		if !acceptable {
			c.dist("query", "rejected")
			if err == nil {
				c.mismatch("regex-accepted", "Query accepted a regex tree with an invalid pattern or unknown node", map[string]any{"regex": q.Regex})
			}
			c.count(props, fmt.Sprintf("reject:%v", q.Regex), false, nil)
			continue
		}
		if err != nil {
			c.mismatch("regex-rejected", "matcher compilation failed for an acceptable query: "+err.Error(), map[string]any{"regex": q.Regex})
			continue
		}
		refobs, _ := bs.VerifReferenceMatchRow(q, rowBytes, tk.fn)
		// the same matcher and scratch over a sequence of rows, as a block scan does: every verdict must
		// equal the fresh-scratch verdict (which the CMatch case ties to the model)
		{
			seq := append([][]byte{rowBytes}, rsemRecent[tk.name]...)
			seq = append(seq, rowBytes)
			shared, err := bs.VerifMatchRowsShared(q, seq, tk.fn)
			must(err)
			for si, rb := range seq {
				fresh, _ := bs.VerifMatchRow(q, rb, tk.fn)
				if shared[si] != fresh {
					kind := "c02"
					if fresh {
						kind = "c01"
					}
					c.violation("matcher-scratch-leak-"+kind, fmt.Sprintf("row %d of a scanned sequence: shared-scratch verdict %v, fresh verdict %v (matcher state leaks between rows)", si, shared[si], fresh),
						map[string]any{"rows": seqStrings(seq[:si+1]), "bloom": q.Bloom, "regex": q.Regex})
					break
				}
			}
			c.count(props, fmt.Sprintf("seq:%d:%s", len(seq), mtermKey(q, rowBytes)), len(seq) > 2, nil)
		}
		pats := map[string]bool{}
		if q.Regex != nil && q.Regex.Expression != nil {
			regexPatterns(q.Regex.Expression, pats)
		}
		mterm := fmt.Sprintf("CMatch %s %s %s %s %s %s %s", tree.coq(), coqTokTab(texts, tk.oracle), coqReTab(texts, pats),
			coqBQuery(q.Bloom), coqRQuery(q.Regex), coqBool(obs), coqBool(refobs))
		desc := map[string]any{"kind": "match", "row": string(rowBytes), "tokenizer": tk.name, "bloom": q.Bloom, "regex": q.Regex, "matched": obs, "reference": refobs}
		sh.add(c, mterm, desc)
		c.dist("match_verdict", fmt.Sprint(obs))
		c.count(props, mterm, hasB || hasR, desc)

		gterm := fmt.Sprintf("CGuard %s %s %s", coqBQuery(q.Bloom), coqRQuery(q.Regex), coqBQuery(bs.VerifPruneQuery(q)))
		sh.add(c, gterm, map[string]any{"kind": "guard", "bloom": q.Bloom, "regex": q.Regex, "prune_query": bs.VerifPruneQuery(q)})
		c.count(props, gterm, hasR, nil)
	}
}

// ---- end to end ----

type e2eRow struct {
	id    int
	tr    *typedRow
	bytes []byte
	tree  *jnode
}

type fsBoth struct{ *bs.FileSystemDataStore }

func coqFtab1(f *bloom.BloomFilter, entries map[string]bool) string {
	if f == nil {
		return "None"
	}
	items := []string{}
	for _, e := range sortedKeys(entries) {
		items = append(items, coqPair(coqS(e), coqBool(f.TestString(e))))
	}
	return "(Some " + coqList(items) + ")"
}

func coqFtab(f *bs.BloomFilters, fields, tokens, fts map[string]bool) string {
	return fmt.Sprintf("{| t_field := %s; t_token := %s; t_ft := %s |}", coqFtab1(f.FieldBloomFilter, fields),
		coqFtab1(f.TokenBloomFilter, tokens), coqFtab1(f.FieldTokenBloomFilter, fts))
}

func bloomEntries(e *bs.BloomExpression, fields, tokens, fts map[string]bool) {
	if e == nil {
		return
	}
	if e.Condition != nil {
		switch e.Condition.Type {
		case bs.BloomField:
			fields[e.Condition.Field] = true
		case bs.BloomToken:
			tokens[e.Condition.Token] = true
		case bs.BloomFieldToken:
			fts[e.Condition.Field+"::"+e.Condition.Token] = true
		}
	}
	for i := range e.Children {
		bloomEntries(&e.Children[i], fields, tokens, fts)
	}
}

func rsemScenario(c *Ctx, sh *shard, scen int) {
	ctx := context.Background()
	tk := c.genTokenizer()
	// profile "copy-heavy": every partition lives in one file only, so a merge copies its blocks
	// verbatim (copyDataBlock) and must re-index them for the rebuilt file-level filters; with a
	// tokenizer that returns substrings of its input and uncompressed row data
	copyHeavy := c.chance(0.25)
	if copyHeavy {
		tk = tokenizers[1+c.intn(len(tokenizers)-1)]
	}
	// profile "range-merge": many tiny single-partition files whose minmax ranges nest and overlap in
	// every order (and sometimes saturate on one side), combined by a merge with room for all of them
	rangeMerge := !copyHeavy && c.chance(0.25)
	cfg := bs.DefaultBloomSearchEngineConfig()
	cfg.Tokenizer = tk.fn
	cfg.MinMaxIndexes = []string{"n"}
	// a second configured key, listed first, under which no row ever holds a number (strings, booleans, null,
	// absent): it never becomes block metadata, and it must not get in the way of indexing "n"
	inertKey := c.chance(0.5)
	if inertKey {
		cfg.MinMaxIndexes = []string{"m0", "n"}
	}
	usePartition := (c.chance(0.6) || copyHeavy) && !rangeMerge
	if usePartition {
		cfg.PartitionFunc = func(row map[string]any) string { p, _ := row["p"].(string); return p }
	}
	cfg.MaxRowGroupRows = 2 + c.intn(8)
	cfg.MaxBufferedRows = 3 + c.intn(12)
	if rangeMerge {
		cfg.MaxRowGroupRows = 64
		cfg.MaxBufferedRows = 64
	}
	cfg.MaxBufferedTime = time.Hour
	cfg.BloomFalsePositiveRate = []float64{0.5, 0.1, 0.001}[c.intn(3)]
	cfg.RowDataCompression = []bs.CompressionType{bs.CompressionNone, bs.CompressionSnappy, bs.CompressionZstd}[c.intn(3)]
	if copyHeavy && c.chance(0.6) {
		cfg.RowDataCompression = bs.CompressionNone
	}
	var meta bs.MetaStore
	var data bs.DataStore
	useFS := c.chance(0.35)
	if useFS {
		dir := filepath.Join(c.Out, fmt.Sprintf("fs-%d", scen))
		os.RemoveAll(dir)
		fs := bs.NewFileSystemDataStore(dir)
		meta, data = fs, fs
		defer os.RemoveAll(dir)
	} else {
		meta, data = bs.NewMemoryMetaStore(), newMemDataStore()
	}
	eng, err := bs.NewBloomSearchEngine(cfg, meta, data)
	must(err)
	eng.Start()
	defer func() {
		sctx, cancel := context.WithTimeout(ctx, 120*time.Second)
		eng.Stop(sctx)
		cancel()
	}()

	// partition ids for this scenario: a few from a pool that includes ids which collide with
	// (partition, key) pairs under naive key encodings ("a" + "n" vs "an", "a|n", ...)
	e2ePartPool := []string{"", "a", "b", "an", "a|n", "a:n", "a/n", "a\x00n", "a,n", "ab"}
	parts := make([]string, 4)
	for i := range parts {
		parts[i] = e2ePartPool[c.intn(len(e2ePartPool))]
	}
	if c.chance(0.5) {
		parts[0], parts[1] = "a", e2ePartPool[3+c.intn(6)]
	}
	nRows := 8 + c.intn(18)
	rows := make([]*e2eRow, nRows)
	near := map[string][]int64{}
	// range-merge batches are fixed up front; in its "nested" variant batch k holds one row below and
	// one row above everything in the batches before it, and its rows are longer, so that the merge
	// (which streams smaller blocks first) folds an enclosing range into the accumulated one each time
	var rmBatch, rmPos []int
	var rmSizes []int
	nested := rangeMerge && c.chance(0.6)
	if rangeMerge {
		for i := 0; i < nRows; {
			n := 1 + c.intn(3)
			if nested {
				n = 2 + c.intn(2)
			}
			if i+n > nRows {
				n = nRows - i
			}
			for j := 0; j < n; j++ {
				rmBatch, rmPos = append(rmBatch, len(rmSizes)), append(rmPos, j)
			}
			rmSizes = append(rmSizes, n)
			i += n
		}
	}
	nestStep := []int64{1, 7, 1000, 1 << 40}[c.intn(4)]
	for i := range rows {
		m := c.genRow()
		if nested {
			m = map[string]any{"pad": rsPad(i, 2+6*rmBatch[i])}
		}
		m["_id"] = i
		tr := &typedRow{id: i, row: m, vals: map[string]numVal{}}
		delete(m, "p")
		delete(m, "n")
		if usePartition {
			tr.partition = parts[c.intn(len(parts))]
			if copyHeavy {
				// one partition shared by all files (so that files have a mergeable block pair and are
				// grouped), the others private to one file each (their blocks are copied verbatim)
				tr.partition = "common"
				if i%3 != 0 {
					tr.partition = fmt.Sprintf("only%d", i/3)
				}
			}
			m["p"] = tr.partition
		}
		// rows of partition "a" tend to carry the minmax key, rows of colliding ids tend not to
		pn := 0.7
		if tr.partition != "a" && tr.partition != "" && tr.partition != "b" {
			pn = 0.25
		}
		if rangeMerge {
			mag := []int64{3, 40, 500, 6000}[c.intn(4)]
			z := int64(c.intn(int(2*mag+1))) - mag
			var nv numVal
			switch x := c.intn(12); {
			case x == 0:
				nv = numVal{v: -1e30, coq: gFloat(false, -1e30), kind: "float64", numeric: true, jsonOK: true}
			case x == 1:
				nv = numVal{v: uint64(1<<63 + 5), coq: gUint(false, 1<<63+5), kind: "uint64", numeric: true, jsonOK: true}
			default:
				nv = numVal{v: z, coq: gInt(false, z), kind: "int64", numeric: true, jsonOK: true}
			}
			if nested {
				k := int64(rmBatch[i] + 1)
				switch rmPos[i] {
				case 0:
					z = -k*nestStep - int64(c.intn(2))
				case 1:
					z = k*nestStep + int64(c.intn(2))
				default:
					z = int64(c.intn(int(2*k+1))) - k
				}
				nv = numVal{v: z, coq: gInt(false, z), kind: "int64", numeric: true, jsonOK: true}
			}
			m["n"] = nv.v
			tr.vals["n"] = nv
			if lo, hi, ok := bs.ConvertToMinMaxInt64(nv.v); ok {
				near["n"] = append(near["n"], lo, hi)
			}
		} else if c.chance(pn) {
			nv := c.genNum()
			for !nv.jsonOK {
				nv = c.genNum()
			}
			m["n"] = nv.v
			tr.vals["n"] = nv
			if lo, hi, ok := bs.ConvertToMinMaxInt64(nv.v); ok {
				near["n"] = append(near["n"], lo, hi)
			}
		}
		if inertKey {
			switch c.intn(4) {
			case 0:
				m["m0"] = "timeout"
			case 1:
				m["m0"] = c.chance(0.5)
			case 2:
				m["m0"] = nil
			}
		}
		rows[i] = &e2eRow{id: i, tr: tr}
	}
	for i := 0; i < len(rows); {
		n := 1 + c.intn(6)
		if copyHeavy {
			n = 3 * (1 + c.intn(2))
		}
		if rangeMerge {
			n = rmSizes[rmBatch[i]]
		}
		if i+n > len(rows) {
			n = len(rows) - i
		}
		batch := make([]map[string]any, n)
		for j := 0; j < n; j++ {
			batch[j] = rows[i+j].tr.row
		}
		must(eng.IngestRows(ctx, batch, make(chan error, 1)))
		i += n
		if c.chance(0.3) || copyHeavy || rangeMerge {
			must(eng.Flush(ctx))
		}
	}
	must(eng.Flush(ctx))
	merged := false
	if c.chance(0.45) || copyHeavy || rangeMerge {
		if _, err := eng.Merge(ctx); err != nil {
			c.violation("e2e-merge-error", "Merge failed on healthy stores: "+err.Error(), nil)
		} else {
			merged = true
		}
	}
	// an external writer using the public format helpers: row data blocks without filter sections,
	// footer through WriteFileFooter with absent file-level filters (absent filters cannot disqualify)
	external := false
	if !useFS && c.chance(0.45) {
		external = true
		nExt := 2 + c.intn(6)
		byPart := map[string][]*e2eRow{}
		for i := 0; i < nExt; i++ {
			m := c.genRow()
			id := len(rows)
			m["_id"] = id
			tr := &typedRow{id: id, row: m, vals: map[string]numVal{}}
			delete(m, "p")
			delete(m, "n")
			if usePartition {
				tr.partition = parts[c.intn(len(parts))]
				m["p"] = tr.partition
			}
			if c.chance(0.7) {
				nv := c.genNum()
				for !nv.jsonOK {
					nv = c.genNum()
				}
				m["n"] = nv.v
				tr.vals["n"] = nv
			}
			r := &e2eRow{id: id, tr: tr}
			rows = append(rows, r)
			byPart[tr.partition] = append(byPart[tr.partition], r)
		}
		mem := data.(*memDataStore)
		w, ptr, err := mem.CreateFile(ctx)
		must(err)
		fm := bs.FileMetadata{BloomFalsePositiveRate: cfg.BloomFalsePositiveRate}
		off := 0
		for _, part := range sortedKeys(byPart) {
			var buf []byte
			mm := map[string]bs.MinMaxIndex{}
			for _, r := range byPart[part] {
				rb, err := json.Marshal(r.tr.row)
				must(err)
				buf = append(buf, byte(len(rb)), byte(len(rb)>>8), byte(len(rb)>>16), byte(len(rb)>>24))
				buf = append(buf, rb...)
				if v, ok := r.tr.row["n"]; ok {
					if lo, hi, isNum := bs.ConvertToMinMaxInt64(v); isNum {
						if idx, has := mm["n"]; has {
							mm["n"] = bs.UpdateMinMaxIndex(idx, lo, hi)
						} else {
							mm["n"] = bs.MinMaxIndex{Min: lo, Max: hi}
						}
					}
				}
			}
			_, err := w.Write(buf)
			must(err)
			fm.DataBlocks = append(fm.DataBlocks, bs.DataBlockMetadata{RowDataOffset: off, RowDataSize: len(buf), Rows: len(byPart[part]),
				MinMaxIndexes: mm, PartitionID: part, Compression: bs.CompressionNone, UncompressedSize: len(buf)})
			off += len(buf)
		}
		fm.BlockFilterRegionOffset, fm.BlockFilterRegionSize = off, 0
		// half of the external files with several blocks carry a block filter section for every block but the
		// last one (legal: BloomFilterSize == 0 means "no section", such a block cannot be ruled out by filters,
		// the others still can)
		if len(fm.DataBlocks) >= 2 && c.chance(0.6) {
			var region []byte
			parts := sortedKeys(byPart)
			for bi := 0; bi < len(fm.DataBlocks)-1; bi++ {
				fs, ts, fts := map[string]bool{}, map[string]bool{}, map[string]bool{}
				for _, r := range byPart[parts[bi]] {
					rb, _ := json.Marshal(r.tr.row)
					a, b, cc := bs.VerifIndexRow(rb, tk.fn)
					for _, e := range a {
						fs[e] = true
					}
					for _, e := range b {
						ts[e] = true
					}
					for _, e := range cc {
						fts[e] = true
					}
				}
				mkf := func(set map[string]bool) *bloom.BloomFilter {
					f := bloom.NewWithEstimates(uint(len(set)+1), cfg.BloomFalsePositiveRate)
					for e := range set {
						f.AddString(e)
					}
					return f
				}
				sec, err := bs.VerifEncodeFilterSection(&bs.BloomFilters{FieldBloomFilter: mkf(fs), TokenBloomFilter: mkf(ts), FieldTokenBloomFilter: mkf(fts)})
				must(err)
				fm.DataBlocks[bi].BloomFilterOffset = off + len(region)
				fm.DataBlocks[bi].BloomFilterSize = len(sec)
				region = append(region, sec...)
			}
			_, err := w.Write(region)
			must(err)
			fm.BlockFilterRegionSize = len(region)
			c.dist("e2e_external_block_sections", "all but the last block")
		} else {
			c.dist("e2e_external_block_sections", "none")
		}
		// file-level filters are public fields: an external writer may provide any subset of them
		{
			fs, ts, fts := map[string]bool{}, map[string]bool{}, map[string]bool{}
			for _, part := range sortedKeys(byPart) {
				for _, r := range byPart[part] {
					rb, _ := json.Marshal(r.tr.row)
					a, b, cc := bs.VerifIndexRow(rb, tk.fn)
					for _, e := range a {
						fs[e] = true
					}
					for _, e := range b {
						ts[e] = true
					}
					for _, e := range cc {
						fts[e] = true
					}
				}
			}
			mk := func(set map[string]bool) *bloom.BloomFilter {
				f := bloom.NewWithEstimates(uint(len(set)+1), cfg.BloomFalsePositiveRate)
				for e := range set {
					f.AddString(e)
				}
				return f
			}
			if c.chance(0.5) {
				fm.BloomFilters.FieldBloomFilter = mk(fs)
			}
			if c.chance(0.5) {
				fm.BloomFilters.TokenBloomFilter = mk(ts)
			}
			if c.chance(0.5) {
				fm.BloomFilters.FieldTokenBloomFilter = mk(fts)
			}
			c.dist("e2e_external_filters", fmt.Sprintf("field=%v token=%v ft=%v", fm.BloomFilters.FieldBloomFilter != nil, fm.BloomFilters.TokenBloomFilter != nil, fm.BloomFilters.FieldTokenBloomFilter != nil))
		}
		must(bs.WriteFileFooter(w, &fm))
		must(w.Close())
		fmReg := &fm
		partial := fm.BloomFilters.FieldBloomFilter == nil || fm.BloomFilters.TokenBloomFilter == nil || fm.BloomFilters.FieldTokenBloomFilter == nil
		if partial || c.chance(0.5) {
			// a MetaStore that registers what the file itself says (as FileSystemDataStore does): the metadata
			// and the file-level filters go through the footer codec, partial filter sets included
			h, err := mem.OpenFile(ctx, ptr)
			must(err)
			parsed, _, err := bs.ReadFileMetadata(h)
			h.Close()
			if err != nil {
				c.violation("e2e-footer-unreadable", "ReadFileMetadata rejects a file written through WriteFileFooter: "+err.Error(), nil)
			} else {
				fmReg = parsed
			}
			c.dist("e2e_external_registered", "parsed-footer")
		} else {
			c.dist("e2e_external_registered", "writer-metadata")
		}
		must(meta.Update(ctx, []bs.WriteOperation{{FileMetadata: fmReg, FilePointerBytes: ptr}}, nil))
		if c.chance(0.5) { // the engine merges externally written files too
			if _, err := eng.Merge(ctx); err != nil {
				c.violation("e2e-merge-error", "Merge failed over an externally written file: "+err.Error(), nil)
			} else {
				merged = true
			}
		}
	}
	c.dist("e2e_external_file", fmt.Sprint(external))
	prof := "random"
	if copyHeavy {
		prof = "copy-heavy"
	} else if nested {
		prof = "range-merge-nested"
	} else if rangeMerge {
		prof = "range-merge"
	}
	c.dist("e2e_profile", prof)
	c.dist("e2e_scenario", fmt.Sprintf("fs=%v merged=%v partition=%v tok=%s comp=%s fpr=%v", useFS, merged, usePartition, tk.name, cfg.RowDataCompression, cfg.BloomFalsePositiveRate))

	// observe the layout through the public helpers
	type obsBlock struct {
		meta    bs.DataBlockMetadata
		filters *bs.BloomFilters
		rows    []*e2eRow
	}
	type obsFile struct {
		pointer string
		meta    bs.FileMetadata
		filters bs.BloomFilters
		blocks  []*obsBlock
	}
	var files []*obsFile
	allTexts := map[string]bool{}
	for f, err := range meta.GetMaybeFilesForQuery(ctx, nil) {
		must(err)
		of := &obsFile{pointer: string(f.PointerBytes), meta: f.Metadata, filters: f.Metadata.BloomFilters}
		for _, bm := range f.Metadata.DataBlocks {
			h, err := data.OpenFile(ctx, f.PointerBytes)
			must(err)
			rd, err := bs.ReadDataBlockRowData(h, &bm)
			must(err)
			bf, err := bs.ReadDataBlockBloomFilters(h, bm)
			must(err)
			h.Close()
			ob := &obsBlock{meta: bm, filters: bf}
			sc := bs.NewBlockRowScanner(rd)
			for {
				rb, ok, err := sc.Next()
				must(err)
				if !ok {
					break
				}
				tree, err := parseJSON(rb)
				must(err)
				id := -1
				for i, k := range tree.keys {
					if string(k) == "_id" {
						id, _ = strconv.Atoi(string(tree.vals[i].s))
					}
				}
				r := rows[id]
				r.bytes, r.tree = append([]byte(nil), rb...), tree
				tree.leafTexts(allTexts)
				ob.rows = append(ob.rows, r)
			}
			of.blocks = append(of.blocks, ob)
		}
		files = append(files, of)
	}
	stored := 0
	// C18 (bloom part), directly on the real filters: every entry ingest indexing records for a
	// row tests true on its block's filters and on its file's filters
	for _, of := range files {
		for _, ob := range of.blocks {
			stored += len(ob.rows)
			for _, r := range ob.rows {
				fs, ts, fts := bs.VerifIndexRow(r.bytes, tk.fn)
				chk := func(level string, f *bs.BloomFilters) {
					for _, e := range fs {
						if f.FieldBloomFilter != nil && !f.FieldBloomFilter.TestString(e) {
							c.violation("c18-bloom-cover", fmt.Sprintf("%s field filter lacks %q of row %s", level, e, r.bytes), nil)
						}
					}
					for _, e := range ts {
						if f.TokenBloomFilter != nil && !f.TokenBloomFilter.TestString(e) {
							c.violation("c18-bloom-cover", fmt.Sprintf("%s token filter lacks %q of row %s", level, e, r.bytes), nil)
						}
					}
					for _, e := range fts {
						if f.FieldTokenBloomFilter != nil && !f.FieldTokenBloomFilter.TestString(e) {
							c.violation("c18-bloom-cover", fmt.Sprintf("%s field:token filter lacks %q of row %s", level, e, r.bytes), nil)
						}
					}
				}
				chk("block", ob.filters)
				chk("file", &of.filters)
				c.count([]string{"C18"}, "cover:"+string(r.bytes), len(ts) > 0, nil)
			}
		}
	}
	// C18 (metadata part), directly: partition id, exact minmax key set, range coverage
	for _, of := range files {
		for _, ob := range of.blocks {
			provided := map[string]bool{}
			for _, r := range ob.rows {
				if cfg.PartitionFunc != nil && cfg.PartitionFunc(r.tr.row) != ob.meta.PartitionID {
					c.violation("c18-partition", fmt.Sprintf("block partition %q holds row of partition %q", ob.meta.PartitionID, cfg.PartitionFunc(r.tr.row)), nil)
				}
				for _, k := range cfg.MinMaxIndexes {
					v, ok := r.tr.row[k]
					if !ok {
						continue
					}
					lo, hi, isNum := bs.ConvertToMinMaxInt64(v)
					if !isNum {
						continue
					}
					provided[k] = true
					idx, has := ob.meta.MinMaxIndexes[k]
					if !has || idx.Min > lo || idx.Max < hi {
						c.violation("c18-minmax-cover", fmt.Sprintf("block range %v (present=%v) does not cover [%d,%d] of key %q", idx, has, lo, hi, k), nil)
					}
				}
			}
			for k := range ob.meta.MinMaxIndexes {
				if !provided[k] {
					c.violation("c18-minmax-keys", fmt.Sprintf("block lists minmax key %q that none of its rows provides", k), nil)
				}
			}
			c.count([]string{"C18"}, fmt.Sprintf("meta:%v:%v", ob.meta.MinMaxIndexes, ob.meta.PartitionID), len(ob.meta.MinMaxIndexes) > 0, nil)
		}
	}
	{
		nb, maxRows := 0, 0
		for _, of := range files {
			nb += len(of.blocks)
			for _, ob := range of.blocks {
				if len(ob.rows) > maxRows {
					maxRows = len(ob.rows)
				}
			}
		}
		c.dist("e2e_layout", fmt.Sprintf("%s files=%d blocks=%d largest_block_rows=%d of %d", prof, len(files), nb, maxRows, len(rows)))
	}
	if stored != len(rows) {
		c.violation("e2e-row-count", fmt.Sprintf("stored %d rows, ingested and acknowledged %d", stored, len(rows)), nil)
		return
	}

	// C02 strictness, directly: a single condition never holds on a block that lacks the metadata it
	// references, for every operator, through EvaluateDataBlockMetadata, FilterDataBlocks and Query
	if len(c.Props) == 0 || c.Props["C02"] {
		for _, op := range allOps {
			nc := c.genNCond(near["n"])
			nc.Operator = op
			sc := c.genSCond()
			sc.Operator = op
			for _, key := range []string{"n", "zz"} {
				pe := bs.MinMax(key, nc)
				pf := &bs.QueryPrefilter{Expression: &pe}
				lacking := map[int]bool{}
				var metas []bs.DataBlockMetadata
				for _, of := range files {
					for _, ob := range of.blocks {
						metas = append(metas, ob.meta)
						if _, has := ob.meta.MinMaxIndexes[key]; !has {
							if bs.EvaluateDataBlockMetadata(&ob.meta, pf) {
								c.violation("c02-strict-minmax", fmt.Sprintf("block without minmax key %q satisfies %s condition", key, op), map[string]any{"cond": nc})
							}
							for _, r := range ob.rows {
								lacking[r.id] = true
							}
						}
					}
				}
				for _, kept := range bs.FilterDataBlocks(metas, pf) {
					if _, has := kept.MinMaxIndexes[key]; !has {
						c.violation("c02-strict-minmax", fmt.Sprintf("FilterDataBlocks keeps a block without key %q for %s", key, op), nil)
					}
				}
				if key == "zz" || c.chance(0.3) {
					res, err := eng.Query(ctx, &bs.Query{Prefilter: pf})
					must(err)
					for res.Next() {
						if id, ok := res.Row()["_id"].(float64); ok && lacking[int(id)] {
							c.violation("c02-strict-minmax", fmt.Sprintf("Query with %s on key %q returned row %d from a block that lacks the key", op, key, int(id)), map[string]any{"cond": nc})
							break
						}
					}
					res.Close()
				}
				c.count([]string{"C02"}, fmt.Sprintf("strict:%s:%s:%v:%d", op, key, nc, scen), true, nil)
			}
			pe := bs.Partition(sc)
			pf := &bs.QueryPrefilter{Expression: &pe}
			for _, of := range files {
				for _, ob := range of.blocks {
					if ob.meta.PartitionID == "" && bs.EvaluateDataBlockMetadata(&ob.meta, pf) {
						c.violation("c02-strict-partition", fmt.Sprintf("block without partition id satisfies %s partition condition", op), map[string]any{"cond": sc})
					}
				}
			}
		}
	}

	// C01, directly: a stored row whose own indexed value satisfies a minmax condition is returned by a
	// query carrying that condition (after flushes and merges the block's range must still cover it)
	if len(c.Props) == 0 || c.Props["C01"] || c.Props["C04"] {
		probes := 0
		for _, r := range rows {
			v, ok := r.tr.row["n"]
			if !ok || probes >= 12 {
				continue
			}
			lo, hi, isNum := bs.ConvertToMinMaxInt64(v)
			if !isNum {
				continue
			}
			probes++
			for _, nc := range []bs.NumericCondition{bs.NumericBetween(lo, hi), bs.NumericGreaterThanEqual(lo), bs.NumericLessThanEqual(hi)} {
				pe := bs.MinMax("n", nc)
				res, err := eng.Query(ctx, &bs.Query{Prefilter: &bs.QueryPrefilter{Expression: &pe}})
				must(err)
				found := false
				for res.Next() {
					if id, ok := res.Row()["_id"].(float64); ok && int(id) == r.id {
						found = true
					}
				}
				res.Close()
				if !found {
					c.violation("c01-own-value-prefilter", fmt.Sprintf("row %d holds n=%v (indexed as [%d,%d]) but is not returned by a query with prefilter %s %d..%d", r.id, v, lo, hi, nc.Operator, nc.Min+nc.Value, nc.Max), map[string]any{"merged": merged, "row": fmt.Sprintf("%v", r.tr.row)})
				}
			}
			c.count([]string{"C01"}, fmt.Sprintf("own:%d:%v:%d", scen, v, r.id), true, nil)
		}
	}

	// hit set over a few rows
	h := &hitSet{}
	for i := 0; i < 4 && i < len(rows); i++ {
		r := rows[c.intn(len(rows))]
		hh := hitsOf(bs.VerifWalk(r.bytes), tk.oracle)
		h.paths = append(h.paths, hh.paths...)
		h.tokens = append(h.tokens, hh.tokens...)
		h.pairs = append(h.pairs, hh.pairs...)
	}
	nQ := c.pick(5, 10)
	for qi := 0; qi < nQ; qi++ {
		q := &bs.Query{}
		hasB, hasR, hasP := c.chance(0.8), c.chance(0.4), c.chance(0.4)
		if hasB {
			e := c.genBExpr(2, h)
			q.Bloom = &bs.BloomQuery{Expression: &e}
		}
		if hasR {
			e := c.genRExpr(2, h)
			for !regexAcceptable(&e) {
				e = c.genRExpr(2, h)
			}
			q.Regex = &bs.RegexQuery{Expression: &e}
		}
		pcoq := "None"
		if hasP {
			e, ecoq := c.genPExpr(2, []string{"n", "n", "zz"}, near) // "zz" is never indexed: strictness
			// a strict comparison just beyond the exact bound of a block whose range is saturated on the
			// other side only: such a block must still be pruned
			if c.chance(0.35) {
				var cands []bs.NumericCondition
				for _, of := range files {
					for _, ob := range of.blocks {
						idx, has := ob.meta.MinMaxIndexes["n"]
						if !has {
							continue
						}
						if idx.Min == math.MinInt64 && idx.Max < math.MaxInt64-2 {
							cands = append(cands, bs.NumericGreaterThan(idx.Max+int64(c.intn(2))), bs.NumericNotBetween(math.MinInt64, idx.Max))
						}
						if idx.Max == math.MaxInt64 && idx.Min > math.MinInt64+2 {
							cands = append(cands, bs.NumericLessThan(idx.Min-int64(c.intn(2))), bs.NumericNotBetween(idx.Min, math.MaxInt64))
						}
					}
				}
				if len(cands) > 0 {
					e = bs.MinMax("n", cands[c.intn(len(cands))])
					ecoq = coqPExprOf(&e)
					c.dist("pexpr_nodes", "one-sided-saturation-probe")
				}
			}
			q.Prefilter = &bs.QueryPrefilter{Expression: &e}
			pcoq = "(Some " + ecoq + ")"
		}
		logStart := 0
		mem, isMem := data.(*memDataStore)
		if isMem {
			mem.mu.Lock()
			logStart = len(mem.calls)
			mem.mu.Unlock()
		}
		res, err := eng.Query(ctx, q)
		if err != nil {
			c.violation("e2e-query-rejected", "Query rejected an acceptable query: "+err.Error(), nil)
			continue
		}
		var got []int
		for res.Next() {
			idf, ok := res.Row()["_id"].(float64)
			if !ok {
				c.violation("e2e-row-shape", fmt.Sprintf("returned row without _id: %v", res.Row()), nil)
				continue
			}
			got = append(got, int(idf))
		}
		if err := res.Err(); err != nil {
			c.violation("e2e-query-error", "query failed on healthy stores: "+err.Error(), nil)
		}
		res.Close()
		sort.Ints(got)

		// oracle tables
		fields, tokens, fts := map[string]bool{}, map[string]bool{}, map[string]bool{}
		if pqr := bs.VerifPruneQuery(q); pqr != nil {
			bloomEntries(pqr.Expression, fields, tokens, fts)
		}
		if qi == 0 { // coverage of the rows' own entries, once per scenario
			for _, r := range rows {
				fs, ts, ftsr := bs.VerifIndexRow(r.bytes, tk.fn)
				for _, e := range fs {
					fields[e] = true
				}
				for _, e := range ts {
					tokens[e] = true
				}
				for _, e := range ftsr {
					fts[e] = true
				}
			}
		}
		pats := map[string]bool{}
		if q.Regex != nil && q.Regex.Expression != nil {
			regexPatterns(q.Regex.Expression, pats)
		}
		var fcoq []string
		for _, of := range files {
			var bcoq []string
			for _, ob := range of.blocks {
				var rcoq []string
				for _, r := range ob.rows {
					rcoq = append(rcoq, fmt.Sprintf("{| sr_id := %d; sr_json := %s; sr_pre := %s |}", r.id, r.tree.coq(), r.tr.coq([]string{"n"})))
				}
				bcoq = append(bcoq, fmt.Sprintf("{| cb_meta := %s; cb_filters := %s; cb_section := %s; cb_rows := %s |}", coqBlockMeta(&ob.meta), coqFtab(ob.filters, fields, tokens, fts), coqBool(ob.meta.BloomFilterSize > 0), coqList(rcoq)))
			}
			fcoq = append(fcoq, fmt.Sprintf("{| cf_filters := %s; cf_blocks := %s |}", coqFtab(&of.filters, fields, tokens, fts), coqList(bcoq)))
		}
		gotc := make([]string, len(got))
		for i, g := range got {
			gotc[i] = strconv.Itoa(g)
		}
		reads := "None"
		if isMem {
			mem.mu.Lock()
			calls := append([]storeCall(nil), mem.calls[logStart:]...)
			mem.mu.Unlock()
			fidx := map[string]int{}
			for i, of := range files {
				fidx[of.pointer] = i
			}
			opened, region := map[int]bool{}, map[int]bool{}
			rowsRead := map[[2]int]bool{}
			for _, cl := range calls {
				fi, ok := fidx[cl.Pointer]
				if !ok {
					continue
				}
				of := files[fi]
				switch cl.Kind {
				case "OpenFile":
					opened[fi] = true
				case "Read":
					if cl.Len == 0 {
						continue
					}
					lo, hi := cl.Off, cl.Off+int64(cl.Len)
					matched := false
					for bi, ob := range of.blocks {
						if lo == int64(ob.meta.RowDataOffset) && hi == int64(ob.meta.RowDataOffset+ob.meta.RowDataSize) {
							rowsRead[[2]int{fi, bi}] = true
							matched = true
						}
					}
					rs, re := int64(of.meta.BlockFilterRegionOffset), int64(of.meta.BlockFilterRegionOffset+of.meta.BlockFilterRegionSize)
					if !matched && lo >= rs && hi <= re {
						region[fi] = true
						matched = true
					}
					if !matched {
						c.violation("c24-extent", fmt.Sprintf("query read [%d,%d) of %s: neither a block's declared row-data extent nor inside the block filter region [%d,%d)", lo, hi, cl.Pointer, rs, re), nil)
					}
				}
			}
			var oc, rc, gc []string
			for i := range files {
				if opened[i] {
					oc = append(oc, strconv.Itoa(i))
				}
				if region[i] {
					gc = append(gc, strconv.Itoa(i))
				}
				for bi := range files[i].blocks {
					if rowsRead[[2]int{i, bi}] {
						rc = append(rc, fmt.Sprintf("(%d, %d)", i, bi))
					}
				}
			}
			reads = fmt.Sprintf("(Some {| ro_opened := %s; ro_rows := %s; ro_region := %s |})", coqList(oc), coqList(rc), coqList(gc))
			c.dist("e2e_reads", fmt.Sprintf("opened=%s region=%s rows=%s", rsBucket(len(oc), len(files)), rsBucket(len(gc), len(files)), rsBucket(len(rc), stored/1+0)))
		}
		term := fmt.Sprintf("CQuery %s %s %s {| q_pre := %s; q_bloom := %s; q_regex := %s |} %s %s", coqTokTab(allTexts, tk.oracle), coqReTab(allTexts, pats),
			coqList(fcoq), pcoq, coqBQuery(q.Bloom), coqRQuery(q.Regex), coqList(gotc), reads)
		desc := map[string]any{"kind": "query", "scenario": scen, "rows": len(rows), "files": len(files), "fs_metastore": useFS, "merged": merged,
			"tokenizer": tk.name, "bloom": q.Bloom, "regex": q.Regex, "prefilter": q.Prefilter, "returned_ids": got}
		sh.add(c, term, desc)
		nontrivial := (hasB || hasR || hasP) && len(got) > 0 && len(got) < len(rows)
		c.dist("e2e_result", fmt.Sprintf("returned=%s", rsBucket(len(got), len(rows))))
		c.count([]string{"C01", "C02", "C18"}, term, nontrivial, desc)
		if isMem {
			c.count([]string{"C24"}, "c24:"+term, hasB || hasR || hasP, desc)
		}
	}
	_ = strings.Join
}

func rsBucket(n, total int) string {
	switch {
	case n == 0:
		return "none"
	case n == total:
		return "all"
	default:
		return "some"
	}
}

// rsPad returns n hardly compressible hex characters that depend on i.
func rsPad(i, n int) string {
	var sb strings.Builder
	for x := uint64(i + 1); sb.Len() < n; x++ {
		fmt.Fprintf(&sb, "%x", x*0x9E3779B97F4A7C15)
	}
	return sb.String()[:n]
}

// rsemSlowConsumer: one block with many matching rows (more batches than the cursor buffers) and a consumer
// that pauses in the middle of the iteration, at several points. Whatever the hand-off between the block worker
// and the cursor does with its batch slices, every stored matching row comes back exactly once, unchanged.
func rsemSlowConsumer(c *Ctx, scen int) {
	ctx := context.Background()
	cfg := bs.DefaultBloomSearchEngineConfig()
	cfg.MaxRowGroupRows = 1 << 20
	cfg.MaxBufferedRows = 1 << 20
	cfg.MaxBufferedTime = time.Hour
	cfg.RowDataCompression = []bs.CompressionType{bs.CompressionNone, bs.CompressionSnappy}[c.intn(2)]
	cfg.MaxQueryConcurrency = 1 + c.intn(3)
	eng, err := bs.NewBloomSearchEngine(cfg, bs.NewMemoryMetaStore(), newMemDataStore())
	must(err)
	eng.Start()
	defer func() {
		sctx, cancel := context.WithTimeout(ctx, 60*time.Second)
		eng.Stop(sctx)
		cancel()
	}()
	n := 450 + c.intn(700)
	rows := make([]map[string]any, n)
	for i := range rows {
		rows[i] = map[string]any{"_id": i, "kind": "hit", "pad": rsPad(i, 6+c.intn(20))}
	}
	must(eng.IngestRows(ctx, rows, nil))
	must(eng.Flush(ctx))
	q := bs.NewQuery().Build()
	if scen%2 == 1 {
		q = bs.NewQuery().Token("hit").Build()
	}
	res, err := eng.Query(ctx, q)
	must(err)
	pauses := map[int]bool{1: true, 64 + c.intn(64): true, 200 + c.intn(100): true}
	got := map[int]int{}
	wrong := 0
	k := 0
	for res.Next() {
		r := res.Row()
		id, ok := r["_id"].(float64)
		if !ok {
			wrong++
		} else {
			got[int(id)]++
			if want, _ := rows[int(id)]["pad"].(string); r["pad"] != want || r["kind"] != "hit" {
				wrong++
			}
		}
		k++
		if pauses[k] {
			time.Sleep(time.Duration(120+c.intn(120)) * time.Millisecond)
		}
	}
	qerr := res.Err()
	res.Close()
	desc := map[string]any{"kind": "slow-consumer", "rows_in_block": n, "max_query_concurrency": cfg.MaxQueryConcurrency, "compression": string(cfg.RowDataCompression)}
	var dup, missing []int
	for i := 0; i < n; i++ {
		switch {
		case got[i] == 0:
			missing = append(missing, i)
		case got[i] > 1:
			dup = append(dup, i)
		}
	}
	c.count([]string{"C02", "C01"}, fmt.Sprintf("slow-consumer-%d-%d", scen, n), true, desc)
	c.dist("e2e_slow_consumer", fmt.Sprintf("rows>=%d00", n/100))
	if qerr != nil {
		c.violation("c02-slow-consumer", "query over healthy stores with a pausing consumer ended with an error: "+qerr.Error(), desc)
		return
	}
	if len(dup) > 0 || len(missing) > 0 || wrong > 0 {
		if len(dup) > 8 {
			dup = dup[:8]
		}
		if len(missing) > 8 {
			missing = missing[:8]
		}
		c.violation("c02-slow-consumer", fmt.Sprintf("one block of %d matching rows, consumer pausing mid-iteration: rows returned more than once %v..., never returned %v..., rows with foreign content %d", n, dup, missing, wrong), desc)
	}
}
