package main

// Caller contexts that are not standard-library types (family Q). A query derives its internal
// context from the caller's with context.WithCancel; for a stdlib parent the child is cancelled
// inside the parent's cancel call, for any other Context the cancellation reaches the child later:
// through the parent's AfterFunc method when it has one, through a watcher goroutine otherwise.
// In between the caller's context is done and the query's internal context is not.

import (
	"context"
	"errors"
	"sync"
	"time"
)

// qLateCtx is done as soon as cancel is called. Callbacks registered through AfterFunc (the hook
// context.WithCancel uses to propagate to children) run only when propagate is called: the harness
// decides how late the cancellation reaches the derived contexts.
type qLateCtx struct {
	mu    sync.Mutex
	done  chan struct{}
	err   error
	cbs   []*qLateCb
	fired bool // propagate ran: later registrations run at once
}

type qLateCb struct {
	f       func()
	stopped bool
	ran     bool
}

func newQLateCtx() *qLateCtx { return &qLateCtx{done: make(chan struct{})} }

func (c *qLateCtx) Deadline() (time.Time, bool) { return time.Time{}, false }
func (c *qLateCtx) Done() <-chan struct{}       { return c.done }
func (c *qLateCtx) Value(key any) any           { return nil }

func (c *qLateCtx) Err() error {
	c.mu.Lock()
	defer c.mu.Unlock()
	return c.err
}

// AfterFunc is the method context.WithCancel looks for on a parent that is not a stdlib context.
func (c *qLateCtx) AfterFunc(f func()) (stop func() bool) {
	cb := &qLateCb{f: f}
	c.mu.Lock()
	if c.fired {
		cb.ran = true
		c.mu.Unlock()
		go f()
		return func() bool { return false }
	}
	c.cbs = append(c.cbs, cb)
	c.mu.Unlock()
	return func() bool {
		c.mu.Lock()
		defer c.mu.Unlock()
		if cb.ran || cb.stopped {
			return false
		}
		cb.stopped = true
		return true
	}
}

func (c *qLateCtx) cancel() {
	c.mu.Lock()
	if c.err == nil {
		c.err = context.Canceled
		close(c.done)
	}
	c.mu.Unlock()
}

// propagate lets the cancellation reach the derived contexts (idempotent; a no-op before cancel).
func (c *qLateCtx) propagate() {
	c.mu.Lock()
	if c.err == nil || c.fired {
		c.mu.Unlock()
		return
	}
	c.fired = true
	var run []func()
	for _, cb := range c.cbs {
		if !cb.stopped && !cb.ran {
			cb.ran = true
			run = append(run, cb.f)
		}
	}
	c.mu.Unlock()
	for _, f := range run {
		f()
	}
}

// qPlainCtx has no AfterFunc method: context.WithCancel starts a goroutine that waits for Done and then
// cancels the child, so propagation lags by a goroutine wake-up.
type qPlainCtx struct{ in *qLateCtx }

func (c qPlainCtx) Deadline() (time.Time, bool) { return time.Time{}, false }
func (c qPlainCtx) Done() <-chan struct{}       { return c.in.done }
func (c qPlainCtx) Value(key any) any           { return nil }
func (c qPlainCtx) Err() error                  { return c.in.Err() }

// newQCallerCtx builds a caller context of one of four kinds:
//
//	std    context.WithCancel(Background): the derived context is cancelled inside cancel()
//	watch  non-stdlib, no AfterFunc: a watcher goroutine propagates
//	gated  non-stdlib with AfterFunc: propagates when propagate() is called
//	cause  context.WithCancelCause(Background), cancelled with a cause that is not a context error
//
// propagate is a no-op for the first two.
func newQCallerCtx(kind string) (ctx context.Context, cancel func(), propagate func()) {
	switch kind {
	case "watch":
		in := newQLateCtx()
		return qPlainCtx{in}, in.cancel, func() {}
	case "gated":
		in := newQLateCtx()
		return in, in.cancel, in.propagate
	}
	if kind == "cause" {
		// a stdlib context cancelled with a cause of the caller's own: Err() is still context.Canceled
		c, cf := context.WithCancelCause(context.Background())
		return c, func() { cf(errQCallerCause) }, func() {}
	}
	c, cf := context.WithCancel(context.Background())
	return c, cf, func() {}
}

var errQCallerCause = errors.New("caller gave up: tenant quota exceeded")
