package main

// Family G (merge) shared pieces: populations written by several engines with
// different configurations over the same stores, snapshots of what the
// MetaStore references (with every row read back), a logging / fault
// injecting MetaStore wrapper, and the Coq printers for Model/MergePlan.v.

import (
	"bytes"
	"context"
	"encoding/json"
	"fmt"
	"io"
	"iter"
	"path/filepath"
	"sort"
	"strconv"
	"strings"
	"sync"
	"time"

	bs "github.com/danthegoodman1/bloomsearch"
)

// ---------------------------------------------------------------- rows

type gRow struct {
	tag  int
	part string
	row  map[string]any
	vals map[string][2]int64 // minmax contributions for the keys the writing engine indexed
	size int                 // len(json.Marshal(row)), set at snapshot time
}

var gWords = []string{"alpha", "beta", "gamma", "delta", "omega"}
var gParts = []string{"pa", "pb", "", "pé", "p\x00x", strings.Repeat("L", 131)}

func gPartitionFunc(row map[string]any) string {
	p, _ := row["p"].(string)
	return p
}

type gWriterCfg struct {
	keys        []string
	compression bs.CompressionType
	fpr         float64
}

func (c *Ctx) gGenWriterCfg() gWriterCfg {
	keySets := [][]string{{"n", "m"}, {"n"}, {"m"}, {}, {"n", "m"}, {"n", "m", strings.Repeat("K", 140)}}
	return gWriterCfg{
		keys:        keySets[c.intn(len(keySets))],
		compression: []bs.CompressionType{bs.CompressionNone, bs.CompressionSnappy, bs.CompressionZstd}[c.intn(3)],
		fpr:         []float64{0.001, 0.01, 0.1, 0.3}[c.intn(4)],
	}
}

// gScenarioTokenizer, when set, is the tokenizer of every engine of the current scenario (writers,
// merger, queries). strings.Fields returns substrings of its input (views into whatever buffer the
// row bytes live in) and tokenizes this family's lower-case ASCII words exactly like the default.
var gScenarioTokenizer bs.ValueTokenizerFunc

func (w gWriterCfg) engineConfig() bs.BloomSearchEngineConfig {
	cfg := bs.DefaultBloomSearchEngineConfig()
	if gScenarioTokenizer != nil {
		cfg.Tokenizer = gScenarioTokenizer
	}
	cfg.MinMaxIndexes = w.keys
	cfg.PartitionFunc = gPartitionFunc
	cfg.RowDataCompression = w.compression
	cfg.BloomFalsePositiveRate = w.fpr
	cfg.MaxRowGroupRows = 1 << 20
	cfg.MaxRowGroupBytes = 1 << 30
	cfg.MaxBufferedRows = 1 << 20
	cfg.MaxBufferedBytes = 1 << 30
	cfg.MaxBufferedTime = time.Hour
	return cfg
}

// gGenRow draws one row; nParts bounds the partitions in play.
func (c *Ctx) gGenRow(tag int, nParts int, w gWriterCfg) *gRow {
	r := &gRow{tag: tag, row: map[string]any{"tag": tag}, vals: map[string][2]int64{}}
	r.part = gParts[c.intn(nParts)]
	r.row["p"] = r.part
	r.row["u"] = fmt.Sprintf("u%d", tag)
	r.row["k"] = fmt.Sprintf("k%d", c.intn(4))
	r.row["w"] = gWords[c.intn(len(gWords))] + " " + gWords[c.intn(len(gWords))]
	longKey := strings.Repeat("K", 140)
	for _, k := range []string{"n", "m", longKey} {
		if c.chance(0.3) {
			continue
		}
		var v any
		switch c.intn(6) {
		case 0:
			v = float64(c.intn(2000)-1000) / 4
		case 1:
			v = int64(c.intn(40) - 20)
		default:
			v = c.intn(200) - 100
		}
		if k == longKey && !c.chance(0.3) {
			continue
		}
		r.row[k] = v
	}
	for _, k := range w.keys {
		if v, ok := r.row[k]; ok {
			if lo, hi, ok := bs.ConvertToMinMaxInt64(v); ok {
				r.vals[k] = [2]int64{lo, hi}
			}
		}
	}
	return r
}

// ---------------------------------------------------------------- population

type gPop struct {
	rows    map[int]*gRow
	nextTag int
	nParts  int
}

func gNewPop(c *Ctx) *gPop {
	n := 1 + c.intn(3)
	if c.chance(0.2) {
		n = 4 + c.intn(3)
	}
	return &gPop{rows: map[int]*gRow{}, nParts: n}
}

// writeFiles runs one writer engine over the stores: nFiles flushes, each with
// 1..maxRows rows spread over the partitions in play (one block per partition
// per file). bigChance makes a flush much larger than the rest (oversized blocks).
func (p *gPop) writeFiles(c *Ctx, meta bs.MetaStore, store bs.DataStore, w gWriterCfg, nFiles, maxRows int, bigChance float64) {
	ctx := context.Background()
	eng, err := bs.NewBloomSearchEngine(w.engineConfig(), meta, store)
	must(err)
	eng.Start()
	for f := 0; f < nFiles; f++ {
		n := 1 + c.intn(maxRows)
		if c.chance(bigChance) {
			n = maxRows*2 + c.intn(maxRows*2)
		}
		nParts := p.nParts
		if c.chance(0.4) {
			nParts = 1 + c.intn(p.nParts)
		}
		batch := make([]map[string]any, 0, n)
		for i := 0; i < n; i++ {
			r := c.gGenRow(p.nextTag, nParts, w)
			p.nextTag++
			p.rows[r.tag] = r
			batch = append(batch, r.row)
		}
		done := make(chan error, 1)
		must(eng.IngestRows(ctx, batch, done))
		must(eng.Flush(ctx))
		must(<-done)
		c.dist("g_writer", fmt.Sprintf("comp=%s fpr=%g keys=%d", w.compression, w.fpr, len(w.keys)))
	}
	sctx, cancel := context.WithTimeout(ctx, 20*time.Second)
	must(eng.Stop(sctx))
	cancel()
}

// ---------------------------------------------------------------- snapshots

type gBlock struct {
	id      int
	file    *gFile
	idx     int
	meta    bs.DataBlockMetadata
	tags    []int
	rows    [][]byte
	dataLen int
}

type gFile struct {
	ptr    string
	z      int64
	meta   bs.FileMetadata
	blocks []*gBlock
}

func (f *gFile) totalSize() int {
	t := 0
	for _, b := range f.blocks {
		t += b.meta.OnDiskSize()
	}
	return t
}

type gSnap struct {
	files    []*gFile // sorted by pointer number
	byPtr    map[string]*gFile
	byBase   map[string]*gFile // by base name: clones of a filesystem store live in different directories
	tagBlock map[int]*gBlock
	blocks   []*gBlock
}

// gPtrTable maps file pointers to integers for the model. memstore pointers
// "mem-N" map to N; filesystem pointers are numbered by base name.
type gPtrTable struct {
	mu   sync.Mutex
	ids  map[string]int64
	next int64
}

func newGPtrTable() *gPtrTable { return &gPtrTable{ids: map[string]int64{}, next: 5000} }

func (t *gPtrTable) z(ptr string) int64 {
	if strings.HasPrefix(ptr, "mem-") {
		n, err := strconv.ParseInt(ptr[4:], 10, 64)
		if err == nil {
			return n
		}
	}
	t.mu.Lock()
	defer t.mu.Unlock()
	key := filepath.Base(ptr)
	if id, ok := t.ids[key]; ok {
		return id
	}
	t.next++
	t.ids[key] = t.next
	return t.next
}

type gOpener func(ptr string) (io.ReadSeeker, func(), error)

func gMemOpener(s *memDataStore) gOpener {
	return func(ptr string) (io.ReadSeeker, func(), error) {
		s.mu.Lock()
		data, ok := s.files[ptr]
		s.mu.Unlock()
		if !ok {
			return nil, nil, fmt.Errorf("snapshot: %s not published", ptr)
		}
		return bytes.NewReader(data), func() {}, nil
	}
}

func gFsOpener(fs *bs.FileSystemDataStore) gOpener {
	return func(ptr string) (io.ReadSeeker, func(), error) {
		h, err := fs.OpenFile(context.Background(), []byte(ptr))
		if err != nil {
			return nil, nil, err
		}
		return h, func() { h.Close() }, nil
	}
}

// snapshot reads everything the MetaStore references: metadata and every row.
// ids number the blocks; firstID lets successive snapshots use disjoint ranges.
func gSnapshot(meta bs.MetaStore, open gOpener, pt *gPtrTable, firstID int) (*gSnap, error) {
	s := &gSnap{byPtr: map[string]*gFile{}, byBase: map[string]*gFile{}, tagBlock: map[int]*gBlock{}}
	ctx := context.Background()
	for mf, err := range meta.GetMaybeFilesForQuery(ctx, nil) {
		if err != nil {
			return nil, err
		}
		f := &gFile{ptr: string(mf.PointerBytes), meta: mf.Metadata}
		f.z = pt.z(f.ptr)
		s.files = append(s.files, f)
		s.byPtr[f.ptr] = f
		s.byBase[filepath.Base(f.ptr)] = f
	}
	sort.Slice(s.files, func(i, j int) bool { return s.files[i].z < s.files[j].z })
	id := firstID
	for _, f := range s.files {
		for i := range f.meta.DataBlocks {
			bm := f.meta.DataBlocks[i]
			b := &gBlock{id: id, file: f, idx: i, meta: bm}
			id++
			h, closeFn, err := open(f.ptr)
			if err != nil {
				return nil, err
			}
			data, err := bs.ReadDataBlockRowData(h, &bm)
			closeFn()
			if err != nil {
				return nil, fmt.Errorf("block %d of %s unreadable: %w", i, f.ptr, err)
			}
			b.dataLen = len(data)
			sc := bs.NewBlockRowScanner(data)
			for {
				rb, ok, err := sc.Next()
				if err != nil {
					return nil, err
				}
				if !ok {
					break
				}
				var m struct {
					Tag int `json:"tag"`
				}
				if err := json.Unmarshal(rb, &m); err != nil {
					return nil, err
				}
				b.tags = append(b.tags, m.Tag)
				b.rows = append(b.rows, append([]byte(nil), rb...))
				s.tagBlock[m.Tag] = b
			}
			f.blocks = append(f.blocks, b)
			s.blocks = append(s.blocks, b)
		}
	}
	return s, nil
}

func (s *gSnap) ptrs() []int64 {
	out := make([]int64, len(s.files))
	for i, f := range s.files {
		out[i] = f.z
	}
	return out
}

func (s *gSnap) tagCounts() map[int]int {
	m := map[int]int{}
	for _, b := range s.blocks {
		for _, t := range b.tags {
			m[t]++
		}
	}
	return m
}

// sortKeyTie reports whether two candidate files share identifyFileMergeGroups' sort key.
func (s *gSnap) sortKeyTie() bool {
	seen := map[[2]int]bool{}
	for _, f := range s.files {
		total := f.totalSize()
		n := len(f.blocks)
		if n < 1 {
			n = 1
		}
		k := [2]int{total / n, total}
		if seen[k] {
			return true
		}
		seen[k] = true
	}
	return false
}

// ---------------------------------------------------------------- MetaStore wrapper

type gUpdateCall struct {
	Writes  []string
	Deletes []string
	Metas   []*bs.FileMetadata
	Err     string
}

// gLogMeta wraps a MetaStore: records the iteration order and every Update, can
// fail the iterator after k yields and fail Update (without applying it), and
// shares the DataStore wrapper's call log so that all store calls of a Merge
// are totally ordered.
type gLogMeta struct {
	inner      bs.MetaStore
	mu         sync.Mutex
	yields     [][]string // per GetMaybeFilesForQuery call: pointers yielded, in order
	updates    []gUpdateCall
	iterFailAt int // -1 = never; k = yield an error after k files
	updateFail func(nth int) error
	nUpdates   int
	logCall    func(kind string, err error, u *gUpdateCall)
	onCall     func(kind string)
}

func newGLogMeta(inner bs.MetaStore) *gLogMeta { return &gLogMeta{inner: inner, iterFailAt: -1} }

func (m *gLogMeta) GetMaybeFilesForQuery(ctx context.Context, q *bs.QueryPrefilter) iter.Seq2[bs.MaybeFile, error] {
	return func(yield func(bs.MaybeFile, error) bool) {
		if m.onCall != nil {
			m.onCall("Iter")
		}
		m.mu.Lock()
		m.yields = append(m.yields, nil)
		slot := len(m.yields) - 1
		failAt := m.iterFailAt
		m.mu.Unlock()
		n := 0
		var failed error
		for f, err := range m.inner.GetMaybeFilesForQuery(ctx, q) {
			if failAt >= 0 && n >= failAt {
				failed = errInjected
				break
			}
			if err != nil {
				failed = err
				break
			}
			m.mu.Lock()
			m.yields[slot] = append(m.yields[slot], string(f.PointerBytes))
			m.mu.Unlock()
			n++
			if !yield(f, nil) {
				if m.logCall != nil {
					m.logCall("Iter", nil, nil)
				}
				return
			}
		}
		if failed == nil && failAt >= 0 && n >= failAt {
			failed = errInjected
		}
		if m.logCall != nil {
			m.logCall("Iter", failed, nil)
		}
		if failed != nil {
			yield(bs.MaybeFile{}, failed)
		}
	}
}

func (m *gLogMeta) Update(ctx context.Context, writes []bs.WriteOperation, deletes []bs.DeleteOperation) error {
	if m.onCall != nil {
		m.onCall("Update")
	}
	u := gUpdateCall{}
	for _, w := range writes {
		u.Writes = append(u.Writes, string(w.FilePointerBytes))
		u.Metas = append(u.Metas, w.FileMetadata)
	}
	for _, d := range deletes {
		u.Deletes = append(u.Deletes, string(d.FilePointerBytes))
	}
	m.mu.Lock()
	nth := m.nUpdates
	m.nUpdates++
	fail := m.updateFail
	m.mu.Unlock()
	var err error
	if fail != nil {
		err = fail(nth)
	}
	if err == nil {
		err = m.inner.Update(ctx, writes, deletes)
	}
	if err != nil {
		u.Err = err.Error()
	}
	m.mu.Lock()
	m.updates = append(m.updates, u)
	m.mu.Unlock()
	if m.logCall != nil {
		m.logCall("Update", err, &u)
	}
	return err
}

// ---------------------------------------------------------------- Coq printers (Model/MergePlan.v)

func gCoqCfg(cfg bs.BloomSearchEngineConfig) string {
	return fmt.Sprintf("{| c_max_rows := %d; c_max_bytes := %d; c_max_file_size := %d; c_max_files := %d |}",
		cfg.MaxRowGroupRows, cfg.MaxRowGroupBytes, cfg.MaxFileSize, cfg.MaxFilesToMergePerOperation)
}

func gCoqZs(zs []int64) string {
	items := make([]string, len(zs))
	for i, z := range zs {
		items[i] = coqZ(z)
	}
	return coqList(items)
}

func gCoqInts(zs []int) string {
	items := make([]string, len(zs))
	for i, z := range zs {
		items[i] = coqZ(int64(z))
	}
	return coqList(items)
}

// gRowCoq prints a row as (R tag part vals len) — the prelude defines R.
func gRowCoq(r *gRow, size int) string {
	items := []string{}
	for _, k := range sortedKeys(r.vals) {
		v := r.vals[k]
		items = append(items, coqPair(coqS(k), coqPair(coqZ(v[0]), coqZ(v[1]))))
	}
	return fmt.Sprintf("(R %s %s %s %d)", coqZ(int64(r.tag)), coqS(r.part), coqList(items), size)
}

// gBlockCoq prints a block as (B id meta nrows usize disk rows).
func gBlockCoq(b *gBlock, pop *gPop, withRows bool) string {
	rows := []string{}
	if withRows {
		for i, t := range b.tags {
			rows = append(rows, gRowCoq(pop.rows[t], len(b.rows[i])))
		}
	}
	return fmt.Sprintf("(B %d %s %d %d %d %s)", b.id, coqBlockMeta(&b.meta), b.meta.Rows, b.meta.UncompressedSize, b.meta.OnDiskSize(), coqList(rows))
}

func gFileCoq(f *gFile, pop *gPop, withRows bool) string {
	bl := make([]string, len(f.blocks))
	for i, b := range f.blocks {
		bl[i] = gBlockCoq(b, pop, withRows)
	}
	return fmt.Sprintf("(F %s %s)", coqZ(f.z), coqList(bl))
}

var gPrelude = []string{
	"Definition R (t : Z) (p : str) (v : list (str * (Z * Z))) (l : Z) : mrow := {| mr_tag := t; mr_part := p; mr_vals := v; mr_len := l; mr_ents := [] |}.",
	"Definition B (id : Z) (m : blockmeta) (n u d : Z) (rows : list mrow) : block := {| b_id := id; b_meta := m; b_nrows := n; b_usize := u; b_disk := d; b_fparam := 0; b_ents := []; b_rows := rows |}.",
	"Definition F (p : Z) (bs : list block) : file := {| f_ptr := p; f_blocks := bs; f_fparam := 0; f_ents := [] |}.",
	"Definition OB (p : str) (mm : list (str * (Z * Z))) (n u : Z) (tags : list Z) (bytes : Z) (srcs : list Z) : oblock := {| ob_part := p; ob_mm := mm; ob_nrows := n; ob_usize := u; ob_tags := tags; ob_bytes := bytes; ob_srcs := srcs |}.",
	"Definition OG (fs : list Z) (o : Z) (bl : list oblock) : ogroup := {| og_files := fs; og_out := o; og_blocks := bl |}.",
	"Definition E (c : call) (ok : bool) : ev := Ev c ok.",
}

const runnerG = "Model.MinMax Model.MergePlan Model.MergeCommit Cases.RunnerG"

func gSameKeySet(a, b map[string]bs.MinMaxIndex) bool {
	if len(a) != len(b) {
		return false
	}
	for k := range a {
		if _, ok := b[k]; !ok {
			return false
		}
	}
	return true
}
