package main

// C05..C10: concurrent workloads on a real engine; the event log of each run becomes a
// Coq case replayed through Model/Pipeline.v, and the property predicates are also
// evaluated here on what the callers, the channels, the stores and queries observed.

import (
	"context"
	"encoding/json"
	"fmt"
	"math/rand/v2"
	"sort"
	"strings"
	"sync/atomic"
	"time"
)

func init() {
	register("pipe", []string{"C05", "C06", "C07", "C08", "C09", "C10"}, runPipe)
}

const runnerP = "Model.Pipeline Cases.RunnerP"

var pAllProps = []string{"C05", "C06", "C07", "C08", "C09", "C10"}

func pMustJSON(v any) []byte {
	b, err := json.Marshal(v)
	must(err)
	return b
}

type pipeCtx struct {
	c    *Ctx
	sh   *shard
	want map[string]bool
	n    int
}

func (p *pipeCtx) wants(ids ...string) bool {
	for _, id := range ids {
		if p.want[id] {
			return true
		}
	}
	return false
}

func runPipe(c *Ctx) {
	p := &pipeCtx{c: c, want: map[string]bool{}}
	for _, id := range pAllProps {
		if len(c.Props) == 0 || c.Props[id] {
			p.want[id] = true
		}
	}
	viol := "violations_all"
	if len(c.Props) == 1 {
		for id := range c.Props {
			viol = "violations_" + id
		}
	}
	p.sh = c.newShard("p", runnerP, "caseP", "mismatches", viol)
	p.sh.limit = 12
	c.rep.Rule = "one case = one run of a real engine (1-8 producers mixing IngestRows/Flush/Start, Stop graceful / with deadline / with a late-AfterFunc context / never, " +
		"buffered, drained, abandoned and nil done channels, limit- and time-triggered flushes, delayed / failing / wedged stores); the hook + store + harness event log is " +
		"replayed through Pipeline.step and the final state compared with acks received and rows visible. Non-trivial: >= 2 producers, or a Stop racing ingest, or a store fault, " +
		"or a limit-triggered flush. Distinct by the label sequence of the log."

	if p.wants("C05", "C08") {
		pDirectedD6(p)
		pDirectedD9(p)
	}
	if p.wants("C08") {
		pDirectedD5(p)
		pDirectedNoSilence(p)
	}
	if p.wants("C05", "C06", "C07", "C08") {
		n := c.pick(60, 1200)
		if !p.wants("C05", "C07", "C08") {
			n = c.pick(25, 400)
		}
		for i := 0; i < n; i++ {
			pRandomWorkload(p, i)
		}
	}
	if p.wants("C06") {
		pFaultEnumeration(p)
	}
	if p.wants("C09") {
		n := c.pick(14, 150)
		for i := 0; i < n; i++ {
			pBackpressure(p, i)
		}
	}
	if p.wants("C10") {
		n := c.pick(40, 600)
		for i := 0; i < n; i++ {
			pLimits(p, i)
		}
		pTimeFlush(p)
	}
}

// ---------------------------------------------------------------- evaluation of one run

type pEvalOpts struct {
	props      []string
	sig        string // attached to the case and to Go-side findings (known-finding matching)
	nontrivial bool
	kind       string
	extra      map[string]any
}

func (p *pipeCtx) emit(r *pRun, res *pResult, o pEvalOpts) {
	c := p.c
	if res.discard {
		// setup problem, not a verdict: the log was cut while the engine was still working
		c.dist("run_kind", "discarded-not-quiescent")
		return
	}
	terms := pTerms(res.items)
	term := pCaseTerm(r.spec, terms, res.onceSame, res.onceFresh, res.anyVis, res.bad, res.exact)
	labels := make([]string, 0, len(terms))
	for _, t := range terms {
		if strings.HasPrefix(t, "EL ") {
			labels = append(labels, t)
		}
	}
	desc := map[string]any{"kind": o.kind, "run": r.name, "events": len(terms), "ops": len(r.ops), "cfg": r.spec, "hung": res.hung}
	if o.sig != "" {
		desc["sig"] = o.sig
	}
	for k, v := range o.extra {
		desc[k] = v
	}
	if len(terms) <= 60 {
		desc["log"] = terms
	}
	p.sh.add(c, term, desc)
	c.rep.TracesValidated++
	c.count(o.props, strings.Join(labels, ";"), o.nontrivial, desc)
	c.dist("run_kind", o.kind)
	c.dist("log_length", pBucket(len(terms)))
	for _, pr := range res.problems {
		c.mismatch(o.sig, "harness/hook problem in run "+r.name+": "+pr, desc)
	}
	p.goPredicates(r, res, o, desc)
	p.n++
}

func pBucket(n int) string {
	switch {
	case n < 20:
		return "<20"
	case n < 60:
		return "20-59"
	case n < 150:
		return "60-149"
	case n < 400:
		return "150-399"
	}
	return ">=400"
}

// goPredicates evaluates C05..C10 on the run as seen from outside the engine.
func (p *pipeCtx) goPredicates(r *pRun, res *pResult, o pEvalOpts, desc map[string]any) {
	c := p.c
	r.mu.Lock()
	defer r.mu.Unlock()
	in := func(xs []int, x int) bool {
		i := sort.SearchInts(xs, x)
		return i < len(xs) && xs[i] == x
	}
	ids := make([]int, 0, len(r.ops))
	for id := range r.ops {
		ids = append(ids, id)
	}
	sort.Ints(ids)
	graceful := r.stopRes != nil && *r.stopRes
	for _, id := range ids {
		info := r.ops[id]
		got := r.recvd[id]
		// C05
		if p.wants("C05", "C08") {
			if len(got) > 1 {
				c.violation(o.sig, fmt.Sprintf("run %s: batch %d answered %d times", r.name, id, len(got)), desc)
			}
			if graceful && r.retAcc[id] && info.Ch != "nil" && len(got) != 1 {
				c.violation(o.sig, fmt.Sprintf("run %s: Stop returned nil but accepted batch %d (%s channel) received %d values", r.name, id, info.Ch, len(got)), desc)
			}
		}
		// C06
		if p.wants("C06") && info.Kind == "batch" && info.Rows > 0 {
			switch {
			case !info.Valid:
				if r.visAny[id] {
					c.violation(o.sig, fmt.Sprintf("run %s: rows of rejected batch %d are visible", r.name, id), desc)
				}
			case len(got) > 0 && got[0]:
				if !in(res.onceSame, id) || !in(res.onceFresh, id) || r.visBad[id] {
					c.violation(o.sig, fmt.Sprintf("run %s: batch %d acked nil but not visible exactly once (same engine %v, fresh engine %v, partial/dup %v)", r.name, id, in(res.onceSame, id), in(res.onceFresh, id), r.visBad[id]), desc)
				}
			case len(got) > 0 && !got[0]:
				if r.visAny[id] {
					c.violation(o.sig, fmt.Sprintf("run %s: batch %d acked with an error but its rows are visible", r.name, id), desc)
				}
			default:
				if r.visBad[id] {
					c.violation(o.sig, fmt.Sprintf("run %s: batch %d partially or doubly visible", r.name, id), desc)
				}
			}
		}
	}
	// C07: a query issued when id's nil ack arrived must see every non-empty batch whose call returned
	// before id's call began and that ended up acked nil; and such a batch must not be left unanswered
	if p.wants("C07") {
		for id, snap := range r.snapAt {
			subj := r.ops[id]
			if snap == nil || !(subj.Kind == "force" || (subj.Valid && subj.Rows > 0)) {
				continue
			}
			for _, a := range ids {
				ia := r.ops[a]
				rs, returned := r.retSeq[a]
				if a == id || ia.Kind != "batch" || ia.Rows == 0 || !r.retAcc[a] || !returned || rs >= r.callSeq[id] {
					continue
				}
				ga := r.recvd[a]
				if ia.Valid && len(ga) == 1 && ga[0] && !snap[a] {
					c.violation(o.sig, fmt.Sprintf("run %s: %d answered nil while earlier batch %d (acked nil) was not visible to a query", r.name, id, a), desc)
				}
				if len(ga) == 0 && (ia.Ch == "buf" || ia.Ch == "drain") && !r.fcancelled {
					c.violation(o.sig, fmt.Sprintf("run %s: %d answered nil while earlier batch %d was never answered", r.name, id, a), desc)
				}
			}
		}
	}
	// C08
	if p.wants("C08") {
		if r.hasEventLocked("worker.exit") {
			for _, id := range ids {
				if r.retAcc[id] && r.ops[id].Ch == "buf" && len(r.recvd[id]) == 0 {
					c.violation(o.sig, fmt.Sprintf("run %s: the flush worker exited but accepted batch %d (buffered channel) was met with silence", r.name, id), desc)
				}
			}
		}
		for _, k := range r.lateStore {
			c.violation(o.sig, fmt.Sprintf("run %s: store work after Stop returned its deadline error: %s", r.name, k), desc)
		}
	}
	// C09
	if p.wants("C09") && o.kind == "backpressure" {
		bound := int64(r.spec.ICap + 1 + (r.spec.FCap+2)*r.spec.MaxRows)
		if r.peakUn > bound {
			c.violation(o.sig, fmt.Sprintf("run %s: %d accepted-but-unanswered batches, bound %d", r.name, r.peakUn, bound), desc)
		}
	}
}

// ---------------------------------------------------------------- scenarios

func defaultOpts() pRunOpts {
	return pRunOpts{ICap: 4, MaxRows: 1000, MaxBytes: 1 << 20, PartRows: 1000, PartBytes: 1 << 20, MaxTime: time.Hour, HasAbort: true}
}

func simpleBatch(r *pRun, n int) func(id int) *pBatch {
	return func(id int) *pBatch {
		return r.makeBatch(id, make([]int, n), make([]int, n), -1, false)
	}
}

// D6: an engine that is never started.
func pDirectedD6(p *pipeCtx) {
	for variant := 0; variant < 2; variant++ {
		r := newPRun(p.c, fmt.Sprintf("never-started-%d", variant), defaultOpts())
		ctx := context.Background()
		r.ingest(ctx, "buf", simpleBatch(r, 2))
		r.ingest(ctx, "drain", simpleBatch(r, 1))
		if variant == 1 {
			r.goProducer(func() { r.flush(ctx) })
			time.Sleep(20 * time.Millisecond)
		}
		r.stopWithDeadline(2 * time.Second)
		res := r.finish(800*time.Millisecond, true)
		p.emit(r, res, pEvalOpts{props: []string{"C05", "C08"}, sig: "never-started-engine", nontrivial: true, kind: "directed-never-started"})
	}
}

// D5: Stop's deadline passes while the AfterFunc callback of its context runs late.
func pDirectedD5(p *pipeCtx) {
	o := defaultOpts()
	r := newPRun(p.c, "late-afterfunc", o)
	entered, release := r.plan.wedgeAt("Write", 0)
	ctx := context.Background()
	r.start()
	r.ingest(ctx, "buf", simpleBatch(r, 2))
	r.goProducer(func() { r.flush(ctx) })
	<-entered // the first flush is inside its first Write
	r.ingest(ctx, "buf", simpleBatch(r, 3))
	lc := newLateCtx()
	stopDone := make(chan struct{})
	go func() { r.stop(lc); close(stopDone) }()
	// wait until Stop is in its select: the actor has drained the second batch into a flush request
	waitFor(func() bool { return r.hasEvent("fq.try", 2) }, time.Second)
	r.stopCtxDone()
	lc.cancel()
	<-stopDone
	release() // the wedged store comes back after Stop returned its deadline error
	r.waitQuiet(time.Second, 40*time.Millisecond)
	lc.fire() // the AfterFunc callback finally runs
	res := r.finish(time.Second, true)
	p.emit(r, res, pEvalOpts{props: []string{"C08"}, sig: "stop-deadline-no-flushcancel", nontrivial: true, kind: "directed-late-afterfunc"})
}

// D9: the deadline fires, an ack is given up, the workers exit, and only then Stop reaches its select.
func pDirectedD9(p *pipeCtx) {
	tries := p.c.pick(6, 30)
	for i := 0; i < tries; i++ {
		r := newPRun(p.c, fmt.Sprintf("stop-select-race-%d", i), defaultOpts())
		r.pauseStop = make(chan struct{})
		ctx := context.Background()
		r.start()
		r.ingest(ctx, "abandon", simpleBatch(r, 2))
		sctx, cancel := context.WithCancel(ctx)
		stopDone := make(chan struct{})
		go func() { r.stop(sctx); close(stopDone) }()
		waitFor(func() bool { return r.hasEvent("h.send", 0) && r.hasEventS("h.send", "Update") }, time.Second)
		r.stopCtxDone()
		cancel()
		waitFor(func() bool { return r.hasEvent("worker.exit", 1) }, time.Second)
		time.Sleep(5 * time.Millisecond)
		close(r.pauseStop)
		<-stopDone
		cancel()
		res := r.finish(time.Second, true)
		p.emit(r, res, pEvalOpts{props: []string{"C05", "C08"}, sig: "stop-nil-after-giveup", nontrivial: true, kind: "directed-stop-select"})
	}
}

// one flush request whose first waiter abandoned its unbuffered channel: the deadline frees the worker, and the
// waiters behind it that can receive must still get their value
func pDirectedNoSilence(p *pipeCtx) {
	for v := 0; v < 3; v++ {
		o := defaultOpts()
		r := newPRun(p.c, fmt.Sprintf("abandoned-first-waiter-%d", v), o)
		if v == 1 {
			r.plan.fail("Update", 0) // the error path delivers through the same helper
		}
		ctx := context.Background()
		r.start()
		r.ingest(ctx, "abandon", simpleBatch(r, 1))
		r.ingest(ctx, "buf", simpleBatch(r, 2))
		r.ingest(ctx, "drain", simpleBatch(r, 1))
		if v == 2 {
			r.ingest(ctx, "abandon", simpleBatch(r, 1))
			r.ingest(ctx, "buf", simpleBatch(r, 1))
		}
		r.stopWithDeadline(15 * time.Millisecond)
		res := r.finish(3*time.Second, true)
		p.emit(r, res, pEvalOpts{props: []string{"C08"}, nontrivial: true, kind: "directed-abandoned-waiter"})
	}
}

func waitFor(cond func() bool, max time.Duration) bool {
	deadline := time.Now().Add(max)
	for time.Now().Before(deadline) {
		if cond() {
			return true
		}
		time.Sleep(time.Millisecond)
	}
	return cond()
}

func (r *pRun) hasEvent(kind string, atLeast int) bool {
	r.mu.Lock()
	defer r.mu.Unlock()
	n := 0
	for _, e := range r.evs {
		if e.Kind == kind {
			n++
		}
	}
	if atLeast == 0 {
		return n > 0
	}
	return n >= atLeast
}

func (r *pRun) hasEventLocked(kind string) bool {
	for _, e := range r.evs {
		if e.Kind == kind {
			return true
		}
	}
	return false
}

func (r *pRun) hasEventS(kind, s string) bool {
	r.mu.Lock()
	defer r.mu.Unlock()
	for _, e := range r.evs {
		if e.Kind == kind && e.S == s {
			return true
		}
	}
	return false
}

// random concurrent workload
func pRandomWorkload(p *pipeCtx, idx int) {
	c := p.c
	rng := c.rng
	o := defaultOpts()
	o.ICap = 1 + rng.IntN(4)
	o.MaxRows = []int{2, 3, 5, 8, 1000}[rng.IntN(5)]
	o.PartRows = []int{2, 4, 1000}[rng.IntN(3)]
	o.MaxBytes = []int{120, 400, 1 << 20}[rng.IntN(3)]
	o.PartBytes = []int{150, 1 << 20}[rng.IntN(2)]
	o.Partitioned = rng.IntN(2) == 0
	o.HasAbort = rng.IntN(4) != 0
	o.HonorCtx = rng.IntN(2) == 0
	r := newPRun(c, fmt.Sprintf("random-%d", idx), o)
	nProd := 1 + rng.IntN(8)
	if rng.IntN(3) == 0 {
		nProd = 1 + rng.IntN(2)
	}
	// stores: delays and a few faults
	if rng.IntN(2) == 0 {
		for _, k := range []string{"CreateFile", "Write", "Close", "Update"} {
			if rng.IntN(3) == 0 {
				r.plan.delay[k] = time.Duration(rng.IntN(1500)) * time.Microsecond
			}
		}
	}
	nFaults := 0
	if rng.IntN(3) == 0 {
		kinds := []string{"CreateFile", "Write", "Close", "Update", "Abort", "Tombstone"}
		for i := 0; i < 1+rng.IntN(3); i++ {
			r.plan.fail(kinds[rng.IntN(len(kinds))], rng.IntN(6))
			nFaults++
		}
	}
	startMode := rng.IntN(10) // 0: never, 1-2: late, else before
	stopMode := rng.IntN(10)  // 0-1: never, 2-5 graceful, 6-8 deadline, 9 expired
	if startMode == 0 && stopMode <= 1 {
		stopMode = 2
	}
	wedged := false
	var releaseWedge func()
	if stopMode >= 6 && rng.IntN(2) == 0 {
		_, releaseWedge = r.plan.wedgeAt([]string{"CreateFile", "Write", "Close", "Update"}[rng.IntN(4)], rng.IntN(3))
		wedged = true
	}
	if startMode >= 3 {
		r.start()
	}
	seeds := make([]uint64, nProd)
	for i := range seeds {
		seeds[i] = rng.Uint64()
	}
	abandonOK := stopMode >= 6 // an abandoned unbuffered channel wedges the pipeline until a deadline
	for pi := 0; pi < nProd; pi++ {
		prng := rand.New(rand.NewPCG(seeds[pi], 7))
		r.goProducer(func() {
			nOps := 2 + prng.IntN(7)
			for k := 0; k < nOps; k++ {
				if prng.IntN(4) == 0 {
					time.Sleep(time.Duration(prng.IntN(800)) * time.Microsecond)
				}
				ctx := context.Background()
				var cancel context.CancelFunc = func() {}
				if prng.IntN(4) == 0 || startMode < 3 {
					ctx, cancel = context.WithTimeout(ctx, time.Duration(2+prng.IntN(40))*time.Millisecond)
				}
				switch x := prng.IntN(20); {
				case x < 13:
					ch := []string{"buf", "buf", "drain", "drain", "nil"}[prng.IntN(5)]
					if abandonOK && prng.IntN(12) == 0 {
						ch = "abandon"
					}
					nRows := prng.IntN(5)
					if prng.IntN(8) == 0 {
						nRows = 0
					}
					bad := -1
					if nRows > 0 && prng.IntN(9) == 0 {
						bad = prng.IntN(nRows)
					}
					parts, pad := make([]int, nRows), make([]int, nRows)
					for i := range parts {
						parts[i] = prng.IntN(3)
						if prng.IntN(5) == 0 {
							pad[i] = prng.IntN(200)
						}
					}
					r.ingest(ctx, ch, func(id int) *pBatch { return r.makeBatch(id, parts, pad, bad, o.Partitioned) })
				case x < 17:
					if startMode == 0 {
						ctx2, c2 := context.WithTimeout(context.Background(), 30*time.Millisecond)
						_ = ctx2
						c2()
					}
					r.flush(ctx)
				case x < 19:
					r.start()
				default:
					time.Sleep(time.Duration(prng.IntN(3)) * time.Millisecond)
				}
				cancel()
			}
		})
	}
	if startMode == 1 || startMode == 2 {
		time.Sleep(time.Duration(rng.IntN(4)) * time.Millisecond)
		r.start()
	}
	stopKind := "none"
	switch {
	case stopMode <= 1:
	case stopMode <= 5:
		time.Sleep(time.Duration(rng.IntN(6000)) * time.Microsecond)
		stopKind = "graceful"
		r.stopWithDeadline(20 * time.Second)
	case stopMode <= 8:
		time.Sleep(time.Duration(rng.IntN(6000)) * time.Microsecond)
		stopKind = "deadline"
		r.stopWithDeadline(time.Duration(1+rng.IntN(15)) * time.Millisecond)
	default:
		time.Sleep(time.Duration(rng.IntN(3000)) * time.Microsecond)
		stopKind = "expired"
		r.stopWithDeadline(0)
	}
	if releaseWedge != nil {
		time.Sleep(time.Duration(rng.IntN(5)) * time.Millisecond)
		releaseWedge()
	}
	res := r.finish(3*time.Second, true)
	c.dist("stop", stopKind)
	c.dist("start", []string{"never", "late", "late", "before"}[minInt(startMode, 3)])
	c.dist("producers", fmt.Sprint(nProd))
	nontrivial := nProd >= 2 || stopKind != "none" || nFaults > 0
	sig := ""
	p.emit(r, res, pEvalOpts{props: []string{"C05", "C06", "C07", "C08"}, sig: sig, nontrivial: nontrivial, kind: "random",
		extra: map[string]any{"producers": nProd, "stop": stopKind, "start_mode": startMode, "faults": nFaults, "wedged": wedged}})
}

func minInt(a, b int) int {
	if a < b {
		return a
	}
	return b
}

// ---------------------------------------------------------------- C06: fault enumeration

type pFaultPoint struct {
	kind string
	nth  int
}

// one history: three flushes that write a file each, an invalid batch in between, queries along the way
func pFaultRun(p *pipeCtx, name string, hasAbort bool, faults []pFaultPoint, shape int) {
	o := defaultOpts()
	o.HasAbort = hasAbort
	o.Partitioned = true
	r := newPRun(p.c, name, o)
	for _, f := range faults {
		r.plan.fail(f.kind, f.nth)
	}
	ctx := context.Background()
	r.start()
	chs := []string{"buf", "drain", "buf", "drain"}
	ingest := func(n, nparts, bad int, ch string) {
		parts, pad := make([]int, n), make([]int, n)
		for i := range parts {
			parts[i] = i % nparts
		}
		r.ingest(ctx, ch, func(id int) *pBatch { return r.makeBatch(id, parts, pad, bad, true) })
	}
	ingest(2, 1, -1, chs[shape%4])
	r.flush(ctx)
	r.queryVisible(r.eng)
	ingest(4, 2, 1+shape%3, "buf") // unmarshalable row: first or a later row of its partition
	ingest(3, 2+shape%2, -1, chs[(shape+1)%4])
	if shape%3 == 0 {
		ingest(1, 1, -1, "buf") // shares the flush (and the fate) of the previous batch
	}
	r.flush(ctx)
	r.queryVisible(r.eng)
	ingest(2, 1, -1, chs[(shape+2)%4])
	r.stopWithDeadline(20 * time.Second)
	res := r.finish(3*time.Second, true)
	fs := make([]string, len(faults))
	for i, f := range faults {
		fs[i] = fmt.Sprintf("%s#%d", f.kind, f.nth)
		p.c.dist("fault_kind", f.kind)
	}
	p.emit(r, res, pEvalOpts{props: []string{"C06"}, nontrivial: len(faults) > 0, kind: "fault-enum",
		extra: map[string]any{"faults": fs, "has_abort": hasAbort, "shape": shape}})
}

func pFaultEnumeration(p *pipeCtx) {
	// positions: 3 flushes; one partition => 8 Write calls per file (block, filter region, 6 footer writes)
	var singles []pFaultPoint
	for i := 0; i < 3; i++ {
		singles = append(singles, pFaultPoint{"CreateFile", i}, pFaultPoint{"Close", i}, pFaultPoint{"Update", i})
	}
	nWrites := 28
	for i := 0; i < nWrites; i++ {
		singles = append(singles, pFaultPoint{"Write", i})
	}
	n := 0
	pFaultRun(p, "fault-none", true, nil, 0)
	for _, f := range singles {
		if !p.c.thorough() && f.kind == "Write" && f.nth%3 == 2 && f.nth > 9 {
			continue // quick tier: two of every three later write positions
		}
		pFaultRun(p, fmt.Sprintf("fault-%s-%d", f.kind, f.nth), n%4 != 3, []pFaultPoint{f}, n)
		n++
	}
	// cleanup calls only happen after a first failure: pairs
	var pairs [][]pFaultPoint
	for _, first := range []pFaultPoint{{"Write", 0}, {"Write", 9}, {"Close", 1}, {"Update", 0}, {"Update", 2}} {
		for _, second := range []pFaultPoint{{"Abort", 0}, {"Tombstone", 0}} {
			pairs = append(pairs, []pFaultPoint{first, second})
		}
	}
	pairs = append(pairs, []pFaultPoint{{"Write", 3}, {"Abort", 0}, {"Tombstone", 0}}, []pFaultPoint{{"CreateFile", 0}, {"CreateFile", 1}},
		[]pFaultPoint{{"Update", 0}, {"Update", 1}}, []pFaultPoint{{"Close", 0}, {"Update", 1}})
	if p.c.thorough() {
		for i := 0; i < len(singles); i++ {
			for j := i + 1; j < len(singles); j += 1 + p.c.intn(3) {
				pairs = append(pairs, []pFaultPoint{singles[i], singles[j]})
			}
		}
	}
	for i, pr := range pairs {
		pFaultRun(p, fmt.Sprintf("fault-pair-%d", i), i%3 != 2, pr, i)
	}
}

// ---------------------------------------------------------------- C09: stalled stores

func pBackpressure(p *pipeCtx, idx int) {
	rng := p.c.rng
	o := defaultOpts()
	o.ICap = 1 + rng.IntN(3)
	o.MaxRows = 1 + rng.IntN(4)
	o.Partitioned = rng.IntN(2) == 0
	r := newPRun(p.c, fmt.Sprintf("stall-%d", idx), o)
	kind := []string{"CreateFile", "Write", "Close", "Update"}[rng.IntN(4)]
	nth := rng.IntN(2)
	_, release := r.plan.wedgeAt(kind, nth)
	r.start()
	nProd := 1 + rng.IntN(8)
	seeds := make([]uint64, nProd)
	for i := range seeds {
		seeds[i] = rng.Uint64()
	}
	var timeouts atomic.Int64
	for pi := 0; pi < nProd; pi++ {
		prng := rand.New(rand.NewPCG(seeds[pi], 9))
		r.goProducer(func() {
			n := 4 + prng.IntN(10)
			for k := 0; k < n; k++ {
				ctx, cancel := context.WithTimeout(context.Background(), time.Duration(5+prng.IntN(15))*time.Millisecond)
				_, err := r.ingest(ctx, "drain", simpleBatch(r, 1))
				cancel()
				if err != nil {
					timeouts.Add(1)
				}
			}
		})
	}
	// let the producers run into the stall
	waitFor(func() bool { return r.hung.Load() == 0 }, 3*time.Second)
	// every producer gave up: the pipeline is as full as the stall lets it get; once the receivers
	// have caught up the difference below is exact
	r.waitQuiet(time.Second, 20*time.Millisecond)
	r.mu.Lock()
	r.peakUn = r.accN.Load() - r.ansN.Load()
	r.mu.Unlock()
	release()
	r.stopWithDeadline(20 * time.Second)
	res := r.finish(3*time.Second, true)
	p.c.dist("stall_kind", kind)
	p.emit(r, res, pEvalOpts{props: []string{"C09"}, nontrivial: timeouts.Load() > 0, kind: "backpressure",
		extra: map[string]any{"producers": nProd, "stalled": fmt.Sprintf("%s#%d", kind, nth), "blocked_calls": timeouts.Load(), "peak_unanswered": r.peakUn}})
}

// ---------------------------------------------------------------- C10: limits and time

func pLimits(p *pipeCtx, idx int) {
	rng := p.c.rng
	o := defaultOpts()
	o.MaxRows = 2 + rng.IntN(8)
	o.MaxBytes = 80 + rng.IntN(600)
	o.PartRows = 1 + rng.IntN(5)
	o.PartBytes = 60 + rng.IntN(300)
	if rng.IntN(3) == 0 {
		o.PartRows, o.PartBytes = 1000, 1<<20
	}
	if rng.IntN(3) == 0 {
		o.MaxBytes = 1 << 20
	}
	o.Partitioned = rng.IntN(4) != 0
	nParts := 1 + rng.IntN(5)
	r := newPRun(p.c, fmt.Sprintf("limits-%d", idx), o)
	ctx := context.Background()
	r.start()
	nBatches := 6 + rng.IntN(14)
	for b := 0; b < nBatches; b++ {
		n := 1 + rng.IntN(4)
		if rng.IntN(6) == 0 {
			n = 1 + rng.IntN(12) // crosses several limits at once
		}
		parts, pad := make([]int, n), make([]int, n)
		for i := range parts {
			parts[i] = rng.IntN(nParts)
			switch rng.IntN(6) {
			case 0:
				pad[i] = rng.IntN(400) // oversized row
			case 1:
				pad[i] = rng.IntN(30)
			}
		}
		bad := -1
		if rng.IntN(12) == 0 {
			bad = rng.IntN(n)
		}
		r.ingest(ctx, []string{"buf", "nil", "drain"}[rng.IntN(3)], func(id int) *pBatch { return r.makeBatch(id, parts, pad, bad, o.Partitioned) })
		if rng.IntN(10) == 0 {
			r.flush(ctx)
		}
	}
	if rng.IntN(2) == 0 {
		r.flush(ctx)
	}
	r.stopWithDeadline(20 * time.Second)
	res := r.finish(3*time.Second, true)
	fl, nofl := 0, 0
	for _, it := range res.items {
		switch it.term {
		case "EL (LActorBuffer true)":
			fl++
		case "EL (LActorBuffer false)":
			nofl++
		}
	}
	p.c.dist("limit_flushes", pBucket(fl))
	p.emit(r, res, pEvalOpts{props: []string{"C10"}, nontrivial: fl > 0 && nofl > 0, kind: "limits",
		extra: map[string]any{"limit_flushes": fl, "buffered_without_flush": nofl, "partitions": nParts}})
}

// time-triggered flush: no Flush, no Stop until the ack arrived
func pTimeFlush(p *pipeCtx) {
	n := p.c.pick(3, 25)
	for i := 0; i < n; i++ {
		o := defaultOpts()
		o.MaxTime = time.Duration(20+p.c.intn(60)) * time.Millisecond
		r := newPRun(p.c, fmt.Sprintf("time-%d", i), o)
		r.start()
		t0 := time.Now()
		id, _ := r.ingest(context.Background(), "drain", simpleBatch(r, 2))
		if i%2 == 1 {
			time.Sleep(time.Duration(p.c.intn(15)) * time.Millisecond)
			r.ingest(context.Background(), "drain", simpleBatch(r, 1))
		}
		answered := waitFor(func() bool { r.mu.Lock(); defer r.mu.Unlock(); return len(r.recvd[id]) > 0 }, 5*time.Second)
		lat := time.Since(t0)
		desc := map[string]any{"max_buffered_time_ms": o.MaxTime.Milliseconds(), "latency_ms": lat.Milliseconds()}
		if !answered {
			p.c.violation("", fmt.Sprintf("run %s: batch not answered %v after ingest with MaxBufferedTime %v, responsive stores, no Flush/Stop", r.name, lat, o.MaxTime), desc)
		} else if p.c.thorough() && lat > o.MaxTime+100*time.Millisecond+400*time.Millisecond {
			p.c.violation("", fmt.Sprintf("run %s: ack latency %v exceeds MaxBufferedTime %v + tick + allowance", r.name, lat, o.MaxTime), desc)
		}
		r.stopWithDeadline(20 * time.Second)
		res := r.finish(3*time.Second, true)
		p.emit(r, res, pEvalOpts{props: []string{"C10"}, nontrivial: true, kind: "time-flush", extra: desc})
	}
}
