package main

// C05..C10: concurrent workloads on a real engine; the event log of each run becomes a
// Coq case replayed through Model/Pipeline.v, and the property predicates are also
// evaluated here on what the callers, the channels, the stores and queries observed.

import (
	"context"
	"encoding/json"
	"fmt"
	"io"
	"math/rand/v2"
	"os"
	"path/filepath"
	"sort"
	"strings"
	"sync"
	"sync/atomic"
	"time"

	bs "github.com/danthegoodman1/bloomsearch"
)

func init() {
	register("pipe", []string{"C05", "C06", "C07", "C08", "C09", "C10"}, runPipe)
}

const runnerP = "Model.Pipeline Cases.RunnerP"

var pAllProps = []string{"C05", "C06", "C07", "C08", "C09", "C10"}

func pMustJSON(v any) []byte {
	b, err := json.Marshal(v)
	must(err)
	return b
}

type pipeCtx struct {
	c    *Ctx
	sh   *shard
	want map[string]bool
	n    int
}

func (p *pipeCtx) wants(ids ...string) bool {
	for _, id := range ids {
		if p.want[id] {
			return true
		}
	}
	return false
}

func runPipe(c *Ctx) {
	p := &pipeCtx{c: c, want: map[string]bool{}}
	for _, id := range pAllProps {
		if len(c.Props) == 0 || c.Props[id] {
			p.want[id] = true
		}
	}
	viol := "violations_all"
	if len(c.Props) == 1 {
		for id := range c.Props {
			viol = "violations_" + id
		}
	}
	p.sh = c.newShard("p", runnerP, "caseP", "mismatches", viol)
	p.sh.limit = 12
	c.rep.Rule = "one case = one run of a real engine (1-8 producers mixing IngestRows/Flush/Start, Stop graceful / with deadline / with a late-AfterFunc context / never, " +
		"buffered, drained, late-drained, abandoned and nil done channels, limit- and time-triggered flushes, delayed / failing / wedged stores, all row-data compressions; " +
		"directed: drain-path answers, cleanup-fault pairs, Flush calls and batches queued behind a blocked ingest actor, stalls at every store call kind under busy / trickling / rowless producers, bursts against a full flush queue, trickles below MaxBufferedTime); " +
		"the hook + store + harness event log is replayed through Pipeline.step and the final state compared with acks received and rows visible. " +
		"Non-trivial: >= 2 producers, or a Stop racing ingest, or a store fault or stall, or a limit- or ticker-triggered flush. Distinct by the label sequence of the log."

	if p.wants("C05", "C08") {
		pDirectedD6(p)
		pDirectedD9(p)
		pDirectedDrainAnswers(p)
		pDirectedCleanupFaults(p)
	}
	if p.wants("C08") {
		pDirectedD5(p)
		pDirectedNoSilence(p)
		pDirectedStopBlockedProducers(p)
	}
	if p.wants("C07") {
		pDirectedFlushBehindFlush(p)
	}
	if p.wants("C05", "C06", "C07", "C08") {
		n := c.pick(60, 1200)
		if !p.wants("C05", "C07", "C08") {
			n = c.pick(25, 400)
		}
		for i := 0; i < n; i++ {
			pRandomWorkload(p, i)
		}
	}
	if p.wants("C06") {
		pFaultEnumeration(p)
	}
	if p.wants("C09") {
		n := c.pick(14, 150)
		for i := 0; i < n; i++ {
			pBackpressure(p, i)
		}
		n = c.pick(6, 36)
		for i := 0; i < n; i++ {
			pBackpressureTrickle(p, i)
		}
		n = c.pick(8, 60)
		for i := 0; i < n; i++ {
			pBackpressureEmpties(p, i)
		}
	}
	if p.wants("C10") {
		n := c.pick(40, 600)
		for i := 0; i < n; i++ {
			pLimits(p, i)
		}
		pTimeFlush(p)
	}
}

// ---------------------------------------------------------------- evaluation of one run

type pEvalOpts struct {
	props      []string
	sig        string // attached to the case and to Go-side findings (known-finding matching)
	nontrivial bool
	kind       string
	extra      map[string]any
}

func (p *pipeCtx) emit(r *pRun, res *pResult, o pEvalOpts) {
	c := p.c
	if res.discard {
		// setup problem, not a verdict: the log was cut while the engine was still working
		c.dist("run_kind", "discarded-not-quiescent")
		return
	}
	terms := pTerms(res.items)
	term := pCaseTerm(r.spec, terms, res.onceSame, res.onceFresh, res.anyVis, res.bad, res.exact)
	labels := make([]string, 0, len(terms))
	for _, t := range terms {
		if strings.HasPrefix(t, "EL ") {
			labels = append(labels, t)
		}
	}
	desc := map[string]any{"kind": o.kind, "run": r.name, "events": len(terms), "ops": len(r.ops), "cfg": r.spec, "hung": res.hung}
	if o.sig != "" {
		desc["sig"] = o.sig
	}
	for k, v := range o.extra {
		desc[k] = v
	}
	if len(terms) <= 60 {
		desc["log"] = terms
	}
	p.sh.add(c, term, desc)
	c.rep.TracesValidated++
	c.count(o.props, strings.Join(labels, ";"), o.nontrivial, desc)
	c.dist("run_kind", o.kind)
	c.dist("log_length", pBucket(len(terms)))
	for _, pr := range res.problems {
		c.mismatch(o.sig, "harness/hook problem in run "+r.name+": "+pr, desc)
	}
	p.goPredicates(r, res, o, desc)
	p.n++
}

func pBucket(n int) string {
	switch {
	case n < 20:
		return "<20"
	case n < 60:
		return "20-59"
	case n < 150:
		return "60-149"
	case n < 400:
		return "150-399"
	}
	return ">=400"
}

// goPredicates evaluates C05..C10 on the run as seen from outside the engine.
func (p *pipeCtx) goPredicates(r *pRun, res *pResult, o pEvalOpts, desc map[string]any) {
	c := p.c
	r.mu.Lock()
	defer r.mu.Unlock()
	in := func(xs []int, x int) bool {
		i := sort.SearchInts(xs, x)
		return i < len(xs) && xs[i] == x
	}
	ids := make([]int, 0, len(r.ops))
	for id := range r.ops {
		ids = append(ids, id)
	}
	sort.Ints(ids)
	graceful := r.stopRes != nil && *r.stopRes
	for _, id := range ids {
		info := r.ops[id]
		got := r.recvd[id]
		// C05
		if p.wants("C05", "C08") {
			if len(got) > 1 {
				c.violation(o.sig, fmt.Sprintf("run %s: batch %d answered %d times", r.name, id, len(got)), desc)
			}
			if graceful && r.retAcc[id] && info.Ch != "nil" && len(got) != 1 {
				c.violation(o.sig, fmt.Sprintf("run %s: Stop returned nil but accepted batch %d (%s channel) received %d values", r.name, id, info.Ch, len(got)), desc)
			}
		}
		// C06
		if p.wants("C06") && info.Kind == "batch" && info.Rows > 0 {
			switch {
			case !info.Valid:
				if r.visAny[id] {
					c.violation(o.sig, fmt.Sprintf("run %s: rows of rejected batch %d are visible", r.name, id), desc)
				}
			case len(got) > 0 && got[0]:
				if !in(res.onceSame, id) || !in(res.onceFresh, id) || r.visBad[id] {
					c.violation(o.sig, fmt.Sprintf("run %s: batch %d acked nil but not visible exactly once (same engine %v, fresh engine %v, partial/dup %v)", r.name, id, in(res.onceSame, id), in(res.onceFresh, id), r.visBad[id]), desc)
				}
			case len(got) > 0 && !got[0]:
				if r.visAny[id] {
					c.violation(o.sig, fmt.Sprintf("run %s: batch %d acked with an error but its rows are visible", r.name, id), desc)
				}
			default:
				if r.visBad[id] {
					c.violation(o.sig, fmt.Sprintf("run %s: batch %d partially or doubly visible", r.name, id), desc)
				}
			}
		}
	}
	// C07: a query issued when id's nil ack arrived must see every non-empty batch whose call returned
	// before id's call began and that ended up acked nil; and such a batch must not be left unanswered
	if p.wants("C07") {
		for id, snap := range r.snapAt {
			subj := r.ops[id]
			if snap == nil || !(subj.Kind == "force" || (subj.Valid && subj.Rows > 0)) {
				continue
			}
			for _, a := range ids {
				ia := r.ops[a]
				rs, returned := r.retSeq[a]
				if a == id || ia.Kind != "batch" || ia.Rows == 0 || !r.retAcc[a] || !returned || rs >= r.callSeq[id] {
					continue
				}
				ga := r.recvd[a]
				if ia.Valid && len(ga) == 1 && ga[0] && !snap[a] {
					c.violation(o.sig, fmt.Sprintf("run %s: %d answered nil while earlier batch %d (acked nil) was not visible to a query", r.name, id, a), desc)
				}
				if len(ga) == 0 && (ia.Ch == "buf" || ia.Ch == "drain") && !r.fcancelled {
					c.violation(o.sig, fmt.Sprintf("run %s: %d answered nil while earlier batch %d was never answered", r.name, id, a), desc)
				}
			}
		}
	}
	// C08
	if p.wants("C08") {
		if r.hasEventLocked("worker.exit") {
			for _, id := range ids {
				if r.retAcc[id] && r.ops[id].Ch == "buf" && len(r.recvd[id]) == 0 {
					c.violation(o.sig, fmt.Sprintf("run %s: the flush worker exited but accepted batch %d (buffered channel) was met with silence", r.name, id), desc)
				}
			}
		}
		for _, k := range r.lateStore {
			c.violation(o.sig, fmt.Sprintf("run %s: store work after Stop returned its deadline error: %s", r.name, k), desc)
		}
	}
	// C09
	if p.wants("C09") && strings.HasPrefix(o.kind, "backpressure") {
		bound := r.bound()
		if r.peakUn > bound {
			c.violation(o.sig, fmt.Sprintf("run %s: %d accepted-but-unanswered batches (accepted calls minus values received, taken when the callers and receivers were quiet), bound %d", r.name, r.peakUn, bound), desc)
		}
		if int64(res.logPeak) > bound {
			c.violation(o.sig, fmt.Sprintf("run %s: %d requests sent into the pipeline without a delivery attempt (peak over the event log), bound %d", r.name, res.logPeak, bound), desc)
		}
	}
}

// ---------------------------------------------------------------- scenarios

func defaultOpts() pRunOpts {
	return pRunOpts{ICap: 4, MaxRows: 1000, MaxBytes: 1 << 20, PartRows: 1000, PartBytes: 1 << 20, MaxTime: time.Hour, HasAbort: true}
}

func simpleBatch(r *pRun, n int) func(id int) *pBatch {
	return func(id int) *pBatch {
		return r.makeBatch(id, make([]int, n), make([]int, n), -1, false)
	}
}

// D6: an engine that is never started.
func pDirectedD6(p *pipeCtx) {
	for variant := 0; variant < 2; variant++ {
		r := newPRun(p.c, fmt.Sprintf("never-started-%d", variant), defaultOpts())
		ctx := context.Background()
		r.ingest(ctx, "buf", simpleBatch(r, 2))
		r.ingest(ctx, "drain", simpleBatch(r, 1))
		if variant == 1 {
			r.goProducer(func() { r.flush(ctx) })
			time.Sleep(20 * time.Millisecond)
		}
		r.stopWithDeadline(2 * time.Second)
		res := r.finish(800*time.Millisecond, true)
		p.emit(r, res, pEvalOpts{props: []string{"C05", "C08"}, sig: "never-started-engine", nontrivial: true, kind: "directed-never-started"})
	}
}

// D5: Stop's deadline passes while the AfterFunc callback of its context runs late.
func pDirectedD5(p *pipeCtx) {
	o := defaultOpts()
	r := newPRun(p.c, "late-afterfunc", o)
	entered, release := r.plan.wedgeAt("Write", 0)
	ctx := context.Background()
	r.start()
	r.ingest(ctx, "buf", simpleBatch(r, 2))
	r.goProducer(func() { r.flush(ctx) })
	<-entered // the first flush is inside its first Write
	r.ingest(ctx, "buf", simpleBatch(r, 3))
	lc := newLateCtx()
	stopDone := make(chan struct{})
	go func() { r.stop(lc); close(stopDone) }()
	// wait until Stop is in its select: the actor has drained the second batch into a flush request
	waitFor(func() bool { return r.hasEvent("fq.try", 2) }, time.Second)
	r.stopCtxDone()
	lc.cancel()
	<-stopDone
	release() // the wedged store comes back after Stop returned its deadline error
	r.waitQuiet(time.Second, 40*time.Millisecond)
	lc.fire() // the AfterFunc callback finally runs
	res := r.finish(time.Second, true)
	p.emit(r, res, pEvalOpts{props: []string{"C08"}, sig: "stop-deadline-no-flushcancel", nontrivial: true, kind: "directed-late-afterfunc"})
}

// Stop honours its deadline although producers are blocked inside IngestRows: flush 1 is wedged in the store,
// flush 2 fills the flush queue, flush 3 blocks the actor, the next batch fills the ingest queue and one or two
// more IngestRows calls (contexts that never expire) block in their send. Stop with a short deadline must return
// soon after it, and the blocked callers must come back (accepted or refused) instead of hanging.
func pDirectedStopBlockedProducers(p *pipeCtx) {
	reps := p.c.pick(3, 10)
	for v := 0; v < reps; v++ {
		o := defaultOpts()
		o.ICap = 1
		o.MaxRows = 1
		ctx := context.Background()
		r := newPRun(p.c, fmt.Sprintf("stop-deadline-blocked-producers-%d", v), o)
		_, release := r.plan.wedgeAt([]string{"CreateFile", "Write", "Close", "Update"}[v%4], 0)
		r.start()
		for i := 0; i < 3; i++ {
			r.ingest(ctx, "buf", simpleBatch(r, 1))
		}
		if !waitFor(func() bool { return r.hasEvent("fq.try", 3) }, 2*time.Second) {
			p.c.dist("run_kind", "discarded-setup")
			release()
			r.stopWithDeadline(time.Second)
			r.finish(time.Second, false)
			continue
		}
		r.ingest(ctx, "buf", simpleBatch(r, 1)) // fills the ingest queue
		nBlocked := 1 + v%2
		for i := 0; i < nBlocked; i++ {
			r.goProducer(func() { r.ingest(ctx, "buf", simpleBatch(r, 1)) })
		}
		// the extra callers are inside IngestRows and have not got their request in
		waitFor(func() bool { return r.hasEvent("ingest.try", 4+nBlocked) }, time.Second)
		time.Sleep(20 * time.Millisecond)
		deadline := time.Duration(150+p.c.intn(150)) * time.Millisecond
		stopDone := make(chan struct{})
		t0 := time.Now()
		go func() { r.stopWithDeadline(deadline); close(stopDone) }()
		late := false
		select {
		case <-stopDone:
		case <-time.After(deadline + 3*time.Second):
			late = true
			p.c.violation("", fmt.Sprintf("run %s: Stop had not returned %v after its %v deadline expired (flush worker wedged in the store, %d callers blocked inside IngestRows)",
				r.name, time.Since(t0)-deadline, deadline, nBlocked), map[string]any{"deadline_ms": deadline.Milliseconds(), "blocked_callers": nBlocked})
		}
		release()
		if late {
			select {
			case <-stopDone:
			case <-time.After(10 * time.Second):
			}
		}
		res := r.finish(3*time.Second, true)
		p.emit(r, res, pEvalOpts{props: []string{"C08"}, nontrivial: true, kind: "directed-stop-blocked-producers",
			extra: map[string]any{"deadline_ms": deadline.Milliseconds(), "blocked_callers": nBlocked, "stop_late": late}})
	}
}

// D9: the deadline fires, an ack is given up, the workers exit, and only then Stop reaches its select.
func pDirectedD9(p *pipeCtx) {
	tries := p.c.pick(6, 30)
	for i := 0; i < tries; i++ {
		r := newPRun(p.c, fmt.Sprintf("stop-select-race-%d", i), defaultOpts())
		r.pauseStop = make(chan struct{})
		ctx := context.Background()
		r.start()
		r.ingest(ctx, "abandon", simpleBatch(r, 2))
		sctx, cancel := context.WithCancel(ctx)
		stopDone := make(chan struct{})
		go func() { r.stop(sctx); close(stopDone) }()
		waitFor(func() bool { return r.hasEvent("h.send", 0) && r.hasEventS("h.send", "Update") }, time.Second)
		r.stopCtxDone()
		cancel()
		waitFor(func() bool { return r.hasEvent("worker.exit", 1) }, time.Second)
		time.Sleep(5 * time.Millisecond)
		close(r.pauseStop)
		<-stopDone
		cancel()
		res := r.finish(time.Second, true)
		p.emit(r, res, pEvalOpts{props: []string{"C05", "C08"}, sig: "stop-nil-after-giveup", nontrivial: true, kind: "directed-stop-select"})
	}
}

// one flush request whose first waiter abandoned its unbuffered channel: the deadline frees the worker, and the
// waiters behind it that can receive must still get their value
func pDirectedNoSilence(p *pipeCtx) {
	for v := 0; v < 3; v++ {
		o := defaultOpts()
		r := newPRun(p.c, fmt.Sprintf("abandoned-first-waiter-%d", v), o)
		if v == 1 {
			r.plan.fail("Update", 0) // the error path delivers through the same helper
		}
		ctx := context.Background()
		r.start()
		r.ingest(ctx, "abandon", simpleBatch(r, 1))
		r.ingest(ctx, "buf", simpleBatch(r, 2))
		r.ingest(ctx, "drain", simpleBatch(r, 1))
		if v == 2 {
			r.ingest(ctx, "abandon", simpleBatch(r, 1))
			r.ingest(ctx, "buf", simpleBatch(r, 1))
		}
		r.stopWithDeadline(15 * time.Millisecond)
		res := r.finish(3*time.Second, true)
		p.emit(r, res, pEvalOpts{props: []string{"C08"}, nontrivial: true, kind: "directed-abandoned-waiter"})
	}
}

// Direct answers of the actor (empty batch: nil at once; unmarshalable row: error at once) on the shutdown
// drain path: the batches are still in ingestChan when Stop cancels the engine context (accepted before Start,
// or queued behind an actor that is blocked on the flush queue), and their callers use the usual
// `IngestRows(...); ...; <-done` pattern on an unbuffered channel, i.e. are not receiving at the instant the
// actor gets to the batch, but do receive from then on. With ctx cancelled and ingestChan non-empty the actor's
// select picks at random between the normal path and the drain, hence several target batches per run.
func pDirectedDrainAnswers(p *pipeCtx) {
	targets := func(r *pRun, ctx context.Context, n int) {
		invalid := func(id int) *pBatch { return r.makeBatch(id, make([]int, 2), make([]int, 2), 1, false) }
		for i := 0; i < n; i++ {
			ch := "ldrain"
			if i%5 == 4 {
				ch = "buf"
			}
			if i%2 == 0 {
				r.ingest(ctx, ch, simpleBatch(r, 0))
			} else {
				r.ingest(ctx, ch, invalid)
			}
		}
	}
	reps := p.c.pick(2, 8)
	for v := 0; v < 2*reps; v++ {
		o := defaultOpts()
		o.ICap = 8
		o.MaxRows = 1
		ctx := context.Background()
		if v%2 == 0 {
			// accepted before Start, never started: Stop runs the workers, which find ctx cancelled
			r := newPRun(p.c, fmt.Sprintf("drain-answers-never-started-%d", v/2), o)
			r.lateGate, r.lateBy = make(chan struct{}), time.Duration(15+p.c.intn(25))*time.Millisecond
			r.ingest(ctx, "drain", simpleBatch(r, 1))
			targets(r, ctx, 6)
			close(r.lateGate) // the callers get to their receive a little after Stop was called
			r.stopWithDeadline(20 * time.Second)
			res := r.finish(3*time.Second, true)
			p.emit(r, res, pEvalOpts{props: []string{"C05", "C08"}, nontrivial: true, kind: "directed-drain-answers"})
			continue
		}
		// running engine: flush 1 stalls in the store, flush 2 fills flushChan, flush 3 blocks the actor;
		// the targets queue up in ingestChan; Stop; the store comes back once ctx is cancelled
		r := newPRun(p.c, fmt.Sprintf("drain-answers-racing-stop-%d", v/2), o)
		r.lateGate, r.lateBy = make(chan struct{}), time.Duration(15+p.c.intn(25))*time.Millisecond
		_, release := r.plan.wedgeAt([]string{"CreateFile", "Write", "Close", "Update"}[p.c.intn(4)], 0)
		r.start()
		for i := 0; i < 3; i++ {
			r.ingest(ctx, "drain", simpleBatch(r, 1))
		}
		if !waitFor(func() bool { return r.hasEvent("fq.try", 3) }, 2*time.Second) {
			p.c.dist("run_kind", "discarded-setup")
			release()
			r.stopWithDeadline(time.Second)
			r.finish(time.Second, false)
			continue
		}
		targets(r, ctx, 7)
		stopDone := make(chan struct{})
		go func() { r.stopWithDeadline(20 * time.Second); close(stopDone) }()
		waitFor(func() bool { return r.hasEvent("ctx.cancel", 1) }, 2*time.Second)
		close(r.lateGate)
		release()
		select {
		case <-stopDone:
		case <-time.After(10 * time.Second):
		}
		res := r.finish(3*time.Second, true)
		p.emit(r, res, pEvalOpts{props: []string{"C05", "C08"}, nontrivial: true, kind: "directed-drain-answers"})
	}
}

// Flush is a barrier for everything accepted before it was called, also when several Flush calls and batches
// queue up behind an ingest actor that cannot move: flush 1 stalls in the store, flush 2 fills the flush queue,
// flush 3 blocks the actor; then, strictly one after the other, Flush #1, batch D, Flush #2, batch E, Flush #3
// enter (each caller on its own goroutine, the next one starts when the previous one's request is in the ingest
// queue or a moment has passed); the store comes back, but the flush that carries D (and E) stalls again until
// the Flush calls behind it had every chance to return. A visibility query runs the moment each nil arrives.
func pDirectedFlushBehindFlush(p *pipeCtx) {
	reps := p.c.pick(4, 12)
	for v := 0; v < reps; v++ {
		o := defaultOpts()
		o.ICap = 8
		o.MaxRows = 1
		ctx := context.Background()
		r := newPRun(p.c, fmt.Sprintf("flush-behind-flush-%d", v), o)
		r.snapMax = 16
		kind := []string{"CreateFile", "Write", "Close", "Update"}[v%4]
		_, release := r.plan.wedgeAt(kind, 0)
		// the flushes of A, B, C are CreateFile calls 0..2; D's is call 3, E's call 4
		_, releaseD := r.plan.wedgeAt("CreateFile", 3)
		_, releaseE := r.plan.wedgeAt("CreateFile", 4)
		r.start()
		for i := 0; i < 3; i++ {
			r.ingest(ctx, "drain", simpleBatch(r, 1))
		}
		if !waitFor(func() bool { return r.hasEvent("fq.try", 3) }, 2*time.Second) {
			p.c.dist("run_kind", "discarded-setup")
			release()
			releaseD()
			releaseE()
			r.stopWithDeadline(time.Second)
			r.finish(time.Second, false)
			continue
		}
		sent := 3
		var flushes sync.WaitGroup
		goFlush := func() {
			flushes.Add(1)
			r.goProducer(func() { defer flushes.Done(); r.flush(ctx) })
			sent++
			n := sent
			waitFor(func() bool { return r.hasEvent("ingest.sent", n) }, 150*time.Millisecond)
		}
		goFlush()
		r.ingest(ctx, "drain", simpleBatch(r, 1)) // D
		sent++
		goFlush()
		if v%2 == 1 {
			r.ingest(ctx, "buf", simpleBatch(r, 1)) // E
			sent++
			goFlush()
		}
		release()
		// the Flush calls that may return before D's rows are durable get the time to do so
		time.Sleep(time.Duration(60+p.c.intn(60)) * time.Millisecond)
		releaseD()
		time.Sleep(30 * time.Millisecond)
		releaseE()
		fdone := make(chan struct{})
		go func() { flushes.Wait(); close(fdone) }()
		select {
		case <-fdone:
		case <-time.After(10 * time.Second):
		}
		r.stopWithDeadline(20 * time.Second)
		res := r.finish(3*time.Second, true)
		p.emit(r, res, pEvalOpts{props: []string{"C07"}, nontrivial: true, kind: "directed-flush-behind-flush"})
	}
}

// Every waiter of a flush is answered on every failure path of handleFlush, including the paths where the
// cleanup call after the first failure fails too (Abort / Close-instead-of-Abort / TombstoneFile), for writers
// with and without Abort; then a graceful Stop. Flush callers run on their own goroutine: one that is never
// answered must show up as a finding, not hang the harness.
func pDirectedCleanupFaults(p *pipeCtx) {
	type fp = pFaultPoint
	type fset struct {
		faults []fp
		abort  []bool // writer with / without Abort
	}
	both, with, without := []bool{true, false}, []bool{true}, []bool{false}
	sets := []fset{
		{[]fp{{"Update", 0}, {"Tombstone", 0}}, both},
		{[]fp{{"Close", 0}, {"Tombstone", 0}}, both},
		{[]fp{{"Close", 0}, {"Abort", 0}}, with},
		{[]fp{{"Close", 0}, {"Abort", 0}, {"Tombstone", 0}}, with},
		{[]fp{{"Write", 0}, {"Abort", 0}}, with},
		{[]fp{{"Write", 1}, {"Tombstone", 0}}, both},
		{[]fp{{"Write", 2}, {"Abort", 0}, {"Tombstone", 0}}, with},
		{[]fp{{"Write", 0}, {"Close", 0}}, without},                   // writer without Abort: Close is the cleanup
		{[]fp{{"Write", 1}, {"Close", 0}, {"Tombstone", 0}}, without}, // ... and the tombstone after it
		{[]fp{{"CreateFile", 0}}, with},
		{[]fp{{"Update", 0}, {"Tombstone", 0}, {"Update", 1}, {"Tombstone", 1}}, with},
	}
	for i, fs0 := range sets {
		set := fs0.faults
		for _, hasAbort := range fs0.abort {
			o := defaultOpts()
			o.HasAbort = hasAbort
			o.Partitioned = true
			r := newPRun(p.c, fmt.Sprintf("cleanup-faults-%d-%v", i, hasAbort), o)
			r.flushWait = 1500 * time.Millisecond
			fs := make([]string, len(set))
			for j, f := range set {
				r.plan.fail(f.kind, f.nth)
				fs[j] = fmt.Sprintf("%s#%d", f.kind, f.nth)
			}
			ctx := context.Background()
			r.start()
			two := func(id int) *pBatch { return r.makeBatch(id, []int{0, 1}, []int{0, 0}, -1, true) }
			one := func(n int) func(id int) *pBatch {
				return func(id int) *pBatch { return r.makeBatch(id, make([]int, n), make([]int, n), -1, true) }
			}
			r.ingest(ctx, "buf", two)
			r.ingest(ctx, "drain", one(1))
			r.ingest(ctx, "nil", one(1))
			r.flush(ctx)
			r.ingest(ctx, []string{"drain", "buf"}[i%2], two)
			r.flush(ctx)
			r.ingest(ctx, "buf", one(2))
			r.stopWithDeadline(20 * time.Second)
			res := r.finish(3*time.Second, true)
			p.emit(r, res, pEvalOpts{props: []string{"C05", "C08"}, nontrivial: true, kind: "directed-cleanup-faults",
				extra: map[string]any{"faults": fs, "has_abort": hasAbort}})
		}
	}
}

func waitFor(cond func() bool, max time.Duration) bool {
	deadline := time.Now().Add(max)
	for time.Now().Before(deadline) {
		if cond() {
			return true
		}
		time.Sleep(time.Millisecond)
	}
	return cond()
}

func (r *pRun) hasEvent(kind string, atLeast int) bool {
	r.mu.Lock()
	defer r.mu.Unlock()
	n := 0
	for _, e := range r.evs {
		if e.Kind == kind {
			n++
		}
	}
	if atLeast == 0 {
		return n > 0
	}
	return n >= atLeast
}

func (r *pRun) hasEventLocked(kind string) bool {
	for _, e := range r.evs {
		if e.Kind == kind {
			return true
		}
	}
	return false
}

func (r *pRun) hasEventS(kind, s string) bool {
	r.mu.Lock()
	defer r.mu.Unlock()
	for _, e := range r.evs {
		if e.Kind == kind && e.S == s {
			return true
		}
	}
	return false
}

// random concurrent workload
func pRandomWorkload(p *pipeCtx, idx int) {
	c := p.c
	rng := c.rng
	o := defaultOpts()
	o.ICap = 1 + rng.IntN(4)
	o.MaxRows = []int{2, 3, 5, 8, 1000}[rng.IntN(5)]
	o.PartRows = []int{2, 4, 1000}[rng.IntN(3)]
	o.MaxBytes = []int{120, 400, 1 << 20}[rng.IntN(3)]
	o.PartBytes = []int{150, 1 << 20}[rng.IntN(2)]
	o.Partitioned = rng.IntN(2) == 0
	o.HasAbort = rng.IntN(4) != 0
	o.HonorCtx = rng.IntN(2) == 0
	o.Compression = []string{"none", "none", "snappy", "zstd"}[rng.IntN(4)]
	r := newPRun(c, fmt.Sprintf("random-%d", idx), o)
	r.lateBy = time.Duration(1+rng.IntN(10)) * time.Millisecond
	nProd := 1 + rng.IntN(8)
	if rng.IntN(3) == 0 {
		nProd = 1 + rng.IntN(2)
	}
	// stores: delays and a few faults
	if rng.IntN(2) == 0 {
		for _, k := range []string{"CreateFile", "Write", "Close", "Update"} {
			if rng.IntN(3) == 0 {
				r.plan.delay[k] = time.Duration(rng.IntN(1500)) * time.Microsecond
			}
		}
	}
	nFaults := 0
	if rng.IntN(3) == 0 {
		kinds := []string{"CreateFile", "Write", "Close", "Update", "Abort", "Tombstone"}
		for i := 0; i < 1+rng.IntN(3); i++ {
			r.plan.fail(kinds[rng.IntN(len(kinds))], rng.IntN(6))
			nFaults++
		}
	}
	startMode := rng.IntN(10) // 0: never, 1-2: late, else before
	stopMode := rng.IntN(10)  // 0-1: never, 2-5 graceful, 6-8 deadline, 9 expired
	if startMode == 0 && stopMode <= 1 {
		stopMode = 2
	}
	wedged := false
	var releaseWedge func()
	if stopMode >= 6 && rng.IntN(2) == 0 {
		_, releaseWedge = r.plan.wedgeAt([]string{"CreateFile", "Write", "Close", "Update"}[rng.IntN(4)], rng.IntN(3))
		wedged = true
	}
	if startMode >= 3 {
		r.start()
	}
	seeds := make([]uint64, nProd)
	for i := range seeds {
		seeds[i] = rng.Uint64()
	}
	abandonOK := stopMode >= 6 // an abandoned unbuffered channel wedges the pipeline until a deadline
	for pi := 0; pi < nProd; pi++ {
		prng := rand.New(rand.NewPCG(seeds[pi], 7))
		r.goProducer(func() {
			nOps := 2 + prng.IntN(7)
			for k := 0; k < nOps; k++ {
				if prng.IntN(4) == 0 {
					time.Sleep(time.Duration(prng.IntN(800)) * time.Microsecond)
				}
				ctx := context.Background()
				var cancel context.CancelFunc = func() {}
				if prng.IntN(4) == 0 || startMode < 3 {
					ctx, cancel = context.WithTimeout(ctx, time.Duration(2+prng.IntN(40))*time.Millisecond)
				}
				switch x := prng.IntN(20); {
				case x < 13:
					ch := []string{"buf", "buf", "drain", "drain", "nil"}[prng.IntN(5)]
					if abandonOK && prng.IntN(12) == 0 {
						ch = "abandon"
					}
					if prng.IntN(9) == 0 {
						ch = "ldrain" // the caller gets to its receive a little later
					}
					nRows := prng.IntN(5)
					if prng.IntN(8) == 0 {
						nRows = 0
					}
					bad := -1
					if nRows > 0 && prng.IntN(9) == 0 {
						bad = prng.IntN(nRows)
					}
					parts, pad := make([]int, nRows), make([]int, nRows)
					for i := range parts {
						parts[i] = prng.IntN(3)
						if prng.IntN(5) == 0 {
							pad[i] = prng.IntN(200)
						}
					}
					r.ingest(ctx, ch, func(id int) *pBatch { return r.makeBatch(id, parts, pad, bad, o.Partitioned) })
				case x < 17:
					if startMode == 0 {
						ctx2, c2 := context.WithTimeout(context.Background(), 30*time.Millisecond)
						_ = ctx2
						c2()
					}
					r.flush(ctx)
				case x < 19:
					r.start()
				default:
					time.Sleep(time.Duration(prng.IntN(3)) * time.Millisecond)
				}
				cancel()
			}
		})
	}
	if startMode == 1 || startMode == 2 {
		time.Sleep(time.Duration(rng.IntN(4)) * time.Millisecond)
		r.start()
	}
	stopKind := "none"
	switch {
	case stopMode <= 1:
	case stopMode <= 5:
		time.Sleep(time.Duration(rng.IntN(6000)) * time.Microsecond)
		stopKind = "graceful"
		r.stopWithDeadline(20 * time.Second)
	case stopMode <= 8:
		time.Sleep(time.Duration(rng.IntN(6000)) * time.Microsecond)
		stopKind = "deadline"
		r.stopWithDeadline(time.Duration(1+rng.IntN(15)) * time.Millisecond)
	default:
		time.Sleep(time.Duration(rng.IntN(3000)) * time.Microsecond)
		stopKind = "expired"
		r.stopWithDeadline(0)
	}
	if releaseWedge != nil {
		time.Sleep(time.Duration(rng.IntN(5)) * time.Millisecond)
		releaseWedge()
	}
	res := r.finish(3*time.Second, true)
	c.dist("stop", stopKind)
	c.dist("start", []string{"never", "late", "late", "before"}[minInt(startMode, 3)])
	c.dist("producers", fmt.Sprint(nProd))
	nontrivial := nProd >= 2 || stopKind != "none" || nFaults > 0
	sig := ""
	p.emit(r, res, pEvalOpts{props: []string{"C05", "C06", "C07", "C08"}, sig: sig, nontrivial: nontrivial, kind: "random",
		extra: map[string]any{"producers": nProd, "stop": stopKind, "start_mode": startMode, "faults": nFaults, "wedged": wedged}})
}

func minInt(a, b int) int {
	if a < b {
		return a
	}
	return b
}

// ---------------------------------------------------------------- C06: fault enumeration

type pFaultPoint struct {
	kind string
	nth  int
}

// one history: three flushes that write a file each, an invalid batch in between, queries along the way
func pFaultRun(p *pipeCtx, name string, hasAbort bool, faults []pFaultPoint, shape int) {
	pFaultRunOn(p, name, hasAbort, faults, shape, false)
}

// onFS: FileSystemDataStore as DataStore and MetaStore (what a query sees is what the files themselves say)
func pFaultRunOn(p *pipeCtx, name string, hasAbort bool, faults []pFaultPoint, shape int, onFS bool) {
	o := defaultOpts()
	o.HasAbort = hasAbort
	o.Partitioned = true
	if onFS {
		o.FSDir = filepath.Join(p.c.Out, "pfs-"+name)
		os.RemoveAll(o.FSDir)
		defer os.RemoveAll(o.FSDir)
	}
	r := newPRun(p.c, name, o)
	for _, f := range faults {
		r.plan.fail(f.kind, f.nth)
	}
	ctx := context.Background()
	r.start()
	chs := []string{"buf", "drain", "buf", "drain"}
	ingest := func(n, nparts, bad int, ch string) {
		parts, pad := make([]int, n), make([]int, n)
		for i := range parts {
			parts[i] = i % nparts
		}
		r.ingest(ctx, ch, func(id int) *pBatch { return r.makeBatch(id, parts, pad, bad, true) })
	}
	ingest(2, 1, -1, chs[shape%4])
	r.flush(ctx)
	r.queryVisible(r.eng)
	ingest(4, 2, 1+shape%3, "buf") // unmarshalable row: first or a later row of its partition
	ingest(3, 2+shape%2, -1, chs[(shape+1)%4])
	if shape%3 == 0 {
		ingest(1, 1, -1, "buf") // shares the flush (and the fate) of the previous batch
	}
	r.flush(ctx)
	r.queryVisible(r.eng)
	ingest(2, 1, -1, chs[(shape+2)%4])
	r.stopWithDeadline(20 * time.Second)
	res := r.finish(3*time.Second, true)
	fs := make([]string, len(faults))
	for i, f := range faults {
		fs[i] = fmt.Sprintf("%s#%d", f.kind, f.nth)
		p.c.dist("fault_kind", f.kind)
	}
	p.emit(r, res, pEvalOpts{props: []string{"C06"}, nontrivial: len(faults) > 0, kind: "fault-enum",
		extra: map[string]any{"faults": fs, "has_abort": hasAbort, "shape": shape, "fs_stores": onFS}})
}

func pFaultEnumeration(p *pipeCtx) {
	// positions: 3 flushes; one partition => 8 Write calls per file (block, filter region, 6 footer writes)
	var singles []pFaultPoint
	for i := 0; i < 3; i++ {
		singles = append(singles, pFaultPoint{"CreateFile", i}, pFaultPoint{"Close", i}, pFaultPoint{"Update", i})
	}
	nWrites := 28
	for i := 0; i < nWrites; i++ {
		singles = append(singles, pFaultPoint{"Write", i})
	}
	n := 0
	pFaultRun(p, "fault-none", true, nil, 0)
	for _, f := range singles {
		if !p.c.thorough() && f.kind == "Write" && f.nth%3 == 2 && f.nth > 9 {
			continue // quick tier: two of every three later write positions
		}
		pFaultRun(p, fmt.Sprintf("fault-%s-%d", f.kind, f.nth), n%4 != 3, []pFaultPoint{f}, n)
		n++
	}
	// the same single write faults with FileSystemDataStore as both stores: visibility then rests on what
	// reached the file (a footer that was not written completely makes the file invisible)
	for _, f := range singles {
		if f.kind != "Write" || (!p.c.thorough() && f.nth%3 == 2 && f.nth > 9) {
			continue
		}
		pFaultRunOn(p, fmt.Sprintf("fault-fs-%s-%d", f.kind, f.nth), true, []pFaultPoint{f}, n, true)
		n++
	}
	// cleanup calls only happen after a first failure: pairs
	var pairs [][]pFaultPoint
	for _, first := range []pFaultPoint{{"Write", 0}, {"Write", 9}, {"Close", 1}, {"Update", 0}, {"Update", 2}} {
		for _, second := range []pFaultPoint{{"Abort", 0}, {"Tombstone", 0}} {
			pairs = append(pairs, []pFaultPoint{first, second})
		}
	}
	pairs = append(pairs, []pFaultPoint{{"Write", 3}, {"Abort", 0}, {"Tombstone", 0}}, []pFaultPoint{{"CreateFile", 0}, {"CreateFile", 1}},
		[]pFaultPoint{{"Update", 0}, {"Update", 1}}, []pFaultPoint{{"Close", 0}, {"Update", 1}})
	if p.c.thorough() {
		for i := 0; i < len(singles); i++ {
			for j := i + 1; j < len(singles); j += 1 + p.c.intn(3) {
				pairs = append(pairs, []pFaultPoint{singles[i], singles[j]})
			}
		}
	}
	for i, pr := range pairs {
		pFaultRun(p, fmt.Sprintf("fault-pair-%d", i), i%3 != 2, pr, i)
	}
}

// ---------------------------------------------------------------- C09: stalled stores

// pStall wedges one flush-path store call of the run, of any call kind. Abort and TombstoneFile are
// only called on a failure path, so a fault is planted in front of them. file is the index of the flush
// (counting those that write a file) during which the stall happens.
func pStall(r *pRun, rng *rand.Rand, kinds []string) (desc string, file int, release func()) {
	kind := kinds[rng.IntN(len(kinds))]
	nth := rng.IntN(2)
	switch kind {
	case "Write":
		file = 0 // both positions lie in the first file
	case "Abort":
		nth = 0
		r.plan.fail("Write", rng.IntN(3))
	case "Tombstone":
		nth = 0
		if r.spec.HasAbort || rng.IntN(2) == 0 {
			r.plan.fail("Update", 0) // published, never referenced: tombstone the orphan
		} else {
			r.plan.fail("Close", 0) // no Abort on this writer: Close failed, tombstone
		}
	default:
		file = nth
	}
	_, release = r.plan.wedgeAt(kind, nth)
	return fmt.Sprintf("%s#%d", kind, nth), file, release
}

var pStallKinds = []string{"CreateFile", "Write", "Close", "Update", "Abort", "Tombstone"}

// busy producers run into a stall
func pBackpressure(p *pipeCtx, idx int) {
	rng := p.c.rng
	o := defaultOpts()
	o.ICap = 1 + rng.IntN(3)
	o.MaxRows = 1 + rng.IntN(4)
	o.Partitioned = rng.IntN(2) == 0
	r := newPRun(p.c, fmt.Sprintf("stall-%d", idx), o)
	r.noSnap = true
	stalled, _, release := pStall(r, rng, pStallKinds)
	r.start()
	nProd := 1 + rng.IntN(8)
	seeds := make([]uint64, nProd)
	for i := range seeds {
		seeds[i] = rng.Uint64()
	}
	mixed := idx%2 == 1 // also empty and unmarshalable batches, buffered channels
	var timeouts atomic.Int64
	for pi := 0; pi < nProd; pi++ {
		prng := rand.New(rand.NewPCG(seeds[pi], 9))
		r.goProducer(func() {
			n := 4 + prng.IntN(10)
			for k := 0; k < n; k++ {
				ctx, cancel := context.WithTimeout(context.Background(), time.Duration(5+prng.IntN(15))*time.Millisecond)
				build, ch := simpleBatch(r, 1), "drain"
				if mixed {
					ch = []string{"drain", "buf"}[prng.IntN(2)]
					switch x := prng.IntN(10); {
					case x < 3:
						build = simpleBatch(r, 0)
					case x < 4:
						build = func(id int) *pBatch { return r.makeBatch(id, make([]int, 2), make([]int, 2), prng.IntN(2), false) }
					case x < 6:
						build = simpleBatch(r, 2)
					}
				}
				_, err := r.ingest(ctx, ch, build)
				cancel()
				if err != nil {
					timeouts.Add(1)
				}
			}
		})
	}
	// let the producers run into the stall
	waitFor(func() bool { return r.hung.Load() == 0 }, 3*time.Second)
	// every producer gave up: the pipeline is as full as the stall lets it get; once the receivers
	// have caught up the difference below is exact
	r.waitQuiet(time.Second, 20*time.Millisecond)
	r.pollBuffered()
	r.sampleUn()
	release()
	r.stopWithDeadline(20 * time.Second)
	res := r.finish(3*time.Second, true)
	p.c.dist("stall_kind", stalled)
	p.emit(r, res, pEvalOpts{props: []string{"C09"}, nontrivial: timeouts.Load() > 0, kind: "backpressure",
		extra: map[string]any{"producers": nProd, "stalled": stalled, "blocked_calls": timeouts.Load(), "peak_unanswered": r.peakUn, "log_peak": res.logPeak, "bound": r.bound(), "mixed": mixed}})
}

// producers that trickle: after a batch was buffered nothing arrives until the actor's 100 ms ticker has seen
// the buffer older than MaxBufferedTime, so the flush requests are issued from the ticker case (a busy
// producer only ever exercises the in-request age check and the row/byte limits). Behind a stalled store
// every idle gap must still end with the actor blocked on the full flush queue.
func pBackpressureTrickle(p *pipeCtx, idx int) {
	rng := p.c.rng
	o := defaultOpts()
	o.ICap = 1 + rng.IntN(2)
	o.MaxRows = 2 + rng.IntN(2)
	o.MaxTime = time.Duration(5+rng.IntN(10)) * time.Millisecond
	o.Partitioned = rng.IntN(2) == 0
	r := newPRun(p.c, fmt.Sprintf("stall-trickle-%d", idx), o)
	r.noSnap = true
	stalled, _, release := pStall(r, rng, []string{pStallKinds[idx%len(pStallKinds)]})
	r.start()
	gap := 100*time.Millisecond + o.MaxTime + 20*time.Millisecond
	attempts := int(r.bound()) + 3
	blocked, calls := 0, 0
	tick0 := 0
	for k := 0; k < attempts && blocked < 2; k++ {
		ctx, cancel := context.WithTimeout(context.Background(), 40*time.Millisecond)
		_, err := r.ingest(ctx, []string{"drain", "buf"}[rng.IntN(2)], simpleBatch(r, 1))
		cancel()
		calls++
		if err != nil {
			blocked++ // two refusals in a row: the pipeline is full
		} else {
			blocked = 0
		}
		time.Sleep(gap)
		// callers and receivers have been quiet for a whole gap
		r.pollBuffered()
		r.sampleUn()
	}
	r.mu.Lock()
	for _, e := range r.evs {
		if e.Kind == "actor.tick.flush" {
			tick0++
		}
	}
	r.mu.Unlock()
	release()
	r.stopWithDeadline(20 * time.Second)
	res := r.finish(3*time.Second, true)
	p.c.dist("stall_kind", stalled)
	p.c.dist("ticker_flushes_under_stall", fmt.Sprint(minInt(tick0, 4)))
	p.emit(r, res, pEvalOpts{props: []string{"C09"}, nontrivial: tick0 > 0 && blocked > 0, kind: "backpressure-trickle",
		extra: map[string]any{"stalled": stalled, "calls": calls, "ticker_flushes": tick0, "peak_unanswered": r.peakUn, "log_peak": res.logPeak, "bound": r.bound(),
			"max_buffered_time_ms": o.MaxTime.Milliseconds()}})
}

// empty (and unmarshalable) batches with done channels sent while the actor holds a partial buffer behind a
// stalled store: they carry no rows, so no limit ever stops them; each must be answered in the actor's hand.
func pBackpressureEmpties(p *pipeCtx, idx int) {
	rng := p.c.rng
	o := defaultOpts()
	o.ICap = 1 + rng.IntN(3)
	o.MaxRows = 2 + rng.IntN(4)
	o.Partitioned = rng.IntN(2) == 0
	r := newPRun(p.c, fmt.Sprintf("stall-empties-%d", idx), o)
	r.noSnap = true
	stalled, file, release := pStall(r, rng, pStallKinds)
	r.start()
	// single-row batches: (file) flushes complete, one stalls in the worker, one waits in flushChan,
	// k rows stay in the actor's buffer; the actor is idle
	k := 1 + rng.IntN(o.MaxRows-1)
	rows := (file+2)*o.MaxRows + k
	for i := 0; i < rows; i++ {
		ctx, cancel := context.WithTimeout(context.Background(), 200*time.Millisecond)
		r.ingest(ctx, []string{"drain", "buf"}[rng.IntN(2)], simpleBatch(r, 1))
		cancel()
	}
	r.waitQuiet(time.Second, 10*time.Millisecond)
	r.pollBuffered()
	r.sampleUn()
	nEmpty := int(r.bound()) + 2 + rng.IntN(6)
	nProd := 1 + rng.IntN(3)
	var sentEmpty, refused atomic.Int64
	for pi := 0; pi < nProd; pi++ {
		prng := rand.New(rand.NewPCG(rng.Uint64(), 11))
		share := nEmpty / nProd
		if pi == 0 {
			share += nEmpty % nProd
		}
		r.goProducer(func() {
			for i := 0; i < share; i++ {
				ctx, cancel := context.WithTimeout(context.Background(), 30*time.Millisecond)
				build := simpleBatch(r, 0)
				if prng.IntN(6) == 0 {
					build = func(id int) *pBatch { return r.makeBatch(id, make([]int, 1), make([]int, 1), 0, false) }
				}
				_, err := r.ingest(ctx, []string{"drain", "buf", "buf"}[prng.IntN(3)], build)
				cancel()
				if err == nil {
					sentEmpty.Add(1)
				} else {
					refused.Add(1)
				}
			}
		})
	}
	waitFor(func() bool { return r.hung.Load() == 0 }, 5*time.Second)
	r.waitQuiet(time.Second, 20*time.Millisecond)
	r.pollBuffered()
	r.sampleUn()
	release()
	r.stopWithDeadline(20 * time.Second)
	res := r.finish(3*time.Second, true)
	p.c.dist("stall_kind", stalled)
	p.emit(r, res, pEvalOpts{props: []string{"C09"}, nontrivial: sentEmpty.Load() > 0, kind: "backpressure-empties",
		extra: map[string]any{"stalled": stalled, "row_batches": rows, "rowless_batches_accepted": sentEmpty.Load(), "rowless_batches_refused": refused.Load(),
			"peak_unanswered": r.peakUn, "log_peak": res.logPeak, "bound": r.bound()}})
}

// ---------------------------------------------------------------- C10: limits and time

func pLimits(p *pipeCtx, idx int) {
	rng := p.c.rng
	o := defaultOpts()
	o.MaxRows = 2 + rng.IntN(8)
	o.MaxBytes = 80 + rng.IntN(600)
	o.PartRows = 1 + rng.IntN(5)
	o.PartBytes = 60 + rng.IntN(300)
	if rng.IntN(3) == 0 {
		o.PartRows, o.PartBytes = 1000, 1<<20
	}
	if rng.IntN(3) == 0 {
		o.MaxBytes = 1 << 20
	}
	o.Partitioned = rng.IntN(4) != 0
	// the limits are defined on uncompressed sizes whatever the row data compression is
	o.Compression = []string{"none", "snappy", "zstd"}[rng.IntN(3)]
	nParts := 1 + rng.IntN(5)
	// profiles: 0-2 mixed batches; 3 = only a partition byte limit can be reached (padded rows);
	// 4 = burst: every batch reaches a partition limit while the flush worker is still busy with the
	// previous ones (slow, responsive stores), so limit-triggered flushes meet a full flush queue
	profile := idx % 5
	switch profile {
	case 3:
		o.MaxRows, o.PartRows, o.MaxBytes = 1000, 1000, 1<<20
		o.PartBytes = 300 + rng.IntN(1500)
		o.Partitioned = true
	case 4:
		o.MaxRows, o.MaxBytes = 1000, 1<<20
		o.Partitioned = true
		if rng.IntN(2) == 0 {
			o.PartRows, o.PartBytes = 1+rng.IntN(4), 1<<20
		} else {
			o.PartRows, o.PartBytes = 1000, 100+rng.IntN(300)
		}
	}
	r := newPRun(p.c, fmt.Sprintf("limits-%d", idx), o)
	r.noSnap = true
	slow := profile == 4 || rng.IntN(3) == 0
	if slow {
		r.plan.delay[[]string{"CreateFile", "Close", "Update"}[rng.IntN(3)]] = time.Duration(2+rng.IntN(5)) * time.Millisecond
	}
	ctx := context.Background()
	r.start()
	nBatches := 6 + rng.IntN(14)
	if profile == 4 {
		nBatches = 5 + rng.IntN(5)
	}
	explicit := 0
	for b := 0; b < nBatches; b++ {
		n := 1 + rng.IntN(4)
		if rng.IntN(6) == 0 {
			n = 1 + rng.IntN(12) // crosses several limits at once
		}
		if profile == 4 {
			n = minInt(o.PartRows, 4)
			if o.PartRows == 1000 {
				n = 1
			}
		}
		parts, pad := make([]int, n), make([]int, n)
		one := rng.IntN(nParts)
		for i := range parts {
			parts[i] = rng.IntN(nParts)
			switch rng.IntN(6) {
			case 0:
				pad[i] = rng.IntN(400) // oversized row
			case 1:
				pad[i] = rng.IntN(30)
			}
			switch profile {
			case 3:
				pad[i] = 40 + rng.IntN(200)
			case 4:
				parts[i] = one
				pad[i] = 0
				if o.PartRows == 1000 {
					pad[i] = o.PartBytes // one such row reaches the byte limit
				}
			}
		}
		bad := -1
		if rng.IntN(12) == 0 && profile != 4 {
			bad = rng.IntN(n)
		}
		r.ingest(ctx, []string{"buf", "nil", "drain"}[rng.IntN(3)], func(id int) *pBatch { return r.makeBatch(id, parts, pad, bad, o.Partitioned) })
		if rng.IntN(10) == 0 && profile != 4 {
			r.flush(ctx)
			explicit++
		}
	}
	// Nothing else arrives, no Flush, no Stop, MaxBufferedTime cannot elapse, the stores respond: what is
	// still unanswered now is what the actor still buffers, and that must be below every limit.
	p.bufferedBelowLimits(r, map[string]any{"cfg": r.spec, "compression": o.Compression, "profile": profile})
	if rng.IntN(2) == 0 {
		r.flush(ctx)
	}
	r.stopWithDeadline(20 * time.Second)
	res := r.finish(3*time.Second, true)
	fl, nofl := 0, 0
	for _, it := range res.items {
		switch it.term {
		case "EL (LActorBuffer true)":
			fl++
		case "EL (LActorBuffer false)":
			nofl++
		}
	}
	p.c.dist("limit_flushes", pBucket(fl))
	p.c.dist("compression", o.Compression)
	p.c.dist("limits_profile", fmt.Sprint(profile))
	p.emit(r, res, pEvalOpts{props: []string{"C10"}, nontrivial: fl > 0 && (nofl > 0 || profile == 4), kind: "limits",
		extra: map[string]any{"limit_flushes": fl, "buffered_without_flush": nofl, "partitions": nParts, "compression": o.Compression, "profile": profile, "slow_stores": slow, "explicit_flushes": explicit}})
}

// bufferedBelowLimits waits until the run is quiet and evaluates the limits on the accepted valid batches
// with a done channel that have not been answered (batches with a nil channel cannot be observed and are
// left out, which only makes the sums smaller). The stores are responsive, so a flush that was issued
// completes; the predicate is re-evaluated for a generous allowance before it counts.
func (p *pipeCtx) bufferedBelowLimits(r *pRun, desc map[string]any) {
	if !p.wants("C10") {
		return
	}
	var what string
	deadline := time.Now().Add(2 * time.Second)
	for {
		r.waitQuiet(time.Second, 15*time.Millisecond)
		r.pollBuffered()
		what = ""
		var rows, bytes int64
		parts := map[int64][2]int64{}
		var held []int
		r.mu.Lock()
		for id, info := range r.ops {
			if info.Kind != "batch" || !info.Valid || info.Rows == 0 || info.Ch == "nil" || !r.retAcc[id] || len(r.recvd[id]) > 0 {
				continue
			}
			held = append(held, id)
			for _, c := range info.Contrib {
				rows += c[1]
				bytes += c[2]
				pp := parts[c[0]]
				parts[c[0]] = [2]int64{pp[0] + c[1], pp[1] + c[2]}
			}
		}
		r.mu.Unlock()
		sort.Ints(held)
		s := r.spec
		switch {
		case rows >= int64(s.MaxRows):
			what = fmt.Sprintf("%d rows >= MaxBufferedRows %d", rows, s.MaxRows)
		case bytes >= int64(s.MaxBytes):
			what = fmt.Sprintf("%d bytes >= MaxBufferedBytes %d", bytes, s.MaxBytes)
		}
		for pid, v := range parts {
			if v[0] >= int64(s.PartRows) {
				what = fmt.Sprintf("partition %d: %d rows >= MaxRowGroupRows %d", pid, v[0], s.PartRows)
			} else if v[1] >= int64(s.PartBytes) {
				what = fmt.Sprintf("partition %d: %d uncompressed bytes >= MaxRowGroupBytes %d", pid, v[1], s.PartBytes)
			}
		}
		if what == "" || time.Now().After(deadline) {
			if what != "" {
				desc["unanswered_batches"] = held
				p.c.violation("", fmt.Sprintf("run %s: limit reached and not flushed: with responsive stores, no Flush, no Stop and nothing else arriving, the unanswered batches %v hold %s", r.name, held, what), desc)
			}
			return
		}
		time.Sleep(100 * time.Millisecond)
	}
}

// time-triggered flush: no Flush, no Stop until the ack arrived
func pTimeFlush(p *pipeCtx) {
	n := p.c.pick(3, 25)
	for i := 0; i < n; i++ {
		o := defaultOpts()
		o.MaxTime = time.Duration(20+p.c.intn(60)) * time.Millisecond
		r := newPRun(p.c, fmt.Sprintf("time-%d", i), o)
		r.start()
		t0 := time.Now()
		id, _ := r.ingest(context.Background(), "drain", simpleBatch(r, 2))
		if i%2 == 1 {
			time.Sleep(time.Duration(p.c.intn(15)) * time.Millisecond)
			r.ingest(context.Background(), "drain", simpleBatch(r, 1))
		}
		answered := waitFor(func() bool { r.mu.Lock(); defer r.mu.Unlock(); return len(r.recvd[id]) > 0 }, 5*time.Second)
		lat := time.Since(t0)
		desc := map[string]any{"max_buffered_time_ms": o.MaxTime.Milliseconds(), "latency_ms": lat.Milliseconds()}
		if !answered {
			p.c.violation("", fmt.Sprintf("run %s: batch not answered %v after ingest with MaxBufferedTime %v, responsive stores, no Flush/Stop", r.name, lat, o.MaxTime), desc)
		} else if p.c.thorough() && lat > o.MaxTime+100*time.Millisecond+400*time.Millisecond {
			p.c.violation("", fmt.Sprintf("run %s: ack latency %v exceeds MaxBufferedTime %v + tick + allowance", r.name, lat, o.MaxTime), desc)
		}
		r.stopWithDeadline(20 * time.Second)
		res := r.finish(3*time.Second, true)
		p.emit(r, res, pEvalOpts{props: []string{"C10"}, nontrivial: true, kind: "time-flush", extra: desc})
	}
	n = p.c.pick(6, 40)
	for i := 0; i < n; i++ {
		pTimeFlushTrickle(p, i)
	}
	n = p.c.pick(6, 30)
	for i := 0; i < n; i++ {
		pTimeAfterEarlierFlush(p, i)
	}
	n = p.c.pick(3, 10)
	for i := 0; i < n; i++ {
		pLimitFlushDuringMerge(p, i)
	}
}

// slowOpenStore delays OpenFile (what a merge does once per source block); everything else passes through.
type slowOpenStore struct {
	bs.DataStore
	delay atomic.Int64 // nanoseconds
}

func (s *slowOpenStore) OpenFile(ctx context.Context, ptr []byte) (io.ReadSeekCloser, error) {
	if d := time.Duration(s.delay.Load()); d > 0 {
		time.Sleep(d)
	}
	return s.DataStore.OpenFile(ctx, ptr)
}

// Maintenance does not hold up acknowledgements: while a Merge over many files is reading its sources slowly, a
// batch that reaches the row limit (or, in the other half of the runs, one that is flushed by the ticker) is
// written and answered as promptly as on an idle engine; no Flush, no Stop. A plain engine, judged on the Go side
// (the pipeline model has no merge).
func pLimitFlushDuringMerge(p *pipeCtx, idx int) {
	ctx := context.Background()
	cfg := bs.DefaultBloomSearchEngineConfig()
	cfg.MaxBufferedRows = 1
	cfg.MaxBufferedTime = time.Hour
	byTime := idx%2 == 1
	if byTime {
		cfg.MaxBufferedRows = 1000
		cfg.MaxBufferedTime = 60 * time.Millisecond
	}
	store := &slowOpenStore{DataStore: newMemDataStore()}
	eng, err := bs.NewBloomSearchEngine(cfg, bs.NewMemoryMetaStore(), store)
	must(err)
	eng.Start()
	defer func() {
		sctx, cancel := context.WithTimeout(ctx, 30*time.Second)
		eng.Stop(sctx)
		cancel()
	}()
	nFiles := 8 + p.c.intn(3)
	for i := 0; i < nFiles; i++ {
		done := make(chan error, 1)
		must(eng.IngestRows(ctx, []map[string]any{{"id": i, "v": "seed"}}, done))
		if byTime {
			must(eng.Flush(ctx))
		}
		must(<-done)
	}
	perOpen := 250 * time.Millisecond
	store.delay.Store(int64(perOpen))
	mergeDone := make(chan error, 1)
	go func() { _, err := eng.Merge(ctx); mergeDone <- err }()
	time.Sleep(100 * time.Millisecond) // the merge is inside its first slow open
	bound := 1200 * time.Millisecond
	done := make(chan error, 1)
	t0 := time.Now()
	must(eng.IngestRows(ctx, []map[string]any{{"id": 1000 + idx, "v": "during-merge"}}, done))
	var ackErr error
	answered, mergeRunning := false, true
	select {
	case ackErr = <-done:
		answered = true
	case <-time.After(bound):
	}
	lat := time.Since(t0)
	select {
	case <-mergeDone:
		mergeRunning = false
	default:
	}
	store.delay.Store(0)
	desc := map[string]any{"kind": "limit-flush-during-merge", "trigger": map[bool]string{false: "row limit", true: "MaxBufferedTime"}[byTime], "files": nFiles,
		"open_delay_ms": perOpen.Milliseconds(), "latency_ms": lat.Milliseconds(), "merge_still_running": mergeRunning}
	p.c.count([]string{"C10"}, fmt.Sprintf("flush-during-merge-%d-%v", idx, byTime), mergeRunning, desc)
	p.c.dist("flush_during_merge", fmt.Sprintf("trigger=%v merge_running_at_ack=%v", desc["trigger"], mergeRunning))
	if !answered {
		p.c.violation("", fmt.Sprintf("a batch that reached its flush trigger (%s) while a Merge was reading its sources was not answered within %v (merge still running: %v); responsive flush path, no Flush/Stop",
			desc["trigger"], bound, mergeRunning), desc)
		select {
		case <-done:
		case <-time.After(20 * time.Second):
		}
	} else if ackErr != nil {
		p.c.violation("", "a batch flushed during a Merge on healthy stores was answered with an error: "+ackErr.Error(), desc)
	}
	select {
	case <-mergeDone:
	case <-time.After(30 * time.Second):
	}
}

// The clock of the time-triggered flush belongs to the rows buffered now, not to a buffer that has been flushed
// since: a batch is buffered (generation 1), the buffer is emptied before its MaxBufferedTime is over - by a row
// limit, by a byte limit or by an explicit Flush - and another batch arrives (generation 2) while generation 1's
// deadline is still ahead; then nothing else happens. Generation 2 must be answered within MaxBufferedTime + one
// tick + flush duration of its own acceptance. Repeated for a few generations. MaxBufferedTime is long enough
// (250-400 ms) that the three steps fit inside it on a loaded machine; if they did not fit, the run only loses
// its point (recorded as fits=false), it cannot raise an alarm.
func pTimeAfterEarlierFlush(p *pipeCtx, idx int) {
	rng := p.c.rng
	o := defaultOpts()
	o.MaxTime = time.Duration(250+rng.IntN(150)) * time.Millisecond
	how := []string{"row-limit", "explicit-flush", "byte-limit"}[idx%3]
	switch how {
	case "row-limit":
		o.MaxRows = 3
	case "byte-limit":
		o.MaxBytes = 700
	}
	r := newPRun(p.c, fmt.Sprintf("time-after-flush-%d", idx), o)
	r.noSnap = true
	r.start()
	ctx := context.Background()
	limit := o.MaxTime + 100*time.Millisecond + 900*time.Millisecond
	answered := func(id int) bool { r.mu.Lock(); defer r.mu.Unlock(); return len(r.recvd[id]) > 0 }
	gens := 2 + rng.IntN(2)
	fits := true
	lateGen, lateBy := -1, time.Duration(0)
	for g := 0; g < gens && lateGen < 0; g++ {
		t0 := time.Now()
		first, err := r.ingest(ctx, "drain", simpleBatch(r, 1))
		if err != nil {
			break
		}
		time.Sleep(o.MaxTime / 8)
		// empty the buffer before generation g's deadline
		switch how {
		case "row-limit":
			r.ingest(ctx, "drain", simpleBatch(r, 2))
		case "byte-limit":
			r.ingest(ctx, "drain", func(id int) *pBatch { return r.makeBatch(id, []int{0}, []int{900}, -1, false) })
		default:
			r.flush(ctx)
		}
		if !waitFor(func() bool { return answered(first) }, 5*time.Second) {
			p.c.violation("", fmt.Sprintf("run %s: batch not answered 5 s after a %s that covers it", r.name, how), nil)
			break
		}
		time.Sleep(o.MaxTime / 8)
		next, err := r.ingest(ctx, []string{"drain", "buf"}[rng.IntN(2)], simpleBatch(r, 1))
		if err != nil {
			break
		}
		at := time.Now()
		if at.Sub(t0) >= o.MaxTime {
			fits = false
		}
		// silence; observed twice so that a process frozen for a moment can catch up
		ok := waitFor(func() bool { return answered(next) }, limit)
		if !ok {
			time.Sleep(150 * time.Millisecond)
			r.pollBuffered()
			if !answered(next) {
				lateGen, lateBy = g, time.Since(at)
			}
		}
	}
	desc := map[string]any{"max_buffered_time_ms": o.MaxTime.Milliseconds(), "emptied_by": how, "generations": gens, "fits": fits}
	if lateGen >= 0 {
		p.c.violation("", fmt.Sprintf("run %s: a batch buffered after a %s emptied the buffer is still unanswered %v after it was accepted; MaxBufferedTime %v, responsive stores, no limit reached by it, no Flush/Stop after it",
			r.name, how, lateBy.Round(time.Millisecond), o.MaxTime), desc)
	}
	r.stopWithDeadline(20 * time.Second)
	res := r.finish(3*time.Second, true)
	p.c.dist("time_after_flush", fmt.Sprintf("%s fits=%v", how, fits))
	p.emit(r, res, pEvalOpts{props: []string{"C10"}, nontrivial: fits, kind: "time-after-flush", extra: desc})
}

// The age of the buffer is the age of its oldest batch, whatever arrives later: small batches keep arriving
// less than MaxBufferedTime apart (into the same partitions, into partitions the buffer has not seen yet, as
// empty batches, as rejected batches), no limit is reached, no Flush, no Stop. Every batch must be answered
// within MaxBufferedTime + one 100 ms tick + flush duration of its acceptance; the allowance on top is generous
// and the trickle simply lasts longer than that.
func pTimeFlushTrickle(p *pipeCtx, idx int) {
	rng := p.c.rng
	o := defaultOpts()
	o.MaxTime = time.Duration(25+rng.IntN(40)) * time.Millisecond
	o.Partitioned = idx%3 != 2
	o.Compression = []string{"none", "snappy"}[rng.IntN(2)]
	r := newPRun(p.c, fmt.Sprintf("time-trickle-%d", idx), o)
	r.noSnap = true
	r.start()
	allowance := 700 * time.Millisecond
	limit := o.MaxTime + 100*time.Millisecond + allowance
	gap := o.MaxTime / time.Duration(2+rng.IntN(3))
	shape := []string{"new-partition", "same-partition", "unpartitioned", "new-partition-mixed"}[idx%4]
	if !o.Partitioned {
		shape = "unpartitioned"
	}
	ctx := context.Background()
	type acc struct {
		id int
		at time.Time
	}
	var sent []acc
	late := func() (int, time.Duration) {
		r.pollBuffered()
		r.mu.Lock()
		defer r.mu.Unlock()
		for _, a := range sent {
			if len(r.recvd[a.id]) == 0 && time.Since(a.at) > limit {
				return a.id, time.Since(a.at)
			}
		}
		return -1, 0
	}
	// a batch counts as overdue only if it is still unanswered well after it first looked overdue, with the
	// trickle going on meanwhile (a process that was frozen for a moment must get the chance to catch up)
	candID, candAt := -1, time.Time{}
	lateID, lateBy := -1, time.Duration(0)
	observe := func() {
		id, by := late()
		switch {
		case id < 0:
			candID = -1
		case id != candID:
			candID, candAt = id, time.Now()
		case time.Since(candAt) >= 150*time.Millisecond:
			lateID, lateBy = id, by
		}
	}
	// the trickle lasts until every batch of its first half has been answered, or one is overdue
	minBatches := 6 + rng.IntN(6)
	start := time.Now()
	for b := 0; lateID < 0 && time.Since(start) < limit+2*time.Second; b++ {
		part := 0
		switch shape {
		case "new-partition", "new-partition-mixed":
			part = b // a partition the buffer has not seen yet
		case "same-partition":
			part = b % 2
		}
		build := func(id int) *pBatch { return r.makeBatch(id, []int{part}, []int{0}, -1, o.Partitioned) }
		ch := []string{"drain", "buf"}[rng.IntN(2)]
		if shape == "new-partition-mixed" || shape == "unpartitioned" {
			switch rng.IntN(5) {
			case 0:
				build = simpleBatch(r, 0)
			case 1:
				build = func(id int) *pBatch { return r.makeBatch(id, []int{part}, []int{0}, 0, o.Partitioned) }
			}
		}
		id, err := r.ingest(ctx, ch, build)
		if err == nil {
			sent = append(sent, acc{id, time.Now()})
		}
		time.Sleep(gap)
		observe()
		if lateID < 0 && candID < 0 && b+1 >= minBatches {
			// stop once the first half is answered
			r.mu.Lock()
			done := true
			for _, a := range sent[:len(sent)/2] {
				if len(r.recvd[a.id]) == 0 {
					done = false
				}
			}
			r.mu.Unlock()
			if done {
				break
			}
		}
	}
	// the tail: nothing else arrives; the last batches are flushed by the ticker
	for lateID < 0 {
		r.pollBuffered()
		r.mu.Lock()
		open := 0
		for _, a := range sent {
			if len(r.recvd[a.id]) == 0 {
				open++
			}
		}
		r.mu.Unlock()
		if open == 0 {
			break
		}
		time.Sleep(5 * time.Millisecond)
		observe()
	}
	desc := map[string]any{"max_buffered_time_ms": o.MaxTime.Milliseconds(), "gap_ms": gap.Milliseconds(), "shape": shape, "batches": len(sent), "allowance_ms": allowance.Milliseconds()}
	if lateID >= 0 {
		p.c.violation("", fmt.Sprintf("run %s (%s): batch %d still unanswered %v after it was accepted; MaxBufferedTime %v, batches kept arriving every %v, responsive stores, no limit reached, no Flush/Stop",
			r.name, shape, lateID, lateBy.Round(time.Millisecond), o.MaxTime, gap), desc)
	}
	r.stopWithDeadline(20 * time.Second)
	res := r.finish(3*time.Second, true)
	p.c.dist("trickle_shape", shape)
	p.emit(r, res, pEvalOpts{props: []string{"C10"}, nontrivial: len(sent) >= 3, kind: "time-trickle", extra: desc})
}
