package main

// Family P: one run of a real engine under the event sink.

import (
	"context"
	"errors"
	"fmt"
	"os"
	"sort"
	"strings"
	"sync"
	"sync/atomic"
	"time"

	bs "github.com/danthegoodman1/bloomsearch"
)

type pRun struct {
	c      *Ctx
	name   string
	spec   pCfgSpec
	eng    *bs.BloomSearchEngine
	stores *pStores
	plan   *pStorePlan
	t0     time.Time

	mu         sync.Mutex
	evs        []pEvent
	closed     bool // case log ended: later events are only watched for worker exits
	closing    bool // engine events are no longer recorded (counted in late); receivers may still report
	late       int
	exits      int
	fcancels   int
	brDeadline int
	lateTake   bool
	fcancelled bool // flush.cancel seen inside the case log
	started    bool
	ops        map[int]*pOpInfo
	nextOp     int
	cur        map[int64]int // goroutine -> op being called
	vid2op     map[int64]int
	sent       map[int]bool
	chans      map[int]chan error
	recvd      map[int][]bool // op -> values received (true = nil)
	retAcc     map[int]bool   // IngestRows/Flush accepted (as seen by the caller)
	retSeq     map[int]int    // harness sequence numbers for real-time order
	callSeq    map[int]int
	seq        int
	visAny     map[int]bool
	visBad     map[int]bool
	snapAt     map[int]map[int]bool // op answered nil -> ops fully visible in a query issued at that moment
	stopRes    *bool                // nil: no Stop; true: nil; false: deadline error
	stopSeq    int
	lateStore  []string // CreateFile/Update begun with a live ctx after a deadline Stop returned
	peakUn     int64
	accN       atomic.Int64
	ansN       atomic.Int64
	accAt      map[int]time.Duration // when the call of an accepted op returned
	ansAt      map[int]time.Duration // when its first value arrived
	opts       pRunOpts

	quit      chan struct{}
	wg        sync.WaitGroup // producers and receivers
	hung      atomic.Int64
	pauseStop chan struct{} // when non-nil, Stop pauses before its final select until closed
	lateGate  chan struct{} // when non-nil, "ldrain" receivers start counting their delay when it is closed
	lateBy    time.Duration // delay of "ldrain" receivers (default 25 ms)
	noSnap    bool          // no visibility query at nil acks (runs that measure latencies / counts)
	snapMax   int           // visibility queries at the first snapMax nil acks (default 6)
	flushWait time.Duration // how long flush() waits for Flush to return (default 30 s)
}

func pinnedModel() bool { return os.Getenv("VERIF_P_PINNED") == "1" }

type pRunOpts struct {
	ICap, MaxRows, MaxBytes, PartRows, PartBytes int
	MaxTime                                      time.Duration
	HasAbort, HonorCtx, Partitioned              bool
	FSDir                                        string // when set: FileSystemDataStore over this directory as DataStore and MetaStore
	Compression                                  string // "", "none", "snappy", "zstd" (limits are defined on uncompressed sizes)
}

func newPRun(c *Ctx, name string, o pRunOpts) *pRun {
	r := &pRun{c: c, name: name, t0: time.Now(), ops: map[int]*pOpInfo{}, cur: map[int64]int{}, vid2op: map[int64]int{},
		sent: map[int]bool{}, chans: map[int]chan error{}, recvd: map[int][]bool{}, retAcc: map[int]bool{}, retSeq: map[int]int{},
		callSeq: map[int]int{}, accAt: map[int]time.Duration{}, ansAt: map[int]time.Duration{}, opts: o, visAny: map[int]bool{}, visBad: map[int]bool{}, snapAt: map[int]map[int]bool{}, quit: make(chan struct{})}
	fixed := !pinnedModel()
	r.spec = pCfgSpec{ICap: o.ICap, FCap: 1, MaxRows: o.MaxRows, MaxBytes: o.MaxBytes, PartRows: o.PartRows, PartBytes: o.PartBytes,
		Timeless: o.MaxTime >= time.Hour, HasAbort: o.HasAbort, FixD5: fixed, FixD6: fixed, FixD9: fixed}
	r.plan = newPStorePlan()
	r.plan.honorCtx = o.HonorCtx
	r.stores = &pStores{run: r, plan: r.plan, data: newMemDataStore(), meta: bs.NewMemoryMetaStore(), hasAbort: o.HasAbort}
	if o.FSDir != "" {
		fs := bs.NewFileSystemDataStore(o.FSDir)
		r.stores.data, r.stores.meta = fs, fs
	}
	cfg := bs.DefaultBloomSearchEngineConfig()
	cfg.IngestBufferSize = o.ICap
	cfg.MaxBufferedRows = o.MaxRows
	cfg.MaxBufferedBytes = o.MaxBytes
	cfg.MaxRowGroupRows = o.PartRows
	cfg.MaxRowGroupBytes = o.PartBytes
	cfg.MaxBufferedTime = o.MaxTime
	switch o.Compression {
	case "snappy":
		cfg.RowDataCompression = bs.CompressionSnappy
	case "zstd":
		cfg.RowDataCompression = bs.CompressionZstd
	default:
		cfg.RowDataCompression = bs.CompressionNone
	}
	if o.Partitioned {
		cfg.PartitionFunc = func(row map[string]any) string {
			p, _ := row["p"].(string)
			return p
		}
	}
	eng, err := bs.NewBloomSearchEngine(cfg, pMetaStore{r.stores}, pDataStore{r.stores})
	must(err)
	r.eng = eng
	bs.VerifSetSink(r.sink)
	bs.VerifSetPause(func(point string, a int64) {
		if point == "stop.select" {
			r.mu.Lock()
			p := r.pauseStop
			r.mu.Unlock()
			if p != nil {
				<-p
			}
		}
	})
	return r
}

func (r *pRun) sink(e bs.VerifEvent) {
	gid := curGoroutineID()
	r.mu.Lock()
	defer r.mu.Unlock()
	if e.Kind == "actor.exit" || e.Kind == "worker.exit" {
		r.exits++
	}
	if e.Kind == "start" {
		r.started = true
	}
	if e.Kind == "flush.cancel" {
		r.fcancels++
	}
	if e.Kind == "stop.ret.deadline" {
		r.brDeadline++
	}
	if !r.closed && r.stopRes != nil && !*r.stopRes {
		// after Stop returned its deadline error: a flush request taken from now on must be abandoned
		switch e.Kind {
		case "worker.take":
			r.lateTake = true
		case "fl.begin":
			if r.lateTake {
				r.lateStore = append(r.lateStore, "a flush taken after the return (fl.begin)")
			}
		}
	}
	if r.closed {
		return
	}
	if r.closing {
		r.late++
		return
	}
	if e.Kind == "flush.cancel" {
		r.fcancelled = true
	}
	switch e.Kind {
	case "ingest.try", "flush.try":
		if op, ok := r.cur[gid]; ok {
			r.vid2op[e.A] = op
		}
	case "ingest.sent":
		if op, ok := r.vid2op[e.A]; ok {
			r.sent[op] = true
		}
	}
	r.evs = append(r.evs, pEvent{Kind: e.Kind, A: e.A, B: e.B, S: e.S, Gid: gid, T: time.Since(r.t0)})
}

func (r *pRun) logEv(kind, s string, a, b int64) {
	gid := curGoroutineID()
	r.mu.Lock()
	switch {
	case r.closed:
	case r.closing && kind != "h.recv":
		if kind == "h.sbegin" || kind == "h.send" {
			r.late++
		}
	default:
		r.evs = append(r.evs, pEvent{Kind: kind, S: s, A: a, B: b, Gid: gid, T: time.Since(r.t0)})
		if kind == "h.sbegin" && a == 1 && r.stopRes != nil && !*r.stopRes && (s == "CreateFile" || s == "Update") {
			r.lateStore = append(r.lateStore, s+" started under a live context")
		}
	}
	r.mu.Unlock()
}

func (r *pRun) nEvents() int {
	r.mu.Lock()
	defer r.mu.Unlock()
	return len(r.evs)
}

// pBatch is one IngestRows argument with its model description.
type pBatch struct {
	rows    []map[string]any
	valid   bool
	contrib [][3]int64
}

func (r *pRun) newOp(info *pOpInfo) int {
	r.mu.Lock()
	defer r.mu.Unlock()
	id := r.nextOp
	r.nextOp++
	info.ID = id
	r.ops[id] = info
	return id
}

// makeBatch builds rows {"id": op*1000+i, "p": partition, "pad": ...}; parts[i] = partition of row i;
// pad[i] = padding length; bad >= 0 puts an unmarshalable value into that row.
func (r *pRun) makeBatch(id int, parts []int, pad []int, bad int, partitioned bool) *pBatch {
	b := &pBatch{valid: bad < 0}
	agg := map[int]*[3]int64{}
	var order []int
	for i, p := range parts {
		row := map[string]any{"id": id*1000 + i}
		if partitioned {
			row["p"] = fmt.Sprintf("p%d", p)
		} else {
			p = 0
		}
		if pad[i] > 0 {
			row["pad"] = string(make([]byte, pad[i]))
		}
		size := int64(0)
		if i == bad {
			row["bad"] = make(chan int)
		} else {
			size = int64(len(pMustJSON(row)) + 4)
		}
		b.rows = append(b.rows, row)
		a := agg[p]
		if a == nil {
			a = &[3]int64{int64(p), 0, 0}
			agg[p] = a
			order = append(order, p)
		}
		a[1]++
		a[2] += size
	}
	for _, p := range order {
		b.contrib = append(b.contrib, *agg[p])
	}
	return b
}

func (r *pRun) noteSeq() int {
	r.seq++
	return r.seq
}

// ingest calls IngestRows from the current goroutine. build receives the op id.
func (r *pRun) ingest(ctx context.Context, chMode string, build func(id int) *pBatch) (int, error) {
	// "ldrain": an unbuffered channel whose caller starts receiving only after a while (the usual
	// `IngestRows(...); ...; <-done` pattern) and then keeps receiving: for the model a drained channel
	lateBy := time.Duration(0)
	if chMode == "ldrain" {
		chMode = "drain"
		lateBy = r.lateBy
		if lateBy <= 0 {
			lateBy = 25 * time.Millisecond
		}
	}
	info := &pOpInfo{Kind: "batch", Ch: chMode}
	id := r.newOp(info)
	b := build(id)
	info.Valid, info.Contrib, info.Rows = b.valid, b.contrib, len(b.rows)
	var ch chan error
	switch chMode {
	case "buf":
		ch = make(chan error, 1)
	case "drain", "abandon":
		ch = make(chan error)
	}
	gid := curGoroutineID()
	r.mu.Lock()
	r.cur[gid] = id
	r.chans[id] = ch
	r.callSeq[id] = r.noteSeq()
	r.mu.Unlock()
	r.logEv("h.call", "", int64(id), 0)
	err := r.eng.IngestRows(ctx, b.rows, ch)
	r.mu.Lock()
	delete(r.cur, gid)
	r.retAcc[id] = err == nil
	r.retSeq[id] = r.noteSeq()
	r.mu.Unlock()
	if err == nil {
		r.noteAccepted(id)
	}
	r.logEv("h.ret", "", int64(id), pB2i(err == nil))
	if err == nil && chMode == "drain" {
		r.wg.Add(1)
		gate := r.lateGate
		go func() {
			defer r.wg.Done()
			if lateBy > 0 {
				// not receiving yet: wait for the gate (when the scenario has one), then for lateBy
				if gate != nil {
					select {
					case <-gate:
					case <-r.quit:
						return
					}
				}
				select {
				case <-time.After(lateBy):
				case <-r.quit:
					return
				}
			}
			select {
			case v := <-ch:
				r.gotAck(id, v == nil)
			case <-r.quit:
			}
		}()
	}
	return id, err
}

func (r *pRun) noteAccepted(id int) {
	r.accN.Add(1)
	r.mu.Lock()
	r.accAt[id] = time.Since(r.t0)
	r.mu.Unlock()
}

// gotAck records a value received on op's done channel; for a nil ack of a sample of ops it
// immediately asks a query which batches are visible (C07's "already visible").
func (r *pRun) gotAck(id int, ok bool) {
	r.ansN.Add(1)
	r.logEv("h.recv", "", int64(id), pB2i(ok))
	r.mu.Lock()
	r.recvd[id] = append(r.recvd[id], ok)
	if _, seen := r.ansAt[id]; !seen {
		r.ansAt[id] = time.Since(r.t0)
	}
	snapMax := 6
	if r.snapMax > 0 {
		snapMax = r.snapMax
	}
	snap := ok && len(r.snapAt) < snapMax && !r.noSnap
	r.mu.Unlock()
	if snap {
		full, _ := r.queryVisible(r.eng)
		r.mu.Lock()
		r.snapAt[id] = full
		r.mu.Unlock()
	}
}

// flush calls Flush and waits for it; its result is the ack of the force request. The call runs on
// its own goroutine so that a Flush that is never answered does not take the harness with it: after
// flushWait the op is left as "accepted, call did not return" (finish() closes it in the log).
func (r *pRun) flush(ctx context.Context) (int, error) {
	info := &pOpInfo{Kind: "force", Ch: "buf"}
	id := r.newOp(info)
	r.mu.Lock()
	r.callSeq[id] = r.noteSeq()
	r.mu.Unlock()
	r.logEv("h.call", "", int64(id), 0)
	done := make(chan error, 1)
	go func() {
		gid := curGoroutineID()
		r.mu.Lock()
		r.cur[gid] = id
		r.mu.Unlock()
		err := r.eng.Flush(ctx)
		r.mu.Lock()
		delete(r.cur, gid)
		acc := r.sent[id]
		r.retAcc[id] = acc
		r.retSeq[id] = r.noteSeq()
		r.mu.Unlock()
		// a Flush that returned nil claims durability of everything before it, whether or not a request of
		// its own was seen entering the pipeline
		if acc || err == nil {
			r.noteAccepted(id)
			r.gotAck(id, err == nil)
		}
		r.logEv("h.ret", "", int64(id), pB2i(acc))
		done <- err
	}()
	wait := r.flushWait
	if wait <= 0 {
		wait = 30 * time.Second
	}
	select {
	case err := <-done:
		return id, err
	case <-time.After(wait):
		return id, errPHung
	case <-r.quit:
		return id, errPHung
	}
}

func (r *pRun) start() { r.eng.Start() }

// stop calls Stop(ctx). done must be invoked by the caller's cancel machinery through
// r.stopCtxDone() before ctx becomes done.
func (r *pRun) stop(ctx context.Context) error {
	err := r.eng.Stop(ctx)
	ok := err == nil
	r.mu.Lock()
	r.stopRes = &ok
	r.stopSeq = r.noteSeq()
	r.mu.Unlock()
	r.logEv("h.stopret", "", pB2i(ok), 0)
	return err
}

func (r *pRun) stopCtxDone() { r.logEv("h.stopctxdone", "", 0, 0) }

// stopWithDeadline runs Stop with a context the harness cancels after d (0: before the call).
func (r *pRun) stopWithDeadline(d time.Duration) error {
	ctx, cancel := context.WithCancel(context.Background())
	defer cancel()
	if d <= 0 {
		r.stopCtxDone()
		cancel()
	} else {
		t := time.AfterFunc(d, func() {
			r.stopCtxDone()
			cancel()
		})
		defer t.Stop()
	}
	return r.stop(ctx)
}

// goProducer runs f on its own goroutine, tracked for the end of the run.
func (r *pRun) goProducer(f func()) {
	r.wg.Add(1)
	r.hung.Add(1)
	go func() {
		defer r.wg.Done()
		f()
		r.hung.Add(-1)
	}()
}

// queryVisible returns the ops all of whose rows were seen exactly once, and records
// anything seen partially / twice.
func (r *pRun) queryVisible(eng *bs.BloomSearchEngine) (map[int]bool, error) {
	ctx, cancel := context.WithTimeout(context.Background(), 10*time.Second)
	defer cancel()
	res, err := eng.Query(ctx, nil)
	if err != nil {
		return nil, err
	}
	defer res.Close()
	seen := map[int]int{}
	dup := map[int]bool{}
	for res.Next() {
		idf, _ := res.Row()["id"].(float64)
		id := int(idf)
		seen[id]++
		if seen[id] > 1 {
			dup[id/1000] = true
		}
	}
	if err := res.Err(); err != nil {
		return nil, err
	}
	perOp := map[int]int{}
	for id := range seen {
		perOp[id/1000]++
	}
	full := map[int]bool{}
	r.mu.Lock()
	for op, n := range perOp {
		r.visAny[op] = true
		info := r.ops[op]
		if info == nil || dup[op] || n != info.Rows {
			r.visBad[op] = true
		} else {
			full[op] = true
		}
	}
	for op := range dup {
		r.visBad[op] = true
	}
	r.mu.Unlock()
	return full, nil
}

// waitQuiet waits until the producers returned (or max elapsed) and no event was logged for
// quiet; reports whether some producer is still blocked.
func (r *pRun) waitQuiet(max, quiet time.Duration) (hung bool) {
	deadline := time.Now().Add(max)
	last, lastChange := r.nEvents(), time.Now()
	for time.Now().Before(deadline) {
		time.Sleep(2 * time.Millisecond)
		n := r.nEvents()
		if n != last {
			last, lastChange = n, time.Now()
		}
		if r.hung.Load() == 0 && time.Since(lastChange) >= quiet {
			return false
		}
	}
	return r.hung.Load() != 0
}

// pollBuffered reads (without blocking) the values that have arrived on buffered done channels.
func (r *pRun) pollBuffered() {
	r.mu.Lock()
	type pend struct {
		id int
		ch chan error
	}
	var bufs []pend
	for id, ch := range r.chans {
		if ch != nil && r.ops[id].Ch == "buf" && r.retAcc[id] {
			bufs = append(bufs, pend{id, ch})
		}
	}
	r.mu.Unlock()
	sort.Slice(bufs, func(i, j int) bool { return bufs[i].id < bufs[j].id })
	for _, p := range bufs {
		for {
			select {
			case v := <-p.ch:
				r.gotAck(p.id, v == nil)
				continue
			default:
			}
			break
		}
	}
}

type pResult struct {
	items                            []pItem
	problems                         []string
	onceSame, onceFresh, anyVis, bad []int
	exact                            bool
	hung                             bool
	discard                          bool // the engine was still producing events at the cut
	logPeak                          int  // peak over the log of (requests sent into ingestChan) - (delivery attempts)
}

// bound is the C09 bound of the run's configuration: icap + 1 + (fcap+2)*MaxBufferedRows.
func (r *pRun) bound() int64 {
	return int64(r.spec.ICap + 1 + (r.spec.FCap+2)*r.spec.MaxRows)
}

// sampleUn records accepted-minus-answered as seen from outside the engine. Call it when the
// callers and receivers are quiet (a receiver that got its value but has not counted it yet would
// inflate the number).
func (r *pRun) sampleUn() int64 {
	u := r.accN.Load() - r.ansN.Load()
	if u > r.bound() {
		// over the bound: make sure it is not a receiver that lags behind; under a stall the number can
		// only come down to its true value
		for i := 0; i < 5; i++ {
			time.Sleep(60 * time.Millisecond)
			r.pollBuffered()
			if v := r.accN.Load() - r.ansN.Load(); v < u {
				u = v
			}
		}
	}
	r.mu.Lock()
	if u > r.peakUn {
		r.peakUn = u
	}
	r.mu.Unlock()
	return u
}

// pLogPeak counts on the translated log: +1 for every request that entered ingestChan, -1 for every
// delivery attempt of the actor or the worker (a nil channel counts as attempted), and returns the peak.
func pLogPeak(items []pItem) int {
	un, peak := 0, 0
	for _, it := range items {
		switch {
		case it.class == "isent":
			un++
			if un > peak {
				peak = un
			}
		case strings.HasPrefix(it.term, "EL (LAck "):
			un--
		}
	}
	return peak
}

// finish ends the case log, collects buffered acks, queries, then tears the engine down.
func (r *pRun) finish(maxWait time.Duration, exact bool) *pResult {
	hung := r.waitQuiet(maxWait, 25*time.Millisecond)
	// buffered done channels: read what arrived
	r.pollBuffered()
	// cut the log: engine events stop being recorded (any that still arrive mean the run was not
	// quiescent and the case is dropped); receivers get a short grace period to report values that
	// were sent before the cut
	r.mu.Lock()
	r.closing = true
	r.mu.Unlock()
	time.Sleep(30 * time.Millisecond)
	// ops whose call never returned (e.g. Flush on an engine that is never started)
	r.mu.Lock()
	for id := range r.ops {
		if _, ok := r.retSeq[id]; !ok && r.sent[id] {
			r.retAcc[id] = true
			r.evs = append(r.evs, pEvent{Kind: "h.ret", A: int64(id), B: 1})
		}
	}
	r.closed = true
	late := r.late
	evs := append([]pEvent(nil), r.evs...)
	started := r.started
	exitsBefore := r.exits
	r.mu.Unlock()

	res := &pResult{exact: exact && !hung, hung: hung, discard: late > 0}
	same, err1 := r.queryVisible(r.eng)
	fresh := map[int]bool{}
	var err2 error
	{
		cfg := bs.DefaultBloomSearchEngineConfig()
		feng, err := bs.NewBloomSearchEngine(cfg, pMetaStore{r.stores}, pDataStore{r.stores})
		must(err)
		fresh, err2 = r.queryVisible(feng)
	}
	if err1 != nil || err2 != nil {
		res.problems = append(res.problems, fmt.Sprintf("final query failed: %v %v", err1, err2))
	}
	r.mu.Lock()
	for op := range same {
		res.onceSame = append(res.onceSame, op)
	}
	for op := range fresh {
		res.onceFresh = append(res.onceFresh, op)
	}
	for op := range r.visAny {
		res.anyVis = append(res.anyVis, op)
	}
	for op := range r.visBad {
		res.bad = append(res.bad, op)
	}
	ops := r.ops
	vid := r.vid2op
	r.mu.Unlock()
	pSortInts(res.onceSame)
	pSortInts(res.onceFresh)
	pSortInts(res.anyVis)
	pSortInts(res.bad)

	items, problems := pTranslate(evs, ops, vid)
	items = pNormalizeChan(items, "isent", "itake", "actor", r.spec.ICap, true)
	items = pNormalizeChan(items, "fsent", "ftake", "worker", r.spec.FCap, false)
	res.items = items
	res.logPeak = pLogPeak(items)
	res.problems = append(res.problems, problems...)

	// teardown: release everything and make sure the engine's goroutines are gone before
	// the next run installs its sink
	close(r.quit)
	r.mu.Lock()
	if r.pauseStop != nil {
		select {
		case <-r.pauseStop:
		default:
			close(r.pauseStop)
		}
	}
	r.mu.Unlock()
	for _, m := range r.plan.wedge {
		for _, w := range m {
			select {
			case <-w:
			default:
				close(w)
			}
		}
	}
	cctx, cancel := context.WithCancel(context.Background())
	cancel()
	r.mu.Lock()
	fc0, bd0 := r.fcancels, r.brDeadline
	r.mu.Unlock()
	stopped := make(chan struct{})
	go func() { r.eng.Stop(cctx); close(stopped) }()
	select {
	case <-stopped:
	case <-time.After(5 * time.Second):
		res.problems = append(res.problems, "teardown Stop did not return")
	}
	if started || !pinnedModel() {
		want := 2
		_ = exitsBefore
		for i := 0; i < 2500; i++ {
			r.mu.Lock()
			n := r.exits
			st := r.started
			r.mu.Unlock()
			if n >= want || (!st && i > 50) {
				break
			}
			time.Sleep(2 * time.Millisecond)
		}
	}
	// the teardown Stop's context was already done, so its AfterFunc callback always runs (on its
	// own goroutine), and the deadline branch cancels once more itself: wait for all of these
	// events, or one of them would land in the next run's log
	for i := 0; i < 1500; i++ {
		r.mu.Lock()
		n, want := r.fcancels, fc0+1
		if r.brDeadline > bd0 {
			want = fc0 + 2
		}
		r.mu.Unlock()
		if n >= want {
			break
		}
		time.Sleep(time.Millisecond)
	}
	waitDone := make(chan struct{})
	go func() { r.wg.Wait(); close(waitDone) }()
	select {
	case <-waitDone:
	case <-time.After(3 * time.Second):
	}
	bs.VerifSetPause(nil)
	bs.VerifSetSink(nil)
	return res
}

func pSortInts(a []int) {
	for i := 1; i < len(a); i++ {
		for j := i; j > 0 && a[j-1] > a[j]; j-- {
			a[j-1], a[j] = a[j], a[j-1]
		}
	}
}

var errPHung = errors.New("call did not return")
