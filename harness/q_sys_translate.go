package main

// System-level correspondence for family Q, part 3: the hook event log of a scenario
// (several queries, all goroutines, one total order) translated into Model/QueryLTS.v labels.
// Attribution is by goroutine: each pipeline goroutine announces itself (fs.start, fw.start,
// bw.start, td.start carry the query id), spawn events and start events are matched in order.

import (
	"fmt"
	"strings"
)

type actorRef struct {
	q    int    // scenario query index
	kind string // fs fw bw td
	idx  int
}

type sysTranslator struct {
	sc         *sysScenario
	qOfID      map[int64]int      // Results.verifID -> scenario index
	actors     map[int64]actorRef // goroutine -> pipeline actor
	nFw, nBw   []int              // started workers per query
	closers    []map[int64]int    // per query: goroutine -> closer index
	errSeq     []int64            // per query: next error id
	iterErr    []int64            // per query: id used for the iterator failure
	takenBy    []map[string]int   // per query: "file/blockidx" -> block worker index
	curJob     map[int64]string   // goroutine -> job key it is scanning
	opens      [][]int            // per query: global handle ordinals in open order
	returnedI  []int              // per query: index into returned rows
	pendClosed []int              // per query: index in labels of an unresolved res.next.closed
	termMark   []int              // per query: index in labels of the res.term.waited marker
	pulled     [][]int64          // per query: files in the order the iteration yielded them
	fsEnded    []bool             // per query: the iteration ran to its end (fs.end)
	fsErr      []bool             // per query: the iterator yielded its error
}

func newSysTranslator(sc *sysScenario) *sysTranslator {
	n := len(sc.runs)
	t := &sysTranslator{sc: sc, qOfID: map[int64]int{}, actors: map[int64]actorRef{}, nFw: make([]int, n), nBw: make([]int, n),
		errSeq: make([]int64, n), iterErr: make([]int64, n), curJob: map[int64]string{}, opens: make([][]int, n), returnedI: make([]int, n),
		pendClosed: make([]int, n), termMark: make([]int, n), pulled: make([][]int64, n), fsEnded: make([]bool, n), fsErr: make([]bool, n)}
	for i, q := range sc.runs {
		if q.r != nil {
			t.qOfID[q.qid] = i
		}
		t.closers = append(t.closers, map[int64]int{})
		t.takenBy = append(t.takenBy, map[string]int{})
		t.pendClosed[i], t.termMark[i] = -1, -1
	}
	return t
}

func (t *sysTranslator) closerCount(q int) int {
	if n := len(t.closers[q]); n > 0 {
		return n
	}
	return 1
}

// handlesOf: number of successful opens of query q and, per Close call on one of them, its ordinal within the query.
func (t *sysTranslator) handlesOf(q int) (int, []int) {
	local := map[int]int{}
	for i, g := range t.opens[q] {
		local[g] = i
	}
	var closes []int
	for _, g := range t.sc.w.store.closeOrdinals() {
		if l, ok := local[g]; ok {
			closes = append(closes, l)
		}
	}
	return len(t.opens[q]), closes
}

func (t *sysTranslator) fileIdx(p string) (int64, bool) {
	if sf := t.sc.w.byPtr[p]; sf != nil {
		return sf.idx, true
	}
	return 0, false
}

// blockIdx: index of the block with this row data offset among the file's blocks the query sees.
func (t *sysTranslator) blockIdx(q int, p string, off int64) (int, bool) {
	sf := t.sc.w.byPtr[p]
	if sf == nil {
		return 0, false
	}
	for i, b := range t.sc.w.queryBlocks(sf, t.sc.runs[q].plan.sq) {
		if int64(b.meta.RowDataOffset) == off {
			return i, true
		}
	}
	return 0, false
}

// rowHome: which job (file/blockidx) of query q a returned row belongs to.
func (t *sysTranslator) rowHome(q int, id int64) (string, bool) {
	for fi := range t.sc.w.files {
		sf := &t.sc.w.files[fi]
		for i, b := range t.sc.w.queryBlocks(sf, t.sc.runs[q].plan.sq) {
			for _, r := range b.rows {
				if r.id == id {
					return fmt.Sprintf("%d/%d", sf.idx, i), true
				}
			}
		}
	}
	return "", false
}

func (t *sysTranslator) translate() (labels []string, bad string) {
	evs := t.sc.log.snapshot()
	fail := func(format string, args ...any) { bad = fmt.Sprintf(format, args...) }
	act := func(q int, a actorRef, v string) string {
		var as string
		switch a.kind {
		case "fs":
			as = "AFs"
		case "fw":
			as = fmt.Sprintf("(AFw %s)", coqNat(a.idx))
		case "bw":
			as = fmt.Sprintf("(ABw %s)", coqNat(a.idx))
		case "td":
			as = "ATd"
		}
		return fmt.Sprintf("LAct %s %s (%s)", coqNat(q), as, v)
	}
	ext := func(q int, l string) string { return fmt.Sprintf("LExt %s (%s)", coqNat(q), l) }
	for _, e := range evs {
		if bad != "" {
			break
		}
		if qForeignEvent(e.Kind) {
			continue // hooks of other families (write path, scan buffers, channel helpers)
		}
		// harness events: A is the scenario query index
		switch e.Kind {
		case "caller.cancel.begin":
			labels = append(labels, ext(int(e.A), "LCancelBegin"))
			continue
		case "caller.cancel.end":
			labels = append(labels, ext(int(e.A), "LCancelEnd"))
			continue
		case "q.begin":
			continue
		}
		// pipeline goroutines announcing themselves
		switch e.Kind {
		case "fs.start", "fw.start", "bw.start", "td.start":
			q, ok := t.qOfID[e.A]
			if !ok {
				fail("%s for an unknown query id %d", e.Kind, e.A)
				continue
			}
			switch e.Kind {
			case "fs.start":
				t.actors[e.Gid] = actorRef{q, "fs", 0}
			case "td.start":
				t.actors[e.Gid] = actorRef{q, "td", 0}
			case "fw.start":
				t.actors[e.Gid] = actorRef{q, "fw", t.nFw[q]}
				t.nFw[q]++
			case "bw.start":
				t.actors[e.Gid] = actorRef{q, "bw", t.nBw[q]}
				t.nBw[q]++
			}
			continue
		}
		// the consumer, Close callers
		if len(e.Kind) > 4 && e.Kind[:4] == "res." {
			switch e.Kind {
			case "res.next.done", "res.next.term", "res.next.pending", "res.next.wait", "res.next.batch", "res.next.closed",
				"res.next.closed.ctx", "res.next.ctx", "res.term.waited", "res.term.decide", "res.finish",
				"res.close.begin", "res.close.final", "res.close.ret":
				q, ok := t.qOfID[e.A]
				if !ok {
					fail("%s for an unknown query id %d", e.Kind, e.A)
					continue
				}
				run := t.sc.runs[q]
				closer := func() int {
					k, ok := t.closers[q][e.Gid]
					if !ok {
						k = len(t.closers[q])
						t.closers[q][e.Gid] = k
					}
					return k
				}
				switch e.Kind {
				case "res.next.done":
					labels = append(labels, ext(q, "LNextSticky"))
				case "res.next.term":
					labels = append(labels, ext(q, "LNextTerm"))
				case "res.next.pending":
					t.returnedI[q]++
					labels = append(labels, ext(q, "LNextPending"))
				case "res.next.wait":
					labels = append(labels, ext(q, "LNextWait"))
				case "res.next.batch":
					if t.returnedI[q] >= len(run.returned) {
						fail("query %d: res.next.batch without an observed row", q)
						continue
					}
					home, ok := t.rowHome(q, run.returned[t.returnedI[q]])
					t.returnedI[q]++
					if !ok {
						fail("query %d: returned row %d is not in any block the query sees", q, run.returned[t.returnedI[q]-1])
						continue
					}
					w, ok := t.takenBy[q][home]
					if !ok {
						fail("query %d: a row of block %s was returned but no block worker took that block", q, home)
						continue
					}
					labels = append(labels, ext(q, fmt.Sprintf("LNextBatch %s", coqNat(w))))
				case "res.next.closed":
					t.pendClosed[q] = len(labels)
					labels = append(labels, ext(q, "LNextClosed false"))
				case "res.next.closed.ctx":
					if i := t.pendClosed[q]; i >= 0 {
						labels[i] = ""
					}
					labels = append(labels, ext(q, "LNextClosed true"))
				case "res.next.ctx":
					labels = append(labels, ext(q, "LNextCtx"))
				case "res.term.waited":
					t.termMark[q] = len(labels)
					labels = append(labels, "")
				case "res.term.decide":
					if e.B != 0 {
						labels = append(labels, ext(q, "LTermDecide true"))
					} else if i := t.termMark[q]; i >= 0 {
						labels[i] = ext(q, "LTermDecide false")
					} else {
						fail("query %d: res.term.decide without res.term.waited", q)
					}
				case "res.finish":
					labels = append(labels, ext(q, "LFinish"))
				case "res.close.begin":
					labels = append(labels, ext(q, fmt.Sprintf("LCloseBegin %s", coqNat(closer()))))
				case "res.close.final":
					labels = append(labels, ext(q, fmt.Sprintf("LCloseFinal %s", coqNat(closer()))))
				case "res.close.ret":
					labels = append(labels, ext(q, fmt.Sprintf("LCloseRet %s", coqNat(closer()))))
				}
				continue
			}
		}
		// everything else is emitted by a pipeline goroutine
		a, ok := t.actors[e.Gid]
		if !ok {
			fail("event %s from a goroutine that never announced itself", e.Kind)
			continue
		}
		q := a.q
		v := ""
		switch e.Kind {
		case "fs.pull":
			f, ok := t.fileIdx(e.S)
			if !ok {
				fail("fs.pull of an unknown file")
			}
			v = "VFsPull " + coqZ(f)
			t.pulled[q] = append(t.pulled[q], f)
		case "fs.pull.err":
			v = "VFsPullErr"
			t.fsErr[q] = true
		case "fs.end":
			v = "VFsEnd"
			t.fsEnded[q] = true
		case "fs.ctx":
			v = "VFsCtx"
		case "fs.drop.prefilter":
			v = "VFsDropPre"
		case "fs.drop.bloom":
			v = "VFsDropBloom"
		case "fs.job.try":
			v = "VFsJobTry"
		case "fs.job.sent":
			v = "VFsJobSent"
		case "fs.job.abort":
			v = "VFsJobAbort"
		case "fs.spawn":
			v = "VFsSpawn"
		case "fs.exit":
			v = "VFsExit"
		case "fw.take":
			f, ok := t.fileIdx(e.S)
			if !ok {
				fail("fw.take of an unknown file")
			}
			v = "VFwTake " + coqZ(f)
		case "fw.closed":
			v = "VFwClosed"
		case "fw.ctx":
			v = "VFwCtx"
		case "fw.exit":
			v = "VFwExit"
		case "ebf.noconds":
			v = "VEbfNoConds"
		case "ebf.ctx":
			v = "VEbfCtx"
		case "ebf.planfail":
			v = "VEbfPlanFail"
		case "ebf.nosections":
			v = "VEbfNoSections"
		case "ebf.openfail":
			v = "VEbfOpenFail"
		case "ebf.filterfail":
			v = "VEbfFilterFail " + coqNat(int(e.B))
		case "ebf.readfail":
			v = "VEbfReadFail " + coqNat(int(e.B))
		case "ebf.parsefail":
			v = "VEbfParseFail " + coqNat(int(e.B))
		case "ebf.survive":
			v = "VEbfSurvive " + coqNat(int(e.B))
		case "ebf.pruned":
			v = "VEbfPruned " + coqNat(int(e.B))
		case "fw.dispatch.try":
			i, ok := t.blockIdx(q, e.S, e.B)
			if !ok {
				fail("fw.dispatch.try of an unknown block")
			}
			v = "VFwDispTry " + coqNat(i)
		case "fw.dispatch.sent":
			v = "VFwDispSent"
		case "fw.dispatch.abort":
			v = "VFwDispAbort"
		case "bw.spawn":
			v = "VBwSpawn"
		case "bw.take":
			f, ok1 := t.fileIdx(e.S)
			i, ok2 := t.blockIdx(q, e.S, e.B)
			if !ok1 || !ok2 {
				fail("bw.take of an unknown block")
			}
			key := fmt.Sprintf("%d/%d", f, i)
			t.takenBy[q][key] = a.idx
			v = fmt.Sprintf("VBwTake (%s, %s)", coqZ(f), coqNat(i))
		case "bw.closed":
			v = "VBwClosed"
		case "bw.ctx":
			v = "VBwCtx"
		case "bw.exit":
			v = "VBwExit"
		case "pdb.openfail":
			v = "VPdbOpenFail"
		case "pdb.readfail":
			v = "VPdbReadFail"
		case "pdb.rowerr":
			v = "VPdbRowErr"
		case "pdb.ctx":
			v = "VPdbCtx"
		case "pdb.deliverfail":
			v = "VPdbDeliverFail"
		case "pdb.end":
			v = fmt.Sprintf("VPdbEnd %s %s", coqZ(e.A), coqZ(e.B))
		case "res.deliver.try":
			v = "VDeliverTry " + coqNat(int(e.B))
		case "res.deliver.fast":
			v = "VDeliverFast"
		case "res.deliver.slow":
			v = "VDeliverSlow"
		case "res.deliver.ctx":
			v = "VDeliverCtx"
		case "slot.acq.ok":
			v = "VSlotAcqOk"
		case "slot.acq.ctx":
			v = "VSlotAcqCtx"
		case "slot.rel":
			v = "VSlotRel"
		case "pool.retain", "pool.release", "pool.acquire.idle", "pool.acquire.open", "pool.put.idle", "pool.put.close":
			f, ok := t.fileIdx(e.S)
			if !ok {
				fail("%s of an unknown file", e.Kind)
			}
			switch e.Kind {
			case "pool.retain":
				v = "VPoolRetain " + coqZ(f)
			case "pool.release":
				v = "VPoolRelease " + coqZ(f)
			case "pool.acquire.idle":
				v = "VPoolAcqIdle " + coqZ(f)
			case "pool.acquire.open":
				v = "VPoolAcqOpen " + coqZ(f)
			case "pool.put.idle":
				v = fmt.Sprintf("VPoolPut %s false", coqZ(f))
			case "pool.put.close":
				v = fmt.Sprintf("VPoolPut %s true", coqZ(f))
			}
		case "pool.discard":
			v = "VPoolDiscard"
		case "pool.closeall":
			v = "VPoolCloseAll"
		case "st.open.ok":
			t.opens[q] = append(t.opens[q], int(e.B))
			v = "VStOpenOk"
		case "st.open.fail":
			v = "VStOpenFail"
		case "res.stat":
			v = "VResStat"
		case "res.err":
			if a.kind == "fs" {
				t.iterErr[q] = t.errSeq[q] // the iterator's failure is recorded here: this is its number
			}
			v = "VResErr " + coqZ(t.errSeq[q])
			t.errSeq[q]++
		case "td.filesdone":
			v = "VTdFilesDone"
		case "td.blocksdone":
			v = "VTdBlocksDone"
		case "res.workersdone":
			v = "VResWorkersDone"
		default:
			fail("unexpected event %s", e.Kind)
			continue
		}
		labels = append(labels, act(q, a, v))
	}
	out := labels[:0]
	for _, l := range labels {
		if l != "" {
			out = append(out, l)
		}
	}
	return linearizeReceives(out), bad
}

// linearizeReceives: a receive is logged after it happened, so another goroutine may log "channel
// closed and empty" before the receiver of the last job logs its take. Physically every receive
// precedes every closed-and-empty observation of the same channel (and follows the receiver's own
// previous event, which was logged before that observation), so the take labels that come after the
// first closed observation of their channel are moved in front of it, keeping their order.
func linearizeReceives(labels []string) []string {
	type key struct {
		q     string
		chan_ string
	}
	classify := func(l string) (key, string) {
		// "LAct <q> <actor> (<ev>)"
		var q string
		if !strings.HasPrefix(l, "LAct ") {
			return key{}, ""
		}
		rest := l[5:]
		sp := strings.IndexByte(rest, ' ')
		q = rest[:sp]
		switch {
		case strings.Contains(l, "(VFwTake "):
			return key{q, "f"}, "take"
		case strings.HasSuffix(l, "(VFwClosed)"):
			return key{q, "f"}, "closed"
		case strings.Contains(l, "(VBwTake "):
			return key{q, "b"}, "take"
		case strings.HasSuffix(l, "(VBwClosed)"):
			return key{q, "b"}, "closed"
		}
		return key{}, ""
	}
	firstClosed := map[key]int{}
	for i, l := range labels {
		if k, what := classify(l); what == "closed" {
			if _, ok := firstClosed[k]; !ok {
				firstClosed[k] = i
			}
		}
	}
	if len(firstClosed) == 0 {
		return labels
	}
	moved := map[int]bool{}
	before := map[int][]string{} // index of the closed label -> takes to put in front of it
	for i, l := range labels {
		if k, what := classify(l); what == "take" {
			if p, ok := firstClosed[k]; ok && i > p {
				before[p] = append(before[p], l)
				moved[i] = true
			}
		}
	}
	if len(moved) == 0 {
		return labels
	}
	out := make([]string, 0, len(labels))
	for i, l := range labels {
		if moved[i] {
			continue
		}
		out = append(out, before[i]...)
		out = append(out, l)
	}
	return out
}

// qForeignEvent reports hook events that belong to other families' instrumentation and carry no
// information for the read-pipeline models.
func qForeignEvent(kind string) bool {
	for _, p := range []string{"send.", "sb.", "scan.row", "actor.", "fl.", "fq.", "flush.", "ingest.", "worker.", "stop.", "start", "ctx.cancel", "mg.", "mem.", "fs.scan."} {
		if strings.HasPrefix(kind, p) {
			return true
		}
	}
	switch kind { // filesystem-store events (family F); the read pipeline's own file-stage events are fs.start, fs.pull, ...
	case "fs.dirsync", "fs.hclose", "fs.lost", "fs.remove", "fs.rename", "fs.resclose", "fs.reserve", "fs.sync", "fs.tmpcreate", "fs.write":
		return true
	}
	return false
}
