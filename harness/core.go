package main

// Harness core: one binary, one sub-command per property group. A sub-command
// generates inputs from a single PCG stream, runs the implementation, and writes
// (a) cases_*.v shards evaluated by coqc against the model and (b) report.json
// with what was covered and whatever the Go-side predicates found.

import (
	"crypto/sha256"
	"encoding/json"
	"flag"
	"fmt"
	"math/rand/v2"
	"os"
	"path/filepath"
	"sort"
	"strings"
)

type Finding struct {
	Kind string `json:"kind"` // "violation" (property falsified on the implementation) or "mismatch" (model and implementation disagree)
	What string `json:"what"`
	Sig  string `json:"sig,omitempty"` // class signature used for known-findings matching
	Case any    `json:"case,omitempty"`
}

type shard struct {
	name     string
	requires string // module list after "From BS Require Import"
	typ      string // Coq type of one case
	mism     string // function : list typ -> list nat (indices where model <> implementation)
	viol     string // function : list typ -> list nat (indices falsifying the property)
	prelude  []string
	items    []string
	descs    []any
	limit    int
	part     int
	written  []shardInfo
}

type shardInfo struct {
	File      string `json:"file"`
	Count     int    `json:"count"`
	DescsFile string `json:"descs_file"`
}

type Report struct {
	Command            string                    `json:"command"`
	Tier               string                    `json:"tier"`
	Seed               uint64                    `json:"seed"`
	Evaluations        int                       `json:"evaluations"`
	DistinctNontrivial int                       `json:"distinct_nontrivial"`
	Rule               string                    `json:"rule"`
	Samples            []any                     `json:"samples"`
	Distribution       map[string]map[string]int `json:"input_distribution"`
	TracesValidated    int                       `json:"traces_validated_against_impl"`
	Findings           []Finding                 `json:"findings"`
	Shards             []shardInfo               `json:"shards"`
	Notes              []string                  `json:"notes,omitempty"`
	// per-property projections: property id -> counts (a group command serves several properties)
	PerProperty map[string]*PropCount `json:"per_property,omitempty"`
}

type PropCount struct {
	Evaluations        int    `json:"evaluations"`
	DistinctNontrivial int    `json:"distinct_nontrivial"`
	Rule               string `json:"rule,omitempty"`
	Samples            []any  `json:"samples,omitempty"`
}

type Ctx struct {
	Tier   string
	Seed   uint64
	Out    string
	Replay string
	Props  map[string]bool // properties requested (empty = all the command serves)
	rng    *rand.Rand
	rep    Report
	seen   map[[32]byte]bool
	shards []*shard
}

func (c *Ctx) thorough() bool { return c.Tier == "thorough" }

// pick returns quick or thorough value.
func (c *Ctx) pick(quick, thorough int) int {
	if c.thorough() {
		return thorough
	}
	return quick
}

func (c *Ctx) intn(n int) int { return c.rng.IntN(n) }
func (c *Ctx) chance(p float64) bool { return c.rng.Float64() < p }

func (c *Ctx) dist(category, key string) {
	if c.rep.Distribution == nil {
		c.rep.Distribution = map[string]map[string]int{}
	}
	m := c.rep.Distribution[category]
	if m == nil {
		m = map[string]int{}
		c.rep.Distribution[category] = m
	}
	m[key]++
}

func (c *Ctx) prop(id string) *PropCount {
	if c.rep.PerProperty == nil {
		c.rep.PerProperty = map[string]*PropCount{}
	}
	p := c.rep.PerProperty[id]
	if p == nil {
		p = &PropCount{}
		c.rep.PerProperty[id] = p
	}
	return p
}

// count registers one evaluation; key identifies the case for distinctness.
func (c *Ctx) count(props []string, key string, nontrivial bool, sample any) {
	c.rep.Evaluations++
	h := sha256.Sum256([]byte(key))
	fresh := !c.seen[h]
	c.seen[h] = true
	if fresh && nontrivial {
		c.rep.DistinctNontrivial++
	}
	if len(c.rep.Samples) < 3 && nontrivial && fresh && sample != nil {
		c.rep.Samples = append(c.rep.Samples, sample)
	}
	for _, id := range props {
		p := c.prop(id)
		p.Evaluations++
		if fresh && nontrivial {
			p.DistinctNontrivial++
			if len(p.Samples) < 3 && sample != nil {
				p.Samples = append(p.Samples, sample)
			}
		}
	}
}

func (c *Ctx) violation(sig, what string, cs any) {
	c.rep.Findings = append(c.rep.Findings, Finding{Kind: "violation", What: what, Sig: sig, Case: cs})
}

func (c *Ctx) mismatch(sig, what string, cs any) {
	c.rep.Findings = append(c.rep.Findings, Finding{Kind: "mismatch", What: what, Sig: sig, Case: cs})
}

func (c *Ctx) newShard(name, requires, typ, mism, viol string) *shard {
	s := &shard{name: name, requires: requires, typ: typ, mism: mism, viol: viol, limit: 800}
	c.shards = append(c.shards, s)
	return s
}

func (s *shard) add(c *Ctx, term string, desc any) {
	s.items = append(s.items, term)
	s.descs = append(s.descs, desc)
	if len(s.items) >= s.limit {
		s.flush(c)
	}
}

func (s *shard) flush(c *Ctx) {
	if len(s.items) == 0 {
		return
	}
	file := fmt.Sprintf("cases_%s_%d.v", s.name, s.part)
	s.part++
	var b strings.Builder
	fmt.Fprintf(&b, "From BS Require Import Lib.Bytes %s.\nFrom Coq Require Import List ZArith NArith String.\nImport ListNotations.\nOpen Scope Z_scope.\n", s.requires)
	b.WriteString("Notation h := unhex.\n")
	for _, p := range s.prelude {
		b.WriteString(p)
		b.WriteString("\n")
	}
	fmt.Fprintf(&b, "Definition cases : list (%s) := [\n", s.typ)
	for i, it := range s.items {
		if i > 0 {
			b.WriteString(";\n")
		}
		b.WriteString("  ")
		b.WriteString(it)
	}
	b.WriteString("\n].\n")
	fmt.Fprintf(&b, "Definition M := Eval vm_compute in (%s cases).\nDefinition V := Eval vm_compute in (%s cases).\nPrint M.\nPrint V.\n", s.mism, s.viol)
	must(os.WriteFile(filepath.Join(c.Out, file), []byte(b.String()), 0o644))
	descsFile := strings.TrimSuffix(file, ".v") + ".json"
	dd, err := json.Marshal(s.descs)
	must(err)
	must(os.WriteFile(filepath.Join(c.Out, descsFile), dd, 0o644))
	c.rep.Shards = append(c.rep.Shards, shardInfo{File: file, Count: len(s.items), DescsFile: descsFile})
	s.items, s.descs = nil, nil
}

func must(err error) {
	if err != nil {
		panic(err)
	}
}

type command struct {
	name  string
	props []string
	run   func(c *Ctx)
}

var commands = map[string]*command{}

func register(name string, props []string, run func(c *Ctx)) {
	commands[name] = &command{name: name, props: props, run: run}
}

func main() {
	if len(os.Args) < 2 {
		names := make([]string, 0, len(commands))
		for n := range commands {
			names = append(names, n)
		}
		sort.Strings(names)
		fmt.Fprintln(os.Stderr, "usage: bsverif <command> [-tier quick|thorough] [-seed N] [-out DIR] [-props C01,C02] [-replay FILE]\ncommands:", strings.Join(names, " "))
		os.Exit(2)
	}
	cmd, ok := commands[os.Args[1]]
	if !ok {
		fmt.Fprintln(os.Stderr, "unknown command", os.Args[1])
		os.Exit(2)
	}
	fs := flag.NewFlagSet(cmd.name, flag.ExitOnError)
	tier := fs.String("tier", "quick", "quick or thorough")
	seed := fs.Uint64("seed", 1, "PRNG seed")
	out := fs.String("out", "run/"+cmd.name, "output directory")
	props := fs.String("props", "", "comma separated property ids (default: all served)")
	replay := fs.String("replay", "", "replay file")
	must(fs.Parse(os.Args[2:]))
	must(os.MkdirAll(*out, 0o755))
	c := &Ctx{Tier: *tier, Seed: *seed, Out: *out, Replay: *replay, Props: map[string]bool{},
		rng: rand.New(rand.NewPCG(*seed, 0x5eed)), seen: map[[32]byte]bool{}}
	if *props != "" {
		for _, p := range strings.Split(*props, ",") {
			c.Props[p] = true
		}
	}
	c.rep.Command, c.rep.Tier, c.rep.Seed = cmd.name, *tier, *seed
	cmd.run(c)
	for _, s := range c.shards {
		s.flush(c)
	}
	data, err := json.MarshalIndent(c.rep, "", " ")
	must(err)
	must(os.WriteFile(filepath.Join(*out, "report.json"), data, 0o644))
}
