package main

// A small strict RFC 8259 parser, independent of both gjson (what the engine
// uses) and encoding/json's decoder: keys in document order, duplicates kept,
// numbers as raw literals, escapes decoded (an unpaired surrogate escape becomes
// U+FFFD), bytes that are not valid UTF-8 kept verbatim.

import (
	"fmt"
	"strings"
	"unicode/utf8"
)

type jkind int

const (
	jNull jkind = iota
	jBool
	jNum
	jStr
	jArr
	jObj
)

type jnode struct {
	kind jkind
	b    bool
	s    []byte // raw literal for numbers, decoded bytes for strings
	arr  []*jnode
	keys [][]byte
	vals []*jnode
}

type jparser struct {
	d []byte
	i int
}

func parseJSON(data []byte) (*jnode, error) {
	p := &jparser{d: data}
	p.ws()
	n, err := p.value(0)
	if err != nil {
		return nil, err
	}
	p.ws()
	if p.i != len(p.d) {
		return nil, fmt.Errorf("trailing data at %d", p.i)
	}
	return n, nil
}

func (p *jparser) ws() {
	for p.i < len(p.d) {
		switch p.d[p.i] {
		case ' ', '\t', '\n', '\r':
			p.i++
		default:
			return
		}
	}
}

func (p *jparser) value(depth int) (*jnode, error) {
	if depth > 200 {
		return nil, fmt.Errorf("too deep")
	}
	if p.i >= len(p.d) {
		return nil, fmt.Errorf("unexpected end")
	}
	switch c := p.d[p.i]; {
	case c == '{':
		p.i++
		n := &jnode{kind: jObj}
		p.ws()
		if p.i < len(p.d) && p.d[p.i] == '}' {
			p.i++
			return n, nil
		}
		for {
			p.ws()
			if p.i >= len(p.d) || p.d[p.i] != '"' {
				return nil, fmt.Errorf("expected key at %d", p.i)
			}
			k, err := p.str()
			if err != nil {
				return nil, err
			}
			p.ws()
			if p.i >= len(p.d) || p.d[p.i] != ':' {
				return nil, fmt.Errorf("expected ':' at %d", p.i)
			}
			p.i++
			p.ws()
			v, err := p.value(depth + 1)
			if err != nil {
				return nil, err
			}
			n.keys = append(n.keys, k)
			n.vals = append(n.vals, v)
			p.ws()
			if p.i < len(p.d) && p.d[p.i] == ',' {
				p.i++
				continue
			}
			if p.i < len(p.d) && p.d[p.i] == '}' {
				p.i++
				return n, nil
			}
			return nil, fmt.Errorf("expected ',' or '}' at %d", p.i)
		}
	case c == '[':
		p.i++
		n := &jnode{kind: jArr}
		p.ws()
		if p.i < len(p.d) && p.d[p.i] == ']' {
			p.i++
			return n, nil
		}
		for {
			p.ws()
			v, err := p.value(depth + 1)
			if err != nil {
				return nil, err
			}
			n.arr = append(n.arr, v)
			p.ws()
			if p.i < len(p.d) && p.d[p.i] == ',' {
				p.i++
				continue
			}
			if p.i < len(p.d) && p.d[p.i] == ']' {
				p.i++
				return n, nil
			}
			return nil, fmt.Errorf("expected ',' or ']' at %d", p.i)
		}
	case c == '"':
		s, err := p.str()
		if err != nil {
			return nil, err
		}
		return &jnode{kind: jStr, s: s}, nil
	case c == 't':
		if strings.HasPrefix(string(p.d[p.i:]), "true") {
			p.i += 4
			return &jnode{kind: jBool, b: true}, nil
		}
	case c == 'f':
		if strings.HasPrefix(string(p.d[p.i:]), "false") {
			p.i += 5
			return &jnode{kind: jBool, b: false}, nil
		}
	case c == 'n':
		if strings.HasPrefix(string(p.d[p.i:]), "null") {
			p.i += 4
			return &jnode{kind: jNull}, nil
		}
	case c == '-' || (c >= '0' && c <= '9'):
		start := p.i
		if p.d[p.i] == '-' {
			p.i++
		}
		if p.i >= len(p.d) {
			return nil, fmt.Errorf("bad number")
		}
		if p.d[p.i] == '0' {
			p.i++
		} else if p.d[p.i] >= '1' && p.d[p.i] <= '9' {
			for p.i < len(p.d) && p.d[p.i] >= '0' && p.d[p.i] <= '9' {
				p.i++
			}
		} else {
			return nil, fmt.Errorf("bad number at %d", p.i)
		}
		if p.i < len(p.d) && p.d[p.i] == '.' {
			p.i++
			n := 0
			for p.i < len(p.d) && p.d[p.i] >= '0' && p.d[p.i] <= '9' {
				p.i++
				n++
			}
			if n == 0 {
				return nil, fmt.Errorf("bad fraction")
			}
		}
		if p.i < len(p.d) && (p.d[p.i] == 'e' || p.d[p.i] == 'E') {
			p.i++
			if p.i < len(p.d) && (p.d[p.i] == '+' || p.d[p.i] == '-') {
				p.i++
			}
			n := 0
			for p.i < len(p.d) && p.d[p.i] >= '0' && p.d[p.i] <= '9' {
				p.i++
				n++
			}
			if n == 0 {
				return nil, fmt.Errorf("bad exponent")
			}
		}
		return &jnode{kind: jNum, s: append([]byte(nil), p.d[start:p.i]...)}, nil
	}
	return nil, fmt.Errorf("unexpected byte %q at %d", p.d[p.i], p.i)
}

func hex4(b []byte) (rune, bool) {
	if len(b) < 4 {
		return 0, false
	}
	var r rune
	for _, c := range b[:4] {
		r <<= 4
		switch {
		case c >= '0' && c <= '9':
			r |= rune(c - '0')
		case c >= 'a' && c <= 'f':
			r |= rune(c-'a') + 10
		case c >= 'A' && c <= 'F':
			r |= rune(c-'A') + 10
		default:
			return 0, false
		}
	}
	return r, true
}

func (p *jparser) str() ([]byte, error) {
	p.i++ // opening quote
	var out []byte
	for {
		if p.i >= len(p.d) {
			return nil, fmt.Errorf("unterminated string")
		}
		c := p.d[p.i]
		switch {
		case c == '"':
			p.i++
			if out == nil {
				out = []byte{}
			}
			return out, nil
		case c < 0x20:
			return nil, fmt.Errorf("control character in string")
		case c == '\\':
			p.i++
			if p.i >= len(p.d) {
				return nil, fmt.Errorf("bad escape")
			}
			e := p.d[p.i]
			p.i++
			switch e {
			case '"', '\\', '/':
				out = append(out, e)
			case 'b':
				out = append(out, '\b')
			case 'f':
				out = append(out, '\f')
			case 'n':
				out = append(out, '\n')
			case 'r':
				out = append(out, '\r')
			case 't':
				out = append(out, '\t')
			case 'u':
				r, ok := hex4(p.d[p.i:])
				if !ok {
					return nil, fmt.Errorf("bad \\u escape")
				}
				p.i += 4
				if r >= 0xD800 && r < 0xDC00 { // high surrogate: needs a low one
					if p.i+6 <= len(p.d) && p.d[p.i] == '\\' && p.d[p.i+1] == 'u' {
						if r2, ok := hex4(p.d[p.i+2:]); ok && r2 >= 0xDC00 && r2 < 0xE000 {
							p.i += 6
							r = 0x10000 + (r-0xD800)<<10 + (r2 - 0xDC00)
							out = utf8.AppendRune(out, r)
							continue
						}
					}
					r = utf8.RuneError
				} else if r >= 0xDC00 && r < 0xE000 {
					r = utf8.RuneError
				}
				out = utf8.AppendRune(out, r)
			default:
				return nil, fmt.Errorf("bad escape \\%c", e)
			}
		default:
			out = append(out, c)
			p.i++
		}
	}
}

// coq renders the tree as a Model.Json.json term.
func (n *jnode) coq() string {
	var b strings.Builder
	n.coqTo(&b)
	return b.String()
}

func (n *jnode) coqTo(b *strings.Builder) {
	switch n.kind {
	case jNull:
		b.WriteString("JNull")
	case jBool:
		b.WriteString("(JBool " + coqBool(n.b) + ")")
	case jNum:
		b.WriteString("(JNum " + coqStr(n.s) + ")")
	case jStr:
		b.WriteString("(JStr " + coqStr(n.s) + ")")
	case jArr:
		b.WriteString("(JArr [")
		for i, c := range n.arr {
			if i > 0 {
				b.WriteString("; ")
			}
			c.coqTo(b)
		}
		b.WriteString("])")
	case jObj:
		b.WriteString("(JObj [")
		for i := range n.keys {
			if i > 0 {
				b.WriteString("; ")
			}
			b.WriteString("(" + coqStr(n.keys[i]) + ", ")
			n.vals[i].coqTo(b)
			b.WriteString(")")
		}
		b.WriteString("])")
	}
}

// leafTexts returns every primitive leaf's canonical text (strings decoded, numbers raw, bools).
func (n *jnode) leafTexts(out map[string]bool) {
	switch n.kind {
	case jBool:
		if n.b {
			out["true"] = true
		} else {
			out["false"] = true
		}
	case jNum, jStr:
		out[string(n.s)] = true
	case jArr:
		for _, c := range n.arr {
			c.leafTexts(out)
		}
	case jObj:
		for _, c := range n.vals {
			c.leafTexts(out)
		}
	}
}
