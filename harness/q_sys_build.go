package main

// System-level correspondence for family Q, part 1: engines with many files and
// blocks over the instrumented in-memory store, a wrapping MetaStore (yield
// order, failure / pause at a position), and the model environment (qenv) of a query.

import (
	"context"
	"encoding/json"
	"fmt"
	"iter"
	"math/rand/v2"
	"slices"
	"sort"
	"strings"
	"sync"
	"sync/atomic"
	"time"

	bs "github.com/danthegoodman1/bloomsearch"
)

// qMeta wraps a MetaStore: it can fail or pause the iteration at a position and
// counts iterations that have not returned yet.
type qMeta struct {
	inner   bs.MetaStore
	active  atomic.Int64
	mu      sync.Mutex
	failAt  int // yield an error instead of the n-th file (-1: never)
	pauseAt int // before yielding the n-th file, wait until released or ctx is done (-1: never)
	paused  chan struct{}
	release chan struct{}
	honour  bool // stop iterating when ctx is done
	// order: how a file's DataBlocks are yielded: "" as stored (ascending row data offset), "reverse",
	// "shuffle" (a permutation drawn from orderSeed and the file's position). The engine promises to order
	// the blocks itself; a MetaStore owes it no order.
	order     string
	orderSeed uint64
}

func newQMeta(inner bs.MetaStore) *qMeta {
	return &qMeta{inner: inner, failAt: -1, pauseAt: -1, honour: true}
}

var errIterInjected = fmt.Errorf("injected iterator failure: %w", errInjected)

func (m *qMeta) GetMaybeFilesForQuery(ctx context.Context, q *bs.QueryPrefilter) iter.Seq2[bs.MaybeFile, error] {
	m.mu.Lock()
	failAt, pauseAt, paused, release, honour := m.failAt, m.pauseAt, m.paused, m.release, m.honour
	order, orderSeed := m.order, m.orderSeed
	m.mu.Unlock()
	return func(yield func(bs.MaybeFile, error) bool) {
		m.active.Add(1)
		defer m.active.Add(-1)
		n := 0
		for f, err := range m.inner.GetMaybeFilesForQuery(ctx, q) {
			if n == pauseAt && paused != nil {
				select {
				case paused <- struct{}{}:
				default:
				}
				select {
				case <-release:
				case <-ctx.Done():
				}
			}
			if honour && ctx.Err() != nil {
				return
			}
			if n == failAt {
				yield(bs.MaybeFile{}, errIterInjected)
				return
			}
			if err == nil && order != "" && len(f.Metadata.DataBlocks) > 1 {
				blocks := slices.Clone(f.Metadata.DataBlocks) // the slice belongs to the inner store
				if order == "reverse" {
					slices.Reverse(blocks)
				} else {
					rng := rand.New(rand.NewPCG(orderSeed, uint64(n)))
					rng.Shuffle(len(blocks), func(i, j int) { blocks[i], blocks[j] = blocks[j], blocks[i] })
				}
				f.Metadata.DataBlocks = blocks
			}
			if !yield(f, err) {
				return
			}
			n++
		}
		if n == failAt {
			yield(bs.MaybeFile{}, errIterInjected)
		}
	}
}

func (m *qMeta) Update(ctx context.Context, w []bs.WriteOperation, d []bs.DeleteOperation) error {
	return m.inner.Update(ctx, w, d)
}

// one stored row, as the harness knows it
type sysRow struct {
	id  int64
	tag string
	p   string
}

type sysBlock struct {
	meta  bs.DataBlockMetadata
	rows  []sysRow // in stored order
	bytes int64    // sum of 4 + len(row bytes)
}

type sysFile struct {
	pointer string
	idx     int64
	blocks  []sysBlock // every block of the file
}

type sysWorld struct {
	cfg     bs.BloomSearchEngineConfig
	store   *qStore
	mem     *bs.MemoryMetaStore
	meta    *qMeta
	eng     *bs.BloomSearchEngine
	files   []sysFile // in MetaStore yield order
	byPtr   map[string]*sysFile
	maxQC   int
	stopped bool
}

type sysQuery struct {
	name   string
	q      *bs.Query
	match  func(r sysRow) bool
	pre    *bs.QueryPrefilter
	hasPre bool
}

func (c *Ctx) genSysQuery() sysQuery {
	tag := fmt.Sprintf("t%d", c.intn(4))
	var sq sysQuery
	b := bs.NewQuery()
	switch c.intn(4) {
	case 0:
		sq.name = "all"
		sq.match = func(r sysRow) bool { return true }
	case 1:
		sq.name = "token:" + tag
		b = b.Token(tag)
		sq.match = func(r sysRow) bool { return r.tag == tag }
	case 2:
		sq.name = "fieldtoken:tag:" + tag
		b = b.FieldToken("tag", tag)
		sq.match = func(r sysRow) bool { return r.tag == tag }
	case 3:
		sq.name = "field:tag"
		b = b.Field("tag")
		sq.match = func(r sysRow) bool { return true }
	}
	if c.chance(0.3) {
		part := []string{"pa", "pb", "pc"}[c.intn(3)]
		b = b.MatchPrefilter(bs.Partition(bs.PartitionEquals(part)))
		sq.name += "+part=" + part
		sq.hasPre = true
	}
	sq.q = b.Build()
	sq.pre = sq.q.Prefilter
	return sq
}

// qSaturationFiles: one-block files a query absorbs before its file stage blocks behind a consumer that
// takes nothing: the row buffer, one batch in the hands of each block worker, the block job buffer, one job
// in the hands of each file worker, the file job buffer.
func qSaturationFiles(maxQC int) int {
	return bs.VerifQueryRowBatchBuffer + maxQC + bs.VerifQueryJobBuffer + maxQC + bs.VerifQueryFileJobBuffer
}

// buildWorld ingests nFiles flushes; every flush becomes one file with one block per
// (partition, row group). shape: "" random small worlds; "manyfiles" more one-block files than a query's
// pipeline can absorb; "bigfilter" files whose block filter region is larger than the chunk one read may cover.
func buildWorld(c *Ctx, maxQC int, shape string) *sysWorld {
	ctx := context.Background()
	cfg := bs.DefaultBloomSearchEngineConfig()
	cfg.MaxQueryConcurrency = maxQC
	cfg.MaxRowGroupRows = []int{8, 40, 100, 200}[c.intn(4)]
	if shape == "bigfilter" {
		// filters are sized from the distinct entries they cover at the configured rate: a tiny rate makes
		// ~10^4 tokens per block cost more than a MiB of filter section
		cfg.BloomFalsePositiveRate = 1e-100
	}
	cfg.MaxBufferedRows = 1 << 20
	cfg.MaxBufferedBytes = 1 << 30
	cfg.MaxBufferedTime = time.Hour
	cfg.PartitionFunc = func(row map[string]any) string {
		p, _ := row["p"].(string)
		return p
	}
	cfg.RowDataCompression = []bs.CompressionType{bs.CompressionNone, bs.CompressionSnappy, bs.CompressionZstd}[c.intn(3)]
	w := &sysWorld{cfg: cfg, store: newQStore(), mem: bs.NewMemoryMetaStore(), maxQC: maxQC, byPtr: map[string]*sysFile{}}
	w.store.emit = false
	w.meta = newQMeta(w.mem)
	eng, err := bs.NewBloomSearchEngine(cfg, w.meta, w.store)
	must(err)
	w.eng = eng
	eng.Start()
	nFiles := 1 + c.intn(5)
	switch shape {
	case "manyfiles":
		nFiles = qSaturationFiles(maxQC) + 3 + c.intn(8)
	case "bigfilter":
		nFiles = 1 + c.intn(2)
	}
	id := int64(1000)
	rowsByID := map[int64]sysRow{}
	parts := []string{"pa", "pb", "pc", "pd", "pe", "pf", "pg", "ph"}
	for f := 0; f < nFiles; f++ {
		nParts := 1 + c.intn(3)
		if shape == "manyfiles" {
			nParts = 1
		}
		if shape == "bigfilter" {
			nParts = 6 + c.intn(3)
			if f > 0 {
				nParts = 2 + c.intn(3)
			}
		}
		var batch []map[string]any
		for p := 0; p < nParts; p++ {
			part := parts[p]
			n := 1 + c.intn(cfg.MaxRowGroupRows*2+cfg.MaxRowGroupRows/2)
			if c.chance(0.25) {
				n = 100 + c.intn(300)
			}
			if shape == "manyfiles" {
				n = 1 + c.intn(3) // one small block per file
			}
			if shape == "bigfilter" {
				n = 1 + c.intn(3) // one block per partition
			}
			tags := 1 + c.intn(4) // how many distinct tags this partition of this file uses
			for i := 0; i < n; i++ {
				r := sysRow{id: id, tag: fmt.Sprintf("t%d", c.intn(tags)), p: part}
				id++
				rowsByID[r.id] = r
				row := map[string]any{"id": r.id, "tag": r.tag, "p": r.p}
				if shape == "bigfilter" && i == 0 {
					// distinct tokens of this block only: they size the block's token and field:token filters
					nTok := 8000 + c.intn(6000)
					var sb strings.Builder
					for k := 0; k < nTok; k++ {
						fmt.Fprintf(&sb, "w%dx%dx%d ", f, p, k)
					}
					row["blob"] = sb.String()
				}
				batch = append(batch, row)
			}
		}
		done := make(chan error, 1)
		must(eng.IngestRows(ctx, batch, done))
		must(eng.Flush(ctx))
	}
	// read the layout back (directly from the underlying store: no handles counted)
	for mf, err := range w.mem.GetMaybeFilesForQuery(ctx, nil) {
		must(err)
		sf := sysFile{pointer: string(mf.PointerBytes), idx: int64(len(w.files))}
		for _, bm := range mf.Metadata.DataBlocks {
			h, err := w.store.memDataStore.OpenFile(ctx, mf.PointerBytes)
			must(err)
			data, err := bs.ReadDataBlockRowData(h, &bm)
			must(err)
			h.Close()
			sb := sysBlock{meta: bm}
			sc := bs.NewBlockRowScanner(data)
			for {
				rb, ok, err := sc.Next()
				must(err)
				if !ok {
					break
				}
				var m map[string]any
				must(json.Unmarshal(rb, &m))
				sb.rows = append(sb.rows, rowsByID[int64(m["id"].(float64))])
				sb.bytes += int64(bs.LengthPrefixSize) + int64(len(rb))
			}
			sf.blocks = append(sf.blocks, sb)
		}
		w.files = append(w.files, sf)
	}
	for i := range w.files {
		w.byPtr[w.files[i].pointer] = &w.files[i]
	}
	w.store.calls = nil
	w.store.emit = true
	return w
}

// queryBlocks: the file's blocks that survive the query's prefilter, ascending by row data offset
// (what the file stage hands to a file worker).
func (w *sysWorld) queryBlocks(f *sysFile, sq sysQuery) []sysBlock {
	metas := make([]bs.DataBlockMetadata, len(f.blocks))
	for i, b := range f.blocks {
		metas[i] = b.meta
	}
	kept := bs.FilterDataBlocks(metas, sq.pre)
	keep := map[int]bool{}
	for _, m := range kept {
		keep[m.RowDataOffset] = true
	}
	var out []sysBlock
	for _, b := range f.blocks {
		if keep[b.meta.RowDataOffset] {
			out = append(out, b)
		}
	}
	sort.SliceStable(out, func(i, j int) bool { return out[i].meta.RowDataOffset < out[j].meta.RowDataOffset })
	return out
}

// coqEnv prints the qenv of one query: what its MetaStore iteration yields. pulled: the files in the
// order the iteration yielded them (neither the order nor store-side prefiltering is ours to
// predict); gotErr: the iterator then yielded its error; ended: the iteration ran to its end. When it
// did neither, the files it never reached follow in any order.
func (w *sysWorld) coqEnv(sq sysQuery, pulled []int64, gotErr, ended bool, errID int64) string {
	seen := map[int64]bool{}
	order := append([]int64(nil), pulled...)
	for _, f := range pulled {
		seen[f] = true
	}
	if !gotErr && !ended {
		for i := range w.files {
			if !seen[w.files[i].idx] {
				order = append(order, w.files[i].idx)
			}
		}
	}
	var items []string
	for i, fi := range order {
		if gotErr && i == len(pulled) {
			break
		}
		f := &w.files[fi]
		var bl []string
		for _, b := range w.queryBlocks(f, sq) {
			var m []string
			for _, r := range b.rows {
				if sq.match(r) {
					m = append(m, coqZ(r.id))
				}
			}
			bl = append(bl, fmt.Sprintf("{| b_off := %s; b_rows := %s; b_bytes := %s; b_tbytes := %s; b_matched := %s |}",
				coqZ(int64(b.meta.RowDataOffset)), coqZ(int64(b.meta.Rows)), coqZ(b.bytes), coqZ(int64(b.meta.OnDiskSize())), coqList(m)))
		}
		items = append(items, fmt.Sprintf("IFile {| f_id := %s; f_blocks := %s |}", coqZ(f.idx), coqList(bl)))
	}
	if gotErr {
		items = append(items, fmt.Sprintf("IErr %s", coqZ(errID)))
	}
	return fmt.Sprintf("{| e_items := %s; e_bsz := %s |}", coqList(items), coqNat(bs.VerifQueryRowBatchSize))
}

func (w *sysWorld) describe() string {
	var parts []string
	for _, f := range w.files {
		var bl []string
		for _, b := range f.blocks {
			bl = append(bl, fmt.Sprintf("%s:%d", b.meta.PartitionID, len(b.rows)))
		}
		parts = append(parts, "["+strings.Join(bl, " ")+"]")
	}
	return fmt.Sprintf("maxQC=%d rowgroup=%d files=%s", w.maxQC, w.cfg.MaxRowGroupRows, strings.Join(parts, " "))
}

func (w *sysWorld) stop(c *Ctx) {
	ctx, cancel := context.WithTimeout(context.Background(), 10*time.Second)
	defer cancel()
	if w.stopped {
		return
	}
	w.stopped = true
	if err := w.eng.Stop(ctx); err != nil {
		c.violation("q-stop", "engine Stop failed: "+err.Error(), nil)
	}
}
