package main

// Statistical side of C26: what a filter that was created by
// NewWithEstimates(n, p) and then received exactly n distinct entries must look
// like, with tolerances under which a correct implementation fails with
// probability below 1e-9 per run.
//
// Three predicates per filter, applied when n >= statMinN (below that the rate of
// one filter is dominated by the occupancy variance and by the structure of
// bits-and-blooms' double hashing over a tiny m; measured, not judged):
//
//  A. bit occupancy. After k*n uniform bit sets into m bits the number X of set
//     bits has mean mu = m(1-(1-1/m)^(kn)); bin-occupancy indicators are
//     negatively associated, so Bernstein's bound applies with variance <= m/4:
//     |X-mu| <= 3.5*sqrt(m) fails with probability < 5e-11. (+k: the k locations of
//     one entry may coincide.) A filter sized for n/2, for a constant, or fed the
//     wrong entries is off by a constant fraction of m.
//  B. measured rate. An absent probe is positive with probability q_X = (X/m)^k;
//     with X inside A's interval q_X is inside [qLo, qHi], widened by probeSlack
//     for the residual structure of double hashing (calibrated: below 4 binomial
//     sigmas at every n >= 300 over 200 filters per cell). Positives among N
//     probes are binomial: Bernstein at 1e-10 on each side.
//  C. configured rate. The ideal-hash rate of the (m, k) the library derives,
//     q_th = (1-(1-1/m)^(kn))^k, must lie within [kSlackLo, kSlackHi] of p: k is
//     rounded up to an integer (worst case p = 0.5: k = 2 instead of 1, q_th =
//     0.5625 = 1.125 p), m is rounded up. Deterministic arithmetic, no sampling.
//
// A, B and C together are "the measured fraction lies within binomial tolerance of
// p, up to the k-rounding slack".

import "math"

const (
	statMinN   = 1000
	probeSlack = 0.03
	kSlackLo   = 0.95
	kSlackHi   = 1.15
	lnInvDelta = 23.03 // ln(1e10)
	maxProbes  = 4_000_000
)

func occupancyMean(n, m, k float64) float64 { return m * (1 - math.Pow(1-1/m, k*n)) }

func occupancyTol(m, k float64) float64 { return 3.5*math.Sqrt(m) + k }

func idealRate(n, m, k float64) float64 { return math.Pow(1-math.Pow(1-1/m, k*n), k) }

// bernsteinDev: s with P(Bin(N,q) - Nq >= s) <= 1e-10 (and the same below).
func bernsteinDev(N, q float64) float64 {
	v := N * q * (1 - q)
	return lnInvDelta/3 + math.Sqrt(lnInvDelta*lnInvDelta/9+2*lnInvDelta*v)
}

func probeCount(p float64) int {
	n := 20000.0
	if w := 2000 / p; w > n {
		n = w
	}
	if n > maxProbes {
		n = maxProbes
	}
	return int(n)
}

type rateBounds struct {
	XLo, XHi     float64 // set bits
	PosLo, PosHi float64 // positives among N probes
	QLo, QHi     float64
	QTh          float64
}

func rateTolerance(n, m, k uint, N int) rateBounds {
	fn, fm, fk := float64(n), float64(m), float64(k)
	mu := occupancyMean(fn, fm, fk)
	t := occupancyTol(fm, fk)
	b := rateBounds{XLo: math.Max(0, mu-t), XHi: math.Min(fm, mu+t), QTh: idealRate(fn, fm, fk)}
	b.QLo = math.Pow(b.XLo/fm, fk) * (1 - probeSlack)
	b.QHi = math.Min(1, math.Pow(b.XHi/fm, fk)*(1+probeSlack))
	b.PosLo = math.Max(0, float64(N)*b.QLo-bernsteinDev(float64(N), b.QLo))
	b.PosHi = math.Min(float64(N), float64(N)*b.QHi+bernsteinDev(float64(N), b.QHi))
	return b
}
