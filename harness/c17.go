package main

// C17: every file produced by flush and by merge describes itself truthfully.
// Files come out of real engines (varied partitioning, compression, limits,
// false positive rates; merges run by a second engine with different limits so
// outputs mix rebuilt and verbatim-copied blocks). Each file is re-read with the
// public helpers and handed to Coq as a TFile case: the read-side model must
// agree with ReadFileMetadata, the write-side model must predict the metadata
// from what the harness knows (rows ingested, observed compressed / section
// sizes), and the truthfulness predicate is evaluated on the bytes.
//
// The read helpers are judged as a caller uses them: every block's row data and
// filters are read first and *retained* while the other blocks are read and while
// unrelated pooled scans draw and fill buffers of the same size classes; only then
// are the retained rows compared, byte for byte, with an independent decode of the
// file and with the rows ingested, and the retained filters with filters rebuilt
// from the rows. A share of the scenarios runs every engine (writers and merger)
// with strings.Fields as tokenizer -- its tokens are substrings of the value, i.e.
// views into whatever buffer the merge read a block into -- and a "retaining" profile
// combines that with uncompressed row data (decoded rows are then the read buffer
// itself) and merges that rebuild several blocks per partition.

import (
	"bytes"
	"context"
	"encoding/json"
	"fmt"
	"strings"

	bs "github.com/danthegoodman1/bloomsearch"
)

func init() { register("c17", []string{"C17"}, runC17) }

func runC17(c *Ctx) {
	c.rep.Rule = "engine-written files from random configurations (compression none/snappy/zstd with levels, 0-4 partitions, row-group and buffer limits, " +
		"three false positive rates, optional minmax key, default tokenizer or strings.Fields whose tokens are views into the value) after random ingest/flush histories " +
		"and 0-2 merges run by an engine with different limits; every fourth scenario is the retaining profile (uncompressed row data, strings.Fields, 1-2 partitions, " +
		"merges that rebuild several blocks per partition); every file referenced by the MetaStore is one case, read through the public helpers with all results retained " +
		"across the other reads and across unrelated pooled scans of the same size classes. Non-trivial: every case (a file with >= 1 block); distinct by file bytes."
	sh := c.newShard("t17", runnerT, "caseT", "mismatches", "violations")
	sh.limit = 6
	nScen := c.pick(12, 220)
	for s := 0; s < nScen; s++ {
		c17Scenario(c, sh, s)
	}
	for s := 0; s < c.pick(2, 8); s++ {
		c17WideFile(c, s)
	}
}

// c17WideFile: files with hundreds of blocks, whose metadata JSON is far larger than any fixed-size read of the
// file's tail: a flush over 300-500 partitions, a second one, a merge. Every file the MetaStore references must
// parse back from its own bytes (ReadFileMetadata) to the metadata that was registered, block for block, and
// hold every row. Judged on the Go side (a case of this size is not sent to Coq).
func c17WideFile(c *Ctx, scen int) {
	ctx := context.Background()
	tc := c.tGenConfig()
	tc.cfg.PartitionFunc = func(row map[string]any) string { p, _ := row["p"].(string); return p }
	tc.cfg.MaxBufferedRows = 1 << 20
	tc.cfg.MaxRowGroupRows = 1 << 20
	tc.cfg.MaxRowGroupBytes = 1 << 30
	nParts := 300 + c.intn(200)
	w := c.tNewWorld(tc)
	defer w.stop()
	next := 0
	flush := func(every int) {
		var rows []map[string]any
		for i := 0; i < nParts; i += every {
			row := map[string]any{"id": next, "p": fmt.Sprintf("part-%04d", i), "msg": fmt.Sprintf("wide w%d", next%7)}
			rows = append(rows, row)
			w.rows[next] = row
			next++
		}
		done := make(chan error, 1)
		must(w.eng.IngestRows(ctx, rows, done))
		must(w.eng.Flush(ctx))
		must(<-done)
	}
	check := func(stage string) {
		got := map[int]int{}
		for _, f := range w.files() {
			desc := map[string]any{"kind": "wide-file", "stage": stage, "blocks": len(f.meta.DataBlocks), "file_bytes": len(f.data)}
			parsed, size, err := bs.ReadFileMetadata(bytes.NewReader(f.data))
			if err != nil {
				c.violation("c17-wide-footer", fmt.Sprintf("%s: a file with %d blocks (%d bytes) does not parse back with ReadFileMetadata: %v", stage, len(f.meta.DataBlocks), len(f.data), err), desc)
				continue
			}
			if size != int64(len(f.data)) || len(parsed.DataBlocks) != len(f.meta.DataBlocks) {
				c.violation("c17-wide-footer", fmt.Sprintf("%s: parsed footer reports size %d / %d blocks, the file has %d bytes and was registered with %d blocks", stage, size, len(parsed.DataBlocks), len(f.data), len(f.meta.DataBlocks)), desc)
				continue
			}
			for i := range parsed.DataBlocks {
				a, b := parsed.DataBlocks[i], f.meta.DataBlocks[i]
				if a.RowDataOffset != b.RowDataOffset || a.RowDataSize != b.RowDataSize || a.BloomFilterOffset != b.BloomFilterOffset || a.BloomFilterSize != b.BloomFilterSize ||
					a.Rows != b.Rows || a.PartitionID != b.PartitionID || a.UncompressedSize != b.UncompressedSize || a.RowDataHash != b.RowDataHash {
					c.violation("c17-wide-footer", fmt.Sprintf("%s: block %d parsed from the footer differs from the registered metadata", stage, i), desc)
					break
				}
				rd, err := bs.ReadDataBlockRowData(bytes.NewReader(f.data), &a)
				if err != nil {
					c.violation("c17-wide-footer", fmt.Sprintf("%s: block %d does not read back: %v", stage, i, err), desc)
					break
				}
				sc := bs.NewBlockRowScanner(rd)
				for {
					rb, ok, err := sc.Next()
					if err != nil || !ok {
						break
					}
					if id, ok := tRowID(rb); ok {
						got[id]++
					}
				}
			}
			c.count([]string{"C17"}, fmt.Sprintf("wide-%d-%s-%s", scen, stage, f.pointer), true, desc)
			c.dist("c17_wide_file", fmt.Sprintf("%s blocks>=%d00", stage, len(f.meta.DataBlocks)/100))
		}
		for id := 0; id < next; id++ {
			if got[id] != 1 {
				c.violation("c17-wide-rows", fmt.Sprintf("%s: row %d is held %d times by the files the MetaStore references", stage, id, got[id]), map[string]any{"kind": "wide-file", "stage": stage})
				break
			}
		}
	}
	flush(1)
	check("flush")
	// the second file covers every other partition: the merge rebuilds those blocks and copies the blocks of the
	// other partitions as they are; it is run by an engine configured with another row data compression (a copied
	// block keeps the compression it was written with, and its metadata must go on saying so)
	flush(2)
	cfg2 := tc.cfg
	comps := []bs.CompressionType{bs.CompressionNone, bs.CompressionSnappy, bs.CompressionZstd}
	for i, cp := range comps {
		if cp == tc.cfg.RowDataCompression {
			cfg2.RowDataCompression = comps[(i+1+scen%2)%3]
		}
	}
	eng2, err := bs.NewBloomSearchEngine(cfg2, w.meta, w.store)
	must(err)
	if _, err := eng2.Merge(ctx); err != nil {
		c.violation("c17-merge-error", "Merge failed on healthy stores (wide files): "+err.Error(), map[string]any{"scenario": scen})
		return
	}
	check("merge")
}

func c17Scenario(c *Ctx, sh *shard, scen int) {
	ctx := context.Background()
	tc := c.tGenConfig()
	retaining := scen%4 == 3
	var walkTok func(string) []string
	if retaining {
		tc.cfg.RowDataCompression = bs.CompressionNone
		if tc.partitions > 2 {
			tc.partitions = 1 + c.intn(2)
		}
		tc.desc += fmt.Sprintf(" [retaining profile: comp=none parts=%d]", tc.partitions)
	}
	if retaining || c.chance(0.3) {
		tc.cfg.Tokenizer = strings.Fields
		walkTok = strings.Fields
		tc.desc += " tokenizer=strings.Fields"
	}
	c.dist("c17_tokenizer", map[bool]string{true: "strings.Fields (substring views)", false: "default"}[walkTok != nil])
	c.dist("c17_profile", map[bool]string{true: "retaining", false: "random"}[retaining])
	w := c.tNewWorld(tc)
	w.walkTok = walkTok
	defer w.stop()
	nextID := 0
	gen := func(n int) []map[string]any {
		rows := make([]map[string]any, n)
		for i := range rows {
			rows[i] = c.tRow(nextID, tc.partitions)
			nextID++
		}
		return rows
	}
	c.tIngest(w, gen(6+c.intn(30)))
	seen := map[string]bool{}
	emitNew := func(kind string, cfgDesc string) {
		for _, f := range w.files() {
			if seen[f.pointer] {
				continue
			}
			seen[f.pointer] = true
			c17File(c, sh, w, f, kind, scen, cfgDesc)
		}
		c17Complete(c, w, scen, kind)
	}
	emitNew("flush", tc.desc)

	rounds := c.intn(3)
	if retaining {
		rounds = 1 + c.intn(2)
	}
	for r := 0; r < rounds; r++ {
		if r > 0 || c.chance(0.3) {
			c.tIngest(w, gen(4+c.intn(16)))
			emitNew("flush", tc.desc)
		}
		cfg2 := tc.cfg
		cfg2.MaxRowGroupRows = tc.cfg.MaxRowGroupRows * (1 + c.intn(4))
		cfg2.MaxRowGroupBytes = tc.cfg.MaxRowGroupBytes * (1 + c.intn(4))
		if c.chance(0.5) {
			cfg2.RowDataCompression = []bs.CompressionType{bs.CompressionNone, bs.CompressionSnappy, bs.CompressionZstd}[c.intn(3)]
		}
		if retaining {
			cfg2.MaxRowGroupRows = tc.cfg.MaxRowGroupRows * 4
			cfg2.MaxRowGroupBytes = tc.cfg.MaxRowGroupBytes * 4
		}
		if c.chance(0.3) {
			cfg2.BloomFalsePositiveRate = []float64{0.001, 0.01, 0.2}[c.intn(3)]
		}
		cfg2.MaxFilesToMergePerOperation = 2 + c.intn(8)
		eng2, err := bs.NewBloomSearchEngine(cfg2, w.meta, w.store)
		must(err)
		if _, err := eng2.Merge(ctx); err != nil {
			c.violation("c17-merge-error", "Merge failed on healthy stores: "+err.Error(), map[string]any{"scenario": scen})
			return
		}
		emitNew("merge", fmt.Sprintf("%s | merge: comp=%s rgRows=%d rgBytes=%d fpr=%g", tc.desc, cfg2.RowDataCompression, cfg2.MaxRowGroupRows, cfg2.MaxRowGroupBytes, cfg2.BloomFalsePositiveRate))
	}
}

// c17Complete: the files the MetaStore references hold every ingested row exactly once.
func c17Complete(c *Ctx, w *tWorld, scen int, kind string) {
	got := map[int]int{}
	for _, f := range w.files() {
		for i := range f.meta.DataBlocks {
			b := f.meta.DataBlocks[i]
			rd, err := bs.ReadDataBlockRowData(bytes.NewReader(f.data), &b)
			if err != nil {
				continue // reported by c17File
			}
			sc := bs.NewBlockRowScanner(rd)
			for {
				rb, ok, err := sc.Next()
				if err != nil || !ok {
					break
				}
				if id, ok := tRowID(rb); ok {
					got[id]++
				}
			}
		}
	}
	want := map[int]int{}
	for id := range w.rows {
		want[id] = 1
	}
	if !sameCounts(got, want) {
		c.violation("c17-rows-lost", fmt.Sprintf("after %s the referenced files hold %d distinct ids (total %d), ingested %d", kind, len(got), sum(got), len(want)), map[string]any{"scenario": scen})
	}
}

func sum(m map[int]int) int {
	t := 0
	for _, v := range m {
		t += v
	}
	return t
}

func c17File(c *Ctx, sh *shard, w *tWorld, f tFile, kind string, scen int, cfgDesc string) {
	data := f.data
	desc := map[string]any{"kind": kind, "scenario": scen, "config": cfgDesc, "pointer": f.pointer, "size": len(data), "blocks": len(f.meta.DataBlocks)}
	fail := func(what string) {
		c.violation("c17-"+kind, fmt.Sprintf("%s file %s: %s", kind, f.pointer, what), desc)
	}
	pr := newProbe(data)
	md, size, err := bs.ReadFileMetadata(pr)
	if err != nil {
		fail("ReadFileMetadata: " + err.Error())
		return
	}
	if size != int64(len(data)) {
		fail(fmt.Sprintf("ReadFileMetadata reports size %d, file has %d bytes", size, len(data)))
	}
	if len(pr.oob) > 0 {
		fail("ReadFileMetadata read outside the file: " + pr.oob[0])
	}
	// what the engine committed to the MetaStore is what the file says about itself
	if md.BlockFilterRegionOffset != f.meta.BlockFilterRegionOffset || md.BlockFilterRegionSize != f.meta.BlockFilterRegionSize ||
		md.BloomEntryCounts != f.meta.BloomEntryCounts || md.BloomFalsePositiveRate != f.meta.BloomFalsePositiveRate ||
		!sameJSON(md.DataBlocks, f.meta.DataBlocks) {
		fail("the metadata committed to the MetaStore differs from the footer")
	}
	mbytes, mm, ok := footerParts(data)
	if !ok || mm == nil {
		fail("footer does not decode with encoding/json")
		return
	}
	ffs := mm.FileFilterSectionSize
	fsecOff := len(data) - 20 - len(mbytes) - ffs
	if ffs < 0 || fsecOff < 0 {
		fail("file filter section size out of range")
		return
	}
	fsec := data[fsecOff : fsecOff+ffs]

	roff := 0
	for i := range md.DataBlocks {
		roff += md.DataBlocks[i].RowDataSize
	}
	// a caller that keeps what the helpers return: every block's rows, then every block's filters,
	// then pooled scans that have nothing to do with this caller (same size classes, other content)
	heldRows := make([][]byte, len(md.DataBlocks))
	heldFilters := make([]*bs.BloomFilters, len(md.DataBlocks))
	for i := range md.DataBlocks {
		b := md.DataBlocks[i]
		rd, err := bs.ReadDataBlockRowData(newProbe(data), &b)
		if err != nil {
			fail(fmt.Sprintf("block %d: ReadDataBlockRowData: %v", i, err))
			return
		}
		heldRows[i] = rd
	}
	for i := range md.DataBlocks {
		bf, err := bs.ReadDataBlockBloomFilters(newProbe(data), md.DataBlocks[i])
		if err != nil {
			fail(fmt.Sprintf("block %d: ReadDataBlockBloomFilters: %v", i, err))
			return
		}
		heldFilters[i] = bf
	}
	for i := range md.DataBlocks {
		for _, size := range []int{md.DataBlocks[i].RowDataSize, md.DataBlocks[i].UncompressedSize, md.DataBlocks[i].BloomFilterSize} {
			o := bs.VerifGetScanBuffer(size)
			full := o[:cap(o)]
			for j := range full {
				full[j] = 0xA5
			}
			bs.VerifPutScanBuffer(o)
		}
	}
	cum, secCum := 0, roff
	var allEntries []*rowEntries
	var blockTerms, ztab []string
	dict := newEntryDict()
	sections := [][]byte{fsec}
	blockDescs := []any{}
	for i := range md.DataBlocks {
		b := md.DataBlocks[i]
		if b.RowDataSize < 0 || b.BloomFilterSize < 0 || cum+b.RowDataSize > len(data) || secCum+b.BloomFilterSize > len(data) {
			fail(fmt.Sprintf("block %d sizes run past the file", i))
			return
		}
		ci := data[cum : cum+b.RowDataSize]
		seci := data[secCum : secCum+b.BloomFilterSize]
		cum += b.RowDataSize
		secCum += b.BloomFilterSize
		sections = append(sections, seci)

		rowData := heldRows[i]
		// the helper's rows against a decode that does not go through the helper
		wantRD, decOK := ci, true
		if b.Compression == bs.CompressionSnappy || b.Compression == bs.CompressionZstd {
			wantRD, decOK = libDecompress(b.Compression, ci, 1<<24)
		}
		if decOK && !bytes.Equal(rowData, wantRD) {
			c.dist("c17_helper", "retained rows changed")
			fail(fmt.Sprintf("block %d (%s): the row data ReadDataBlockRowData returned is no longer the block's row data after the other blocks, the filters and unrelated pooled buffers were read (a returned buffer must be safe to retain)", i, b.Compression))
			rowData = wantRD // judge the file itself on the independent decode
		}
		var rowsJSON [][]byte
		var ents []*rowEntries
		sc := bs.NewBlockRowScanner(rowData)
		for {
			rb, ok, err := sc.Next()
			if err != nil {
				fail(fmt.Sprintf("block %d: scanner: %v", i, err))
				return
			}
			if !ok {
				break
			}
			id, ok := tRowID(rb)
			if !ok || w.json[id] == nil {
				fail(fmt.Sprintf("block %d holds a row that was never ingested: %q", i, rb))
				return
			}
			if !bytes.Equal(rb, w.json[id]) {
				fail(fmt.Sprintf("block %d: ReadDataBlockRowData returned a row that differs from the row ingested under its id: %q", i, rb))
				return
			}
			rowsJSON = append(rowsJSON, w.json[id])
			e, err := walkEntriesWith(w.json[id], w.walkTok)
			must(err)
			ents = append(ents, e)
		}
		allEntries = append(allEntries, ents...)
		want, _ := rebuildFilters(ents, b.BloomFalsePositiveRate)
		if coqFilters(heldFilters[i]) != coqFilters(&want) {
			fail(fmt.Sprintf("block %d: the filters ReadDataBlockBloomFilters returned are not the filters of the block's rows (rebuilt independently from the rows ingested)", i))
		}
		if b.Compression == bs.CompressionSnappy || b.Compression == bs.CompressionZstd {
			d, ok := libDecompress(b.Compression, ci, 1<<24)
			ztab = append(ztab, coqPair(coqStr(ci), coqOptStr(d, ok)))
		}
		entTerms := make([]string, len(ents))
		for j, e := range ents {
			entTerms[j] = dict.pack3(e)
		}
		blockTerms = append(blockTerms, fmt.Sprintf("{| fb_rows := %s; fb_entries := %s; fb_filters := %s |}",
			coqStrs(rowsJSON), coqList(entTerms), coqFilters(&want)))
		blockDescs = append(blockDescs, map[string]any{"rows": len(rowsJSON), "compression": string(b.Compression), "row_data_size": b.RowDataSize, "filter_size": b.BloomFilterSize, "partition": b.PartitionID})
		c.dist("c17_compression", coqComp(b.Compression))
		c.dist("c17_rows_per_block", tBucket(len(rowsJSON)))
	}
	wantFile, _ := rebuildFilters(allEntries, md.BloomFalsePositiveRate)
	obs := coqMetaJ(md.BlockFilterRegionOffset, md.BlockFilterRegionSize, ffs, md.BloomEntryCounts, md.DataBlocks)
	term := fmt.Sprintf("TFile %s %s %s %s %s %s %s %s", coqStr(data), coqJD(mm), decTable(sections...), coqList(ztab), obs,
		coqFilters(&wantFile), coqStrList(dict.words), coqList(blockTerms))
	desc["block_details"] = blockDescs
	sh.add(c, term, desc)
	c.count([]string{"C17"}, string(data), len(md.DataBlocks) > 0, desc)
	c.dist("c17_file_kind", kind)
	c.dist("c17_blocks_per_file", tBucket(len(md.DataBlocks)))
}

func tBucket(n int) string {
	switch {
	case n <= 1:
		return fmt.Sprint(n)
	case n <= 3:
		return "2-3"
	case n <= 7:
		return "4-7"
	case n <= 15:
		return "8-15"
	}
	return "16+"
}

// sameJSON compares two values by their JSON encoding (nil and empty maps coincide).
func sameJSON(a, b any) bool {
	x, err := json.Marshal(a)
	must(err)
	y, err := json.Marshal(b)
	must(err)
	return bytes.Equal(x, y)
}
