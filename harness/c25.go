package main

// C25: constructors with flattening, QueryBuilder chains, JSON round trips.

import (
	"context"
	"encoding/json"
	"fmt"
	"math/big"
	"reflect"
	"sort"
	"strings"
	"time"

	bs "github.com/danthegoodman1/bloomsearch"
)

func init() { register("c25", []string{"C25"}, runC25) }

const runnerB = "Model.Json Model.Expr Model.MinMax Model.QueryFn Model.Builder Cases.RunnerR Cases.RunnerB"

func coqPCondOf(cd *bs.PrefilterCondition) string {
	switch cd.ConditionType {
	case bs.PrefilterConditionPartition:
		if cd.PartitionCondition == nil {
			return "(PPartition None)"
		}
		return "(PPartition (Some " + coqSCond(*cd.PartitionCondition) + "))"
	case bs.PrefilterConditionMinMax:
		if cd.MinMaxCondition == nil {
			return "(PMinMax " + coqS(cd.MinMaxFieldName) + " None)"
		}
		return "(PMinMax " + coqS(cd.MinMaxFieldName) + " (Some " + coqNCond(*cd.MinMaxCondition) + "))"
	}
	return "PUnknownCond"
}

func coqPExprOf(e *bs.PrefilterExpression) string {
	switch e.ExpressionType {
	case bs.PrefilterExpressionCondition:
		if e.Condition == nil {
			return "(PCond None)"
		}
		return "(PCond (Some " + coqPCondOf(e.Condition) + "))"
	case bs.PrefilterExpressionAnd, bs.PrefilterExpressionOr:
		kids := make([]string, len(e.Children))
		for i := range e.Children {
			kids[i] = coqPExprOf(&e.Children[i])
		}
		if e.ExpressionType == bs.PrefilterExpressionAnd {
			return "(PAnd " + coqList(kids) + ")"
		}
		return "(POr " + coqList(kids) + ")"
	}
	return "PUnknown"
}

func coqQueryOf(q *bs.Query) string {
	p := "None"
	if q.Prefilter != nil && q.Prefilter.Expression != nil {
		p = "(Some " + coqPExprOf(q.Prefilter.Expression) + ")"
	}
	return fmt.Sprintf("{| q_pre := %s; q_bloom := %s; q_regex := %s |}", p, coqBQuery(q.Bloom), coqRQuery(q.Regex))
}

// coqGJ renders parsed JSON text as the model's gj (numbers must be integers).
func coqGJ(n *jnode) (string, bool) {
	switch n.kind {
	case jNull:
		return "GNull", true
	case jStr:
		return "(GStr " + coqStr(n.s) + ")", true
	case jNum:
		z, ok := new(big.Int).SetString(string(n.s), 10)
		if !ok {
			return "", false
		}
		return "(GInt " + coqBigZ(z) + ")", true
	case jArr:
		items := make([]string, len(n.arr))
		for i, c := range n.arr {
			s, ok := coqGJ(c)
			if !ok {
				return "", false
			}
			items[i] = s
		}
		return "(GArr " + coqList(items) + ")", true
	case jObj:
		items := make([]string, len(n.keys))
		for i := range n.keys {
			s, ok := coqGJ(n.vals[i])
			if !ok {
				return "", false
			}
			items[i] = fmt.Sprintf("(%q%%string, %s)", string(n.keys[i]), s)
		}
		return "(GObj " + coqList(items) + ")", true
	}
	return "", false
}

func validUTF8JSON(b []byte) bool {
	return !strings.Contains(string(b), "\uFFFD") && !strings.Contains(string(b), `\ufffd`)
}

// c25OperatorSpellings: an operator the evaluators do not know is not an error, it makes its condition false
// (documented), and it stays what it is through serialization - also when it differs from a known operator only
// in letter case or surrounding blanks. Round trip through encoding/json and evaluation before and after.
func c25OperatorSpellings(c *Ctx) {
	spellings := []string{"eq", "Eq", " EQ", "EQ ", "between", "Not_In", " IN", "in", "lte", "gt ", "ne", "not_between", "LIKE", "", "BOGUS"}
	blocks := []bs.DataBlockMetadata{
		{PartitionID: "a", MinMaxIndexes: map[string]bs.MinMaxIndex{"n": {Min: 1, Max: 5}}},
		{PartitionID: "b", MinMaxIndexes: map[string]bs.MinMaxIndex{"n": {Min: -3, Max: 40}}},
	}
	for _, sp := range spellings {
		op := bs.QueryOperator(sp)
		exprs := []bs.PrefilterExpression{
			bs.MinMax("n", bs.NumericCondition{Operator: op, Value: 3, Values: []int64{1, 3, 40}, Min: 0, Max: 10}),
			bs.Partition(bs.StringCondition{Operator: op, Value: "a", Values: []string{"a", "b"}, Min: "a", Max: "b"}),
		}
		exprs = append(exprs, bs.PrefilterOr(exprs[0], bs.PrefilterAnd(exprs[1])))
		for k, e := range exprs {
			q := bs.NewQuery().MatchPrefilter(e).Build()
			raw, err := json.Marshal(q)
			if err != nil {
				c.violation("c25-operator-spelling", fmt.Sprintf("a query with operator %q does not serialize: %v", sp, err), nil)
				continue
			}
			var back bs.Query
			if err := json.Unmarshal(raw, &back); err != nil {
				c.violation("c25-operator-spelling", fmt.Sprintf("a serialized query with operator %q does not decode: %v", sp, err), map[string]any{"json": string(raw)})
				continue
			}
			desc := map[string]any{"kind": "operator-spelling", "operator": sp, "shape": k, "json": string(raw)}
			c.count([]string{"C25"}, fmt.Sprintf("opsp-%q-%d", sp, k), true, desc)
			if !reflect.DeepEqual(q.Prefilter, back.Prefilter) {
				c.violation("c25-operator-spelling", fmt.Sprintf("operator %q is not the same after a JSON round trip of the query", sp), desc)
				continue
			}
			for i := range blocks {
				if a, b := bs.EvaluateDataBlockMetadata(&blocks[i], q.Prefilter), bs.EvaluateDataBlockMetadata(&blocks[i], back.Prefilter); a != b {
					c.violation("c25-operator-spelling", fmt.Sprintf("operator %q: the decoded query evaluates to %v on a block where the original evaluates to %v", sp, b, a), desc)
				}
			}
		}
	}
}

func runC25(c *Ctx) {
	c25OperatorSpellings(c)
	c.rep.Rule = "constructors: And/Or, RegexAnd/RegexOr, PrefilterAnd/PrefilterOr on 0-4 random children (nested same-type nodes, nil/empty/unknown nodes) compared structurally with the model's flattening; " +
		"builder: random chains of Field/Token/FieldToken/Match/FieldRegex/MatchRegex/MatchPrefilter + Build compared structurally with the model state machine and by evaluation with the nested conjunction; " +
		"JSON: json.Marshal shape (parsed by the harness's independent parser) and json.Unmarshal result compared with the model codec; every original/derived pair is also evaluated on random rows, blocks and a live engine. " +
		"Non-trivial: >= 1 child / >= 2 calls / a tree with a condition. Distinct by case text."
	sh := c.newShard("b", runnerB, "caseB", "mismatchesB", "violationsB")
	sh.limit = 700
	props := []string{"C25"}

	// evaluation corpus: rows and blocks
	type evalRow struct {
		bytes []byte
		tk    tokenizerSpec
	}
	var erows []evalRow
	for i := 0; i < 60; i++ {
		b, _ := json.Marshal(c.genRow())
		erows = append(erows, evalRow{b, tokenizers[0]})
	}
	h := &hitSet{}
	for _, r := range erows[:20] {
		hh := hitsOf(bs.VerifWalk(r.bytes), r.tk.oracle)
		h.paths = append(h.paths, hh.paths...)
		h.tokens = append(h.tokens, hh.tokens...)
		h.pairs = append(h.pairs, hh.pairs...)
	}
	var eblocks []bs.DataBlockMetadata
	near := map[string][]int64{}
	for i := 0; i < 40; i++ {
		a, b := c.genI64(), c.genI64()
		if a > b {
			a, b = b, a
		}
		bm := bs.DataBlockMetadata{PartitionID: partitionPool[c.intn(len(partitionPool))]}
		if c.chance(0.8) {
			bm.MinMaxIndexes = map[string]bs.MinMaxIndex{"n": {Min: a, Max: b}}
			near["n"] = append(near["n"], a, b)
		}
		eblocks = append(eblocks, bm)
	}
	sameRows := func(a, b *bs.Query) (bool, string) {
		for _, r := range erows {
			x, ex := bs.VerifMatchRow(a, r.bytes, r.tk.fn)
			y, ey := bs.VerifMatchRow(b, r.bytes, r.tk.fn)
			if (ex == nil) != (ey == nil) || x != y {
				return false, string(r.bytes)
			}
		}
		return true, ""
	}
	sameBlocks := func(a, b *bs.PrefilterExpression) (bool, string) {
		for i := range eblocks {
			if bs.EvaluateDataBlockMetadata(&eblocks[i], &bs.QueryPrefilter{Expression: a}) != bs.EvaluateDataBlockMetadata(&eblocks[i], &bs.QueryPrefilter{Expression: b}) {
				return false, fmt.Sprintf("%+v", eblocks[i])
			}
		}
		return true, ""
	}

	// live engine for "identical query results"
	ctx := context.Background()
	cfg := bs.DefaultBloomSearchEngineConfig()
	cfg.MaxBufferedTime = time.Hour
	cfg.MinMaxIndexes = []string{"n"}
	cfg.MaxRowGroupRows = 7
	eng, err := bs.NewBloomSearchEngine(cfg, bs.NewMemoryMetaStore(), newMemDataStore())
	must(err)
	eng.Start()
	var batch []map[string]any
	for i, r := range erows {
		var m map[string]any
		json.Unmarshal(r.bytes, &m)
		if m == nil {
			m = map[string]any{}
		}
		m["_id"] = i
		m["n"] = c.genI64()
		batch = append(batch, m)
	}
	must(eng.IngestRows(ctx, batch, nil))
	must(eng.Flush(ctx))
	defer func() {
		sctx, cancel := context.WithTimeout(ctx, 120*time.Second)
		eng.Stop(sctx)
		cancel()
	}()
	results := func(q *bs.Query) ([]int, error) {
		res, err := eng.Query(ctx, q)
		if err != nil {
			return nil, err
		}
		defer res.Close()
		var ids []int
		for res.Next() {
			ids = append(ids, int(res.Row()["_id"].(float64)))
		}
		sort.Ints(ids)
		return ids, res.Err()
	}
	sameResults := func(a, b *bs.Query) bool {
		x, ex := results(a)
		y, ey := results(b)
		return (ex == nil) == (ey == nil) && fmt.Sprint(x) == fmt.Sprint(y)
	}

	n := c.pick(400, 8000)
	for i := 0; i < n; i++ {
		// ---- constructors ----
		k := c.intn(5)
		isAnd := c.chance(0.5)
		{
			kids := make([]bs.BloomExpression, k)
			kc := make([]string, k)
			for j := range kids {
				kids[j] = c.genBExpr(2, h)
				kc[j] = coqBExpr(&kids[j])
			}
			var obs, plain bs.BloomExpression
			if isAnd {
				obs, plain = bs.And(kids...), bs.BloomExpression{ExpressionType: bs.BloomExpressionAnd, Children: kids}
			} else {
				obs, plain = bs.Or(kids...), bs.BloomExpression{ExpressionType: bs.BloomExpressionOr, Children: kids}
			}
			for j := range kids {
				if coqBExpr(&kids[j]) != kc[j] {
					c.violation("c25-ctor-mutates-args", "And/Or constructor changed the caller's argument slice", map[string]any{"before": kc[j], "after": coqBExpr(&kids[j])})
				}
			}
			term := fmt.Sprintf("CCtorB %s %s %s", coqBool(isAnd), coqList(kc), coqBExpr(&obs))
			desc := map[string]any{"kind": "ctor-bloom", "and": isAnd, "children": kids, "result": obs}
			sh.add(c, term, desc)
			c.count(props, term, k > 0, desc)
			if ok, row := sameRows(&bs.Query{Bloom: &bs.BloomQuery{Expression: &obs}}, &bs.Query{Bloom: &bs.BloomQuery{Expression: &plain}}); !ok {
				c.violation("c25-ctor-eval", "And/Or constructor result evaluates differently from the plain node on row "+row, desc)
			}
		}
		{
			kids := make([]bs.RegexExpression, k)
			kc := make([]string, k)
			for j := range kids {
				kids[j] = c.genRExpr(2, h)
				kc[j] = coqRExpr(&kids[j])
			}
			var obs, plain bs.RegexExpression
			if isAnd {
				obs, plain = bs.RegexAnd(kids...), bs.RegexExpression{ExpressionType: bs.RegexExpressionAnd, Children: kids}
			} else {
				obs, plain = bs.RegexOr(kids...), bs.RegexExpression{ExpressionType: bs.RegexExpressionOr, Children: kids}
			}
			for j := range kids {
				if coqRExpr(&kids[j]) != kc[j] {
					c.violation("c25-ctor-mutates-args", "RegexAnd/RegexOr constructor changed the caller's argument slice", map[string]any{"before": kc[j], "after": coqRExpr(&kids[j])})
				}
			}
			term := fmt.Sprintf("CCtorR %s %s %s", coqBool(isAnd), coqList(kc), coqRExpr(&obs))
			sh.add(c, term, map[string]any{"kind": "ctor-regex", "and": isAnd, "children": kids, "result": obs})
			c.count(props, term, k > 0, nil)
			if ok, row := sameRows(&bs.Query{Regex: &bs.RegexQuery{Expression: &obs}}, &bs.Query{Regex: &bs.RegexQuery{Expression: &plain}}); !ok {
				c.violation("c25-ctor-eval", "RegexAnd/RegexOr result evaluates differently from the plain node on row "+row, map[string]any{"children": kids})
			}
		}
		{
			kids := make([]bs.PrefilterExpression, k)
			kc := make([]string, k)
			for j := range kids {
				kids[j], kc[j] = c.genPExpr(2, []string{"n"}, near)
			}
			var obs, plain bs.PrefilterExpression
			if isAnd {
				obs, plain = bs.PrefilterAnd(kids...), bs.PrefilterExpression{ExpressionType: bs.PrefilterExpressionAnd, Children: kids}
			} else {
				obs, plain = bs.PrefilterOr(kids...), bs.PrefilterExpression{ExpressionType: bs.PrefilterExpressionOr, Children: kids}
			}
			for j := range kids {
				if coqPExprOf(&kids[j]) != kc[j] {
					c.violation("c25-ctor-mutates-args", "PrefilterAnd/PrefilterOr constructor changed the caller's argument slice", map[string]any{"before": kc[j], "after": coqPExprOf(&kids[j])})
				}
			}
			term := fmt.Sprintf("CCtorP %s %s %s", coqBool(isAnd), coqList(kc), coqPExprOf(&obs))
			sh.add(c, term, map[string]any{"kind": "ctor-prefilter", "and": isAnd, "children": kids, "result": obs})
			c.count(props, term, k > 0, nil)
			if ok, blk := sameBlocks(&obs, &plain); !ok {
				c.violation("c25-ctor-eval", "PrefilterAnd/PrefilterOr result evaluates differently from the plain node on block "+blk, map[string]any{"children": kids})
			}
		}

		// ---- builder ----
		{
			nc := c.intn(7)
			b := bs.NewQuery()
			calls := make([]string, 0, nc)
			// the written conjunction, built by hand as nested binary And nodes
			var denB *bs.BloomExpression
			var denR *bs.RegexExpression
			var denP *bs.PrefilterExpression
			andB := func(e bs.BloomExpression) {
				if denB == nil {
					denB = &e
				} else {
					n := bs.BloomExpression{ExpressionType: bs.BloomExpressionAnd, Children: []bs.BloomExpression{*denB, e}}
					denB = &n
				}
			}
			andR := func(e bs.RegexExpression) {
				if denR == nil {
					denR = &e
				} else {
					n := bs.RegexExpression{ExpressionType: bs.RegexExpressionAnd, Children: []bs.RegexExpression{*denR, e}}
					denR = &n
				}
			}
			var callNames []string
			var replay []func(*bs.QueryBuilder)
			for j := 0; j < nc; j++ {
				switch c.intn(9) {
				case 0, 1:
					f := c.pickField(h)
					b.Field(f)
					replay = append(replay, func(x *bs.QueryBuilder) { x.Field(f) })
					andB(bs.Field(f))
					calls = append(calls, "KField "+coqS(f))
					callNames = append(callNames, "Field")
				case 2:
					t := c.pickToken(h)
					b.Token(t)
					replay = append(replay, func(x *bs.QueryBuilder) { x.Token(t) })
					andB(bs.Token(t))
					calls = append(calls, "KToken "+coqS(t))
					callNames = append(callNames, "Token")
				case 3:
					f, t := c.pickField(h), c.pickToken(h)
					b.FieldToken(f, t)
					replay = append(replay, func(x *bs.QueryBuilder) { x.FieldToken(f, t) })
					andB(bs.FieldToken(f, t))
					calls = append(calls, "KFieldToken "+coqS(f)+" "+coqS(t))
					callNames = append(callNames, "FieldToken")
				case 4, 5:
					e := c.genBExpr(2, h)
					switch c.intn(4) {
					case 0: // a base assembled from reusable sub-filters: nested groups flattened by the constructor
						e = bs.And(bs.And(c.genBExpr(0, h), c.genBExpr(0, h)), c.genBExpr(1, h))
					case 1: // a base received over the wire
						src := bs.And(c.genBExpr(0, h), c.genBExpr(0, h), c.genBExpr(1, h))
						data, _ := json.Marshal(src)
						var dec bs.BloomExpression
						if json.Unmarshal(data, &dec) == nil && validUTF8JSON(data) {
							e = dec
						}
					}
					b.Match(e)
					replay = append(replay, func(x *bs.QueryBuilder) { x.Match(e) })
					denB = &e
					calls = append(calls, "KMatch "+coqBExpr(&e))
					callNames = append(callNames, "Match")
				case 6:
					f, p := c.pickField(h), patternPool[c.intn(len(patternPool))]
					b.FieldRegex(f, p)
					replay = append(replay, func(x *bs.QueryBuilder) { x.FieldRegex(f, p) })
					andR(bs.FieldRegex(f, p))
					calls = append(calls, "KFieldRegex "+coqS(f)+" "+coqS(p))
					callNames = append(callNames, "FieldRegex")
				case 7:
					e := c.genRExpr(2, h)
					for !regexAcceptable(&e) {
						e = c.genRExpr(2, h)
					}
					if c.chance(0.4) {
						e = bs.RegexAnd(bs.RegexAnd(bs.FieldRegex(c.pickField(h), "o"), bs.FieldRegex(c.pickField(h), "^j")), bs.FieldRegex(c.pickField(h), "."))
					}
					b.MatchRegex(e)
					replay = append(replay, func(x *bs.QueryBuilder) { x.MatchRegex(e) })
					denR = &e
					calls = append(calls, "KMatchRegex "+coqRExpr(&e))
					callNames = append(callNames, "MatchRegex")
				default:
					e, ec := c.genPExpr(2, []string{"n"}, near)
					b.MatchPrefilter(e)
					replay = append(replay, func(x *bs.QueryBuilder) { x.MatchPrefilter(e) })
					denP = &e
					calls = append(calls, "KMatchPrefilter "+ec)
					callNames = append(callNames, "MatchPrefilter")
				}
			}
			q := b.Build()
			snapshot := coqQueryOf(q)
			// other builders over the same caller-owned expressions, diverging right after the last
			// Match / MatchRegex: the first query must not change (no shared backing arrays)
			{
				lastB, lastR := -1, -1
				for j, nm := range callNames {
					if nm == "Match" {
						lastB = j
					}
					if nm == "MatchRegex" {
						lastR = j
					}
				}
				changed := false
				for _, cut := range []int{lastB, lastR, len(replay) - 1} {
					if cut < 0 {
						continue
					}
					b2 := bs.NewQuery()
					for _, f := range replay[:cut+1] {
						f(b2)
					}
					b2.Token("zz-other").Field("zz.other").FieldRegex("zz", "other")
					b2.Build()
					changed = changed || coqQueryOf(q) != snapshot
					b3 := bs.NewQuery()
					for _, f := range replay[:cut+1] {
						f(b3)
					}
					b3.FieldToken("yy", "third").FieldRegex("yy", "third")
					b3.Build()
					changed = changed || coqQueryOf(q) != snapshot
				}
				if changed {
					c.violation("c25-builder-aliasing", "a built query changed when the same expressions were used in another builder", map[string]any{"calls": callNames, "before": snapshot, "after": coqQueryOf(q)})
				}
			}
			term := fmt.Sprintf("CBuild %s %s", coqList(calls), snapshot)
			desc := map[string]any{"kind": "builder", "calls": callNames, "built": q}
			sh.add(c, term, desc)
			c.dist("builder_calls", fmt.Sprint(nc))
			c.count(props, term, nc >= 2, desc)
			den := &bs.Query{}
			if denB != nil {
				den.Bloom = &bs.BloomQuery{Expression: denB}
			}
			if denR != nil {
				den.Regex = &bs.RegexQuery{Expression: denR}
			}
			if denP != nil {
				den.Prefilter = &bs.QueryPrefilter{Expression: denP}
			}
			if ok, row := sameRows(q, den); !ok {
				c.violation("c25-builder-eval", "built query and the written conjunction differ on row "+row, desc)
			}
			var qp, dp *bs.PrefilterExpression
			if q.Prefilter != nil {
				qp = q.Prefilter.Expression
			}
			dp = denP
			if ok, blk := sameBlocks(qp, dp); !ok {
				c.violation("c25-builder-eval", "built prefilter and the written one differ on block "+blk, desc)
			}
			if i%8 == 0 && !sameResults(q, den) {
				c.violation("c25-builder-results", "built query and the written conjunction return different rows", desc)
			}

			// ---- whole Query through JSON ----
			data, err := json.Marshal(q)
			must(err)
			var back bs.Query
			if err := json.Unmarshal(data, &back); err != nil {
				c.violation("c25-json-query", "Query does not unmarshal: "+err.Error(), desc)
			} else if validUTF8JSON(data) {
				if coqQueryOf(q) != coqQueryOf(&back) {
					c.violation("c25-json-query", "Query changed through JSON", map[string]any{"before": q, "after": back})
				}
				if ok, row := sameRows(q, &back); !ok {
					c.violation("c25-json-query", "Query evaluates differently after JSON on row "+row, desc)
				}
				if i%8 == 0 && !sameResults(q, &back) {
					c.violation("c25-json-results", "Query returns different rows after JSON", desc)
				}
			}
			c.count(props, "json-query:"+string(data), nc > 0, nil)
		}

		// ---- trees through JSON ----
		{
			e := c.genBExpr(3, h)
			data, err := json.Marshal(e)
			must(err)
			var back bs.BloomExpression
			must(json.Unmarshal(data, &back))
			tree, err := parseJSON(data)
			must(err)
			if gj, ok := coqGJ(tree); ok && validUTF8JSON(data) {
				term := fmt.Sprintf("CJsonB %s %s %s", coqBExpr(&e), gj, coqBExpr(&back))
				desc := map[string]any{"kind": "json-bloom", "json": string(data)}
				sh.add(c, term, desc)
				c.count(props, term, strings.Contains(string(data), "Condition"), desc)
				if ok, row := sameRows(&bs.Query{Bloom: &bs.BloomQuery{Expression: &e}}, &bs.Query{Bloom: &bs.BloomQuery{Expression: &back}}); !ok {
					c.violation("c25-json-eval", "bloom tree evaluates differently after JSON on row "+row, desc)
				}
			}
		}
		{
			e := c.genRExpr(3, h)
			data, err := json.Marshal(e)
			must(err)
			var back bs.RegexExpression
			must(json.Unmarshal(data, &back))
			tree, err := parseJSON(data)
			must(err)
			if gj, ok := coqGJ(tree); ok && validUTF8JSON(data) {
				term := fmt.Sprintf("CJsonR %s %s %s", coqRExpr(&e), gj, coqRExpr(&back))
				sh.add(c, term, map[string]any{"kind": "json-regex", "json": string(data)})
				c.count(props, term, strings.Contains(string(data), "Condition"), nil)
				if regexAcceptable(&e) {
					if ok, row := sameRows(&bs.Query{Regex: &bs.RegexQuery{Expression: &e}}, &bs.Query{Regex: &bs.RegexQuery{Expression: &back}}); !ok {
						c.violation("c25-json-eval", "regex tree evaluates differently after JSON on row "+row, map[string]any{"json": string(data)})
					}
				}
			}
		}
		{
			e, ec := c.genPExpr(3, []string{"n", "m"}, near)
			data, err := json.Marshal(e)
			must(err)
			var back bs.PrefilterExpression
			must(json.Unmarshal(data, &back))
			tree, err := parseJSON(data)
			must(err)
			if gj, ok := coqGJ(tree); ok && validUTF8JSON(data) {
				term := fmt.Sprintf("CJsonP %s %s %s", ec, gj, coqPExprOf(&back))
				sh.add(c, term, map[string]any{"kind": "json-prefilter", "json": string(data)})
				c.count(props, term, strings.Contains(string(data), "Condition"), nil)
				if ok, blk := sameBlocks(&e, &back); !ok {
					c.violation("c25-json-eval", "prefilter tree evaluates differently after JSON on block "+blk, map[string]any{"json": string(data)})
				}
			}
		}
	}
}
