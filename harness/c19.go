package main

// C19: corrupted or malformed files fail cleanly and never yield wrong rows.
//
//	(a) CRC-consistent footers whose framing fields take arbitrary int64 values
//	    (boundary enumeration around 0, the data limit, MaxInt64, negatives) go
//	    through ReadFileMetadata on an instrumented ReadSeeker: verdict, planned
//	    extents and returned metadata are compared with the model, out-of-bounds
//	    reads and oversized requests are flagged; validate / validateFilterSection /
//	    planBlockFilterReads / blockFilterCursor are driven directly through the
//	    verif exports.
//	(b) byte mutations of engine-written files go through the public helpers and
//	    through Query with a MemoryMetaStore holding the good metadata and with the
//	    FileSystemDataStore as its own MetaStore.
//	(c) the verification fields of a block (RowDataHash, HasRowDataHash, Compression,
//	    UncompressedSize) run through their own boundary sets against the three block
//	    readers (decodeBlockRowData, ReadDataBlockRowData, readPooledBlockRowData), and
//	    engine-written blocks whose content is solved so that the recorded CRC32C is a
//	    chosen value (0, all ones, the sign bit, 1) are corrupted and queried like (b):
//	    no value of a recorded checksum may switch verification off.
//
// The whole command runs in a child process with an address-space limit: a panic
// inside an engine goroutine or a fatal out-of-memory takes the child down and
// the supervisor reports it as a violation.

import (
	"bytes"
	"context"
	"encoding/binary"
	"encoding/json"
	"fmt"
	"hash/crc32"
	"math"
	"os"
	"os/exec"
	"path/filepath"
	"reflect"
	"runtime"
	"strings"
	"syscall"

	"github.com/bits-and-blooms/bloom/v3"
	bs "github.com/danthegoodman1/bloomsearch"
	"github.com/klauspost/compress/snappy"
	"github.com/klauspost/compress/zstd"
)

func init() { register("c19", []string{"C19"}, runC19) }

const c19AddressSpace = 12 << 30

const sigUsize = "c19-uncompressed-size-unbounded"

// sigSplice marks findings caused by a filter section that was replaced by another VALID section:
// a section certifies itself (its CRC travels inside it) and nothing in the block metadata binds it
// to its block.
const sigSplice = "c19-valid-section-splice"

// validSectionSplice reports whether some block of the file now has, at its recorded filter
// extent, bytes that differ from the original and still parse as a filter section.
func validSectionSplice(orig tFile, mutated []byte) bool {
	for i := range orig.meta.DataBlocks {
		b := orig.meta.DataBlocks[i]
		lo, hi := b.BloomFilterOffset, b.BloomFilterOffset+b.BloomFilterSize
		if b.BloomFilterSize <= 0 || hi > len(mutated) || hi > len(orig.data) {
			continue
		}
		if bytes.Equal(orig.data[lo:hi], mutated[lo:hi]) {
			continue
		}
		if _, err := bs.VerifParseFilterSection(mutated[lo:hi]); err == nil {
			return true
		}
	}
	return false
}

func runC19(c *Ctx) {
	if os.Getenv("BSVERIF_CHILD") == "" {
		c19Supervise(c)
		return
	}
	_ = syscall.Setrlimit(syscall.RLIMIT_AS, &syscall.Rlimit{Cur: c19AddressSpace, Max: c19AddressSpace})
	c.rep.Rule = "(a) footers with a valid CRC whose framing fields (region offset/size, row-data offset/size, filter offset/size, file filter section size, " +
		"metadata length) run through boundary sets around 0, the data limit, the region bounds, MaxInt64 and negatives, pairwise and randomly combined, plus " +
		"malformed JSON payloads, versions, magic and sizes; the same boundary sets against validate, validateFilterSection, planBlockFilterReads; " +
		"blockFilterCursor passes over laid-out regions (gaps, overlaps, out-of-order, zero-size, invalid, cap boundaries, truncated files). " +
		"(b) bit flips, byte bursts, truncations, extensions, splices, zero fills and swaps of engine-written files, read through the helpers (own and held metadata), " +
		"queried through both MetaStores and merged. (c) block verification fields: recorded checksum in a boundary set around 0, all ones, the true CRC and one-bit neighbours, " +
		"with and without HasRowDataHash, all compression spellings, intact and damaged bytes, through the three block readers; engine-written uncompressed blocks whose row content is " +
		"solved (CRC32C is affine over GF(2)) so that the recorded checksum is 0 / 0xFFFFFFFF / 0x80000000 / 1, then row-data mutations through helpers and queries. Non-trivial: a footer case whose CRC is consistent; a mutation that changes the file; distinct by case text."
	c19Validate(c)
	c19Plan(c)
	c19Footers(c)
	c19Cursor(c)
	c19Streams(c)
	c19DecodeFields(c)
	c19Mutations(c)
	c19ChosenChecksums(c)
	c19SectionSwap(c)
}

// ---------------------------------------------------------------- supervisor

func c19Supervise(c *Ctx) {
	progress := filepath.Join(c.Out, "c19.progress")
	os.Remove(progress)
	cmd := exec.Command(os.Args[0], os.Args[1:]...)
	cmd.Env = append(os.Environ(), "BSVERIF_CHILD=1", "BSVERIF_PROGRESS="+progress)
	var stderr bytes.Buffer
	cmd.Stderr = &stderr
	cmd.Stdout = os.Stdout
	err := cmd.Run()
	if err == nil {
		data, rerr := os.ReadFile(filepath.Join(c.Out, "report.json"))
		must(rerr)
		must(json.Unmarshal(data, &c.rep))
		return
	}
	tail := stderr.String()
	if len(tail) > 3000 {
		tail = tail[:1500] + "\n...\n" + tail[len(tail)-1500:]
	}
	last, _ := os.ReadFile(progress)
	c.rep.Rule = "child process crashed; no cases evaluated"
	c.violation("c19-crash", fmt.Sprintf("the engine took the harness process down (%v) while handling: %s", err, string(last)),
		map[string]any{"last_case": string(last), "stderr": tail})
}

// progress records what is about to run, for the supervisor's crash report.
func c19Progress(what string) {
	if p := os.Getenv("BSVERIF_PROGRESS"); p != "" {
		os.WriteFile(p, []byte(what), 0o644)
	}
}

// ---------------------------------------------------------------- boundary sets

const maxI64 = math.MaxInt64
const minI64 = math.MinInt64

// around returns the boundary set relative to the landmarks given.
func around(marks ...int64) []int64 {
	set := map[int64]bool{minI64: true, minI64 + 1: true, -1: true, 0: true, 1: true, maxI64 - 1: true, maxI64: true}
	for _, m := range marks {
		for _, d := range []int64{-1, 0, 1} {
			set[m+d] = true
			set[maxI64-m+d] = true // offset m + this value lands on MaxInt64-1, MaxInt64, and one past it
		}
		set[-m] = true
	}
	out := make([]int64, 0, len(set))
	for v := range set {
		out = append(out, v)
	}
	sortI64(out)
	return out
}

// extentPairs enumerates (offset, size) pairs against an extent [lo, hi]: every offset of a
// boundary set around lo and hi, each with the sizes that matter for it -- the extremes, an
// exact fit, one short, one over, and the sizes whose sum with the offset lands on
// MaxInt64 and one past it (wrap-around). The thorough tier takes the full product instead.
func (c *Ctx) extentPairs(lo, hi int64, extra ...int64) [][2]int64 {
	offs := around(append([]int64{lo, hi}, extra...)...)
	var out [][2]int64
	if c.thorough() {
		for _, a := range offs {
			for _, b := range offs {
				out = append(out, [2]int64{a, b})
			}
		}
		return out
	}
	seen := map[[2]int64]bool{}
	for _, a := range offs {
		for _, b := range []int64{minI64, -1, 0, 1, maxI64, hi - a - 1, hi - a, hi - a + 1, hi, maxI64 - a, maxI64 - a + 1, hi - lo} {
			if !seen[[2]int64{a, b}] {
				seen[[2]int64{a, b}] = true
				out = append(out, [2]int64{a, b})
			}
		}
	}
	return out
}

func sortI64(v []int64) {
	for i := 1; i < len(v); i++ {
		for j := i; j > 0 && v[j] < v[j-1]; j-- {
			v[j], v[j-1] = v[j-1], v[j]
		}
	}
}

func (c *Ctx) pickI64(set []int64) int64 { return set[c.intn(len(set))] }

// genField draws a framing value: mostly plausible, sometimes a boundary.
func (c *Ctx) genField(plausible int64, set []int64) int64 {
	switch k := c.intn(10); {
	case k < 5:
		return plausible
	case k < 7:
		if plausible > 0 {
			return c.rng.Int64N(plausible + 1)
		}
		return 0
	default:
		return c.pickI64(set)
	}
}

func blockWith(rdo, rds, bfo, bfs int64) bs.DataBlockMetadata {
	return bs.DataBlockMetadata{RowDataOffset: int(rdo), RowDataSize: int(rds), BloomFilterOffset: int(bfo), BloomFilterSize: int(bfs)}
}

// metaInBounds is the plain-integer statement of what validate promises.
func metaInBounds(roff, rsize int64, blocks []bs.DataBlockMetadata, limit int64) bool {
	le := func(a, b, lim int64) bool { // 0 <= a, 0 <= b, a + b <= lim without overflow
		return a >= 0 && b >= 0 && a <= lim && b <= lim-a
	}
	if limit < 0 || !le(roff, rsize, limit) {
		return false
	}
	for i := range blocks {
		b := &blocks[i]
		if !le(int64(b.RowDataOffset), int64(b.RowDataSize), roff) || b.BloomFilterSize < 0 {
			return false
		}
		if b.BloomFilterSize > 0 {
			o := int64(b.BloomFilterOffset)
			if o < roff || !le(o, int64(b.BloomFilterSize), roff+rsize) {
				return false
			}
		}
	}
	return true
}

// ---------------------------------------------------------------- (a1) validate / validateFilterSection

func c19Validate(c *Ctx) {
	sh := c.newShard("t19v", runnerT, "caseT", "mismatches", "violations")
	sh.limit = 700
	add := func(roff, rsize int64, blocks []bs.DataBlockMetadata, limit int64, how string) {
		m := &bs.FileMetadata{BlockFilterRegionOffset: int(roff), BlockFilterRegionSize: int(rsize), DataBlocks: blocks}
		var err error
		c19Progress(fmt.Sprintf("validate roff=%d rsize=%d limit=%d blocks=%v", roff, rsize, limit, blocks))
		if p := safeCall(func() { err = bs.VerifValidateMetadata(m, limit) }); p != "" {
			c.violation("c19-panic", "FileMetadata.validate panicked: "+p, map[string]any{"roff": roff, "rsize": rsize, "limit": limit})
			return
		}
		ok := err == nil
		term := fmt.Sprintf("TValidate %s %s %s", coqMetaJ(int(roff), int(rsize), 0, bs.BloomEntryCounts{}, blocks), coqZ(limit), coqBool(ok))
		desc := map[string]any{"kind": "validate", "how": how, "region_offset": roff, "region_size": rsize, "limit": limit, "blocks": blocks, "accepted": ok}
		if ok && !metaInBounds(roff, rsize, blocks, limit) {
			c.violation("c19-validate-accepts-oob", "validate accepted metadata with an extent outside the data area", desc)
		}
		sh.add(c, term, desc)
		c.count([]string{"C19"}, term, true, desc)
		c.dist("c19_validate", fmt.Sprintf("%s accepted=%v", how, ok))
	}
	const L = 1000
	for _, p := range c.extentPairs(0, L) {
		add(p[0], p[1], nil, L, "region-pair")
	}
	for _, lim := range []int64{minI64, -1, 0, 1, L, maxI64} {
		for _, a := range []int64{0, 1, L, maxI64} {
			for _, b := range []int64{0, 1, L, maxI64} {
				add(a, b, nil, lim, "limit")
			}
		}
	}
	const R, S = 600, 300 // region [600, 900) inside limit 1000
	for _, p := range c.extentPairs(0, R) {
		add(R, S, []bs.DataBlockMetadata{blockWith(p[0], p[1], R, 10)}, L, "rowdata-pair")
	}
	for _, p := range c.extentPairs(R, R+S) {
		add(R, S, []bs.DataBlockMetadata{blockWith(0, 10, p[0], p[1])}, L, "filter-pair")
	}
	// a region ending at MaxInt64 exactly (limit MaxInt64)
	for _, a := range around(maxI64 - 100) {
		for _, b := range []int64{0, 1, 99, 100, 101, maxI64} {
			add(maxI64-100, 100, []bs.DataBlockMetadata{blockWith(0, 1, a, b)}, maxI64, "region-at-max")
		}
	}
	all := around(L, R, R+S, S)
	for i := 0; i < c.pick(350, 20000); i++ {
		roff := c.genField(R, all)
		rsize := c.genField(S, all)
		n := c.intn(4)
		blocks := make([]bs.DataBlockMetadata, n)
		off := int64(0)
		for j := range blocks {
			sz := int64(50 + c.intn(100))
			blocks[j] = blockWith(c.genField(off, all), c.genField(sz, all), c.genField(R+int64(j)*60, all), c.genField(60, all))
			off += sz
		}
		add(roff, rsize, blocks, c.genField(L, all), "random")
	}

	// validateFilterSection on its own, including region bounds no caller produces
	for i := 0; i < c.pick(250, 10000); i++ {
		rs, re := c.genField(R, all), c.genField(R+S, all)
		b := blockWith(0, 0, c.genField(R+10, all), c.genField(40, all))
		var err error
		if p := safeCall(func() { err = bs.VerifValidateFilterSection(&b, rs, re) }); p != "" {
			c.violation("c19-panic", "validateFilterSection panicked: "+p, nil)
			continue
		}
		term := fmt.Sprintf("TValidFs %s %s %s %s", coqBlockJ(&b), coqZ(rs), coqZ(re), coqBool(err == nil))
		sh.add(c, term, map[string]any{"kind": "validateFilterSection", "block": b, "region_start": rs, "region_end": re, "accepted": err == nil})
		c.count([]string{"C19"}, term, true, nil)
	}
}

// ---------------------------------------------------------------- (a1') planBlockFilterReads

func c19Plan(c *Ctx) {
	sh := c.newShard("t19p", runnerT, "caseT", "mismatches", "violations")
	sh.limit = 700
	add := func(blocks []bs.DataBlockMetadata, roff, rsize int64, how string) {
		var rs, re int64
		var has bool
		var err error
		c19Progress(fmt.Sprintf("plan roff=%d rsize=%d blocks=%v", roff, rsize, blocks))
		if p := safeCall(func() { rs, re, has, err = bs.VerifPlanBlockFilterReads(blocks, int(roff), int(rsize)) }); p != "" {
			c.violation("c19-panic", "planBlockFilterReads panicked: "+p, nil)
			return
		}
		obs := "None"
		if err == nil {
			obs = fmt.Sprintf("(Some (%s, %s, %s))", coqZ(rs), coqZ(re), coqBool(has))
		}
		term := fmt.Sprintf("TPlan %s %s %s %s", coqBlocks(blocks), coqZ(roff), coqZ(rsize), obs)
		desc := map[string]any{"kind": "plan", "how": how, "region_offset": roff, "region_size": rsize, "blocks": blocks, "accepted": err == nil}
		sh.add(c, term, desc)
		c.count([]string{"C19"}, term, true, desc)
		c.dist("c19_plan", fmt.Sprintf("%s accepted=%v", how, err == nil))
	}
	const R, S = 600, 300
	for _, p := range c.extentPairs(0, R+S, R) {
		add(nil, p[0], p[1], "region-pair")
		add([]bs.DataBlockMetadata{blockWith(0, 0, p[0], 1)}, p[0], p[1], "region-pair+block")
	}
	for _, p := range c.extentPairs(R, R+S) {
		add([]bs.DataBlockMetadata{blockWith(0, 0, p[0], p[1])}, R, S, "filter-pair")
	}
	for _, a := range around(maxI64 - 100) {
		for _, b := range []int64{0, 1, 99, 100, 101, maxI64} {
			add([]bs.DataBlockMetadata{blockWith(0, 0, a, b)}, maxI64-100, 100, "region-at-max")
		}
	}
	all := around(R, R+S, S)
	for i := 0; i < c.pick(300, 10000); i++ {
		n := c.intn(5)
		blocks := make([]bs.DataBlockMetadata, n)
		for j := range blocks {
			blocks[j] = blockWith(0, 0, c.genField(R+int64(j)*50, all), c.genField(50, all))
		}
		add(blocks, c.genField(R, all), c.genField(S, all), "random")
	}
}

// ---------------------------------------------------------------- (a2) footers

type footerSpec struct {
	body    []byte
	fsec    []byte
	mjson   []byte
	crcOK   bool
	mlen    *uint32
	version uint32
	magic   string
	how     string
}

func (f *footerSpec) bytes() []byte {
	var out []byte
	out = append(out, f.body...)
	out = append(out, f.fsec...)
	out = append(out, f.mjson...)
	crc := crc32.Checksum(f.mjson, crcTab)
	if !f.crcOK {
		crc ^= 0x5a5a
	}
	out = binary.LittleEndian.AppendUint32(out, crc)
	mlen := uint32(len(f.mjson))
	if f.mlen != nil {
		mlen = *f.mlen
	}
	out = binary.LittleEndian.AppendUint32(out, mlen)
	out = binary.LittleEndian.AppendUint32(out, f.version)
	out = append(out, f.magic...)
	return out
}

// randomFilters builds small real filters (any may be absent).
func (c *Ctx) randomFilters(maxEntries int) *bs.BloomFilters {
	mk := func() *bloom.BloomFilter {
		if c.chance(0.2) {
			return nil
		}
		n := 1 + c.intn(maxEntries)
		f := bloom.NewWithEstimates(uint(n), 0.01)
		for i := 0; i < n; i++ {
			f.AddString(fmt.Sprintf("e%d-%d", i, c.intn(1000)))
		}
		return f
	}
	return &bs.BloomFilters{FieldBloomFilter: mk(), TokenBloomFilter: mk(), FieldTokenBloomFilter: mk()}
}

func (c *Ctx) randomBytes(n int) []byte {
	b := make([]byte, n)
	for i := range b {
		b[i] = byte(c.rng.Uint32())
	}
	return b
}

func c19Footers(c *Ctx) {
	sh := c.newShard("t19f", runnerT, "caseT", "mismatches", "violations")
	sh.limit = 250
	goodSec, err := bs.VerifEncodeFilterSection(c.randomFilters(6))
	must(err)
	body := c.randomBytes(400)

	sh.prelude = append(sh.prelude, "Definition fbody : str := "+coqStr(body)+".", "Definition fsec0 : str := "+coqStr(goodSec)+".",
		"Definition dtab0 : list (str * bool) := "+decTable(goodSec)+".")
	c19SharedSec = goodSec
	run := func(spec *footerSpec) {
		file := spec.bytes()
		term := ""
		if bytes.Equal(spec.body, body) && bytes.Equal(spec.fsec, goodSec) {
			term = "(fbody ++ fsec0 ++ " + coqStr(file[len(body)+len(goodSec):]) + ")"
		} else if bytes.Equal(spec.body, body) {
			term = "(fbody ++ " + coqStr(file[len(body):]) + ")"
		}
		c19FooterCase(c, sh, file, term, spec.how, spec.crcOK && spec.version == 3 && spec.magic == "BLOMSRCH")
	}
	base := func(how string) *footerSpec {
		return &footerSpec{body: body, fsec: goodSec, crcOK: true, version: 3, magic: "BLOMSRCH", how: how}
	}
	withMeta := func(how string, roff, rsize, ffs int64, blocks []bs.DataBlockMetadata) {
		spec := base(how)
		mj, err := json.Marshal(metaMirror{BloomFalsePositiveRate: 0.01, BlockFilterRegionOffset: int(roff), BlockFilterRegionSize: int(rsize), FileFilterSectionSize: int(ffs), DataBlocks: blocks})
		must(err)
		spec.mjson = mj
		run(spec)
	}
	P := int64(len(body)) // data limit when the file filter section size is truthful
	F := int64(len(goodSec))
	const R, S = 250, 120
	good := func() []bs.DataBlockMetadata {
		return []bs.DataBlockMetadata{blockWith(0, 100, R, 60), blockWith(100, 150, R+60, 60)}
	}
	withMeta("valid", R, S, F, good())
	withMeta("valid-empty", 0, 0, F, nil)

	for _, p := range c.extentPairs(0, P, R) {
		withMeta("region-pair", p[0], p[1], F, nil)
	}
	for _, p := range c.extentPairs(0, R, P) {
		withMeta("rowdata-pair", R, S, F, []bs.DataBlockMetadata{blockWith(p[0], p[1], R, 60)})
	}
	for _, p := range c.extentPairs(R, R+S, P) {
		withMeta("filter-pair", R, S, F, []bs.DataBlockMetadata{blockWith(0, 100, p[0], p[1])})
	}
	// file filter section size: around 0, its true value, the metadata offset, extremes
	for _, f := range around(F, P+F, P) {
		withMeta("ffs", R, S, f, good())
		withMeta("ffs-empty", 0, 0, f, nil)
	}
	all := around(P, R, S, R+S, F)
	for i := 0; i < c.pick(300, 20000); i++ {
		n := c.intn(4)
		blocks := make([]bs.DataBlockMetadata, n)
		off := int64(0)
		for j := range blocks {
			sz := int64(30 + c.intn(60))
			blocks[j] = blockWith(c.genField(off, all), c.genField(sz, all), c.genField(R+int64(j)*40, all), c.genField(40, all))
			if c.chance(0.3) {
				blocks[j].HasRowDataHash, blocks[j].RowDataHash = true, c.rng.Uint32()
			}
			if c.chance(0.3) {
				blocks[j].Compression = []bs.CompressionType{bs.CompressionSnappy, bs.CompressionZstd, "lz4"}[c.intn(3)]
				blocks[j].UncompressedSize = int(c.genField(200, all))
			}
			off += sz
		}
		ffs := F
		if c.chance(0.3) {
			ffs = c.genField(F, all)
		}
		withMeta("random", c.genField(R, all), c.genField(S, all), ffs, blocks)
	}

	// footer tail variations
	mjGood, _ := json.Marshal(metaMirror{BlockFilterRegionOffset: R, BlockFilterRegionSize: S, FileFilterSectionSize: int(F), DataBlocks: good()})
	for _, v := range []uint32{0, 1, 2, 4, 3 << 8, math.MaxUint32} {
		s := base("version")
		s.mjson, s.version = mjGood, v
		run(s)
	}
	for _, m := range []string{"BLOMSRCX", "blomsrch", "\x00\x00\x00\x00\x00\x00\x00\x00", "LOMSRCHB"} {
		s := base("magic")
		s.mjson, s.magic = mjGood, m
		run(s)
	}
	{
		s := base("crc")
		s.mjson, s.crcOK = mjGood, false
		run(s)
	}
	total := uint32(len(body) + len(goodSec) + len(mjGood) + 20)
	for _, ml := range []uint32{0, 1, uint32(len(mjGood)) - 1, uint32(len(mjGood)) + 1, total - 21, total - 20, total - 19, total, 1 << 31, math.MaxUint32} {
		ml := ml
		s := base("metadata-length")
		s.mjson, s.mlen = mjGood, &ml
		run(s)
	}
	// tiny files
	full := func() []byte { s := base("x"); s.mjson = mjGood; return s.bytes() }()
	for n := 0; n <= 21; n++ {
		c19FooterCase(c, sh, full[len(full)-n:], "", "tiny", n >= 20)
	}
	// payloads encoding/json rejects or reads differently
	for _, raw := range []string{
		``, `null`, `[]`, `{}`, `{"DataBlocks":null}`, `{"BlockFilterRegionOffset":9223372036854775808}`, `{"BlockFilterRegionSize":-9223372036854775809}`,
		`{"BlockFilterRegionOffset":1e3}`, `{"BlockFilterRegionOffset":1.5}`, `{"BlockFilterRegionOffset":"5"}`, `{"FileFilterSectionSize":1e30}`,
		`{"BlockFilterRegionOffset":250,"BlockFilterRegionSize":120,"FileFilterSectionSize":` + fmt.Sprint(F) + `,"DataBlocks":[{"RowDataOffset":0,"RowDataSize":100,"BloomFilterOffset":250,"BloomFilterSize":60},null]}`,
		`{"blockfilterregionoffset":250,"BLOCKFILTERREGIONSIZE":120,"FileFilterSectionSize":` + fmt.Sprint(F) + `}`,
		`{"BlockFilterRegionOffset":250,"BlockFilterRegionOffset":-1}`, `{"DataBlocks":[{"RowDataOffset":-0}]}`, `{"DataBlocks":{}}`, `{"DataBlocks":[[]]}`, `not json`, `{"a":`,
	} {
		s := base("json")
		s.mjson = []byte(raw)
		run(s)
	}
	// file filter sections that are not what the size says / not parseable
	for k := 0; k < c.pick(40, 600); k++ {
		s := base("file-section")
		sec := append([]byte(nil), goodSec...)
		switch c.intn(5) {
		case 0:
			sec[c.intn(len(sec))] ^= 1 << c.intn(8)
		case 1:
			sec = sec[:c.intn(len(sec))]
		case 2:
			sec = append(sec, c.randomBytes(1+c.intn(8))...)
		case 3:
			sec = resealSection(c.oddPayload(goodSec))
		case 4:
			sec = nil
		}
		s.fsec = sec
		mj, _ := json.Marshal(metaMirror{BlockFilterRegionOffset: R, BlockFilterRegionSize: S, FileFilterSectionSize: len(sec), DataBlocks: good()})
		s.mjson = mj
		run(s)
	}
}

// resealSection appends the correct CRC to a payload.
func resealSection(payload []byte) []byte {
	return binary.LittleEndian.AppendUint32(append([]byte(nil), payload...), crc32.Checksum(payload, crcTab))
}

// oddPayload rewrites the framing of a valid section's payload: flags, length prefixes, trailing bytes.
func (c *Ctx) oddPayload(section []byte) []byte {
	p := append([]byte(nil), section[:len(section)-4]...)
	switch c.intn(6) {
	case 0:
		p[0] = byte(c.intn(256))
	case 1:
		p = append(p, c.randomBytes(1+c.intn(5))...)
	case 2:
		if len(p) > 5 {
			binary.LittleEndian.PutUint32(p[1:], uint32(c.pickI64([]int64{0, 1, int64(len(p)) - 6, int64(len(p)) - 5, int64(len(p)) - 4, 1 << 31, math.MaxUint32})))
		}
	case 3:
		p = p[:1+c.intn(len(p))]
	case 4:
		p[0] &= byte(c.intn(8))
	case 5:
		p = []byte{byte(c.intn(8))}
	}
	return p
}

var c19SharedSec []byte

func c19FooterCase(c *Ctx, sh *shard, file []byte, fileTerm string, how string, consistent bool) {
	if fileTerm == "" {
		fileTerm = coqStr(file)
	}
	c19Progress(fmt.Sprintf("footer case %s (%d bytes): %x", how, len(file), file[max(0, len(file)-200):]))
	pr := newProbe(file)
	var md *bs.FileMetadata
	var size int64
	var err error
	var ms0, ms1 runtime.MemStats
	runtime.ReadMemStats(&ms0)
	panicked := safeCall(func() { md, size, err = bs.ReadFileMetadata(pr) })
	runtime.ReadMemStats(&ms1)
	desc := map[string]any{"kind": "footer", "how": how, "file_size": len(file), "tail_hex": fmt.Sprintf("%x", file[max(0, len(file)-120):]), "accepted": err == nil && panicked == ""}
	if panicked != "" {
		c.violation("c19-panic", "ReadFileMetadata panicked: "+panicked, desc)
		return
	}
	if len(pr.oob) > 0 {
		c.violation("c19-oob-read", "ReadFileMetadata read outside the file: "+strings.Join(pr.oob, "; "), desc)
	}
	if pr.maxReq > int64(len(file)) {
		c.violation("c19-oversize-request", fmt.Sprintf("ReadFileMetadata asked for %d bytes of a %d-byte file", pr.maxReq, len(file)), desc)
	}
	if alloc := int64(ms1.TotalAlloc - ms0.TotalAlloc); alloc > 1<<20+32*int64(len(file)) {
		c.violation("c19-allocation", fmt.Sprintf("ReadFileMetadata allocated %d bytes for a %d-byte file", alloc, len(file)), desc)
	}
	mbytes, mm, located := footerParts(file)
	_ = mbytes
	dtab := "[]"
	if located && mm != nil {
		moff := len(file) - 20 - len(mbytes)
		if ffs := mm.FileFilterSectionSize; ffs > 0 && ffs <= moff {
			if sec := file[moff-ffs : moff]; bytes.Equal(sec, c19SharedSec) {
				dtab = "dtab0"
			} else {
				dtab = decTable(sec)
			}
		}
	}
	obs := "None"
	if err == nil {
		ffs := 0
		if mm != nil {
			ffs = mm.FileFilterSectionSize
		}
		obs = fmt.Sprintf("(Some (%s, %s, %s))", coqMetaJ(md.BlockFilterRegionOffset, md.BlockFilterRegionSize, ffs, md.BloomEntryCounts, md.DataBlocks), coqZ(size), coqFilters(&md.BloomFilters))
		desc["metadata"] = map[string]any{"region_offset": md.BlockFilterRegionOffset, "region_size": md.BlockFilterRegionSize, "blocks": md.DataBlocks}
		// follow-up reads by the metadata just accepted
		limit := int64(len(file))
		if !metaInBounds(int64(md.BlockFilterRegionOffset), int64(md.BlockFilterRegionSize), md.DataBlocks, limit) {
			c.violation("c19-accepts-oob", "ReadFileMetadata returned metadata with an extent outside the file", desc)
		} else {
			for i := range md.DataBlocks {
				if i >= 4 {
					break
				}
				c19HelperReads(c, file, md.DataBlocks[i], desc)
			}
		}
	}
	term := fmt.Sprintf("TReadMeta %s %s %s %s %s", fileTerm, coqJD(mm), dtab, coqExts(pr.exts), obs)
	sh.add(c, term, desc)
	c.count([]string{"C19"}, term, consistent, desc)
	c.dist("c19_footer", fmt.Sprintf("%s accepted=%v", how, err == nil))
}

// c19HelperReads runs the two per-block helpers with metadata ReadFileMetadata accepted.
func c19HelperReads(c *Ctx, file []byte, b bs.DataBlockMetadata, desc any) {
	for _, which := range []string{"rows", "filters"} {
		pr := newProbe(file)
		var ms0, ms1 runtime.MemStats
		runtime.ReadMemStats(&ms0)
		p := safeCall(func() {
			if which == "rows" {
				bs.ReadDataBlockRowData(pr, &b)
			} else {
				bs.ReadDataBlockBloomFilters(pr, b)
			}
		})
		runtime.ReadMemStats(&ms1)
		if p != "" {
			sig := "c19-panic"
			if which == "rows" && int64(b.UncompressedSize) > 1<<20+64*int64(len(file)) {
				// the one size decodeBlockRowDataInto allocates by without a bound (DESIGN 7.5 keeps it out of C19's quantifier)
				sig = sigUsize
			}
			c.violation(sig, "helper ("+which+") panicked on accepted metadata: "+p, desc)
		}
		if len(pr.oob) > 0 {
			c.violation("c19-oob-read", "helper ("+which+") read outside the file on accepted metadata: "+pr.oob[0], desc)
		}
		if pr.maxReq > int64(len(file)) {
			c.violation("c19-oversize-request", fmt.Sprintf("helper (%s) asked for %d bytes of a %d-byte file", which, pr.maxReq, len(file)), desc)
		}
		if alloc := int64(ms1.TotalAlloc - ms0.TotalAlloc); alloc > 4<<20+64*int64(len(file)) {
			c.violation("c19-allocation", fmt.Sprintf("helper (%s) allocated %d bytes for a %d-byte file", which, alloc, len(file)), desc)
		}
	}
}

// ---------------------------------------------------------------- (a3) cursor

// virtualFile: position-dependent filler with patches, never materialised.
type virtualFile struct {
	size    int64
	patches []patch
}
type patch struct {
	off  int64
	data []byte
}

func fillerByte(p int64) byte { return byte(p*131 + p>>8*31 + p>>16*7 + 0x5b) }

func (v *virtualFile) fill(off int64, p []byte) {
	for i := range p {
		p[i] = fillerByte(off + int64(i))
	}
	for _, pt := range v.patches {
		lo, hi := max(pt.off, off), min(pt.off+int64(len(pt.data)), off+int64(len(p)))
		if lo < hi {
			copy(p[lo-off:hi-off], pt.data[lo-pt.off:hi-pt.off])
		}
	}
}

func (v *virtualFile) slice(off, n int64) ([]byte, bool) {
	if off < 0 || n < 0 || off+n > v.size {
		return nil, false
	}
	out := make([]byte, n)
	v.fill(off, out)
	return out, true
}

func c19Cursor(c *Ctx) {
	sh := c.newShard("t19c", runnerT, "caseT", "mismatches", "violations")
	sh.limit = 120
	target := bs.VerifBlockFilterChunkTarget
	// a stock of real sections of various sizes
	var stock [][]byte
	for i := 0; i < 12; i++ {
		s, err := bs.VerifEncodeFilterSection(c.randomFilters(4 + 40*c.intn(3)))
		must(err)
		stock = append(stock, s)
	}
	bigSection := func(size int) []byte { // one field filter whose encoding is about size bytes
		f := bloom.New(uint(size*8), 3)
		f.AddString("x")
		s, err := bs.VerifEncodeFilterSection(&bs.BloomFilters{FieldBloomFilter: f})
		must(err)
		return s
	}
	type layout struct {
		how    string
		roff   int64
		rsize  int64
		fsize  int64
		blocks []bs.DataBlockMetadata
		file   *virtualFile
	}
	place := func(l *layout, off int64, sec []byte) {
		l.file.patches = append(l.file.patches, patch{off, sec})
	}
	small := func(how string) *layout {
		roff := int64(c.intn(500))
		l := &layout{how: how, roff: roff, file: &virtualFile{}}
		n := 1 + c.intn(7)
		off := roff
		for i := 0; i < n; i++ {
			sec := stock[c.intn(len(stock))]
			switch k := c.intn(12); {
			case k == 0: // no section
				l.blocks = append(l.blocks, blockWith(int64(i), 0, c.pickI64([]int64{0, off, -5, maxI64}), 0))
				continue
			case k == 1 && how != "contiguous": // gap
				off += int64(1 + c.intn(300))
			case k == 2 && how != "contiguous" && len(l.blocks) > 0: // share an earlier block's section
				prev := l.blocks[c.intn(len(l.blocks))]
				l.blocks = append(l.blocks, blockWith(int64(i), 0, int64(prev.BloomFilterOffset), int64(prev.BloomFilterSize)))
				continue
			}
			place(l, off, sec)
			l.blocks = append(l.blocks, blockWith(int64(i), 0, off, int64(len(sec))))
			off += int64(len(sec))
		}
		l.rsize = off - roff
		l.fsize = off + int64(c.intn(200))
		return l
	}
	var layouts []*layout
	for i := 0; i < c.pick(40, 1500); i++ {
		layouts = append(layouts, small("contiguous"))
	}
	for i := 0; i < c.pick(60, 2500); i++ {
		l := small("gaps-and-sharing")
		switch c.intn(6) {
		case 0: // out of order
			c.rng.Shuffle(len(l.blocks), func(a, b int) { l.blocks[a], l.blocks[b] = l.blocks[b], l.blocks[a] })
			l.how = "shuffled"
		case 1: // one block outside the region / with absurd fields
			j := c.intn(len(l.blocks))
			l.blocks[j].BloomFilterOffset = int(c.pickI64(around(l.roff, l.roff+l.rsize)))
			l.blocks[j].BloomFilterSize = int(c.pickI64([]int64{1, 60, l.rsize, l.rsize + 1, maxI64, -1}))
			l.how = "one-invalid"
		case 2: // the file ends inside the region
			l.fsize = l.roff + c.rng.Int64N(l.rsize+1)
			l.how = "truncated"
		case 3: // region size off by one either way
			l.rsize += int64(c.intn(3) - 1)
			l.how = "region-size-off-by-one"
		case 4: // a section the bytes do not support
			j := c.intn(len(l.blocks))
			if l.blocks[j].BloomFilterSize > 1 {
				l.blocks[j].BloomFilterSize--
				l.how = "short-section"
			}
		}
		layouts = append(layouts, l)
	}
	// cap boundaries: the second section ends exactly at / one past start+target; an oversize section on its own
	for _, delta := range []int64{-1, 0, 1} {
		for _, firstBig := range []bool{false, true} {
			l := &layout{how: fmt.Sprintf("cap-boundary%+d big-first=%v", delta, firstBig), roff: 1000, file: &virtualFile{}}
			s0 := stock[0]
			if firstBig {
				s0 = bigSection(int(target) + 1000)
			}
			s1, s2 := stock[1], stock[2]
			o0 := l.roff
			o1 := o0 + target + delta - int64(len(s1)) // s1 ends at o0 + target + delta
			if firstBig {
				o1 = o0 + int64(len(s0))
			}
			o2 := o1 + int64(len(s1)) + 10
			place(l, o0, s0)
			place(l, o1, s1)
			place(l, o2, s2)
			l.blocks = []bs.DataBlockMetadata{blockWith(0, 0, o0, int64(len(s0))), blockWith(1, 0, o1, int64(len(s1))), blockWith(2, 0, o2, int64(len(s2)))}
			l.rsize = o2 + int64(len(s2)) - l.roff
			l.fsize = l.roff + l.rsize + 50
			layouts = append(layouts, l)
		}
	}
	for _, l := range layouts {
		l.file.size = l.fsize
		c19CursorCase(c, sh, l.how, l.blocks, l.roff, l.rsize, l.file, target)
	}
}

func c19CursorCase(c *Ctx, sh *shard, how string, blocks []bs.DataBlockMetadata, roff, rsize int64, vf *virtualFile, target int64) {
	desc := map[string]any{"kind": "cursor", "how": how, "region_offset": roff, "region_size": rsize, "file_size": vf.size, "blocks": blocks}
	c19Progress(fmt.Sprintf("cursor %s roff=%d rsize=%d fsize=%d blocks=%v", how, roff, rsize, vf.size, blocks))
	rs, re, _, err := bs.VerifPlanBlockFilterReads(blocks, int(roff), int(rsize))
	if err != nil {
		obs := "None"
		term := fmt.Sprintf("TPlan %s %s %s %s", coqBlocks(blocks), coqZ(roff), coqZ(rsize), obs)
		sh.add(c, term, desc)
		c.count([]string{"C19"}, term, true, desc)
		// the cursor still validates each block on its own: drive it with the bounds the plan would have used
		rs, re = roff, roff+rsize
		if roff < 0 || rsize < 0 || re < rs {
			return
		}
	}
	order := make([]int, len(blocks))
	for i := range order {
		order[i] = i
	}
	if c.chance(0.3) {
		c.rng.Shuffle(len(order), func(a, b int) { order[a], order[b] = order[b], order[a] })
		order = order[:1+c.intn(len(order))]
		how += " order=random"
	}
	pr := &probeFile{size: vf.size, fill: vf.fill}
	parseOK := make([]string, len(blocks))
	for i, b := range blocks {
		ok := false
		if b.BloomFilterSize > 0 && b.BloomFilterSize < 64<<20 {
			if sec, in := vf.slice(int64(b.BloomFilterOffset), int64(b.BloomFilterSize)); in {
				_, perr := bs.VerifParseFilterSection(sec)
				ok = perr == nil
			}
		}
		parseOK[i] = coqBool(ok)
	}
	var obsItems []string
	p := safeCall(func() {
		cur := bs.VerifNewFilterCursor(pr, blocks, rs, re)
		defer cur.Release()
		for _, bi := range order {
			before := len(pr.exts)
			st := cur.Step(bi)
			read := "None"
			switch n := len(pr.exts) - before; {
			case n == 1:
				e := pr.exts[before]
				read = fmt.Sprintf("(Some %s)", coqPair(coqZ(e[0]), coqZ(e[1])))
			case n > 1:
				c.mismatch("c19-cursor-extents", fmt.Sprintf("one filtersFor call issued %d reads", n), desc)
			}
			chunk := "None"
			if st.HasChunk {
				chunk = fmt.Sprintf("(Some %s)", coqPair(coqZ(st.ChunkStart), coqZ(int64(st.ChunkLen))))
			}
			held, bytesOK := "None", true
			if st.Held {
				held = fmt.Sprintf("(Some %s)", coqZ(int64(len(st.Section))))
				want, in := vf.slice(int64(blocks[bi].BloomFilterOffset), int64(blocks[bi].BloomFilterSize))
				bytesOK = in && bytes.Equal(want, st.Section)
			}
			obsItems = append(obsItems, fmt.Sprintf("{| co_err := %s; co_readfail := %s; co_read := %s; co_chunk := %s; co_held := %s; co_bytes_ok := %s |}",
				coqBool(st.Err != nil), coqBool(st.ReadFailed), read, chunk, held, coqBool(bytesOK)))
			if st.Err == nil && st.Held && !bytesOK {
				c.violation("c19-wrong-section-bytes", fmt.Sprintf("block %d's filters were decoded from bytes that are not the file's bytes at its recorded offset", bi), desc)
			}
			if st.ReadFailed {
				break
			}
		}
	})
	if p != "" {
		c.violation("c19-panic", "blockFilterCursor panicked: "+p, desc)
		return
	}
	for _, o := range pr.oob {
		if !strings.Contains(how, "truncated") {
			c.violation("c19-oob-read", "blockFilterCursor read outside the file: "+o, desc)
			break
		}
	}
	orderItems := make([]string, len(order))
	for i, o := range order {
		orderItems[i] = coqNat(o)
	}
	term := fmt.Sprintf("TCursor %s %s %s %s %s %s %s %s", coqBlocks(blocks), coqZ(rs), coqZ(re), coqZ(target), coqZ(vf.size), coqList(orderItems), coqList(parseOK), coqList(obsItems))
	desc["order"] = order
	sh.add(c, term, desc)
	c.count([]string{"C19"}, term, true, desc)
	c.dist("c19_cursor", how)
}

// ---------------------------------------------------------------- malformed streams (scanner, sections, block decode)

func c19Streams(c *Ctx) {
	sh := c.newShard("t19s", runnerT, "caseT", "mismatches", "violations")
	sh.limit = 300
	// row data: framed rows, then damaged
	for i := 0; i < c.pick(250, 8000); i++ {
		var data []byte
		n := c.intn(6)
		for j := 0; j < n; j++ {
			row := []byte(fmt.Sprintf(`{"id":%d,"v":"%s"}`, j, strings.Repeat("x", c.intn(30))))
			if c.chance(0.1) {
				row = nil
			}
			data = binary.LittleEndian.AppendUint32(data, uint32(len(row)))
			data = append(data, row...)
		}
		how := "framed"
		if len(data) > 0 {
			switch c.intn(6) {
			case 0:
				data[c.intn(len(data))] ^= 1 << c.intn(8)
				how = "bitflip"
			case 1:
				data = data[:c.intn(len(data))]
				how = "truncated"
			case 2:
				data = append(data, c.randomBytes(1+c.intn(6))...)
				how = "extended"
			case 3:
				p := c.intn(len(data))
				if p+4 <= len(data) {
					binary.LittleEndian.PutUint32(data[p:], uint32(c.pickI64([]int64{0, 1, int64(len(data) - p - 4), int64(len(data) - p - 3), int64(len(data) - p), 1 << 31, math.MaxUint32})))
				}
				how = "length-rewritten"
			}
		}
		var rows [][]byte
		ok := true
		if p := safeCall(func() {
			sc := bs.NewBlockRowScanner(data)
			for {
				r, more, err := sc.Next()
				if err != nil {
					ok = false
					return
				}
				if !more {
					return
				}
				rows = append(rows, append([]byte(nil), r...))
			}
		}); p != "" {
			c.violation("c19-panic", "BlockRowScanner panicked: "+p, map[string]any{"data": fmt.Sprintf("%x", data)})
			continue
		}
		term := fmt.Sprintf("TScan %s %s %s", coqStr(data), coqStrs(rows), coqBool(ok))
		desc := map[string]any{"kind": "scan", "how": how, "data_hex": fmt.Sprintf("%x", data), "rows": len(rows), "clean_end": ok}
		sh.add(c, term, desc)
		c.count([]string{"C19"}, term, how != "framed", desc)
		c.dist("c19_scan", fmt.Sprintf("%s ok=%v", how, ok))
	}
	// filter sections: valid, damaged, re-sealed with odd framing; first the sections around the smallest
	// possible size (the checksum alone, an empty payload whose CRC32C is 0, one and two payload bytes)
	tiny := [][]byte{{}, {0}, {0, 0, 0}, {0, 0, 0, 0}, {0, 0, 0, 0, 0}, resealSection(nil), resealSection([]byte{0}), resealSection([]byte{7}),
		resealSection([]byte{0, 0}), resealSection([]byte{1, 0, 0, 0, 0}), {0xff, 0xff, 0xff, 0xff}}
	for i := 0; i < len(tiny)+c.pick(250, 8000); i++ {
		sec, err := bs.VerifEncodeFilterSection(c.randomFilters(5))
		must(err)
		how := "valid"
		if i < len(tiny) {
			sec, how = tiny[i], "tiny"
		}
		switch x := c.intn(6); {
		case how == "tiny":
		case x == 0:
			sec[c.intn(len(sec))] ^= 1 << c.intn(8)
			how = "bitflip"
		case x == 1:
			sec = sec[:c.intn(len(sec))]
			how = "truncated"
		case x == 2:
			sec = append(sec, c.randomBytes(1+c.intn(6))...)
			how = "extended"
		case x == 3 || x == 4:
			sec = resealSection(c.oddPayload(sec))
			how = "resealed"
		}
		var f *bs.BloomFilters
		if p := safeCall(func() { f, err = bs.VerifParseFilterSection(sec) }); p != "" {
			c.violation("c19-panic", "parseFilterSection panicked: "+p, map[string]any{"section": fmt.Sprintf("%x", sec)})
			continue
		}
		obs := "None"
		if err == nil {
			obs = "(Some " + coqFilters(f) + ")"
		}
		term := fmt.Sprintf("TParse %s %s %s", coqStr(sec), decTable(sec), obs)
		desc := map[string]any{"kind": "section", "how": how, "section_hex": fmt.Sprintf("%x", sec), "accepted": err == nil}
		sh.add(c, term, desc)
		c.count([]string{"C19"}, term, how != "valid", desc)
		c.dist("c19_section", fmt.Sprintf("%s accepted=%v", how, err == nil))
	}
}

// ---------------------------------------------------------------- (c1) block verification fields against the block readers

func tCompress(comp bs.CompressionType, data []byte) []byte {
	var buf bytes.Buffer
	switch comp {
	case bs.CompressionSnappy:
		w := snappy.NewBufferedWriter(&buf)
		_, err := w.Write(data)
		must(err)
		must(w.Close())
	case bs.CompressionZstd:
		w, err := zstd.NewWriter(&buf, zstd.WithEncoderConcurrency(1))
		must(err)
		_, err = w.Write(data)
		must(err)
		must(w.Close())
	default:
		buf.Write(data)
	}
	return buf.Bytes()
}

// c19DecodeFields: metadata held by a MetaStore is trusted for *where* a block is, never for *what* it
// holds: whatever value the recorded checksum has, a reader may only hand out bytes whose CRC32C equals it.
func c19DecodeFields(c *Ctx) {
	sh := c.newShard("t19d", runnerT, "caseT", "mismatches", "violations")
	sh.limit = 150
	comps := []bs.CompressionType{bs.CompressionNone, "", bs.CompressionSnappy, bs.CompressionZstd, bs.CompressionNone, "lz4"}
	for i := 0; i < c.pick(360, 8000); i++ {
		var data []byte
		n := 1 + c.intn(4)
		for j := 0; j < n; j++ {
			row := []byte(fmt.Sprintf(`{"id":%d,"v":"%s"}`, j, strings.Repeat("y", c.intn(24))))
			data = binary.LittleEndian.AppendUint32(data, uint32(len(row)))
			data = append(data, row...)
		}
		comp := comps[c.intn(len(comps))]
		stored := tCompress(comp, data)
		actual := crc32.Checksum(stored, crcTab)
		damage := "intact"
		if c.chance(0.6) {
			stored = append([]byte(nil), stored...)
			switch c.intn(3) {
			case 0:
				stored[c.intn(len(stored))] ^= 1 << c.intn(8)
				damage = "bitflip"
			case 1:
				p := c.intn(len(stored))
				for k := p; k < p+4 && k < len(stored); k++ {
					stored[k] = byte(c.rng.Uint32())
				}
				damage = "burst"
			case 2:
				stored = stored[:len(stored)-1-c.intn(min(len(stored)-1, 6))]
				damage = "truncated"
			}
		}
		now := crc32.Checksum(stored, crcTab)
		hashes := []uint32{0, 0, 1, 0x7fffffff, 0x80000000, math.MaxUint32, actual, actual, actual ^ 1, actual ^ 0x80000000, ^actual, now, c.rng.Uint32()}
		hash := hashes[c.intn(len(hashes))]
		has := c.chance(0.8)
		usize := len(data)
		if c.chance(0.15) {
			usize = int(c.pickI64([]int64{0, 1, int64(len(data)) - 1, int64(len(data)) + 1, -1, 1 << 20}))
		}
		b := bs.DataBlockMetadata{RowDataOffset: 0, RowDataSize: len(stored), Rows: n, UncompressedSize: usize, Compression: comp, RowDataHash: hash, HasRowDataHash: has}
		desc := map[string]any{"kind": "decode-fields", "compression": string(comp), "damage": damage, "recorded_hash": hash, "has_hash": has, "crc_of_bytes": now,
			"uncompressed_size": usize, "stored_hex": fmt.Sprintf("%x", stored)}
		c19Progress(fmt.Sprintf("decode fields %v", desc))
		type res struct {
			out []byte
			err error
		}
		var r [3]res
		names := []string{"decodeBlockRowData", "ReadDataBlockRowData", "readPooledBlockRowData"}
		panicked := safeCall(func() {
			r[0].out, r[0].err = bs.VerifDecodeBlockRowData(append([]byte(nil), stored...), &b)
			r[1].out, r[1].err = bs.ReadDataBlockRowData(bytes.NewReader(stored), &b)
			rd, release, err := bs.VerifReadPooledBlockRowData(bytes.NewReader(stored), &b)
			r[2].err = err
			if err == nil {
				r[2].out = append([]byte(nil), rd...)
				release()
			}
		})
		if panicked != "" {
			c.violation("c19-panic", "a block reader panicked on CRC-consistent block metadata: "+panicked, desc)
			continue
		}
		for k := range r {
			if r[k].err == nil && has && now != hash {
				c.violation("c19-unverified-rows", fmt.Sprintf("%s returned row data whose CRC32C %08x is not the recorded checksum %08x (HasRowDataHash is set)", names[k], now, hash), desc)
			}
			if k == 2 && usize < 0 {
				continue // the pooled reader refuses a negative UncompressedSize up front, whatever the compression
			}
			if (r[k].err == nil) != (r[0].err == nil) || (r[k].err == nil && !bytes.Equal(r[k].out, r[0].out)) {
				c.mismatch("c19-readers-disagree", fmt.Sprintf("%s and decodeBlockRowData disagree on the same block (%v / %v)", names[k], r[k].err, r[0].err), desc)
			}
		}
		ztab := "[]"
		if comp == bs.CompressionSnappy || comp == bs.CompressionZstd {
			d, ok := libDecompress(comp, stored, 1<<22)
			ztab = coqList([]string{coqPair(coqStr(stored), coqOptStr(d, ok))})
		}
		term := fmt.Sprintf("TDecode %s %s %s %s", coqBlockJ(&b), coqStr(stored), ztab, coqOptStr(r[0].out, r[0].err == nil))
		sh.add(c, term, desc)
		c.count([]string{"C19"}, term, has, desc)
		c.dist("c19_decode_fields", fmt.Sprintf("%s has_hash=%v hash_matches=%v accepted=%v", coqComp(comp), has, now == hash, r[0].err == nil))
		if has && (hash == 0 || hash == math.MaxUint32) {
			c.dist("c19_decode_extreme_hash", fmt.Sprintf("recorded=%08x matches=%v accepted=%v", hash, now == hash, r[0].err == nil))
		}
	}
}

// ---------------------------------------------------------------- (c2) engine-written blocks with a chosen checksum

// c19SolveRow chooses the characters of row["pad"] (each 'a' or 'c': a one-bit difference -- a two-bit one
// such as 'a'/'b' only reaches half of the targets, the Castagnoli polynomial has the factor x+1) so that the block holding exactly this
// row, stored uncompressed -- le32(len) ++ json.Marshal(row) -- has CRC32C target. CRC32C is affine over
// GF(2): flipping pad character i changes the checksum by a vector that does not depend on the other
// characters, so the choice is a linear system over 32 bits (Gaussian elimination).
func c19SolveRow(row map[string]any, padLen int, target uint32) bool {
	row["pad"] = strings.Repeat("a", padLen)
	j, err := json.Marshal(row)
	must(err)
	frame := append(binary.LittleEndian.AppendUint32(nil, uint32(len(j))), j...)
	at := bytes.Index(frame, []byte(`"pad":"`))
	if at < 0 {
		return false
	}
	at += len(`"pad":"`)
	base := crc32.Checksum(frame, crcTab)
	type vec struct {
		bits uint32
		who  []bool
	}
	var basis [32]*vec
	for i := 0; i < padLen; i++ {
		frame[at+i] ^= 'a' ^ 'c'
		v := &vec{bits: crc32.Checksum(frame, crcTab) ^ base, who: make([]bool, padLen)}
		frame[at+i] ^= 'a' ^ 'c'
		v.who[i] = true
		for bit := 31; bit >= 0 && v.bits != 0; bit-- {
			if v.bits&(1<<bit) == 0 {
				continue
			}
			if basis[bit] == nil {
				basis[bit] = v
				break
			}
			v.bits ^= basis[bit].bits
			for k := range v.who {
				v.who[k] = v.who[k] != basis[bit].who[k]
			}
		}
	}
	rem := target ^ base
	flip := make([]bool, padLen)
	for bit := 31; bit >= 0; bit-- {
		if rem&(1<<bit) == 0 {
			continue
		}
		if basis[bit] == nil {
			return false
		}
		rem ^= basis[bit].bits
		for k := range flip {
			flip[k] = flip[k] != basis[bit].who[k]
		}
	}
	pad := []byte(strings.Repeat("a", padLen))
	for k, f := range flip {
		if f {
			pad[k] = 'c'
		}
	}
	row["pad"] = string(pad)
	j, err = json.Marshal(row)
	must(err)
	frame = append(binary.LittleEndian.AppendUint32(nil, uint32(len(j))), j...)
	return crc32.Checksum(frame, crcTab) == target
}

// c19ChosenChecksums: a world whose every block holds one row solved for a chosen checksum value,
// written by a real engine (uncompressed, one partition per row), then corrupted inside the row data.
func c19ChosenChecksums(c *Ctx) {
	shm := c.newShard("t19k", runnerT, "caseT", "mismatches", "violations")
	shm.limit = 40
	targets := []uint32{0, 0, math.MaxUint32, 0x80000000, 1}
	for wi := 0; wi < c.pick(2, 16); wi++ {
		tc := c.tGenConfig()
		tc.cfg.RowDataCompression = bs.CompressionNone
		tc.cfg.MinMaxIndexes = nil
		tc.cfg.PartitionFunc = func(row map[string]any) string { p, _ := row["p"].(string); return p }
		tc.cfg.MaxBufferedRows = 1000
		tc.desc = fmt.Sprintf("uncompressed, one row per partition and block, row content solved for a chosen CRC32C, fpr=%g", tc.cfg.BloomFalsePositiveRate)
		w := c.tNewWorld(tc)
		n := 5 + c.intn(4)
		rows := make([]map[string]any, 0, n)
		wantHash := map[int]uint32{}
		for i := 0; i < n; i++ {
			row := map[string]any{"id": i, "p": fmt.Sprintf("p%d", i), "tag": []string{"red", "green", "blue"}[i%3], "msg": c.tText()}
			target := targets[(i+wi)%len(targets)]
			if !c19SolveRow(row, 64+c.intn(16), target) {
				c.dist("c19_chosen_checksum", "unsolvable (skipped)")
				continue
			}
			wantHash[i] = target
			rows = append(rows, row)
		}
		ctx := context.Background()
		for _, r := range rows {
			id := r["id"].(int)
			b, err := json.Marshal(r)
			must(err)
			w.rows[id], w.json[id] = r, b
		}
		half := len(rows) / 2
		for _, part := range [][]map[string]any{rows[:half], rows[half:]} {
			if len(part) == 0 {
				continue
			}
			must(w.eng.IngestRows(ctx, part, nil))
			must(w.eng.Flush(ctx))
		}
		w.stop()
		files := w.files()
		// which blocks carry the value they were solved for (the harness's assumption about the stored form is checked, not trusted)
		type loc struct {
			f, b int
			hash uint32
		}
		var locs []loc
		for fi, f := range files {
			for bi := range f.meta.DataBlocks {
				b := f.meta.DataBlocks[bi]
				rd, err := bs.ReadDataBlockRowData(bytes.NewReader(f.data), &b)
				if err != nil {
					continue
				}
				first, ok, _ := bs.NewBlockRowScanner(rd).Next()
				id, has := tRowID(first)
				if ok && has && b.HasRowDataHash && b.RowDataHash == wantHash[id] && b.Rows == 1 {
					locs = append(locs, loc{fi, bi, b.RowDataHash})
					c.dist("c19_chosen_checksum", fmt.Sprintf("block recorded with RowDataHash=%08x", b.RowDataHash))
				} else {
					c.dist("c19_chosen_checksum", "block did not take the chosen value")
				}
			}
		}
		if len(locs) == 0 {
			c.rep.Notes = append(c.rep.Notes, "chosen-checksum world: no block took its chosen checksum (the stored form of a row is no longer le32(len) ++ json.Marshal(row), or blocks hold several rows)")
			continue
		}
		queries := []*bs.Query{nil, bs.NewQuery().Field("tag").Build(), bs.NewQuery().Token("green").Build(), bs.NewQuery().FieldToken("tag", "red").Build()}
		want := make([]map[int]int, len(queries))
		for qi, q := range queries {
			got, qerr, serr := collect(w.eng, q)
			if qerr != nil || serr != nil {
				c.violation("c19-healthy-query", fmt.Sprintf("query on the uncorrupted store failed: %v %v", qerr, serr), nil)
			}
			want[qi] = idCounts(got)
		}
		for mi := 0; mi < c.pick(18, 60); mi++ {
			l := locs[c.intn(len(locs))]
			f := files[l.f]
			b := f.meta.DataBlocks[l.b]
			var others [][]byte
			for j, o := range files {
				if j != l.f {
					others = append(others, o.data)
				}
			}
			var m mutation
			switch c.intn(4) {
			case 0: // one character of the row text (the row stays well-formed JSON)
				out := append([]byte(nil), f.data...)
				p := b.RowDataOffset + 4 + bytes.Index(f.data[b.RowDataOffset+4:b.RowDataOffset+b.RowDataSize], []byte(`"pad":"`)) + len(`"pad":"`) + c.intn(32)
				out[p] ^= 'a' ^ 'c'
				m = mutation{"pad-character", out}
			case 1: // one bit anywhere in the block
				out := append([]byte(nil), f.data...)
				out[b.RowDataOffset+c.intn(b.RowDataSize)] ^= 1 << c.intn(8)
				m = mutation{"bitflip", out}
			default:
				m = c.mutate(f.data, others, [2]int{b.RowDataOffset, b.RowDataOffset + b.RowDataSize})
			}
			if bytes.Equal(m.data, f.data) {
				continue
			}
			c19MutationCase(c, shm, w, files, l.f, m, fmt.Sprintf("rowdata of a block whose recorded checksum is %08x", l.hash), queries, want, 2000+wi)
		}
	}
}

// ---------------------------------------------------------------- (b) mutations of engine-written files

type mutation struct {
	how  string
	data []byte
}

func (c *Ctx) mutate(data []byte, others [][]byte, focus [2]int) mutation {
	out := append([]byte(nil), data...)
	pos := func() int {
		if focus[1] > focus[0] && c.chance(0.8) {
			return focus[0] + c.intn(focus[1]-focus[0])
		}
		return c.intn(len(out))
	}
	switch c.intn(9) {
	case 0:
		out[pos()] ^= 1 << c.intn(8)
		return mutation{"bitflip", out}
	case 1:
		p := pos()
		n := 1 + c.intn(16)
		for i := p; i < p+n && i < len(out); i++ {
			out[i] = byte(c.rng.Uint32())
		}
		return mutation{"burst", out}
	case 2:
		cut := c.intn(len(out))
		if c.chance(0.5) {
			cut = len(out) - 1 - c.intn(min(len(out)-1, 64))
		}
		return mutation{"truncate", out[:cut]}
	case 3:
		ext := c.randomBytes(1 + c.intn(64))
		if c.chance(0.4) {
			ext = append([]byte(nil), out[len(out)-min(len(out), 20+c.intn(80)):]...)
		}
		return mutation{"extend", append(out, ext...)}
	case 4: // splice: overwrite a chunk with bytes from elsewhere (same file or another)
		src := out
		if len(others) > 0 && c.chance(0.5) {
			src = others[c.intn(len(others))]
		}
		n := 1 + c.intn(min(len(src), 200))
		from := c.intn(len(src) - n + 1)
		p := pos()
		copy(out[p:], src[from:from+n])
		return mutation{"splice", out}
	case 5:
		p := pos()
		n := 1 + c.intn(64)
		for i := p; i < p+n && i < len(out); i++ {
			out[i] = 0
		}
		return mutation{"zero", out}
	case 6: // delete a chunk in the middle
		p := pos()
		n := 1 + c.intn(32)
		if p+n > len(out) {
			n = len(out) - p
		}
		return mutation{"delete", append(out[:p:p], out[p+n:]...)}
	case 7: // insert bytes in the middle
		p := pos()
		ins := c.randomBytes(1 + c.intn(32))
		return mutation{"insert", append(append(append([]byte(nil), out[:p]...), ins...), out[p:]...)}
	default: // the whole file replaced by another file of the store
		if len(others) > 0 {
			return mutation{"replace", append([]byte(nil), others[c.intn(len(others))]...)}
		}
		out[pos()] ^= 0xff
		return mutation{"byteflip", out}
	}
}

func c19Mutations(c *Ctx) {
	shm := c.newShard("t19m", runnerT, "caseT", "mismatches", "violations")
	shm.limit = 40
	nWorlds := c.pick(6, 60)
	perWorld := c.pick(45, 150)
	for wi := 0; wi < nWorlds; wi++ {
		tc := c.tGenConfig()
		tc.cfg.MaxRowGroupRows = 3 + c.intn(6)
		tc.cfg.MaxBufferedRows = 6 + c.intn(10)
		w := c.tNewWorld(tc)
		rows := make([]map[string]any, 14+c.intn(20))
		for i := range rows {
			rows[i] = c.tRow(i, tc.partitions)
			rows[i]["tag"] = []string{"red", "green", "blue"}[i%3]
		}
		c.tIngest(w, rows)
		w.stop()
		files := w.files()
		if len(files) == 0 {
			continue
		}
		queries := []*bs.Query{nil, bs.NewQuery().Field("tag").Build(), bs.NewQuery().Token("green").Build(), bs.NewQuery().FieldToken("tag", "red").Build()}
		want := make([]map[int]int, len(queries))
		for qi, q := range queries {
			got, qerr, serr := collect(w.eng, q)
			if qerr != nil || serr != nil {
				c.violation("c19-healthy-query", fmt.Sprintf("query on the uncorrupted store failed: %v %v", qerr, serr), nil)
			}
			want[qi] = idCounts(got)
		}
		for mi := 0; mi < perWorld; mi++ {
			k := c.intn(len(files))
			var others [][]byte
			for j, f := range files {
				if j != k {
					others = append(others, f.data)
				}
			}
			f := files[k]
			// focus on one structural part of the file
			rstart, rend := f.meta.BlockFilterRegionOffset, f.meta.BlockFilterRegionOffset+f.meta.BlockFilterRegionSize
			parts := map[string][2]int{"rowdata": {0, rstart}, "block-filters": {rstart, rend}, "footer": {rend, len(f.data)}, "tail": {len(f.data) - 20, len(f.data)}, "any": {0, 0}}
			names := []string{"rowdata", "rowdata", "block-filters", "footer", "tail", "any"}
			part := names[c.intn(len(names))]
			m := c.mutate(f.data, others, parts[part])
			if bytes.Equal(m.data, f.data) {
				continue
			}
			c19MutationCase(c, shm, w, files, k, m, part, queries, want, wi)
		}
	}
}

func idCounts(rows []map[string]any) map[int]int {
	out := map[int]int{}
	for _, r := range rows {
		if id, ok := r["id"].(float64); ok {
			out[int(id)]++
		} else {
			out[-1]++
		}
	}
	return out
}

// genuine reports whether a returned row is one of the written rows (after the JSON round trip).
func (w *tWorld) genuine(row map[string]any) bool {
	id, ok := row["id"].(float64)
	if !ok {
		return false
	}
	src, ok := w.json[int(id)]
	if !ok {
		return false
	}
	var want map[string]any
	if json.Unmarshal(src, &want) != nil {
		return false
	}
	return reflect.DeepEqual(row, want)
}

func c19MutationCase(c *Ctx, sh *shard, w *tWorld, files []tFile, k int, m mutation, part string, queries []*bs.Query, want []map[int]int, wi int) {
	orig := files[k]
	desc := map[string]any{"kind": "mutation", "how": m.how, "part": part, "world": wi, "config": w.tc.desc, "file": orig.pointer, "orig_size": len(orig.data), "new_size": len(m.data)}
	if d := firstDiff(orig.data, m.data); d >= 0 {
		desc["first_diff_at"] = d
	}
	c19Progress(fmt.Sprintf("mutation %s of %s in %s (world %d)", m.how, orig.pointer, part, wi))
	splice := validSectionSplice(orig, m.data)
	viol := func(sig, what string) {
		if splice && (sig == "c19-wrong-filters" || sig == "c19-wrong-answer") {
			sig = sigSplice
			what += " -- a block's filter section was replaced by another valid section"
		}
		c.violation(sig, fmt.Sprintf("%s [%s in %s of %s]", what, m.how, part, orig.pointer), desc)
	}
	slack := int64(len(orig.data) + len(m.data))

	// (1) the file on its own: ReadFileMetadata, then the helpers with whatever it returned
	pr := newProbe(m.data)
	var md *bs.FileMetadata
	var err error
	if p := safeCall(func() { md, _, err = bs.ReadFileMetadata(pr) }); p != "" {
		viol("c19-panic", "ReadFileMetadata panicked: "+p)
		return
	}
	if len(pr.oob) > 0 {
		viol("c19-oob-read", "ReadFileMetadata read outside the mutated file: "+pr.oob[0])
	}
	if pr.maxReq > int64(len(m.data)) {
		viol("c19-oversize-request", fmt.Sprintf("ReadFileMetadata asked for %d bytes of a %d-byte file", pr.maxReq, len(m.data)))
	}
	if len(m.data) <= 2500 && c.chance(0.5) {
		mbytes, mm, located := footerParts(m.data)
		dtab := "[]"
		if located && mm != nil {
			moff := len(m.data) - 20 - len(mbytes)
			if ffs := mm.FileFilterSectionSize; ffs > 0 && ffs <= moff {
				dtab = decTable(m.data[moff-ffs : moff])
			}
		}
		obs := "None"
		if err == nil {
			ffs := 0
			if mm != nil {
				ffs = mm.FileFilterSectionSize
			}
			obs = fmt.Sprintf("(Some (%s, %s, %s))", coqMetaJ(md.BlockFilterRegionOffset, md.BlockFilterRegionSize, ffs, md.BloomEntryCounts, md.DataBlocks), coqZ(int64(len(m.data))), coqFilters(&md.BloomFilters))
		}
		sh.add(c, fmt.Sprintf("TReadMeta %s %s %s %s %s", coqStr(m.data), coqJD(mm), dtab, coqExts(pr.exts), obs), desc)
	}
	if err == nil {
		for i := range md.DataBlocks {
			b := md.DataBlocks[i]
			prb := newProbe(m.data)
			var rd []byte
			var rerr error
			if p := safeCall(func() { rd, rerr = bs.ReadDataBlockRowData(prb, &b) }); p != "" {
				viol("c19-panic", "ReadDataBlockRowData panicked: "+p)
				continue
			}
			if len(prb.oob) > 0 || prb.maxReq > int64(len(m.data)) {
				viol("c19-oob-read", "ReadDataBlockRowData went outside a file whose own footer it was given")
			}
			if rerr == nil {
				c19CheckRows(c, w, rd, viol)
			}
			prf := newProbe(m.data)
			if p := safeCall(func() { bs.ReadDataBlockBloomFilters(prf, b) }); p != "" {
				viol("c19-panic", "ReadDataBlockBloomFilters panicked: "+p)
			}
			if len(prf.oob) > 0 || prf.maxReq > int64(len(m.data)) {
				viol("c19-oob-read", "ReadDataBlockBloomFilters went outside a file whose own footer it was given")
			}
		}
	}

	// (2) helpers with the metadata the MetaStore holds: exact or error
	for i := range orig.meta.DataBlocks {
		b := orig.meta.DataBlocks[i]
		good, gerr := bs.ReadDataBlockRowData(bytes.NewReader(orig.data), &b)
		must(gerr)
		prb := newProbe(m.data)
		var rd []byte
		var rerr error
		if p := safeCall(func() { rd, rerr = bs.ReadDataBlockRowData(prb, &b) }); p != "" {
			viol("c19-panic", "ReadDataBlockRowData (held metadata) panicked: "+p)
			continue
		}
		if prb.maxReq > slack {
			viol("c19-oversize-request", fmt.Sprintf("ReadDataBlockRowData asked for %d bytes", prb.maxReq))
		}
		if rerr == nil && !bytes.Equal(rd, good) {
			viol("c19-wrong-rows", fmt.Sprintf("ReadDataBlockRowData (held metadata) returned different row data for block %d without an error", i))
		}
		// the decode step against the model: same metadata, the bytes now at the block's location
		if b.RowDataOffset+b.RowDataSize <= len(m.data) && b.RowDataSize <= 3000 {
			cbytes := m.data[b.RowDataOffset : b.RowDataOffset+b.RowDataSize]
			ztab := "[]"
			if b.Compression == bs.CompressionSnappy || b.Compression == bs.CompressionZstd {
				d, ok := libDecompress(b.Compression, cbytes, 1<<22)
				ztab = coqList([]string{coqPair(coqStr(cbytes), coqOptStr(d, ok))})
			}
			var dd []byte
			var derr error
			if p := safeCall(func() { dd, derr = bs.VerifDecodeBlockRowData(cbytes, &b) }); p != "" {
				viol("c19-panic", "decodeBlockRowData panicked: "+p)
			} else if !bytes.Equal(cbytes, orig.data[b.RowDataOffset:b.RowDataOffset+b.RowDataSize]) || c.chance(0.1) {
				sh.add(c, fmt.Sprintf("TDecode %s %s %s %s", coqBlockJ(&b), coqStr(cbytes), ztab, coqOptStr(dd, derr == nil)), desc)
			}
		}
		goodF, ferr := bs.ReadDataBlockBloomFilters(bytes.NewReader(orig.data), b)
		must(ferr)
		prf := newProbe(m.data)
		var gotF *bs.BloomFilters
		var gferr error
		if p := safeCall(func() { gotF, gferr = bs.ReadDataBlockBloomFilters(prf, b) }); p != "" {
			viol("c19-panic", "ReadDataBlockBloomFilters (held metadata) panicked: "+p)
			continue
		}
		if gferr == nil && coqFilters(gotF) != coqFilters(goodF) {
			viol("c19-wrong-filters", fmt.Sprintf("ReadDataBlockBloomFilters (held metadata) returned different filters for block %d without an error", i))
		}
	}

	// (3) Query with the MemoryMetaStore holding the good metadata
	store2 := newMemDataStore()
	for j, f := range files {
		if j == k {
			store2.files[f.pointer] = m.data
		} else {
			store2.files[f.pointer] = f.data
		}
	}
	eng2, err := bs.NewBloomSearchEngine(w.tc.cfg, w.meta, store2)
	must(err)
	for qi, q := range queries {
		got, qerr, serr := collect(eng2, q)
		if serr != nil {
			viol("c19-query-start", "Query refused to start: "+serr.Error())
			continue
		}
		for _, r := range got {
			if !w.genuine(r) {
				viol("c19-row-never-written", fmt.Sprintf("query %d (MemoryMetaStore) returned a row that was never written: %v", qi, r))
				break
			}
		}
		if qerr == nil && !sameCounts(idCounts(got), want[qi]) {
			viol("c19-wrong-answer", fmt.Sprintf("query %d (MemoryMetaStore holding good metadata) returned %d rows, the uncorrupted answer has %d, and no error was reported", qi, len(got), sum(want[qi])))
		}
		if !subCounts(idCounts(got), want[qi]) {
			viol("c19-wrong-answer", fmt.Sprintf("query %d (MemoryMetaStore) returned rows outside the uncorrupted answer", qi))
		}
	}

	// (4) Query with the FileSystemDataStore as its own MetaStore
	dir := filepath.Join(c.Out, "fs", fmt.Sprintf("w%d-%d", wi, c.rep.Evaluations))
	must(os.MkdirAll(dir, 0o755))
	for j, f := range files {
		data := f.data
		if j == k {
			data = m.data
		}
		must(os.WriteFile(filepath.Join(dir, f.pointer+".dat"), data, 0o644))
	}
	fsStore := bs.NewFileSystemDataStore(dir)
	eng3, err := bs.NewBloomSearchEngine(w.tc.cfg, fsStore, fsStore)
	must(err)
	for qi, q := range queries {
		got, _, serr := collect(eng3, q)
		if serr != nil {
			continue
		}
		for _, r := range got {
			if !w.genuine(r) {
				viol("c19-row-never-written", fmt.Sprintf("query %d (FileSystemDataStore as MetaStore) returned a row that was never written: %v", qi, r))
				break
			}
		}
		if m.how != "replace" && !subCounts(idCounts(got), want[qi]) {
			viol("c19-wrong-answer", fmt.Sprintf("query %d (FileSystemDataStore as MetaStore) returned rows outside the uncorrupted answer", qi))
		}
	}
	os.RemoveAll(dir)

	// (5) sometimes: merge over the corrupted store, then query again
	if c.chance(0.25) {
		meta3 := bs.NewMemoryMetaStore()
		var ops []bs.WriteOperation
		for _, f := range files {
			fm := f.meta
			ops = append(ops, bs.WriteOperation{FileMetadata: &fm, FilePointerBytes: []byte(f.pointer)})
		}
		must(meta3.Update(context.Background(), ops, nil))
		store3 := newMemDataStore()
		store3.next = 1 << 20 // new pointers must not collide with the copied files' names
		for p, d := range store2.snapshotFiles() {
			store3.files[p] = d
		}
		cfg := w.tc.cfg
		cfg.MaxRowGroupRows *= 4
		cfg.MaxRowGroupBytes *= 4
		eng4, err := bs.NewBloomSearchEngine(cfg, meta3, store3)
		must(err)
		_, merr := eng4.Merge(context.Background())
		got, qerr, serr := collect(eng4, nil)
		if serr == nil {
			for _, r := range got {
				if !w.genuine(r) {
					viol("c19-row-never-written", fmt.Sprintf("after a merge over the corrupted store (merge error: %v) a query returned a row that was never written: %v", merr, r))
					break
				}
			}
			if qerr == nil && !sameCounts(idCounts(got), want[0]) {
				viol("c19-wrong-answer", fmt.Sprintf("after a merge over the corrupted store (merge error: %v) the full scan returned %d rows instead of %d without an error", merr, len(got), sum(want[0])))
			}
		}
		c.dist("c19_merge_on_corrupt", fmt.Sprintf("merge_error=%v", merr != nil))
	}
	c.count([]string{"C19"}, m.how+part+fmt.Sprint(wi, k, len(m.data))+string(m.data[:min(len(m.data), 64)])+fmt.Sprint(firstDiff(orig.data, m.data)), true, desc)
	c.dist("c19_mutation", m.how+" in "+part)
}

func c19CheckRows(c *Ctx, w *tWorld, rowData []byte, viol func(sig, what string)) {
	sc := bs.NewBlockRowScanner(rowData)
	for {
		var rb []byte
		var ok bool
		var err error
		if p := safeCall(func() { rb, ok, err = sc.Next() }); p != "" {
			viol("c19-panic", "BlockRowScanner panicked: "+p)
			return
		}
		if err != nil || !ok {
			return
		}
		id, has := tRowID(rb)
		if !has || !bytes.Equal(w.json[id], rb) {
			viol("c19-row-never-written", fmt.Sprintf("the helpers returned a row that was never written: %q", rb))
			return
		}
	}
}

func subCounts(a, b map[int]int) bool {
	for k, v := range a {
		if b[k] < v {
			return false
		}
	}
	return true
}

func firstDiff(a, b []byte) int {
	n := min(len(a), len(b))
	for i := 0; i < n; i++ {
		if a[i] != b[i] {
			return i
		}
	}
	if len(a) != len(b) {
		return n
	}
	return -1
}

// c19SectionSwap: the splice the random mutator almost never hits -- one block's whole filter
// section overwritten by another block's (equally long, valid) section. Uniform rows make the
// sections equally long; every row carries a token of its own, so a bloom query for that token
// shows whether the block is still found.
func c19SectionSwap(c *Ctx) {
	shm := c.newShard("t19x", runnerT, "caseT", "mismatches", "violations")
	shm.limit = 40
	for wi := 0; wi < c.pick(2, 12); wi++ {
		tc := c.tGenConfig()
		tc.partitions, tc.cfg.PartitionFunc, tc.cfg.MinMaxIndexes = 0, nil, nil
		tc.cfg.MaxRowGroupRows, tc.cfg.MaxBufferedRows, tc.cfg.MaxRowGroupBytes = 4, 1000, 1<<20
		tc.desc = "uniform rows, 4 per block, " + string(tc.cfg.RowDataCompression)
		w := c.tNewWorld(tc)
		rows := make([]map[string]any, 16)
		for i := range rows {
			rows[i] = map[string]any{"id": i, "uniq": fmt.Sprintf("u%04d", i), "tag": "t"}
		}
		ctx := context.Background()
		for i := 0; i < len(rows); i += 4 {
			for _, r := range rows[i : i+4] {
				b, _ := json.Marshal(r)
				w.rows[r["id"].(int)], w.json[r["id"].(int)] = r, b
			}
			must(w.eng.IngestRows(ctx, rows[i:i+4], nil))
			must(w.eng.Flush(ctx))
		}
		w.stop()
		files := w.files()
		type loc struct{ f, b int }
		var locs []loc
		for fi, f := range files {
			for bi := range f.meta.DataBlocks {
				locs = append(locs, loc{fi, bi})
			}
		}
		for k := 0; k < c.pick(4, 20) && len(locs) >= 2; k++ {
			a, b := locs[c.intn(len(locs))], locs[c.intn(len(locs))]
			ba, bb := files[a.f].meta.DataBlocks[a.b], files[b.f].meta.DataBlocks[b.b]
			secA := files[a.f].data[ba.BloomFilterOffset : ba.BloomFilterOffset+ba.BloomFilterSize]
			secB := files[b.f].data[bb.BloomFilterOffset : bb.BloomFilterOffset+bb.BloomFilterSize]
			if a == b || len(secA) != len(secB) || bytes.Equal(secA, secB) {
				continue
			}
			mut := append([]byte(nil), files[a.f].data...)
			copy(mut[ba.BloomFilterOffset:], secB)
			// a row of block a, and the query that must find it
			rd, err := bs.ReadDataBlockRowData(bytes.NewReader(files[a.f].data), &ba)
			must(err)
			first, _, _ := bs.NewBlockRowScanner(rd).Next()
			id, _ := tRowID(first)
			q := bs.NewQuery().Token(fmt.Sprintf("u%04d", id)).Build()
			good, _, _ := collect(w.eng, q)
			queries := []*bs.Query{nil, q}
			want := []map[int]int{idCounts(mustRows(collect(w.eng, nil))), idCounts(good)}
			c19MutationCase(c, shm, w, files, a.f, mutation{"section-swap", mut}, "block-filters", queries, want, 1000+wi)
		}
	}
}

func mustRows(rows []map[string]any, qerr error, serr error) []map[string]any {
	must(qerr)
	must(serr)
	return rows
}
